#!/bin/sh
# usage: check.sh <property-id> <quick|thorough>
# Builds the checker (incremental, offline) and analyses /repo's current working tree.
set -u
cd /verif || exit 2
export GOFLAGS=-mod=mod GOPROXY=off GOSUMDB=off GOTOOLCHAIN=local
unset GOWORK
REPO="${VERIF_REPO:-/repo}"
mkdir -p bin evidence
(cd checker && go build -o ../bin/iplcheck .) || { echo "checker build failed"; exit 2; }
exec ./bin/iplcheck -repo "$REPO" -property "$1" -tier "${2:-quick}" -evidence-dir /verif/evidence -known /verif/known-findings.json -controls /verif/controls
