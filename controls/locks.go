package controls

import "sync"

// Box mirrors the shape of a structure whose field val is guarded by mu.
type Box struct {
	mu  sync.RWMutex
	val int
	ch  chan int
}

// GoodRead holds the lock: the lock engine must accept it.
func (b *Box) GoodRead() int {
	b.mu.RLock()
	defer b.mu.RUnlock()
	return b.val
}

// BadRead reads the guarded field with no lock: must be reported (entry point with unmet requirement).
func (b *Box) BadRead() int {
	return b.val
}

// helper requires the lock from its callers.
func (b *Box) helper() int { return b.val }

// GoodViaHelper supplies the lock at the call site.
func (b *Box) GoodViaHelper() int {
	b.mu.RLock()
	v := b.helper()
	b.mu.RUnlock()
	return v
}

// BadWriteUnderRead stores under a read lock: must be reported.
func (b *Box) BadWriteUnderRead() {
	b.mu.RLock()
	b.val = 1
	b.mu.RUnlock()
}

// BadLeak returns on one path while still holding the lock.
func (b *Box) BadLeak(x bool) int {
	b.mu.RLock()
	if x {
		return 0
	}
	v := b.val
	b.mu.RUnlock()
	return v
}

// BadNested takes another Box's lock while holding its own: cross-instance order edge.
func (b *Box) BadNested(o *Box) int {
	b.mu.Lock()
	defer b.mu.Unlock()
	return o.GoodRead()
}

// GoodSequential reads the other box first.
func (b *Box) GoodSequential(o *Box) int {
	v := o.GoodRead()
	b.mu.Lock()
	defer b.mu.Unlock()
	b.val = v
	return v
}

// BadSendUnderLock sends on a channel while holding the lock.
func (b *Box) BadSendUnderLock() {
	b.mu.RLock()
	defer b.mu.RUnlock()
	b.ch <- b.val
}

// BadSiblings: goroutines in a loop write a captured variable without a lock of their own.
func (b *Box) BadSiblings(n int) error {
	var err error
	var wg sync.WaitGroup
	for i := 0; i < n; i++ {
		wg.Add(1)
		go func() {
			defer wg.Done()
			err = nil
		}()
	}
	wg.Wait()
	return err
}

// GoodSiblings: the same with a mutex taken inside the goroutine.
func (b *Box) GoodSiblings(n int) error {
	var err error
	var mu sync.Mutex
	var wg sync.WaitGroup
	for i := 0; i < n; i++ {
		wg.Add(1)
		go func() {
			defer wg.Done()
			mu.Lock()
			err = nil
			mu.Unlock()
		}()
	}
	wg.Wait()
	return err
}

// BadSplit closes the critical section between the read and the dependent write.
func (b *Box) BadSplit() {
	b.mu.Lock()
	v := b.val
	b.mu.Unlock()
	b.mu.Lock()
	b.val = v + 1
	b.mu.Unlock()
}
