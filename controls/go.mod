module controls

go 1.22
