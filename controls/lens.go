package controls

// GoodClamp: the bound is related to the length before slicing.
func GoodClamp(xs []int, n int) []int {
	if n > -1 && n < len(xs) {
		return xs[len(xs)-n:]
	}
	return xs
}

// BadNoClamp: only n >= 0 is known — must be reported.
func BadNoClamp(xs []int, n int) []int {
	if n > -1 {
		return xs[len(xs)-n:]
	}
	return xs
}

func minI(a, b int) int {
	if a < b {
		return a
	}
	return b
}

// GoodMinHelper: clamp through a helper summary.
func GoodMinHelper(xs []int, n int) []int {
	if n < 0 {
		return xs
	}
	return xs[len(xs)-minI(n, len(xs)):]
}

// GoodFirstByte: index after an emptiness test (disequality reasoning).
func GoodFirstByte(x []byte) byte {
	if len(x) == 0 {
		return 0
	}
	return x[0]
}

// BadFirstByte: no emptiness test.
func BadFirstByte(x []byte) byte {
	return x[0]
}

// GoodDisjunction: the guard is a disjunction handled path by path.
func GoodDisjunction(xs []int, i int) []int {
	if len(xs) == 0 || i >= len(xs) {
		return nil
	}
	if i == 0 || (i < 0 && -i >= len(xs)) {
		return xs
	}
	if i > 0 {
		return xs[i:]
	}
	return xs[len(xs)+i:]
}

// GoodSwitch: the same guard written as a switch (the && in a case clause is a value, not control flow).
func GoodSwitch(xs []int, i int) []int {
	if len(xs) == 0 || i >= len(xs) {
		return nil
	}
	switch {
	case i == 0:
		return xs
	case i < 0 && -i >= len(xs):
		return xs
	case i > 0:
		return xs[i:]
	default:
		return xs[len(xs)+i:]
	}
}

type cellOpts struct{ L *int }

func cellSink(o *cellOpts) {}

// GoodCell: an address-taken local (its address goes into an options struct) keeps its value between the
// test and the use.
func GoodCell(xs []int, n *int) []int {
	k := -1
	if n != nil && *n > -1 {
		k = minI(*n, len(xs))
	}
	cellSink(&cellOpts{L: &k})
	if k > -1 {
		return xs[len(xs)-k:]
	}
	return xs
}
