package controls

import "math/big"

// BadAppendBytes concatenates variable-length big-integer encodings: a coordinate with a leading zero byte is
// one byte short and the result is not a valid fixed-width key.
func BadAppendBytes(x, y *big.Int) []byte {
	out := []byte{0x04}
	out = append(out, x.Bytes()...)
	out = append(out, y.Bytes()...)
	return out
}

// GoodCopyPadded right-aligns the variable-length encoding in a fixed-width field.
func GoodCopyPadded(x *big.Int) []byte {
	out := make([]byte, 32)
	b := x.Bytes()
	copy(out[32-len(b):], b)
	return out
}

// GoodFillBytes uses the fixed-width API.
func GoodFillBytes(x *big.Int) []byte {
	out := make([]byte, 32)
	return x.FillBytes(out)
}
