package controls

import "encoding/json"

type WireClock struct{ T int }

func (c *WireClock) Time() int { return c.T }

type WireEntry struct {
	Clock *WireClock
	ID    *string
}

func decodeWire(b []byte) (*WireEntry, error) {
	e := &WireEntry{}
	if err := json.Unmarshal(b, e); err != nil {
		return nil, err
	}
	return e, nil
}

// GoodGuarded tests the field before using it.
func GoodGuarded(e *WireEntry) int {
	if e.Clock == nil {
		return 0
	}
	return e.Clock.Time()
}

// BadUnguarded calls a dereferencing method on the possibly-nil field.
func BadUnguarded(e *WireEntry) int {
	return e.Clock.Time()
}

// BadStar dereferences a nilable pointer field explicitly.
func BadStar(e *WireEntry) string {
	return *e.ID
}

type Shape interface{ Area() int }

func area(s Shape) int { return s.Area() }

// BadZeroIface passes a possibly unassigned interface variable to a dereferencing callee.
func BadZeroIface(x interface{}) int {
	var s Shape
	if v, ok := x.(Shape); ok {
		s = v
	}
	return area(s)
}

// GoodZeroIface assigns on every path.
func GoodZeroIface(x interface{}, d Shape) int {
	var s Shape
	if v, ok := x.(Shape); ok {
		s = v
	} else {
		s = d
	}
	return area(s)
}
