package controls

import "sync"

// Gate holds a lock by value: copying a Gate copies the lock.
type Gate struct {
	mu sync.Mutex
	n  int
}

// GoodPointer locks the caller's gate.
func (g *Gate) GoodPointer() int {
	g.mu.Lock()
	defer g.mu.Unlock()
	return g.n
}

// BadValueReceiver locks a copy of the gate: must be reported by the lock-copy rule.
func (g Gate) BadValueReceiver() int {
	g.mu.Lock()
	defer g.mu.Unlock()
	return g.n
}

// BadAssign copies the gate (and its lock) into a local: must be reported.
func BadAssign(g *Gate) int {
	c := *g
	return c.n
}
