// Package controls holds tiny self-contained positive/negative examples for the checker's engines.
package controls
