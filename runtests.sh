#!/bin/sh
# runs the repository's pinned test suite (baseline command) and prints pass/fail counts
export GOFLAGS=-mod=mod GOPROXY=off GOSUMDB=off GOTOOLCHAIN=local
cd /repo && go test -mod=mod -json -vet=off -count=1 -timeout 25m ./... > /tmp/verif-gotest.json 2>/tmp/verif-gotest.err
rc=$?
python3 - <<'PY'
import json
p=f=0
fails=[]
for l in open('/tmp/verif-gotest.json'):
    try: d=json.loads(l)
    except Exception: continue
    if d.get('Test'):
        if d.get('Action')=='pass': p+=1
        elif d.get('Action')=='fail': f+=1; fails.append(d['Package']+'::'+d['Test'])
print('pass',p,'fail',f)
for x in fails: print(' FAIL',x)
PY
rm -f /tmp/verif-gotest.json /tmp/verif-gotest.err
exit $rc
