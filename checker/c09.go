package main

// c09.go — a log rebuilt from its published heads: the structural pieces specific to reconstruction
// (what the manifest carries, what the loaders hand to the fetcher and to the constructor, that an
// unbounded fetch follows every link and admits every fetched entry, that nothing is trimmed without a limit).

import (
	"fmt"
	"go/ast"
	"go/token"
	"go/types"
	"strings"

	"golang.org/x/tools/go/ssa"
)

func init() {
	register(&PropSpec{ID: "C09", Level: "other", Run: runC09,
		Explanation: "Equality of a rebuilt log with its source depends on the closure fetched at run time and is not decided. Decided, on every path of the current source, are the structural necessary conditions of reconstruction: (R-C09.1) the published manifest carries the log's own id and hashes derived from its heads field; (R-C09.2) each loader hands the manifest's/caller's heads to the fetcher, builds the snapshot from the fetch result and the manifest id, and the public constructors pass that id, those entries and those heads to NewLog (SSA field-dependence); (R-C09.3) with no length limit the fetcher queues every predecessor and every reference of each fetched entry, unconditionally, and addHashesToQueue offers every hash; (R-C09.4) with no length limit every newly fetched entry is admitted to the result (the admission condition has the no-limit case as a disjunct); (R-C09.5) the loaders trim the fetched list only on paths where a non-negative limit was tested. Not covered: that the fetched closure equals the source's entry set for every DAG and arrival order.",
	})
}

func runC09(c *Ctx, r *Report) {
	p := c.P
	r.Doc("R-C09.1", "manifest = log id + hashes of the heads field")
	r.Doc("R-C09.2", "loaders: manifest heads → fetcher, fetch result + manifest id → snapshot → NewLog")
	r.Doc("R-C09.3", "unbounded fetch queues every predecessor and reference of every fetched entry")
	r.Doc("R-C09.4", "unbounded fetch admits every newly fetched entry")
	r.Doc("R-C09.5", "no trimming without a tested non-negative limit")
	r.Doc("R-C09.6", "loaders and constructors carry the codec, the limit, the exclusions and the timeout over to the fetcher, and the codec, access controller and comparator over to the rebuilt log")
	optionForwarding(c, r, "R-C09.6", append(append(loaderFetchSpecs(), constructorLoaderSpecs()...), constructorLogSpecs()...))
	r.Doc("R-C09.7", "the fetch that rebuilds the log cannot stall or give up with hashes still queued: worker accounting, slot release before the mutex, re-checked condition waits")
	importRules(c, r, "C11", []string{"R-C11.1", "R-C11.2", "R-C11.6"}, "R-C09.7")
	r.Doc("R-C09.22", "the fetch dispatcher keeps waiting while work is outstanding, at every concurrency level (adopted from C11: a dispatcher that waits once and leaves hands back a truncated history as a complete log)")
	importRules(c, r, "C11", []string{"R-C11.22"}, "R-C09.22")
	r.Doc("R-C09.12", "the clock a writer stamps its entries with is its own key and a time above its heads (adopted from C04: two writers stamping with one clock id produce ties, and a rebuilt log then orders them by block arrival)")
	importRules(c, r, "C04", []string{"R-C04.1", "R-C04.2"}, "R-C09.12")
	r.Doc("R-C09.13", "the codec objects the fetch workers share while rebuilding a log are concurrency-safe (adopted from C18: a stateful unmarshaller shared by workers mixes up or drops the opened links, and the rebuilt log misses what was only reachable through them)")
	importRules(c, r, "C18", []string{"R-C18.7"}, "R-C09.13", 0)
	r.Doc("R-C09.14", "whether a stored block decodes depends on the block and the codec only: nothing on the decode path reads first-party package-level state that the process can change (a registry, a cache, a switch) — a log rebuilt in another process, or later in the same one, must hold the same entries")
	decodeReadsNoProcessState(c, r, "R-C09.14")
	r.Doc("R-C09.15", "the fetch worker gives up a fetched entry only because the fetch failed or by its own bookkeeping: no condition in the worker reads the entry's payload or additional data (whatever Append wrote must load again)")
	workerKeepsWhatItFetched(c, r, "R-C09.15")
	r.Doc("R-C09.16", "no constructor consumes another call's leftovers: a function that hands the caller's options value on as it is sets every field that some function fills with data of its own call (the heads a manifest load leaves in a reused options value must not become the heads of the next, different load)")
	noCallSpecificLeftovers(c, r, "R-C09.16")
	r.Doc("R-C09.17", "the block carries every field exactly as the entry holds it (adopted from C08: a payload coerced on its way into the block makes every loader rebuild a log whose values carry other bytes than the original's)")
	importRules(c, r, "C08", []string{"R-C08.6"}, "R-C09.17")
	r.Doc("R-C09.8", "the entry reader refuses a block only when reading or decoding it failed: no extra acceptance test on the decoded entry (whatever Append wrote must load again)")
	// the heads of the rebuilt log: fetched entries whose hash equals a manifest head
	{
		fm := p.FuncI("", "", "fromMultihash")
		sfm := p.SSAFunc(fm)
		var hv ssa.Value
		allInstrs(sfm, false, func(ins ssa.Instruction) {
			if st, ok := ins.(*ssa.Store); ok {
				if f, fa := fieldOf(st.Addr); f != nil && f.Name() == "Heads" && namedOf(fa.X.Type()) == p.Named("iface", "Snapshot") {
					hv = st.Val
				}
			}
		})
		key := r.Key("R-C09.2", fm, "heads-selection", "")
		nsel := 0
		bad := ""
		if hv != nil {
			for x := range backSlice(hv, nil) {
				call, ok := x.(*ssa.Call)
				if !ok {
					continue
				}
				b, isB := call.Call.Value.(*ssa.Builtin)
				if !isB || b.Name() != "append" || len(call.Call.Args) < 2 {
					continue
				}
				if sl, ok := call.Type().Underlying().(*types.Slice); !ok || !strings.HasSuffix(sl.Elem().String(), "cid.Cid") {
					continue
				}
				nsel++
				// some equality (==, Equals, a lookup's found-flag) whose true branch dominates the selection
				okg := false
				fnc := call.Parent()
				for _, a := range fnc.Blocks {
					iff, ok := a.Instrs[len(a.Instrs)-1].(*ssa.If)
					if !ok || !a.Succs[0].Dominates(call.Block()) {
						continue
					}
					switch c := iff.Cond.(type) {
					case *ssa.BinOp:
						if c.Op == token.EQL {
							okg = true
						}
					case *ssa.Call:
						if c.Call.IsInvoke() && c.Call.Method.Name() == "Equals" {
							okg = true
						} else if cal := c.Call.StaticCallee(); cal != nil && (cal.Name() == "Equals" || cal.Name() == "Equal") {
							okg = true
						}
					case *ssa.Extract:
						if c.Index == 1 {
							switch t := c.Tuple.(type) {
							case *ssa.Lookup:
								okg = t.CommaOk
							case *ssa.Call:
								okg = true
							}
						}
					}
				}
				if !okg {
					bad = p.Pos(call.Pos())
				}
				if !blockInCycle(call.Block()) {
					bad = p.Pos(call.Pos()) + " (not inside a scan of the fetched entries)"
				}
			}
		}
		r.Check(hv != nil && nsel > 0 && bad == "", "R-C09.2", key, fm.Body.Pos(),
			"the rebuilt log's heads are the fetched entries whose hash equals a manifest head",
			"fromMultihash does not select as heads exactly the fetched entries whose hash equals a manifest head (selection at "+bad+" is not guarded by that equality): the rebuilt log starts from other heads than the published ones")
	}
	r.Doc("R-C09.9", "loaders and constructors examine every error result (manifest read, manifest decode, codec construction) before going on")
	r.Doc("R-C09.18", "a loader hands on what the fetcher delivered (adopted from C10: a filter between the walk and the log — entries whose log id is not the manifest's — silently returns a truncated log for one that was loaded under a new id and continued)")
	importRules(c, r, "C10", []string{"R-C10.13"}, "R-C09.18")
	r.Doc("R-C09.19", "the constructor indexes every predecessor link of every given entry, whether or not the heads were handed in (adopted from C02: the manifest loader hands heads in — with the index built only beside the head search its log keeps a stale head after the next merge, and a rebuild from its state differs between the loaders)")
	importRules(c, r, "C02", []string{"R-C02.4"}, "R-C09.19")
	r.Doc("R-C09.20", "the deadline of a fetch is derived once, in Fetch, and the workers touch nothing the dispatcher shares without its mutex (adopted from C11: a per-request timeout chained onto the dispatcher's own context — and cancelled by the first worker that finishes — makes the dispatcher's next slot acquisition fail; it leaves silently and every loader returns little more than the heads, with no error)")
	importRules(c, r, "C11", []string{"R-C11.12", "R-C11.4"}, "R-C09.20")
	r.Doc("R-C09.21", "the worker semaphore of the fetcher is made with a weight known to be positive on every path (a concurrency below zero passed through unchanged never grants a slot: the load comes back empty, or never)")
	workerSlotsArePositive(c, r, "R-C09.21")
	r.Doc("R-C09.10", "the loops that publish the heads, select the loaded heads and queue links process every element")
	loopsComplete(c, r, "R-C09.10", func(fn *Fn) bool {
		return rootNamed(fn, "ToJSONLog", "entrySliceToCids", "fromMultihash", "fromEntryHash", "fromJSON", "fromEntry", "NewFromMultihash", "addHashesToQueue", "addNextEntry", "NewOrderedMapFromEntries")
	}, "heads or links after the point where the loop stops are not published, loaded or fetched: the rebuilt log lacks part of the history")
	r.Doc("R-C09.11", "the indexes a rebuilt log starts with are keyed like the original's: entries by their own hash, the predecessor index by predecessor links")
	indexKeys(c, r, "R-C09.11")
	errDiscipline(c, r, "R-C09.9", func(fn *Fn) bool {
		return rootNamed(fn, "fromMultihash", "fromEntryHash", "fromJSON", "fromEntry", "NewFromMultihash", "NewFromEntryHash", "NewFromJSON", "NewFromEntry", "NewLog", "FromMultihashWithIO")
	}, "the loader carries on with the zero value of the failed step (a nil manifest, an undecoded block) and builds a log from it", deliberateDiscards)
	{
		nret := 0
		for _, t := range []struct{ pkg, recv, name string }{{"entry", "", "FromMultihashWithIO"}, {"entry", "Fetcher", "fetchEntry"}, {"io/cbor", "IOCbor", "DecodeRawEntry"}, {"io/pb", "pb", "DecodeRawEntry"}} {
			fn := p.FuncOpt(t.pkg, t.recv, t.name)
			if fn == nil {
				continue // the thin wrapper may have been folded into its caller
			}
			fn = p.Inl(fn)
			sf := p.SSAFunc(fn)
			allInstrs(sf, false, func(ins ssa.Instruction) {
				ret, ok := ins.(*ssa.Return)
				if !ok || len(ret.Results) < 2 {
					return
				}
				if cst, ok := ret.Results[len(ret.Results)-1].(*ssa.Const); ok && cst.IsNil() {
					return // success return
				}
				if _, isCall := ret.Results[0].(*ssa.Call); isCall {
					return // tail call: the callee's own returns are checked
				}
				if ex, ok := ret.Results[0].(*ssa.Extract); ok {
					if _, isCall := ex.Tuple.(*ssa.Call); isCall {
						return
					}
				}
				nret++
				bad := ""
				for _, cnd := range controlConds(ret.Block()) {
					okc := false
					if b, ok := cnd.(*ssa.BinOp); ok && (b.Op == token.EQL || b.Op == token.NEQ) {
						for _, side := range []ssa.Value{b.X, b.Y} {
							if cst, ok := side.(*ssa.Const); ok && cst.IsNil() {
								okc = true
							}
						}
					}
					if !okc {
						bad = p.Pos(cnd.Pos())
						if bad == "?" || bad == "-" {
							bad = cnd.String()
						}
					}
				}
				r.Check(bad == "", "R-C09.8", r.Key("R-C09.8", fn, "refusal", ""), ret.Pos(),
					"the block is refused only on a failed read/decode (or a missing argument)",
					"the entry reader refuses a decoded block under the condition at "+bad+", which is not a read/decode failure: entries that Append accepts (e.g. with an empty payload) are dropped when the log is rebuilt, together with everything reachable only through them")
			})
		}
		r.Floor("R-C09.8", "error returns of the entry reader", nret, 2)
	}

	loadOfField := func(v ssa.Value, owner *types.Named, field string) bool {
		for x := range backSlice(v, nil) {
			if u, ok := x.(*ssa.UnOp); ok && u.Op == token.MUL {
				if f, fa := fieldOf(u.X); f != nil && f.Name() == field && namedOf(fa.X.Type()) == owner {
					return true
				}
			}
		}
		return false
	}
	storeTo := func(sf *ssa.Function, owner *types.Named, field string) ssa.Value {
		var out ssa.Value
		allInstrs(sf, false, func(ins ssa.Instruction) {
			if st, ok := ins.(*ssa.Store); ok {
				if f, fa := fieldOf(st.Addr); f != nil && f.Name() == field && namedOf(fa.X.Type()) == owner {
					out = st.Val
				}
			}
		})
		return out
	}
	logT := p.Named("", "IPFSLog")
	jsonLogT := p.Named("iface", "JSONLog")
	snapT := p.Named("iface", "Snapshot")
	optsT := p.Named("iface", "LogOptions")

	// ---- R-C09.1
	tj := p.FuncI("", "IPFSLog", "ToJSONLog")
	sft := p.SSAFunc(tj)
	idV, headsV := storeTo(sft, jsonLogT, "ID"), storeTo(sft, jsonLogT, "Heads")
	r.Check(idV != nil && loadOfField(idV, logT, "ID"), "R-C09.1", r.Key("R-C09.1", tj, "manifest-id", ""), tj.Body.Pos(), "the manifest carries the log's id", "the manifest's id is not the log's ID field")
	getHash := false
	if headsV != nil {
		for x := range backSlice(headsV, nil) {
			if call, ok := x.(*ssa.Call); ok && call.Call.IsInvoke() && call.Call.Method.Name() == "GetHash" {
				getHash = true
			}
		}
	}
	r.Check(headsV != nil && loadOfField(headsV, logT, "heads") && getHash, "R-C09.1", r.Key("R-C09.1", tj, "manifest-heads", ""), tj.Body.Pos(), "the manifest's head list is the hashes of the entries in the heads field", "the manifest's head list does not derive from the hashes of the log's heads")

	// ---- R-C09.2
	isFetch := func(call *ssa.Call) bool {
		f := calleeOf(call)
		return f != nil && (f.Name() == "FetchAll" || f.Name() == "FetchParallel") && f.Pkg() != nil && strings.HasSuffix(f.Pkg().Path(), "/entry")
	}
	type loader struct {
		name        string
		headsOwner  *types.Named
		headsField  string
		idOwner     *types.Named
		idField     string
		headsParam  int // or parameter index when heads come from a parameter
		returnsSnap bool
	}
	loaders := []loader{
		{"fromMultihash", jsonLogT, "Heads", jsonLogT, "ID", -1, true},
		{"fromJSON", jsonLogT, "Heads", jsonLogT, "ID", -1, true},
		{"fromEntryHash", nil, "", nil, "", 2, false},
		{"fromEntry", nil, "", nil, "", 2, true},
	}
	for _, ld := range loaders {
		fn := p.FuncI("", "", ld.name)
		sf := p.SSAFunc(fn)
		var fetch *ssa.Call
		allInstrs(sf, false, func(ins ssa.Instruction) {
			if call, ok := ins.(*ssa.Call); ok && isFetch(call) {
				fetch = call
			}
		})
		key := r.Key("R-C09.2", fn, "fetch-heads", "")
		if fetch == nil {
			r.Violate("R-C09.2", key, fn.Body.Pos(), "the loader never calls the fetcher")
			continue
		}
		hashes := fetch.Call.Args[2]
		okHeads := false
		if ld.headsOwner != nil {
			okHeads = loadOfField(hashes, ld.headsOwner, ld.headsField)
		} else if ld.headsParam < len(sf.Params) {
			okHeads = backSlice(hashes, nil)[sf.Params[ld.headsParam]]
		}
		r.Check(okHeads, "R-C09.2", key, fetch.Pos(), "the fetch starts from the published/supplied heads", "the hashes handed to the fetcher do not derive from the manifest's/caller's heads: the rebuilt log misses history reachable only from an omitted head")
		if ld.returnsSnap {
			vals := storeTo(sf, snapT, "Values")
			r.Check(vals != nil && backSlice(vals, nil)[fetch], "R-C09.2", r.Key("R-C09.2", fn, "snapshot-values", ""), fetch.Pos(), "the snapshot's values derive from the fetch result", "the snapshot's values do not derive from the fetch result")
			if ld.idOwner != nil {
				idv := storeTo(sf, snapT, "ID")
				r.Check(idv != nil && loadOfField(idv, ld.idOwner, ld.idField), "R-C09.2", r.Key("R-C09.2", fn, "snapshot-id", ""), fetch.Pos(), "the snapshot's id is the manifest's id", "the snapshot's id does not come from the manifest: the rebuilt log has a different id than the original")
			}
		} else {
			okRet := false
			allInstrs(sf, false, func(ins ssa.Instruction) {
				if ret, ok := ins.(*ssa.Return); ok && len(ret.Results) > 0 {
					if backSlice(ret.Results[0], nil)[fetch] {
						okRet = true
					}
				}
			})
			r.Check(okRet, "R-C09.2", r.Key("R-C09.2", fn, "result-values", ""), fetch.Pos(), "the loader returns entries derived from the fetch result", "the loader's result does not derive from the fetch result")
		}
	}
	// public constructors: NewLog options derive from the loader's snapshot
	for _, cn := range []struct {
		name   string
		loader string
		id     bool
		heads  bool
	}{{"NewFromMultihash", "fromMultihash", true, true}, {"NewFromJSON", "fromJSON", true, false}, {"NewFromEntry", "fromEntry", true, false}, {"NewFromEntryHash", "fromEntryHash", false, false}} {
		fn := p.FuncI("", "", cn.name)
		sf := p.SSAFunc(fn)
		var ldCall *ssa.Call
		allInstrs(sf, false, func(ins ssa.Instruction) {
			if call, ok := ins.(*ssa.Call); ok {
				if f := calleeOf(call); f != nil && f.Name() == cn.loader {
					ldCall = call
				}
			}
		})
		key := r.Key("R-C09.2", fn, "constructor-inputs", "")
		if ldCall == nil {
			r.Violate("R-C09.2", key, fn.Body.Pos(), cn.name+" does not call "+cn.loader)
			continue
		}
		// the options struct handed to NewLog, also when a helper builds it from its parameters
		var newLogCall *ssa.Call
		allInstrs(sf, false, func(ins ssa.Instruction) {
			if call, ok := ins.(*ssa.Call); ok {
				if f := calleeOf(call); f != nil && f.Name() == "NewLog" {
					newLogCall = call
				}
			}
		})
		fieldVal := func(name string) ssa.Value {
			if newLogCall == nil || len(newLogCall.Call.Args) < 3 {
				return storeTo(sf, optsT, name)
			}
			for _, st := range storesToBases(sf, structBases(newLogCall.Call.Args[2], optsT))[name] {
				return st.Val
			}
			return nil
		}
		dependsOn := func(v ssa.Value, ctrl bool) bool {
			if v == nil {
				return false
			}
			for x := range sliceWithArgs(v, sf, ctrl) {
				if x == ssa.Value(ldCall) {
					return true
				}
			}
			return false
		}
		okE := dependsOn(fieldVal("Entries"), false)
		okI, okH := true, true
		if cn.id {
			okI = dependsOn(fieldVal("ID"), false)
		}
		if cn.heads {
			okH = dependsOn(fieldVal("Heads"), true)
		}
		r.Check(okE && okI && okH, "R-C09.2", key, ldCall.Pos(), "NewLog receives the loader's entries"+map[bool]string{true: ", id", false: ""}[cn.id]+map[bool]string{true: " and heads", false: ""}[cn.heads],
			fmt.Sprintf("%s does not hand the loader's result to NewLog (entries=%v id=%v heads=%v): the rebuilt log differs from the published one", cn.name, okE, okI, okH))
	}

	// ---- R-C09.3
	ane := p.FuncI("entry", "Fetcher", "addNextEntry")
	lengthF := p.Field("entry", "Fetcher", "length")
	af := &Flow{P: p, Fn: ane, Entry: Facts{}}
	af.Edge = func(cond ast.Expr, taken bool, f Facts) {
		for _, a := range splitCond(cond, taken) {
			if nc, ok := p.normalizeCmp(ane, a, func(e ast.Expr) bool { v, _ := p.FieldSel(ane, e); return v == lengthF }); ok && nc.impliesNegative() {
				f["unbounded"] = true
			}
		}
	}
	af.Node = func(n ast.Node, f Facts) {
		walkNoLit(n, func(nd ast.Node) bool {
			call, ok := nd.(*ast.CallExpr)
			if !ok || !f["unbounded"] {
				return true
			}
			if cf := p.Callee(ane, call); cf == nil || !strings.HasPrefix(cf.Name(), "addHash") {
				return true
			}
			for _, a := range call.Args {
				if inner, ok := ast.Unparen(a).(*ast.CallExpr); ok {
					if se, ok := ast.Unparen(inner.Fun).(*ast.SelectorExpr); ok {
						switch se.Sel.Name {
						case "GetNext":
							f["queued|next"] = true
						case "GetRefs":
							f["queued|refs"] = true
						}
					}
				}
			}
			return true
		})
	}
	// one path fact "fine": the path is a limited one, or it queued both kinds of links
	baseNode, baseEdge := af.Node, af.Edge
	af.Node = func(n ast.Node, f Facts) {
		baseNode(n, f)
		if f["unbounded"] && f["queued|next"] && f["queued|refs"] {
			f["fine"] = true
		}
	}
	sawTest := false
	// limitAtom: is the atom a test of the no-limit case, and which side of it is this edge?
	limitAtom := func(a condAtom) (isTest, unbounded bool) {
		nc, ok := p.normalizeCmp(ane, a, func(e ast.Expr) bool { v, _ := p.FieldSel(ane, e); return v == lengthF })
		switch {
		case !ok:
			return false, false
		case nc.impliesNegative():
			return true, true
		case nc.impliesNonNegative(), nc.Op == token.NEQ && nc.C == -1:
			return true, false
		}
		return false, false
	}
	af.Edge = func(cond ast.Expr, taken bool, f Facts) {
		baseEdge(cond, taken, f)
		for _, a := range splitCond(cond, taken) {
			if isTest, unb := limitAtom(a); isTest {
				sawTest = true
				if unb {
					f["unbounded"] = true
				} else if !f["unbounded"] {
					f["fine"] = true // the limited side of the no-limit test
				}
			}
		}
	}
	af.Run()
	nub := 0
	af.Exits(func(_ *cfgBlk, ret *ast.ReturnStmt, at Facts) {
		nub++
		pos := ane.Body.Rbrace
		if ret != nil {
			pos = ret.Pos()
		}
		r.Check(at["fine"], "R-C09.3", r.Key("R-C09.3", ane, "exit", ""), pos,
			"every path is either a limited one or has offered every predecessor and every reference of the fetched entry to the queue",
			"on the no-limit path the fetcher does not queue all links (predecessors and references) of a fetched entry: part of the history is never fetched")
	})
	r.Check(sawTest, "R-C09.3", r.Key("R-C09.3", ane, "no-limit-test", ""), ane.Body.Pos(), "addNextEntry distinguishes the no-limit case", "addNextEntry never tests for the no-limit case")
	r.Floor("R-C09.3", "exits of addNextEntry", nub, 1)
	// addHashesToQueue offers every hash
	ahs := p.FuncI("entry", "Fetcher", "addHashesToQueue")
	uncond := false
	walkNoLit(ahs.Body, func(n ast.Node) bool {
		if call, ok := n.(*ast.CallExpr); ok {
			if cf := p.Callee(ahs, call); cf != nil && cf.Name() == "addHashToQueue" {
				uncond = true
				for cur := p.parent[ast.Node(call)]; cur != nil && cur != ast.Node(ahs.Body); cur = p.parent[cur] {
					switch cur.(type) {
					case *ast.IfStmt, *ast.SwitchStmt:
						uncond = false
					}
				}
			}
		}
		return true
	})
	r.Check(uncond, "R-C09.3", r.Key("R-C09.3", ahs, "every-hash", ""), ahs.Body.Pos(), "every hash of the list is offered to the gate", "addHashesToQueue does not offer every hash of its list to the queue gate")

	// ---- R-C09.4
	pq := p.FuncI("entry", "Fetcher", "processQueue")
	nadm := 0
	admFns := p.AllViews(pq)
	// a worker that is a method of its own rather than a closure: go f.runTask(…)
	walkNoLit(pq.Body, func(n ast.Node) bool {
		if g, ok := n.(*ast.GoStmt); ok {
			if _, isLit := ast.Unparen(g.Call.Fun).(*ast.FuncLit); !isLit {
				if cf := p.Callee(pq, g.Call); cf != nil && p.firstParty(cf.Pkg()) && p.ByObj[cf] != nil {
					admFns = append(admFns, p.AllViews(p.Inl(p.ByObj[cf]))...)
				}
			}
		}
		return true
	})
	for _, fn := range admFns {
		walkNoLit(fn.Body, func(n ast.Node) bool {
			as, ok := n.(*ast.AssignStmt)
			if !ok || len(as.Rhs) != 1 {
				return true
			}
			call, ok := ast.Unparen(as.Rhs[0]).(*ast.CallExpr)
			if !ok || p.Builtin(fn, call) != "append" {
				return true
			}
			if sl, ok := p.TypeOf(fn, as.Lhs[0]).Underlying().(*types.Slice); !ok || !isNamed(sl.Elem(), p.pkgPath("iface"), "IPFSLogEntry") {
				return true
			}
			nadm++
			// innermost guarding if: has `<x>.length < 0` as a disjunct
			okDisj := false
			var guard *ast.IfStmt
			for cur := p.parent[ast.Node(as)]; cur != nil && cur != ast.Node(fn.Body); cur = p.parent[cur] {
				if ifs, ok := cur.(*ast.IfStmt); ok {
					guard = ifs
					break
				}
			}
			if guard == nil {
				okDisj = true
			} else {
				// one alternative of the condition holds for every negative limit, however the test is spelled
				isLen := func(e ast.Expr) bool { v, _ := p.FieldSel(fn, e); return v == lengthF }
				for _, alt := range dnfCond(guard.Cond, true) {
					all := len(alt) > 0
					for _, a := range alt {
						nc, ok := p.normalizeCmp(fn, a, isLen)
						if !ok || !nc.holdsForEveryNegative() {
							all = false
						}
					}
					if all {
						okDisj = true
					}
				}
			}
			r.Check(okDisj, "R-C09.4", r.Key("R-C09.4", fn, "admit", ""), as.Pos(), "with no limit every newly fetched entry is appended to the result", "the admission condition of the fetch result does not have the no-limit case as an alternative: an unbounded load drops entries (by clock window or count)")
			return true
		})
	}
	r.Floor("R-C09.4", "result admissions in the fetch worker", nadm, 1)

	// ---- R-C09.5
	ntrim := 0
	for _, ld := range loaders {
		fn := p.FuncI("", "", ld.name)
		tf := &Flow{P: p, Fn: fn, Entry: Facts{}}
		// locals that carry the limit (assigned from an expression that reads the Length option)
		limitLocals := map[types.Object]bool{}
		mentionsLimit := func(e ast.Expr) bool {
			found := false
			ast.Inspect(e, func(m ast.Node) bool {
				switch x := m.(type) {
				case *ast.SelectorExpr:
					if x.Sel.Name == "Length" {
						found = true
					}
				case *ast.Ident:
					if limitLocals[p.ObjOf(fn, x)] {
						found = true
					}
				}
				return true
			})
			return found
		}
		for round := 0; round < 2; round++ {
			walkNoLit(fn.Body, func(m ast.Node) bool {
				if as, ok := m.(*ast.AssignStmt); ok && len(as.Lhs) == len(as.Rhs) {
					for i, l := range as.Lhs {
						if id, ok := ast.Unparen(l).(*ast.Ident); ok && mentionsLimit(as.Rhs[i]) {
							if o := p.ObjOf(fn, id); o != nil {
								limitLocals[o] = true
							}
						}
					}
				}
				return true
			})
		}
		// nonNegAtom: the atom establishes that the limit is non-negative; mentions decides which expressions carry the limit
		var nonNegAtom func(a condAtom, mentions func(ast.Expr) bool, in *Fn, depth int) bool
		nonNegAtom = func(a condAtom, mentions func(ast.Expr) bool, in *Fn, depth int) bool {
			switch x := ast.Unparen(a.E).(type) {
			case *ast.CallExpr:
				// a predicate helper: `func hasLimit(n *int) bool { return n != nil && *n > -1 }`
				if depth > 1 || !a.Truth {
					return false
				}
				cf := p.Callee(in, x)
				h := p.ByObj[cf]
				if h == nil || h.Decl == nil || len(h.Body.List) != 1 {
					return false
				}
				ret, ok := h.Body.List[0].(*ast.ReturnStmt)
				if !ok || len(ret.Results) != 1 {
					return false
				}
				bound := map[types.Object]bool{}
				i := 0
				for _, fld := range h.Decl.Type.Params.List {
					for _, nm := range fld.Names {
						if i < len(x.Args) && mentions(x.Args[i]) {
							bound[p.ObjOf(h, nm)] = true
						}
						i++
					}
				}
				inner := func(e ast.Expr) bool {
					found := false
					ast.Inspect(e, func(m ast.Node) bool {
						if id, ok := m.(*ast.Ident); ok && bound[p.ObjOf(h, id)] {
							found = true
						}
						return true
					})
					return found
				}
				for _, b := range splitCond(ret.Results[0], true) {
					if nonNegAtom(b, inner, h, depth+1) {
						return true
					}
				}
				return false
			case *ast.BinaryExpr, *ast.UnaryExpr:
				var subj ast.Expr
				nc, ok := p.normalizeCmp(in, a, func(e ast.Expr) bool {
					if mentions(e) {
						subj = e
						return true
					}
					return false
				})
				if ok && nc.impliesNonNegative() {
					return true
				}
				// `v != -1` where v is a local that only ever holds the constant −1 or a value that cannot be negative
				if ok && nc.Op == token.NEQ && nc.C == -1 {
					if id, isID := ast.Unparen(subj).(*ast.Ident); isID && p.localMinusOneOrNonNeg(in, p.ObjOf(in, id)) {
						return true
					}
				}
			}
			return false
		}
		tf.Edge = func(cond ast.Expr, taken bool, f Facts) {
			// the limit value is known non-negative: `limit > -1`, `limit >= 0`, `limit > 0` … on this edge
			for _, a := range splitCond(cond, taken) {
				if nonNegAtom(a, mentionsLimit, fn, 0) {
					f["limited"] = true
				}

			}
		}
		tf.Run()
		tf.Visit(func(_ *cfgBlk, n ast.Node, before Facts) {
			walkNoLit(n, func(nd ast.Node) bool {
				call, ok := nd.(*ast.CallExpr)
				if !ok {
					return true
				}
				cf := p.Callee(fn, call)
				if cf == nil || cf.Pkg() == nil || cf.Pkg().Path() != p.Mod || len(call.Args) != 2 {
					return true
				}
				if _, isSl := p.TypeOf(fn, call.Args[0]).Underlying().(*types.Slice); !isSl || !isIntType(p.TypeOf(fn, call.Args[1])) {
					return true
				}
				if sfc := p.SSA.FuncValue(cf); sfc == nil {
					return true
				} else if ok, _ := suffixOnly(p, sfc, 0, 0); !ok {
					return true
				}
				ntrim++
				r.Check(before["limited"], "R-C09.5", r.Key("R-C09.5", fn, "trim", ""), call.Pos(), "the fetched list is trimmed only after a limit was tested", "a loader trims the fetched list on a path where no limit was tested: an unlimited load loses entries")
				return true
			})
		})
	}
	r.Floor("R-C09.5", "trim sites in the loaders", ntrim, 3)
}
