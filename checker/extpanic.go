package main

// extpanic.go — third-party functions that panic on an argument. The main load type-checks dependencies from
// export data only; for the third-party functions called directly from the decode closure the source is
// loaded on demand (module cache, offline) and the function's own body is examined: an explicit panic(...)
// in it means the function turns some argument value into a panic instead of an error.

import (
	"go/ast"
	"os"
	"sort"

	"golang.org/x/tools/go/packages"
)

// explicitPanics reports, for each requested third-party function, whether its own body contains an explicit
// panic call ("" when not, "?" when the source could not be examined).
func (p *Prog) explicitPanics(keys []extFuncKey) map[extFuncKey]string {
	out := map[extFuncKey]string{}
	if len(keys) == 0 {
		return out
	}
	pset := map[string]bool{}
	for _, k := range keys {
		pset[k.pkg] = true
	}
	var pats []string
	for k := range pset {
		pats = append(pats, k)
	}
	sort.Strings(pats)
	env := append(os.Environ(), "GOWORK=off", "GOFLAGS=-mod=mod", "GOPROXY=off", "GOSUMDB=off", "GOTOOLCHAIN=local")
	cfgp := &packages.Config{Mode: packages.NeedName | packages.NeedFiles | packages.NeedCompiledGoFiles | packages.NeedSyntax, Dir: p.Dir, Env: env}
	pkgs, err := packages.Load(cfgp, pats...)
	if err != nil {
		infra("load dependency sources %v: %v", pats, err)
	}
	byPath := map[string]*packages.Package{}
	for _, pk := range pkgs {
		if len(pk.Errors) == 0 {
			byPath[pk.PkgPath] = pk
		}
	}
	for _, k := range keys {
		pk := byPath[k.pkg]
		if pk == nil {
			out[k] = "?"
			continue
		}
		var fd *ast.FuncDecl
		for _, f := range pk.Syntax {
			for _, d := range f.Decls {
				d, ok := d.(*ast.FuncDecl)
				if !ok || d.Body == nil || d.Name.Name != k.name {
					continue
				}
				rn := ""
				if d.Recv != nil && len(d.Recv.List) == 1 {
					t := d.Recv.List[0].Type
					if st, ok := t.(*ast.StarExpr); ok {
						t = st.X
					}
					if ix, ok := t.(*ast.IndexExpr); ok {
						t = ix.X
					}
					if id, ok := t.(*ast.Ident); ok {
						rn = id.Name
					}
				}
				if rn == k.recv {
					fd = d
				}
			}
		}
		if fd == nil {
			out[k] = "?"
			continue
		}
		why := ""
		ast.Inspect(fd.Body, func(n ast.Node) bool {
			if _, lit := n.(*ast.FuncLit); lit {
				return false
			}
			if call, ok := n.(*ast.CallExpr); ok {
				if id, ok := call.Fun.(*ast.Ident); ok && id.Name == "panic" && id.Obj == nil {
					why = "its body has an explicit panic"
				}
			}
			return true
		})
		out[k] = why
	}
	return out
}
