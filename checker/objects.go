package main

// objects.go — the small value objects everything else trusts: the ordered map, the entry's Copy, the Lamport
// clock's constructor/copy/accessors, Defined(). The properties' own functions call them implicitly (a
// comparator calls GetTime, Join's head list goes through NewOrderedMapFromEntries, Verify under a link key
// works on Entry.Copy()), so a contract bent here bends the property without touching any function the
// property names. Each rule below states one such contract as a shape of the code; the rule id is a parameter
// so that every property that rests on the contract can carry it.

import (
	"fmt"
	"go/ast"
	"go/constant"
	"go/token"
	"go/types"
	"sort"
	"strings"

	"golang.org/x/tools/go/ssa"
)

// guardOf: the condition under which node n is executed inside fn, as one conjunction — the conditions of the
// enclosing ifs (negated for else branches) and the negations of earlier `if c { return/continue/break }`
// statements of the enclosing blocks. nil when n is unconditional.
func guardOf(p *Prog, fn *Fn, n ast.Node) ast.Expr {
	var conj ast.Expr
	and := func(e ast.Expr) {
		if conj == nil {
			conj = e
		} else {
			conj = &ast.BinaryExpr{X: e, Op: token.LAND, Y: conj}
		}
	}
	terminates := func(b *ast.BlockStmt) bool {
		if b == nil || len(b.List) == 0 {
			return false
		}
		switch l := b.List[len(b.List)-1].(type) {
		case *ast.ReturnStmt:
			return true
		case *ast.BranchStmt:
			return l.Tok == token.CONTINUE || l.Tok == token.BREAK
		}
		return false
	}
	for cur, par := n, p.ParentIn(fn, n); par != nil; cur, par = par, p.ParentIn(fn, par) {
		switch x := par.(type) {
		case *ast.IfStmt:
			if cur == ast.Node(x.Body) {
				and(x.Cond)
			} else if cur == x.Else {
				and(&ast.UnaryExpr{Op: token.NOT, X: x.Cond})
			}
		case *ast.BlockStmt:
			for _, st := range x.List {
				if ast.Node(st) == cur {
					break
				}
				if ifs, ok := st.(*ast.IfStmt); ok && ifs.Else == nil && terminates(ifs.Body) {
					and(&ast.UnaryExpr{Op: token.NOT, X: ifs.Cond})
				}
			}
		}
		if par == ast.Node(fn.Body) {
			break
		}
	}
	return conj
}

// onlyExistenceAtoms: every atom of the condition is a nil test or a call of Defined() (the element exists).
func onlyExistenceAtoms(p *Prog, fn *Fn, cond ast.Expr) (bool, string) {
	if cond == nil {
		return true, ""
	}
	for _, alt := range dnfCond(cond, true) {
		for _, a := range alt {
			if _, _, ok := nilTest(a); ok {
				continue
			}
			e := ast.Unparen(a.E)
			for {
				u, ok := e.(*ast.UnaryExpr)
				if !ok || u.Op != token.NOT {
					break
				}
				e = ast.Unparen(u.X)
			}
			if call, ok := e.(*ast.CallExpr); ok {
				if se, ok := ast.Unparen(call.Fun).(*ast.SelectorExpr); ok && se.Sel.Name == "Defined" && len(call.Args) == 0 {
					continue
				}
			}
			return false, types.ExprString(a.E)
		}
	}
	return true, ""
}

// collectionKeepsAll: NewOrderedMapFromEntries files every entry that exists — what it skips, it skips only for
// being nil or undefined. (Append, Join and sortedHeads build the log's head set through it: an entry it drops
// is held by the log and is no head of it.)
func collectionKeepsAll(c *Ctx, r *Report, rule string) {
	p := c.P
	fn := p.FuncI("entry", "", "NewOrderedMapFromEntries")
	nset := 0
	walkNoLit(fn.Body, func(n ast.Node) bool {
		call, ok := n.(*ast.CallExpr)
		if !ok {
			return true
		}
		se, ok := ast.Unparen(call.Fun).(*ast.SelectorExpr)
		if !ok || se.Sel.Name != "Set" || len(call.Args) != 2 {
			return true
		}
		nset++
		ok2, bad := onlyExistenceAtoms(p, fn, guardOf(p, fn, call))
		r.Check(ok2, rule, r.Key(rule, fn, "files-every-entry", ""), call.Pos(), "an entry is left out only when it is nil or undefined",
			"NewOrderedMapFromEntries leaves entries out under the condition `"+bad+"`, which is not about the entry existing: the head set of a log is built through it, so an entry Append accepted (an empty payload, an unusual version) is held by the log but is not one of its heads — the views lose it and everything below it, and the next append starts a second root")
		return true
	})
	r.Floor(rule, "insertions in NewOrderedMapFromEntries", nset, 1)
}

// definedReadsNothing: (*Entry).Defined answers from the receiver's existence alone.
func definedReadsNothing(c *Ctx, r *Report, rule string) {
	p := c.P
	fn := p.FuncI("entry", "Entry", "Defined")
	bad := ""
	walkNoLit(fn.Body, func(n ast.Node) bool {
		if se, ok := n.(*ast.SelectorExpr); ok {
			if v, isVar := p.ObjOf(fn, se.Sel).(*types.Var); isVar && v.IsField() {
				bad = "the field " + v.Name()
			}
		}
		if call, ok := n.(*ast.CallExpr); ok {
			if cf := p.Callee(fn, call); cf != nil && p.firstParty(cf.Pkg()) {
				bad = "the result of " + cf.Name() + "()"
			}
		}
		return true
	})
	r.Check(bad == "", rule, r.Key(rule, fn, "existence-only", ""), fn.Body.Pos(), "Defined() depends on nothing but the entry existing",
		"(*Entry).Defined now depends on "+bad+": the comparators, the ordered-map constructor and Join's validators use it as their nil guard, so an existing entry that fails the new condition compares as 'undefined' (an error the sorter swallows) and is dropped from head sets")
}

// orderedMapCopyFresh: OrderedMap.Copy hands back a new map on every path, and NewLog stores a copy of the
// entries it is given, unconditionally.
func orderedMapCopyFresh(c *Ctx, r *Report, rule string) {
	p := c.P
	cp := p.FuncI("entry", "OrderedMap", "Copy")
	nret := 0
	walkNoLit(cp.Body, func(n ast.Node) bool {
		ret, ok := n.(*ast.ReturnStmt)
		if !ok || len(ret.Results) != 1 {
			return true
		}
		nret++
		r.Check(p.freshNonNil(cp, ret.Results[0], 0), rule, r.Key(rule, cp, "fresh-map", ""), ret.Pos(), "Copy returns a newly built map",
			"OrderedMap.Copy returns `"+types.ExprString(ret.Results[0])+"`, which is not a newly built map: the log that asked for a copy and the owner of the original now share one index (NewLog writes the map it creates back into the caller's options, so two logs opened from one options value see each other's entries without any merge or validation)")
		return true
	})
	r.Floor(rule, "returns of OrderedMap.Copy", nret, 1)
	nl := p.FuncI("", "", "NewLog")
	logT := p.Named("", "IPFSLog")
	found := false
	walkNoLit(nl.Body, func(n ast.Node) bool {
		kv, ok := n.(*ast.KeyValueExpr)
		if !ok {
			return true
		}
		k, ok := kv.Key.(*ast.Ident)
		if !ok || k.Name != "Entries" {
			return true
		}
		if cl, ok := p.ParentIn(nl, kv).(*ast.CompositeLit); !ok || namedOf(p.TypeOf(nl, cl)) != logT {
			return true
		}
		found = true
		isCopyCall := func(e ast.Expr) bool {
			call, ok := ast.Unparen(e).(*ast.CallExpr)
			if !ok {
				return false
			}
			se, ok := ast.Unparen(call.Fun).(*ast.SelectorExpr)
			return ok && se.Sel.Name == "Copy"
		}
		okc := isCopyCall(kv.Value)
		if id, isID := ast.Unparen(kv.Value).(*ast.Ident); isID && !okc {
			if def := p.SoleDef(nl, p.ObjOf(nl, id)); def != nil && isCopyCall(def) {
				okc = true
			}
		}
		r.Check(okc, rule, r.Key(rule, nl, "entries-copied", ""), kv.Pos(), "a new log holds its own copy of the entries it is given",
			"NewLog does not store a copy of the entry map on every path (`"+types.ExprString(kv.Value)+"`): the log shares its index with the options value it was built from, and with every other log built from it")
		return true
	})
	if !found {
		r.Undecided(rule, r.Key(rule, nl, "entries-copied", ""), nl.Body.Pos(), "NewLog's IPFSLog literal sets no Entries field")
	}
}

// entryCopyFieldwise: Entry.Copy builds the new entry field by field, each field from the same field of the
// original and from nothing the other fields share; the clock is copied unless it is nil; no whole-struct copy
// leaves a map or a clock shared.
func entryCopyFieldwise(c *Ctx, r *Report, rule string) {
	p := c.P
	cp := p.Func("entry", "Entry", "Copy") // the declared function: helper functions and methods are followed by name, not spliced in
	recv := recvObj(p, cp)
	isRecv := func(id *ast.Ident) bool { return p.ObjOf(cp, id) == recv || p.CanonObj(cp, id) == recv }
	var lit *ast.CompositeLit
	walkNoLit(cp.Body, func(n ast.Node) bool {
		if ret, ok := n.(*ast.ReturnStmt); ok && len(ret.Results) == 1 {
			if u, ok := ast.Unparen(ret.Results[0]).(*ast.UnaryExpr); ok && u.Op == token.AND {
				if cl, ok := ast.Unparen(u.X).(*ast.CompositeLit); ok {
					lit = cl
				}
			}
		}
		return true
	})
	key := r.Key(rule, cp, "field-by-field", "")
	if lit == nil {
		// a whole-struct copy (`c := *e`): the reference-typed fields start out shared; each of them must be
		// replaced on every path before the copy is handed out
		wholeCopy := false
		walkNoLit(cp.Body, func(n ast.Node) bool {
			if st, ok := n.(*ast.StarExpr); ok {
				if id, ok := ast.Unparen(st.X).(*ast.Ident); ok && isRecv(id) {
					wholeCopy = true
				}
			}
			return true
		})
		if !wholeCopy {
			r.Undecided(rule, key, cp.Body.Pos(), "Entry.Copy neither returns a literal built field by field nor starts from a copy of the struct")
			return
		}
		for _, fname := range []string{"AdditionalData", "Clock"} {
			uncond := false
			walkNoLit(cp.Body, func(n ast.Node) bool {
				as, ok := n.(*ast.AssignStmt)
				if !ok {
					return true
				}
				for _, l := range as.Lhs {
					if se, ok := ast.Unparen(l).(*ast.SelectorExpr); ok && se.Sel.Name == fname {
						g := guardOf(p, cp, as)
						if g == nil {
							uncond = true
						} else if fname == "Clock" {
							// the clock may stay nil when the original's is nil
							if ok2, _ := onlyExistenceAtoms(p, cp, g); ok2 {
								uncond = true
							}
						}
					}
				}
				return true
			})
			r.Check(uncond, rule, r.Key(rule, cp, "shared-after-struct-copy", fname), cp.Body.Pos(), fname+" of the copy is replaced on every path",
				"Entry.Copy starts from a copy of the whole struct and does not replace "+fname+" on every path: the copy shares it with the original, so what the link-sealing codec writes into 'its' copy during Verify lands in the entry the other log holds")
		}
		return
	}
	// field by field
	mentionsRecvField := func(e ast.Expr, seen map[types.Object]bool) map[string]bool {
		out := map[string]bool{}
		var walk func(e ast.Expr, depth int)
		walk = func(e ast.Expr, depth int) {
			ast.Inspect(e, func(m ast.Node) bool {
				switch x := m.(type) {
				case *ast.SelectorExpr:
					if id, ok := ast.Unparen(x.X).(*ast.Ident); ok && isRecv(id) {
						name := x.Sel.Name
						if m, isFunc := p.ObjOf(cp, x.Sel).(*types.Func); isFunc && !strings.HasPrefix(name, "Get") {
							// a helper method of the entry (e.copyClock()): the fields it reads from its receiver
							if h := p.ByObj[m]; h != nil && h.Body != nil && depth < 3 {
								hr := recvObj(p, h)
								ast.Inspect(h.Body, func(k ast.Node) bool {
									if hs, ok := k.(*ast.SelectorExpr); ok {
										if hid, ok := ast.Unparen(hs.X).(*ast.Ident); ok && p.ObjOf(h, hid) == hr {
											fname := strings.TrimPrefix(hs.Sel.Name, "Get")
											if _, isField := p.ObjOf(h, hs.Sel).(*types.Var); isField || strings.HasPrefix(hs.Sel.Name, "Get") {
												out[fname] = true
											}
										}
									}
									return true
								})
							}
							return true
						}
						if strings.HasPrefix(name, "Get") {
							name = strings.TrimPrefix(name, "Get")
						}
						out[name] = true
					}
				case *ast.Ident:
					if v, ok := p.ObjOf(cp, x).(*types.Var); ok && v != recv && !isRecv(x) && !v.IsField() && depth < 3 {
						seen[v] = true
						// every assignment to the local
						walkNoLit(cp.Body, func(k ast.Node) bool {
							if as, ok := k.(*ast.AssignStmt); ok && len(as.Lhs) == len(as.Rhs) {
								for i, l := range as.Lhs {
									if lid, ok := ast.Unparen(l).(*ast.Ident); ok && p.ObjOf(cp, lid) == v {
										walk(as.Rhs[i], depth+1)
									}
									// a map filled by index stores: m[k] = v
									if ix, ok := ast.Unparen(l).(*ast.IndexExpr); ok {
										if mid, ok := ast.Unparen(ix.X).(*ast.Ident); ok && p.ObjOf(cp, mid) == v {
											walk(as.Rhs[i], depth+1)
										}
									}
								}
							}
							// filled by a call that takes it as an argument: maps.Copy(m, src), copy(dst, src)
							if call, ok := k.(*ast.CallExpr); ok {
								takes := false
								for _, a := range call.Args {
									if aid, ok := ast.Unparen(a).(*ast.Ident); ok && p.ObjOf(cp, aid) == v {
										takes = true
									}
								}
								if takes {
									for _, a := range call.Args {
										if aid, ok := ast.Unparen(a).(*ast.Ident); ok && p.ObjOf(cp, aid) == v {
											continue
										}
										walk(a, depth+1)
									}
								}
							}
							if rs, ok := k.(*ast.RangeStmt); ok {
								for _, kv := range []ast.Expr{rs.Key, rs.Value} {
									if lid, ok := kv.(*ast.Ident); ok && p.ObjOf(cp, lid) == v {
										walk(rs.X, depth+1)
									}
								}
							}
							return true
						})
					}
				}
				return true
			})
		}
		walk(e, 0)
		return out
	}
	localsOf := map[string]map[types.Object]bool{}
	var names []string
	for _, el := range lit.Elts {
		kv, ok := el.(*ast.KeyValueExpr)
		if !ok {
			continue
		}
		k, ok := kv.Key.(*ast.Ident)
		if !ok {
			continue
		}
		names = append(names, k.Name)
		seen := map[types.Object]bool{}
		from := mentionsRecvField(kv.Value, seen)
		localsOf[k.Name] = seen
		var others []string
		for f := range from {
			if f != k.Name {
				others = append(others, f)
			}
		}
		sort.Strings(others)
		r.Check(from[k.Name] && len(others) == 0, rule, r.Key(rule, cp, "field", k.Name), kv.Pos(), k.Name+" of the copy is computed from "+k.Name+" of the original alone",
			fmt.Sprintf("%s of the copy is not computed from %s of the original alone (reads it: %v, also reads: %v): under a link key Verify signs the copy, so a change of the entry that the copy does not reproduce leaves the signature valid", k.Name, k.Name, from[k.Name], others))
	}
	// a helper-state local shared by two fields (one de-duplication table for predecessors and references)
	sort.Strings(names)
	for i, a := range names {
		for _, b := range names[i+1:] {
			for o := range localsOf[a] {
				if localsOf[b][o] {
					r.Violate(rule, r.Key(rule, cp, "shared-local", a+"+"+b), lit.Pos(), fmt.Sprintf("the local %s feeds both %s and %s of the copy: what one list contains changes what the other is copied to (a predecessor added to the references disappears from the copy, and the signature computed from the copy stays valid)", o.Name(), a, b))
				}
			}
		}
	}
	// the clock is copied unless the original's is nil
	walkNoLit(cp.Body, func(n ast.Node) bool {
		call, ok := n.(*ast.CallExpr)
		if !ok {
			return true
		}
		if cf := p.Callee(cp, call); cf == nil || cf.Name() != "CopyLamportClock" {
			return true
		}
		ok2, bad := onlyExistenceAtoms(p, cp, guardOf(p, cp, call))
		// Defined() on a clock also asks for a non-empty id: only the nil test is an existence test here
		if g := guardOf(p, cp, call); g != nil && ok2 {
			for _, alt := range dnfCond(g, true) {
				for _, a := range alt {
					if _, _, isNil := nilTest(a); !isNil {
						ok2, bad = false, types.ExprString(a.E)
					}
				}
			}
		}
		r.Check(ok2, rule, r.Key(rule, cp, "clock-copied", ""), call.Pos(), "the clock is copied whenever the original has one",
			"Entry.Copy copies the clock only under `"+bad+"`: an entry whose clock exists but fails that test (an empty id is accepted by the decoders) gets a copy with a nil clock inside a non-nil interface, and the codec's PreSign, which Verify runs on the copy, dereferences it")
		return true
	})
}

// recvObj: the receiver variable of a method.
func recvObj(p *Prog, fn *Fn) types.Object {
	root := fn.Root()
	if root.Decl == nil || root.Decl.Recv == nil || len(root.Decl.Recv.List) == 0 || len(root.Decl.Recv.List[0].Names) == 0 {
		return nil
	}
	return root.Pkg.TypesInfo.Defs[root.Decl.Recv.List[0].Names[0]]
}

// clockValueObject: NewLamportClock stores its arguments as they are, CopyLamportClock hands both parts of the
// clock it is given to the constructor on every path where there is a clock, the getters return their field.
func clockValueObject(c *Ctx, r *Report, rule string) {
	p := c.P
	// constructor: composite literal fields are the parameters themselves
	nc := p.FuncI("entry", "", "NewLamportClock")
	nlit := 0
	walkNoLit(nc.Body, func(n ast.Node) bool {
		cl, ok := n.(*ast.CompositeLit)
		if !ok || !isNamed(p.TypeOf(nc, cl), p.pkgPath("entry"), "LamportClock") {
			return true
		}
		nlit++
		for _, el := range cl.Elts {
			kv, ok := el.(*ast.KeyValueExpr)
			if !ok {
				continue
			}
			k, _ := kv.Key.(*ast.Ident)
			id, isID := ast.Unparen(kv.Value).(*ast.Ident)
			okv := isID && paramOf(p, nc, asVar(p.ObjOf(nc, id)))
			if okv {
				// … and the parameter was not changed on the way (a clamp, a default)
				walkNoLit(nc.Body, func(m ast.Node) bool {
					for _, aid := range assignedIdents(m) {
						if p.ObjOf(nc, aid) == p.ObjOf(nc, id) {
							okv = false
						}
					}
					return true
				})
			}
			name := "?"
			if k != nil {
				name = k.Name
			}
			r.Check(okv, rule, r.Key(rule, nc, "constructor-field", name), kv.Pos(), name+" is the argument itself",
				"NewLamportClock stores `"+types.ExprString(kv.Value)+"` in "+name+", not its argument as it is: every clock that goes through a copy (Entry.Copy, Normalize, SetClock) is altered on the way, so a decoded entry re-encodes differently and, under a link key, a tampered time or id is 'repaired' before the signature is checked")
		}
		return true
	})
	r.Floor(rule, "LamportClock literals in the constructor", nlit, 1)
	// copy: both getters on every path with a clock
	cc := p.FuncI("entry", "", "CopyLamportClock")
	par := paramObj(cc, 0)
	nret := 0
	walkNoLit(cc.Body, func(n ast.Node) bool {
		ret, ok := n.(*ast.ReturnStmt)
		if !ok || len(ret.Results) != 1 {
			return true
		}
		nret++
		gotID, gotTime := false, false
		ast.Inspect(ret.Results[0], func(m ast.Node) bool {
			if call, ok := m.(*ast.CallExpr); ok {
				if se, ok := ast.Unparen(call.Fun).(*ast.SelectorExpr); ok {
					if id, ok := ast.Unparen(se.X).(*ast.Ident); ok && p.ObjOf(cc, id) == par {
						switch se.Sel.Name {
						case "GetID":
							gotID = true
						case "GetTime":
							gotTime = true
						}
					}
				}
			}
			return true
		})
		okr := gotID && gotTime
		why := "the copy does not take both the id and the time from the clock it is given"
		if !okr {
			// a return without the parts is fine only where there is no clock
			if g := guardOf(p, cc, ret); g != nil {
				all := true
				for _, alt := range dnfCond(g, true) {
					hasNil := false
					for _, a := range alt {
						if x, isNil, ok := nilTest(a); ok && isNil {
							if id, ok := ast.Unparen(x).(*ast.Ident); ok && p.ObjOf(cc, id) == par {
								hasNil = true
							}
						}
					}
					if !hasNil {
						all = false
					}
				}
				if all {
					okr = true
				} else {
					why = "a return that leaves the parts out is reached for clocks that exist (the guard is not a nil test of the argument alone)"
				}
			}
		}
		r.Check(okr, rule, r.Key(rule, cc, "copy-keeps-parts", ""), ret.Pos(), "the copy carries the id and the time of the clock it was given",
			"CopyLamportClock: "+why+": a clock with an empty id and a time, which the decoders accept, loses its time when the entry is normalised for writing or copied, so re-encoding a decoded entry gives another identifier")
		return true
	})
	r.Floor(rule, "returns of CopyLamportClock", nret, 1)
	// getters: exactly the field
	for _, g := range []struct{ name, field string }{{"GetTime", "Time"}, {"GetID", "ID"}} {
		fn := p.FuncI("entry", "LamportClock", g.name)
		rv := recvObj(p, fn)
		walkNoLit(fn.Body, func(n ast.Node) bool {
			ret, ok := n.(*ast.ReturnStmt)
			if !ok || len(ret.Results) != 1 {
				return true
			}
			exact := false
			if se, ok := ast.Unparen(ret.Results[0]).(*ast.SelectorExpr); ok && se.Sel.Name == g.field {
				if id, ok := ast.Unparen(se.X).(*ast.Ident); ok && p.ObjOf(fn, id) == rv {
					exact = true
				}
			}
			r.Check(exact, rule, r.Key(rule, fn, "getter-exact", g.field), ret.Pos(), g.name+" returns the field "+g.field,
				g.name+" returns `"+types.ExprString(ret.Results[0])+"`, not the field "+g.field+" as it is: Compare reads its receiver's field directly and its argument through the getter, so the two sides of one comparison see different numbers and the order stops being antisymmetric at the values the getter changes")
			return true
		})
	}
}

func asVar(o types.Object) *types.Var {
	v, _ := o.(*types.Var)
	return v
}

// noCidReencoding: the codec never builds a CID of another version from one it decoded or is about to encode.
func noCidReencoding(c *Ctx, r *Report, rule string) {
	p := c.P
	n, bad := 0, 0
	for _, fn := range p.Fns {
		if fn.Orig != nil || !inPkgs(p, fn, "io/cbor", "io/jsonable", "io/pb") {
			continue
		}
		n++
		walkNoLit(fn.Body, func(nd ast.Node) bool {
			call, ok := nd.(*ast.CallExpr)
			if !ok {
				return true
			}
			cf := p.Callee(fn, call)
			if cf == nil || cf.Pkg() == nil || !strings.HasSuffix(cf.Pkg().Path(), "go-cid") {
				return true
			}
			switch cf.Name() {
			case "NewCidV0", "NewCidV1":
				bad++
				r.Violate(rule, r.Key(rule, fn, "cid-rebuilt", cf.Name()), call.Pos(), "the codec builds a CID with "+cf.Name()+": a link is handed on in another form than the one that was written (a CIDv0 predecessor sealed by the writer comes back as CIDv1 for a reader with the same key: the lists differ, the signature no longer verifies, the merge fails)")
			}
			return true
		})
	}
	if bad == 0 {
		r.Hold(rule, r.Key(rule, nil, "links-verbatim", ""), token.NoPos, true, fmt.Sprintf("no CID is rebuilt in another version in %d codec functions", n))
	}
	r.Floor(rule, "codec functions scanned", n, 10)
}

// constructorKeepsArgument: the struct literal a constructor returns stores the named parameter itself in the
// named field (no wrapper around a datastore, no copy of a key, …).
func constructorKeepsArgument(c *Ctx, r *Report, rule, rel, fname, typ, field, consequence string) {
	p := c.P
	fn := p.FuncI(rel, "", fname)
	found := false
	walkNoLit(fn.Body, func(n ast.Node) bool {
		cl, ok := n.(*ast.CompositeLit)
		if !ok || !isNamed(p.TypeOf(fn, cl), p.pkgPath(rel), typ) {
			return true
		}
		for _, el := range cl.Elts {
			kv, ok := el.(*ast.KeyValueExpr)
			if !ok {
				continue
			}
			k, ok := kv.Key.(*ast.Ident)
			if !ok || k.Name != field {
				continue
			}
			found = true
			id, isID := ast.Unparen(kv.Value).(*ast.Ident)
			okv := isID && paramOf(p, fn, asVar(p.ObjOf(fn, id)))
			// the parameter must not have been reassigned either
			if okv {
				walkNoLit(fn.Body, func(m ast.Node) bool {
					for _, aid := range assignedIdents(m) {
						if p.ObjOf(fn, aid) == p.ObjOf(fn, id) {
							if _, isDef := fn.Pkg.TypesInfo.Defs[aid]; !isDef {
								okv = false
							}
						}
					}
					return true
				})
			}
			r.Check(okv, rule, r.Key(rule, fn, "keeps-argument", field), kv.Pos(), fname+" stores the "+field+" it was given",
				fname+" stores `"+types.ExprString(kv.Value)+"` as "+field+" instead of the argument it was given: "+consequence)
		}
		return true
	})
	if !found {
		r.Undecided(rule, r.Key(rule, fn, "keeps-argument", field), fn.Body.Pos(), fname+" builds no "+typ+" literal with a "+field+" field")
	}
}

// callbacksTakeNoLogLock: the methods of CanAppendContext run inside Append and Join, which hold the log's write
// lock: nothing reachable from them may acquire the log's lock.
func callbacksTakeNoLogLock(c *Ctx, r *Report, rule string) {
	p := c.P
	ctxT := p.Named("", "CanAppendContext")
	le := repoLockEngine(c)
	lockers := map[*Fn]string{}
	for _, op := range le.LockOps {
		if ownerOfClass(op.Class) == "IPFSLog" && (op.Op == "Lock" || op.Op == "RLock") {
			lockers[orig(op.Fn).Root()] = op.Op + " at " + p.Pos(op.Pos)
		}
	}
	nm := 0
	ms := types.NewMethodSet(types.NewPointer(ctxT))
	for i := 0; i < ms.Len(); i++ {
		m, ok := ms.At(i).Obj().(*types.Func)
		if !ok {
			continue
		}
		fn := p.ByObj[m]
		if fn == nil {
			continue
		}
		nm++
		bad := ""
		for t, path := range c.CG.Reach([]*Fn{fn}, false) {
			if how, ok := lockers[t.Root()]; ok {
				bad = strings.Join(path, " → ") + " (" + how + ")"
			}
		}
		r.Check(bad == "", rule, r.Key(rule, fn, "no-log-lock", ""), fn.Body.Pos(), "nothing reachable from this callback takes the log's lock",
			"the access-controller callback "+m.Name()+" reaches a function that takes the log's lock ("+bad+"): CanAppend is called while Append or Join holds that lock for writing, so a controller that looks at the log through its context blocks for ever — and with it every merge from or into that log")
	}
	r.Floor(rule, "methods of CanAppendContext", nm, 1)
}

// callersLimitReadOnly: nothing stores through the Length pointer of the caller's fetch options.
func callersLimitReadOnly(c *Ctx, r *Report, rule string) {
	p := c.P
	nfn, bad := 0, 0
	for _, fn := range p.Fns {
		if fn.Orig != nil || fn.Parent != nil || !p.firstParty(fn.Pkg.Types) {
			continue
		}
		sf := p.SSAFunc(fn)
		if sf == nil {
			continue
		}
		nfn++
		allInstrs(sf, true, func(ins ssa.Instruction) {
			st, ok := ins.(*ssa.Store)
			if !ok {
				return
			}
			// the address is the value of a Length field: *opts.Length = …
			u, ok := st.Addr.(*ssa.UnOp)
			if !ok || u.Op != token.MUL {
				return
			}
			if f, _ := fieldOf(u.X); f != nil && f.Name() == "Length" {
				bad++
				pos := st.Pos()
				if !pos.IsValid() {
					pos = nearestPos(st)
				}
				r.Violate(rule, r.Key(rule, fn, "limit-written", ""), pos, "the integer the caller's Length points to is overwritten: the limit of this load is correct, but the caller's variable now holds another value, and the next load that reuses the options (or the same pointer) is bounded by it")
			}
		})
	}
	if bad == 0 {
		r.Hold(rule, r.Key(rule, nil, "limit-read-only", ""), token.NoPos, true, fmt.Sprintf("no store through a Length pointer in %d functions", nfn))
	}
	r.Floor(rule, "functions scanned", nfn, 50)
}

// noCallThroughUncheckedLookup: a function value taken from a map is called only after the lookup's presence was
// tested (a missing key yields a nil function, and calling it panics).
func noCallThroughUncheckedLookup(c *Ctx, r *Report, rule string, scope func(*Fn) bool) {
	p := c.P
	n, bad := 0, 0
	for _, fn := range p.Fns {
		if fn.Orig != nil || !p.firstParty(fn.Pkg.Types) || !scope(fn) {
			continue
		}
		n++
		walkNoLit(fn.Body, func(nd ast.Node) bool {
			call, ok := nd.(*ast.CallExpr)
			if !ok {
				return true
			}
			ix, ok := ast.Unparen(call.Fun).(*ast.IndexExpr)
			if !ok {
				return true
			}
			if _, isMap := p.TypeOf(fn, ix.X).Underlying().(*types.Map); !isMap {
				return true
			}
			bad++
			r.Violate(rule, r.Key(rule, fn, "call-of-lookup", types.ExprString(ix.X)), call.Pos(), "the function stored under `"+types.ExprString(ix.Index)+"` in the table "+types.ExprString(ix.X)+" is called without testing that the key is there: for a value the table does not list (a version number from a foreign block) the lookup yields a nil function and the call panics")
			return true
		})
	}
	if bad == 0 {
		r.Hold(rule, r.Key(rule, nil, "no-unchecked-table-call", ""), token.NoPos, true, fmt.Sprintf("no call of a function taken from a map without a presence test in %d functions", n))
	}
}

// linksOverwrittenOnlyWhenOpened: DecryptLinks replaces the clear lists of the decoded block only by what it
// has just opened — on a path where nothing was sealed the lists the block carries stay.
func linksOverwrittenOnlyWhenOpened(c *Ctx, r *Report, rule string) {
	p := c.P
	dl := p.Func("io/cbor", "IOCbor", "DecryptLinks") // the declared function: helpers are summarised, not spliced in
	par := paramObj(dl, 0)
	isUnmarshal := func(fn *Fn, call *ast.CallExpr) bool {
		se, ok := ast.Unparen(call.Fun).(*ast.SelectorExpr)
		return ok && se.Sel.Name == "Unmarshal"
	}
	// opensOnSuccess: every return of h with a nil error has passed an Unmarshal (or a helper that opens)
	var opensOnSuccess func(h *Fn, depth int) bool
	opensOnSuccess = func(h *Fn, depth int) bool {
		if h == nil || h.Body == nil || h.CFG == nil || depth > 2 {
			return false
		}
		hf := &Flow{P: p, Fn: h, Entry: Facts{}}
		hf.Node = func(n ast.Node, f Facts) {
			walkNoLit(n, func(nd ast.Node) bool {
				if call, ok := nd.(*ast.CallExpr); ok {
					if isUnmarshal(h, call) {
						f["opened"] = true
					} else if cf := p.Callee(h, call); cf != nil && p.firstParty(cf.Pkg()) && p.ByObj[cf] != nil && p.ByObj[cf] != h && opensOnSuccess(p.ByObj[cf], depth+1) {
						f["opened"] = true
					}
				}
				return true
			})
		}
		hf.Run()
		okAll, n := true, 0
		hf.Exits(func(_ *cfgBlk, ret *ast.ReturnStmt, at Facts) {
			if ret == nil {
				return
			}
			if isNil, hasErr := errResultIsNil(p, h, ret); hasErr && isNil {
				n++
				if !at["opened"] {
					okAll = false
				}
			}
		})
		return okAll && n > 0
	}
	fl := &Flow{P: p, Fn: dl, Entry: Facts{}}
	fl.Node = func(n ast.Node, f Facts) {
		walkNoLit(n, func(nd ast.Node) bool {
			if call, ok := nd.(*ast.CallExpr); ok {
				if isUnmarshal(dl, call) {
					f["opened"] = true
				} else if cf := p.Callee(dl, call); cf != nil && p.firstParty(cf.Pkg()) && p.ByObj[cf] != nil && opensOnSuccess(p.ByObj[cf], 0) {
					f["opened"] = true
				}
			}
			return true
		})
	}
	fl.Run()
	nst := 0
	fl.Visit(func(_ *cfgBlk, n ast.Node, before Facts) {
		as, ok := n.(*ast.AssignStmt)
		if !ok {
			return
		}
		for _, l := range as.Lhs {
			se, ok := ast.Unparen(l).(*ast.SelectorExpr)
			if !ok || (se.Sel.Name != "Next" && se.Sel.Name != "Refs") {
				continue
			}
			id, ok := ast.Unparen(se.X).(*ast.Ident)
			if !ok || p.ObjOf(dl, id) != par {
				continue
			}
			nst++
			r.Check(before["opened"], rule, r.Key(rule, dl, "overwrite", se.Sel.Name), as.Pos(), "the clear "+se.Sel.Name+" list is replaced only after sealed links were opened",
				"DecryptLinks can overwrite "+se.Sel.Name+" of the decoded block on a path where no sealed links were opened: a block written before the key was configured (or by a writer without it) carries its links in clear, and a reader with a key now decodes it as an entry without predecessors — reopening the log cuts its history there")
		}
	})
	r.Floor(rule, "stores to the decoded block's link lists in DecryptLinks", nst, 2)
}

// validatorRefusesOnlyOnFixedAttributes: the per-candidate validation of a merge may refuse an entry only on
// attributes that Append fixes for every entry it makes (presence, hash, log id, version, key, signature,
// identity, clock) or through the access controller and the signature check. A condition in the validator
// that reads an attribute Append leaves to the caller or to the history — the table below — refuses entries
// Append produces.
var callerControlledEntryFields = map[string]string{
	"Payload":        "any byte string, the empty one included, is appendable",
	"Next":           "empty for the first entry of a log",
	"Refs":           "empty unless the log is long enough for skip references",
	"AdditionalData": "absent unless a link key is configured",
}

func validatorRefusesOnlyOnFixedAttributes(c *Ctx, r *Report, rule string) {
	p := c.P
	join := p.FuncI("", "IPFSLog", "Join")
	entT := p.Named("entry", "Entry")
	entI := p.Named("iface", "IPFSLogEntry")
	isEntry := func(t types.Type) bool {
		if t == nil {
			return false
		}
		if pt, ok := t.Underlying().(*types.Pointer); ok {
			t = pt.Elem()
		}
		nt := namedOf(t)
		return nt != nil && (nt == entT || nt == entI)
	}
	// fields read (transitively, first-party callees, bounded) by a method of the entry
	memo := map[*Fn]map[string]bool{}
	var reads func(fn *Fn, depth int) map[string]bool
	reads = func(fn *Fn, depth int) map[string]bool {
		if m, ok := memo[fn]; ok {
			return m
		}
		out := map[string]bool{}
		memo[fn] = out
		if fn.Body == nil || depth > 3 {
			return out
		}
		ast.Inspect(fn.Body, func(n ast.Node) bool {
			switch x := n.(type) {
			case *ast.SelectorExpr:
				if v, _ := p.FieldSel(fn, x); v != nil && callerControlledEntryFields[v.Name()] != "" {
					if st, ok := entT.Underlying().(*types.Struct); ok {
						for i := 0; i < st.NumFields(); i++ {
							if st.Field(i) == v {
								out[v.Name()] = true
							}
						}
					}
				}
			case *ast.CallExpr:
				if cf := p.Callee(fn, x); cf != nil && p.firstParty(cf.Pkg()) {
					callee := p.ByObj[cf]
					if callee == nil {
						if sig, ok := cf.Type().(*types.Signature); ok && sig.Recv() != nil && isEntry(sig.Recv().Type()) {
							callee = p.FuncOpt("entry", "Entry", cf.Name())
						}
					}
					if callee != nil {
						for f := range reads(callee, depth+1) {
							out[f] = true
						}
					}
				}
			}
			return true
		})
		return out
	}
	// the validator functions
	vfns := map[*Fn]bool{}
	var lits func(fn *Fn)
	lits = func(fn *Fn) {
		for _, l := range fn.Lits {
			if g, ok := p.parent[p.parent[ast.Node(l.Lit)]].(*ast.GoStmt); ok && g != nil {
				vfns[l] = true
			} else if _, ok := p.parent[ast.Node(l.Lit)].(*ast.CallExpr); ok {
				if _, isGo := p.parent[p.parent[ast.Node(l.Lit)]].(*ast.GoStmt); isGo {
					vfns[l] = true
				}
			}
			lits(l)
		}
	}
	lits(join)
	for changed, round := true, 0; changed && round < 3; round++ {
		changed = false
		for fn := range vfns {
			walkNoLit(fn.Body, func(n ast.Node) bool {
				call, ok := n.(*ast.CallExpr)
				if !ok {
					return true
				}
				cf := p.Callee(fn, call)
				if cf == nil {
					return true
				}
				callee := p.ByObj[cf]
				if callee == nil || callee.Pkg.PkgPath != join.Pkg.PkgPath || vfns[callee] {
					return true
				}
				sig := cf.Type().(*types.Signature)
				for i := 0; i < sig.Params().Len(); i++ {
					if isEntry(sig.Params().At(i).Type()) {
						vfns[callee] = true
						changed = true
					}
				}
				return true
			})
		}
	}
	var names []string
	nconds := 0
	for fn := range vfns {
		names = append(names, fn.Name)
	}
	sort.Strings(names)
	r.Tables["merge_validator_functions"] = names
	r.Floor(rule, "functions validating a merge candidate", len(vfns), 1)
	checkCond := func(fn *Fn, cnd ast.Expr) {
		nconds++
		bad, via := "", ""
		ast.Inspect(cnd, func(m ast.Node) bool {
			call, ok := m.(*ast.CallExpr)
			if !ok || bad != "" {
				return true
			}
			cf := p.Callee(fn, call)
			if cf == nil || !p.firstParty(cf.Pkg()) {
				return true
			}
			sig, ok := cf.Type().(*types.Signature)
			if !ok || sig.Recv() == nil || !isEntry(sig.Recv().Type()) {
				return true
			}
			if cf.Name() == "Verify" {
				return true // the signature check reads every signed field by definition
			}
			m2 := p.FuncOpt("entry", "Entry", cf.Name())
			if m2 == nil {
				return true
			}
			var fs []string
			for f := range reads(m2, 0) {
				fs = append(fs, f)
			}
			sort.Strings(fs)
			if len(fs) > 0 {
				bad, via = fs[0], cf.Name()
			}
			return true
		})
		r.Check(bad == "", rule, r.Key(rule, fn, "condition", ""), cnd.Pos(),
			"the condition reads nothing of the candidate that Append leaves to the caller or to the history",
			fmt.Sprintf("the merge validation branches on `%s`, which reads the candidate's %s through %s — %s, so entries made by Append are refused (and with them every merge that would bring them)", types.ExprString(cnd), bad, via, callerControlledEntryFields[bad]))
	}
	for _, name := range names {
		var fn *Fn
		for f := range vfns {
			if f.Name == name {
				fn = f
			}
		}
		walkNoLit(fn.Body, func(n ast.Node) bool {
			var conds []ast.Expr
			switch x := n.(type) {
			case *ast.IfStmt:
				conds = []ast.Expr{x.Cond}
			case *ast.SwitchStmt:
				if x.Tag != nil {
					conds = append(conds, x.Tag)
				}
				for _, cc := range x.Body.List {
					conds = append(conds, cc.(*ast.CaseClause).List...)
				}
			default:
				return true
			}
			for _, cnd := range conds {
				checkCond(fn, cnd)
			}
			return true
		})
	}
	r.Floor(rule, "conditions in the merge validation", nconds, 3)
}

// decodeReadsNoProcessState: the functions reachable from the decoders read no first-party package-level variable
// that can change while the process runs: a variable of map, slice, channel, pointer or function type, or any
// variable that is assigned, indexed into, deleted from or has its address taken outside its declaration.
func decodeReadsNoProcessState(c *Ctx, r *Report, rule string) {
	p := c.P
	// package-level variables that change
	mutable := map[*types.Var]string{}
	isPkgVar := func(o types.Object) *types.Var {
		v, ok := o.(*types.Var)
		if !ok || v.IsField() || v.Pkg() == nil || v.Parent() != v.Pkg().Scope() || !p.firstParty(v.Pkg()) {
			return nil
		}
		return v
	}
	for _, fn := range p.Fns {
		if fn.Orig != nil || fn.Body == nil || strings.HasSuffix(fn.Pkg.PkgPath, "/test") {
			continue
		}
		fn := fn
		ast.Inspect(fn.Body, func(n ast.Node) bool {
			mark := func(e ast.Expr, how string) {
				e = ast.Unparen(e)
				for {
					switch x := e.(type) {
					case *ast.IndexExpr:
						e = ast.Unparen(x.X)
						continue
					case *ast.SelectorExpr:
						if _, isPkg := p.ObjOf(fn, x.Sel).(*types.Var); isPkg && isPkgVar(p.ObjOf(fn, x.Sel)) != nil {
							e = x.Sel
							continue
						}
						e = ast.Unparen(x.X)
						continue
					case *ast.StarExpr:
						e = ast.Unparen(x.X)
						continue
					}
					break
				}
				if id, ok := e.(*ast.Ident); ok {
					if v := isPkgVar(p.ObjOf(fn, id)); v != nil && mutable[v] == "" {
						mutable[v] = how + " in " + fn.Name
					}
				}
			}
			switch x := n.(type) {
			case *ast.AssignStmt:
				for _, l := range x.Lhs {
					mark(l, "assigned")
				}
			case *ast.IncDecStmt:
				mark(x.X, "changed")
			case *ast.UnaryExpr:
				if x.Op == token.AND {
					mark(x.X, "address taken")
				}
			case *ast.CallExpr:
				if p.Builtin(fn, x) == "delete" && len(x.Args) > 0 {
					mark(x.Args[0], "deleted from")
				}
			}
			return true
		})
	}
	scope := decodeScope(c)
	var fns []*Fn
	for fn := range scope {
		fns = append(fns, fn)
	}
	sort.Slice(fns, func(i, j int) bool { return fns[i].Name < fns[j].Name })
	nread := 0
	for _, fn := range fns {
		if fn.Body == nil {
			continue
		}
		seen := map[*types.Var]bool{}
		walkNoLit(fn.Body, func(n ast.Node) bool {
			id, ok := n.(*ast.Ident)
			if !ok {
				return true
			}
			v := isPkgVar(p.ObjOf(fn, id))
			if v == nil || seen[v] {
				return true
			}
			seen[v] = true
			nread++
			why := mutable[v]
			if why == "" {
				switch v.Type().Underlying().(type) {
				case *types.Map, *types.Chan:
					why = "a " + v.Type().String() + " (a container any code of the package can fill)"
				}
			}
			r.Check(why == "", rule, r.Key(rule, fn, "package-state", v.Pkg().Name()+"."+v.Name()), id.Pos(),
				v.Pkg().Name()+"."+v.Name()+" is never changed after its declaration",
				fmt.Sprintf("the decode path reads %s.%s, which the process changes (%s): whether a stored entry decodes — and with it which entries a rebuilt log holds — depends on what this process did before, not on the block", v.Pkg().Name(), v.Name(), why))
			return true
		})
	}
	r.Floor(rule, "functions in the decode closure", len(fns), 8)
	r.Tables["package_state_read_while_decoding"] = []string{fmt.Sprintf("%d package-level variables read", nread)}
}

// entryFieldReader: which of the named fields of the in-memory entry a first-party function reads, directly or
// through first-party callees and the entry's own methods (bounded depth).
type entryFieldReader struct {
	p      *Prog
	fields map[string]bool
	memo   map[*Fn]map[string]bool
}

func (er *entryFieldReader) isEntry(t types.Type) bool {
	if t == nil {
		return false
	}
	if pt, ok := t.Underlying().(*types.Pointer); ok {
		t = pt.Elem()
	}
	nt := namedOf(t)
	return nt != nil && (nt == er.p.Named("entry", "Entry") || nt == er.p.Named("iface", "IPFSLogEntry"))
}

func (er *entryFieldReader) reads(fn *Fn, depth int) map[string]bool {
	p := er.p
	if m, ok := er.memo[fn]; ok {
		return m
	}
	out := map[string]bool{}
	er.memo[fn] = out
	if fn == nil || fn.Body == nil || depth > 3 {
		return out
	}
	entT := p.Named("entry", "Entry")
	ast.Inspect(fn.Body, func(n ast.Node) bool {
		switch x := n.(type) {
		case *ast.SelectorExpr:
			if v, _ := p.FieldSel(fn, x); v != nil && er.fields[v.Name()] {
				if st, ok := entT.Underlying().(*types.Struct); ok {
					for i := 0; i < st.NumFields(); i++ {
						if st.Field(i) == v {
							out[v.Name()] = true
						}
					}
				}
			}
		case *ast.CallExpr:
			if cf := p.Callee(fn, x); cf != nil && p.firstParty(cf.Pkg()) {
				callee := p.ByObj[cf]
				if callee == nil {
					if sig, ok := cf.Type().(*types.Signature); ok && sig.Recv() != nil && er.isEntry(sig.Recv().Type()) {
						callee = p.FuncOpt("entry", "Entry", cf.Name())
					}
				}
				if callee != nil {
					for f := range er.reads(callee, depth+1) {
						out[f] = true
					}
				}
			}
		}
		return true
	})
	return out
}

// workerKeepsWhatItFetched: the fetch worker gives up a fetched entry only because the fetch failed or by its
// own bookkeeping (clock, hash, limit): no condition in the worker calls an entry method that reads the payload
// or the additional data — whatever Append wrote must load again, an empty or binary payload included.
func workerKeepsWhatItFetched(c *Ctx, r *Report, rule string) {
	p := c.P
	er := &entryFieldReader{p: p, fields: map[string]bool{"Payload": true, "AdditionalData": true}, memo: map[*Fn]map[string]bool{}}
	pq := p.Func("entry", "Fetcher", "processQueue")
	fns := map[*Fn]bool{}
	for _, f := range AllFnsUnder(pq) {
		fns[f] = true
	}
	// methods of the fetcher the worker hands the entry to
	for changed, round := true, 0; changed && round < 3; round++ {
		changed = false
		for fn := range fns {
			walkNoLit(fn.Body, func(n ast.Node) bool {
				call, ok := n.(*ast.CallExpr)
				if !ok {
					return true
				}
				cf := p.Callee(fn, call)
				if cf == nil {
					return true
				}
				callee := p.ByObj[cf]
				if callee == nil || callee.Pkg.PkgPath != pq.Pkg.PkgPath || fns[callee] || callee.Obj == nil {
					return true
				}
				sig := cf.Type().(*types.Signature)
				if sig.Recv() == nil || namedOf(sig.Recv().Type()) != p.Named("entry", "Fetcher") {
					return true
				}
				// every method of the fetcher the worker's code reaches (the worker itself may be one)
				for _, sub := range AllFnsUnder(callee) {
					fns[sub] = true
				}
				changed = true
				return true
			})
		}
	}
	var names []string
	byName := map[string]*Fn{}
	for fn := range fns {
		names = append(names, fn.Name)
		byName[fn.Name] = fn
	}
	sort.Strings(names)
	nconds := 0
	for _, nm := range names {
		fn := byName[nm]
		walkNoLit(fn.Body, func(n ast.Node) bool {
			var conds []ast.Expr
			switch x := n.(type) {
			case *ast.IfStmt:
				conds = []ast.Expr{x.Cond}
			case *ast.SwitchStmt:
				if x.Tag != nil {
					conds = append(conds, x.Tag)
				}
				for _, cc := range x.Body.List {
					conds = append(conds, cc.(*ast.CaseClause).List...)
				}
			default:
				return true
			}
			for _, cnd := range conds {
				nconds++
				bad, via := "", ""
				ast.Inspect(cnd, func(m ast.Node) bool {
					call, ok := m.(*ast.CallExpr)
					if !ok || bad != "" {
						return true
					}
					cf := p.Callee(fn, call)
					if cf == nil || !p.firstParty(cf.Pkg()) {
						return true
					}
					sig, ok := cf.Type().(*types.Signature)
					if !ok || sig.Recv() == nil || !er.isEntry(sig.Recv().Type()) {
						return true
					}
					if m2 := p.FuncOpt("entry", "Entry", cf.Name()); m2 != nil {
						var fs []string
						for f := range er.reads(m2, 0) {
							fs = append(fs, f)
						}
						sort.Strings(fs)
						if len(fs) > 0 {
							bad, via = fs[0], cf.Name()
						}
					}
					return true
				})
				r.Check(bad == "", rule, r.Key(rule, fn, "condition", ""), cnd.Pos(),
					"the condition reads neither the payload nor the additional data of a fetched entry",
					fmt.Sprintf("the fetch worker branches on `%s`, which reads the fetched entry's %s through %s: an entry Append wrote (an empty payload is appendable) is given up like a failed fetch, and with it everything only reachable through it — the rebuilt log silently lacks entries", types.ExprString(cnd), bad, via))
			}
			return true
		})
	}
	r.Floor(rule, "conditions in the fetch worker", nconds, 1)
}

// snapshotEntriesComeFromTheWalk: a loader that takes the heads of the rebuilt log from the manifest (or the JSON
// head list) hands on only entries its walk from those heads returned: an entry added from elsewhere (a list the
// caller holds) is referenced by nothing in the rebuilt log and is not one of its heads.
func snapshotEntriesComeFromTheWalk(c *Ctx, r *Report, rule string) {
	p := c.P
	snapValues := p.Field("iface", "Snapshot", "Values")
	isEntrySlice := func(t types.Type) bool {
		sl, ok := t.Underlying().(*types.Slice)
		return ok && isNamed(sl.Elem(), p.pkgPath("iface"), "IPFSLogEntry")
	}
	n := 0
	for _, name := range []string{"fromMultihash", "fromJSON"} {
		fn := p.Func("", "", name)
		sf := p.SSAFunc(fn)
		allInstrs(sf, false, func(ins ssa.Instruction) {
			st, ok := ins.(*ssa.Store)
			if !ok {
				return
			}
			if f, _ := fieldOf(st.Addr); f != snapValues {
				return
			}
			n++
			bad := ""
			var badPos token.Pos
			// the walk's result is a source: what goes into the fetcher (its options, the caller's lists it is told
			// to leave out) is not part of what comes out
			stopAtFetch := func(x ssa.Value) bool {
				if call, ok := x.(*ssa.Call); ok {
					if cal := call.Call.StaticCallee(); cal != nil && cal.Pkg != nil && cal.Pkg.Pkg.Path() == p.pkgPath("entry") && isEntrySlice(call.Type()) {
						return false
					}
				}
				return true
			}
			for x := range backSlice(st.Val, stopAtFetch) {
				if !isEntrySlice(x.Type()) || x.Parent() != sf {
					continue
				}
				switch y := x.(type) {
				case *ssa.Parameter:
					bad, badPos = "the parameter "+y.Name(), st.Pos()
				case *ssa.UnOp:
					if y.Op == token.MUL {
						if f, _ := fieldOf(y.X); f != nil {
							bad, badPos = "the caller's "+f.Name()+" list", y.Pos()
						}
					}
				}
			}
			pos := st.Pos()
			if bad != "" && badPos.IsValid() {
				pos = badPos
			}
			r.Check(bad == "", rule, r.Key(rule, fn, "snapshot-values", ""), pos,
				"the entries handed on all come from the walk from the manifest's heads",
				fmt.Sprintf("%s adds %s to the entries it hands on while the heads are taken from the manifest: an entry outside the history of those heads is in the rebuilt log, referenced by nothing and not a head — and it stays so through later appends and merges", name, bad))
		})
	}
	r.Floor(rule, "snapshot entry lists built by loaders that take the heads from the manifest", n, 2)
}

// channelsClosedOnce: a close of a channel is not reachable twice — not in a loop over which the channel lives,
// not in a function literal that several goroutines or several calls can run (a recorder called by every
// failing validator), unless it runs under a sync.Once.
func channelsClosedOnce(c *Ctx, r *Report, rule string) {
	p := c.P
	n := 0
	for _, fn := range p.Fns {
		if fn.Orig != nil || fn.Body == nil || !p.firstParty(fn.Pkg.Types) || strings.HasSuffix(fn.Pkg.PkgPath, "/test") {
			continue
		}
		fn := fn
		walkNoLit(fn.Body, func(nd ast.Node) bool {
			call, ok := nd.(*ast.CallExpr)
			if !ok || p.Builtin(fn, call) != "close" || len(call.Args) != 1 {
				return true
			}
			n++
			root, _, okp := p.PathKey(fn, call.Args[0])
			chv, _ := root.(*types.Var)
			bad := ""
			// (a) in a loop the channel outlives
			for _, l := range enclosingLoops(p, fn, call) {
				if okp && chv != nil && !(chv.Pos() >= l.Pos() && chv.Pos() <= l.End()) {
					// leaving the loop (and the function) right after the close is the usual shape
					leaves := false
					for cur := p.ParentIn(fn, call); cur != nil && cur != ast.Node(l); cur = p.ParentIn(fn, cur) {
						if blk, ok := cur.(*ast.BlockStmt); ok {
							for i, st := range blk.List {
								if es, ok := st.(*ast.ExprStmt); ok && es.X == ast.Expr(call) && i+1 < len(blk.List) {
									switch nx := blk.List[i+1].(type) {
									case *ast.ReturnStmt:
										leaves = true
									case *ast.BranchStmt:
										leaves = nx.Tok == token.BREAK || nx.Tok == token.GOTO
									}
								}
							}
						}
					}
					if !leaves {
						bad = "inside a loop that the channel outlives"
					}
				}
			}
			// (b) in a literal that can run more than once: a goroutine started in a loop, or a local closure
			// (called from wherever its variable is visible) — unless handed to a sync.Once
			if fn.Lit != nil && okp && chv != nil && !(chv.Pos() >= fn.Lit.Pos() && chv.Pos() <= fn.Lit.End()) {
				once := false
				if pc, ok := p.parent[ast.Node(fn.Lit)].(*ast.CallExpr); ok {
					if cf := p.Callee(fn.Parent, pc); cf != nil && isFunc(cf, "sync", "Once", "Do") {
						once = true
					}
				}
				if !once {
					switch par := p.parent[ast.Node(fn.Lit)].(type) {
					case *ast.AssignStmt, *ast.ValueSpec:
						_ = par
						bad = "inside a local closure every caller of which closes the same channel"
					case *ast.CallExpr:
						if g, ok := p.parent[par].(*ast.GoStmt); ok && len(enclosingLoops(p, fn.Parent, g)) > 0 {
							bad = "inside a goroutine started once per loop iteration"
						}
					}
				}
			}
			r.Check(bad == "", rule, r.Key(rule, fn, "close", types.ExprString(call.Args[0])), call.Pos(),
				"the channel is closed at one place that runs once",
				fmt.Sprintf("close(%s) is %s: the second close panics (`close of closed channel`), on a goroutine nothing recovers", types.ExprString(call.Args[0]), bad))
			return true
		})
	}
	r.Floor(rule, "channel closes examined", n, 1)
}

// noCallerCodeMidUpdate: between the first change Join makes to the log's index and the store of the merged
// heads nothing runs that the caller supplied (the sort function, the access controller): such code may panic
// or block, and a caller that recovers finds the merged entries in the index with the heads of before — entries
// nothing references that are no heads.
func noCallerCodeMidUpdate(c *Ctx, r *Report, rule string) {
	p := c.P
	join := p.FuncI("", "IPFSLog", "Join")
	headsF := p.Field("", "IPFSLog", "heads")
	state := map[*types.Var]bool{p.Field("", "IPFSLog", "Entries"): true, p.Field("", "IPFSLog", "Next"): true}
	sortFnF := p.Field("", "IPFSLog", "SortFn")
	userCode := func(f *types.Func) bool {
		if f == nil || f.Pkg() == nil {
			return false
		}
		if f.Name() == "Sort" && f.Pkg().Path() == p.pkgPath("entry/sorting") {
			return true // runs the comparator it is handed
		}
		if sig, ok := f.Type().(*types.Signature); ok && sig.Recv() != nil && types.IsInterface(sig.Recv().Type()) {
			if nt := namedOf(sig.Recv().Type()); nt != nil && nt.Obj().Pkg() != nil && nt.Obj().Pkg().Path() == p.pkgPath("accesscontroller") {
				return true
			}
		}
		return false
	}
	fl := &Flow{P: p, Fn: join, May: true, Entry: Facts{}}
	fl.Node = func(n ast.Node, f Facts) {
		if len(logStateChanges(p, join, n, state)) > 0 {
			f["updating"] = true
		}
		walkNoLit(n, func(m ast.Node) bool {
			if as, ok := m.(*ast.AssignStmt); ok {
				for _, l := range as.Lhs {
					if v, _ := p.FieldSel(join, l); v == headsF {
						delete(f, "updating")
					}
				}
			}
			return true
		})
	}
	fl.Run()
	ncall := 0
	fl.Visit(func(_ *cfgBlk, n ast.Node, before Facts) {
		if !before["updating"] {
			return
		}
		walkNoLit(n, func(m ast.Node) bool {
			call, ok := m.(*ast.CallExpr)
			if !ok {
				return true
			}
			ncall++
			bad := ""
			// a call through the log's sort-function field
			if v, _ := p.FieldSel(join, call.Fun); v == sortFnF {
				bad = "the log's sort function"
			}
			if bad == "" && c.CallReaches(join, call, userCode) {
				bad = "code the caller supplied (the sort function or the access controller), through " + types.ExprString(call.Fun)
			}
			r.Check(bad == "", rule, r.Key(rule, join, "mid-update-call", types.ExprString(call.Fun)), call.Pos(),
				"nothing the caller supplied runs between the first index update and the store of the merged heads",
				fmt.Sprintf("Join runs %s after it has started filing the new entries and before it has stored the merged heads: if that code panics (and the caller recovers) or never returns, the log keeps the merged entries with the heads of before — unreferenced entries that are no heads", bad))
			return true
		})
	})
	r.Floor(rule, "calls between the first index update and the heads store in Join", ncall, 3)
}

// oneSpellingOfAHash: an identifier has more than one textual form (String, KeyString, Hash().B58String, …).
// The entry maps of a log are filled from each other — new items into the entry index, a rebuilt predecessor
// index into the log's own, head sets merged — so all of them are one key space; a plain Go map is its own.
// Within one key space every key derived from a CID is derived by the same method.
func oneSpellingOfAHash(c *Ctx, r *Report, rule string) {
	p := c.P
	type use struct {
		fn  *Fn
		pos token.Pos
	}
	spaces := map[string]map[string]use{} // key space -> spelling -> first use
	names := map[string]string{}
	var spellOf func(fn *Fn, e ast.Expr, depth int) string
	spellOf = func(fn *Fn, e ast.Expr, depth int) string {
		e = ast.Unparen(e)
		switch x := e.(type) {
		case *ast.Ident:
			if v, ok := p.ObjOf(fn, x).(*types.Var); ok && depth < 3 && !v.IsField() {
				if d := p.SoleDef(fn, v); d != nil {
					return spellOf(fn, d, depth+1)
				}
			}
		case *ast.CallExpr:
			se, ok := ast.Unparen(x.Fun).(*ast.SelectorExpr)
			if !ok || len(x.Args) != 0 {
				return ""
			}
			if t := p.TypeOf(fn, se.X); t != nil && isNamed(t, "github.com/ipfs/go-cid", "Cid") {
				return se.Sel.Name + "()"
			}
			if in := spellOf(fn, se.X, depth); in != "" {
				return in + "." + se.Sel.Name + "()"
			}
		}
		return ""
	}
	note := func(space, name string, fn *Fn, key ast.Expr) {
		sp := spellOf(fn, key, 0)
		if sp == "" {
			return
		}
		if spaces[space] == nil {
			spaces[space] = map[string]use{}
			names[space] = name
		}
		if _, ok := spaces[space][sp]; !ok {
			spaces[space][sp] = use{fn, key.Pos()}
		}
	}
	nUses := 0
	for _, fn := range p.Fns {
		if fn.Body == nil {
			continue
		}
		fn := fn
		ast.Inspect(fn.Body, func(n ast.Node) bool {
			switch x := n.(type) {
			case *ast.CallExpr:
				cf := p.Callee(fn, x)
				if cf == nil || len(x.Args) == 0 {
					return true
				}
				rv := cf.Type().(*types.Signature).Recv()
				if rv == nil || !(isNamed(rv.Type(), p.pkgPath("entry"), "OrderedMap") || isNamed(rv.Type(), p.pkgPath("iface"), "IPFSLogOrderedEntries")) {
					return true
				}
				switch cf.Name() {
				case "Set", "Get", "UnsafeGet", "Delete":
					nUses++
					note("entry maps", "the entry maps", fn, x.Args[0])
				}
			case *ast.IndexExpr:
				t := p.TypeOf(fn, x.X)
				if t == nil {
					return true
				}
				if _, isMap := t.Underlying().(*types.Map); !isMap {
					return true
				}
				var o types.Object
				switch b := ast.Unparen(x.X).(type) {
				case *ast.Ident:
					o = p.ObjOf(fn, b)
				case *ast.SelectorExpr:
					o = p.ObjOf(fn, b.Sel)
				}
				if o == nil {
					return true
				}
				nUses++
				note(p.ID(o), "the map "+o.Name()+" in "+fn.Name, fn, x.Index)
			}
			return true
		})
	}
	var ids []string
	for id := range spaces {
		ids = append(ids, id)
	}
	sort.Strings(ids)
	for _, id := range ids {
		var list []string
		for sp := range spaces[id] {
			list = append(list, sp)
		}
		sort.Strings(list)
		u := spaces[id][list[len(list)-1]]
		r.Check(len(list) == 1, rule, r.Key(rule, u.fn, "one-spelling", names[id]), u.pos,
			"every key of "+names[id]+" derived from an identifier is derived the same way ("+strings.Join(list, "")+")",
			names[id]+" is keyed by "+fmt.Sprint(len(list))+" different forms of an identifier ("+strings.Join(list, " / ")+"): what was filed under one form is not found under the other — entries that are referenced are taken for unreferenced, or the reverse")
	}
	r.Floor(rule, "key spaces with identifier-derived keys", len(ids), 4)
	r.Floor(rule, "map and entry-map accesses examined", nUses, 20)
}

// explicitHeadsComeFromTheLoader: a constructor that tells NewLog which entries are the heads (instead of
// letting it search all the entries) takes them from the snapshot its loader returned — the same snapshot the
// entries come from — and from nothing else: heads computed from a list the caller holds miss what the walk
// added or left out, and the traversal starts from the wrong entries.
func explicitHeadsComeFromTheLoader(c *Ctx, r *Report, rule string) {
	p := c.P
	optHeads, optEntries := p.Field("", "LogOptions", "Heads"), p.Field("", "LogOptions", "Entries")
	snapHeads := p.Field("iface", "Snapshot", "Heads")
	newLog := p.Func("", "", "NewLog")
	findHeads := p.Func("entry", "", "FindHeads").Obj
	isSnapshot := func(t types.Type) bool {
		if pt, ok := t.Underlying().(*types.Pointer); ok {
			t = pt.Elem()
		}
		return isNamed(t, p.pkgPath("iface"), "Snapshot")
	}
	isNilConst := func(v ssa.Value) bool {
		cst, ok := v.(*ssa.Const)
		return ok && cst.IsNil()
	}
	n := 0
	// check examines one place where heads and entries meet: the store into the options, or — when the options
	// are built by an unexported helper from its parameters — the call of that helper.
	var check func(fn *Fn, sf *ssa.Function, headsVal, entriesVal ssa.Value, headsPos token.Pos, depth int)
	check = func(fn *Fn, sf *ssa.Function, headsVal, entriesVal ssa.Value, headsPos token.Pos, depth int) {
		var loaders []*ssa.Call
		stopAtLoader := func(x ssa.Value) bool {
			if call, ok := x.(*ssa.Call); ok {
				if res := call.Call.Signature().Results(); res.Len() > 0 && isSnapshot(res.At(0).Type()) {
					loaders = append(loaders, call)
					return false
				}
			}
			return true
		}
		bad, fromSnapshot := "", false
		var badPos token.Pos
		var viaParam *ssa.Parameter
		for x := range backSlice(headsVal, stopAtLoader) {
			if x.Parent() != sf {
				continue
			}
			switch y := x.(type) {
			case *ssa.Parameter:
				if _, isSl := y.Type().Underlying().(*types.Slice); isSl {
					bad, badPos = "the parameter "+y.Name(), headsPos
					viaParam = y
				}
			case *ssa.FieldAddr, *ssa.Field:
				if f, _ := fieldOf(y); f == snapHeads {
					fromSnapshot = true
				}
			case *ssa.Call:
				if cal := y.Call.StaticCallee(); cal != nil && cal.Object() == findHeads {
					bad, badPos = "a head search of its own", y.Pos()
				}
			}
		}
		// an unexported helper that builds the options from what it is handed: the question moves to its callers
		if viaParam != nil && !fromSnapshot && depth < 2 && fn.Decl != nil && !fn.Decl.Name.IsExported() && fn.Decl.Recv == nil {
			hIdx, eIdx := -1, -1
			for i, par := range sf.Params {
				if par == viaParam {
					hIdx = i
				}
				if entriesVal != nil && backSlice(entriesVal, nil)[par] {
					eIdx = i
				}
			}
			sites := 0
			for _, g := range p.Fns {
				if g.Body == nil {
					continue
				}
				sg := p.SSAFunc(g)
				if sg == nil {
					continue
				}
				allInstrs(sg, true, func(ins ssa.Instruction) {
					call, ok := ins.(*ssa.Call)
					if !ok || call.Call.StaticCallee() != sf || hIdx >= len(call.Call.Args) {
						return
					}
					sites++
					if isNilConst(call.Call.Args[hIdx]) {
						return // this caller names no heads
					}
					var ev ssa.Value
					if eIdx >= 0 && eIdx < len(call.Call.Args) {
						ev = call.Call.Args[eIdx]
					}
					check(g, call.Parent(), call.Call.Args[hIdx], ev, call.Pos(), depth+1)
				})
			}
			if sites > 0 {
				return
			}
		}
		n++
		headLoaders := loaders
		loaders = nil
		sameLoader := false
		if entriesVal != nil {
			backSlice(entriesVal, stopAtLoader)
			for _, a := range headLoaders {
				for _, b := range loaders {
					if a == b {
						sameLoader = true
					}
				}
			}
		}
		switch {
		case bad != "":
		case !fromSnapshot || len(headLoaders) == 0:
			bad, badPos = "something else than the Heads of the snapshot its loader returned", headsPos
		case !sameLoader:
			bad, badPos = "another snapshot than the one the entries come from", headsPos
		}
		r.Check(bad == "", rule, r.Key(rule, fn, "explicit-heads", ""), badPosOr(badPos, headsPos),
			"the heads handed to NewLog are the Heads of the snapshot the entries come from",
			fmt.Sprintf("%s hands NewLog heads taken from %s: they are not searched for in the entries the loader returned — what the walk added below or beside them, or left out, is not reflected, and the linearised view starts from entries that are not the heads of what the log holds", fn.Name, bad))
	}
	for _, fn := range p.Fns {
		if fn.Body == nil || fn.Pkg.PkgPath != p.pkgPath("") || fn == newLog {
			continue // NewLog's own search, over all the entries it was given, is the default
		}
		sf := p.SSAFunc(fn)
		if sf == nil {
			continue
		}
		var headsVal, entriesVal ssa.Value
		var headsPos token.Pos
		allInstrs(sf, false, func(ins ssa.Instruction) {
			st, ok := ins.(*ssa.Store)
			if !ok {
				return
			}
			switch f, _ := fieldOf(st.Addr); f {
			case optHeads:
				headsVal, headsPos = st.Val, st.Pos()
			case optEntries:
				entriesVal = st.Val
			}
		})
		if headsVal == nil || isNilConst(headsVal) {
			continue
		}
		check(fn, sf, headsVal, entriesVal, headsPos, 0)
	}
	r.Floor(rule, "constructors that hand explicit heads to NewLog", n, 1)
}

func badPosOr(a, b token.Pos) token.Pos {
	if a.IsValid() {
		return a
	}
	return b
}

// preSignHandsBackWhatItGot: a codec's PreSign stands between the entry and the bytes that are signed and
// verified. Only a codec with a link key has a reason to hand back another entry than the one it was given
// (the links are sealed into a copy); without the key the entry that is verified is the entry that was
// decoded. An entry copy is not the identity on every entry (it de-duplicates the link lists), so a copy
// taken before the key is known to be there changes the bytes a keyless codec verifies.
func preSignHandsBackWhatItGot(c *Ctx, r *Report, rule string) {
	p := c.P
	n := 0
	for _, fn := range p.Fns {
		if fn.Body == nil || fn.Decl == nil || fn.Decl.Recv == nil || fn.Decl.Name.Name != "PreSign" {
			continue
		}
		par, rcv := paramObjAny(fn, 0), recvObj(p, fn)
		if par == nil || rcv == nil {
			continue
		}
		n++
		keyKnown := func(f Facts) bool {
			for k := range f {
				if strings.HasPrefix(k, "nn|"+p.ID(rcv)+".") {
					return true
				}
			}
			return false
		}
		fl := NewNilEngine(p, c.CG).nilFlow(fn)
		bad := token.NoPos
		what := ""
		fl.Visit(func(_ *cfgBlk, nd ast.Node, before Facts) {
			if keyKnown(before) {
				return
			}
			walkNoLit(nd, func(m ast.Node) bool {
				switch x := m.(type) {
				case *ast.AssignStmt:
					for _, l := range x.Lhs {
						if id, ok := ast.Unparen(l).(*ast.Ident); ok && p.ObjOf(fn, id) == par && !bad.IsValid() {
							bad, what = x.Pos(), "replaces the entry it was given"
						}
					}
				case *ast.ReturnStmt:
					if len(x.Results) == 0 {
						return true
					}
					e := ast.Unparen(x.Results[0])
					if isNilIdent(e) {
						return true
					}
					if id, ok := e.(*ast.Ident); ok && p.ObjOf(fn, id) == par {
						return true
					}
					if !bad.IsValid() {
						bad, what = x.Pos(), "hands back another entry than the one it was given"
					}
				}
				return true
			})
		})
		r.Check(!bad.IsValid(), rule, r.Key(rule, fn, "presign-identity", ""), badPosOr(bad, fn.Decl.Pos()),
			"PreSign replaces the entry only where a field of the codec (the link key) is known to be set",
			fmt.Sprintf("%s %s on a path where no field of the codec was found set: a codec without a link key then signs and verifies a copy, and an entry copy de-duplicates the link lists — an entry signed over repeated links no longer verifies, or is signed over other bytes than the ones its block carries", fn.Name, what))
	}
	r.Floor(rule, "PreSign implementations", n, 1)
}

// preSignAdditionsAreInTheView: what a codec's PreSign writes into the entry (the sealed links and their nonce
// go into the additional data) has to be part of every view Normalize builds — of the pre-signed one above
// all, which is what gets signed: a field PreSign fills and the signed view leaves out can be replaced in the
// block by anyone without invalidating the signature.
func preSignAdditionsAreInTheView(c *Ctx, r *Report, rule string) {
	p := c.P
	entT := p.Named("entry", "Entry")
	st := entT.Underlying().(*types.Struct)
	fieldByLower := map[string]*types.Var{}
	for i := 0; i < st.NumFields(); i++ {
		fieldByLower[strings.ToLower(st.Field(i).Name())] = st.Field(i)
	}
	added := map[*types.Var]token.Pos{}
	nPre := 0
	for _, fn := range p.Fns {
		if fn.Body == nil || fn.Decl == nil || fn.Decl.Recv == nil || fn.Decl.Name.Name != "PreSign" {
			continue
		}
		nPre++
		fn := fn
		walkNoLit(fn.Body, func(n ast.Node) bool {
			call, ok := n.(*ast.CallExpr)
			if !ok {
				return true
			}
			se, ok := ast.Unparen(call.Fun).(*ast.SelectorExpr)
			if !ok || !strings.HasPrefix(se.Sel.Name, "Set") {
				return true
			}
			if t := p.TypeOf(fn, se.X); t == nil || !(isNamed(t, p.pkgPath("iface"), "IPFSLogEntry") || namedOf(t) == entT) {
				return true
			}
			name := strings.ToLower(strings.TrimPrefix(se.Sel.Name, "Set"))
			for _, suffix := range []string{"", "value"} {
				if f := fieldByLower[strings.TrimSuffix(name, suffix)]; f != nil {
					if _, seen := added[f]; !seen {
						added[f] = call.Pos()
					}
				}
			}
			return true
		})
	}
	norm := p.FuncI("entry", "", "Normalize")
	setsIn := func(fn *Fn, n ast.Node, f Facts) {
		walkNoLit(n, func(nd ast.Node) bool {
			switch x := nd.(type) {
			case *ast.AssignStmt:
				for _, l := range x.Lhs {
					if v, base := p.FieldSel(fn, l); v != nil && base != nil {
						if t := p.TypeOf(fn, base); t != nil && namedOf(t) == entT {
							f["set|"+v.Name()] = true
						}
					}
				}
			case *ast.CompositeLit:
				if t := p.TypeOf(fn, x); t != nil && namedOf(t) == entT {
					for _, el := range x.Elts {
						if kv, ok := el.(*ast.KeyValueExpr); ok {
							if id, ok := kv.Key.(*ast.Ident); ok {
								f["set|"+id.Name] = true
							}
						}
					}
				}
			}
			return true
		})
	}
	fl := &Flow{P: p, Fn: norm, Entry: Facts{}}
	fl.Node = func(n ast.Node, f Facts) {
		setsIn(norm, n, f)
		walkNoLit(n, func(nd ast.Node) bool {
			if call, ok := nd.(*ast.CallExpr); ok {
				if cf := p.Callee(norm, call); cf != nil {
					if h := p.ByObj[cf]; h != nil && h.Body != nil && h != norm && p.firstParty(cf.Pkg()) {
						setsIn(h, h.Body, f) // a helper that fills part of the view
					}
				}
			}
			return true
		})
	}
	fl.Run()
	var fields []*types.Var
	for f := range added {
		fields = append(fields, f)
	}
	sort.Slice(fields, func(i, j int) bool { return fields[i].Name() < fields[j].Name() })
	nRet := 0
	fl.Visit(func(_ *cfgBlk, n ast.Node, before Facts) {
		ret, ok := n.(*ast.ReturnStmt)
		if !ok {
			return
		}
		nRet++
		at := Facts{}
		for k := range before {
			at[k] = true
		}
		fl.Node(ret, at)
		for _, f := range fields {
			r.Check(at["set|"+f.Name()], rule, r.Key(rule, norm, "view-has", f.Name()), ret.Pos(),
				"the view Normalize returns here carries "+f.Name()+", which PreSign writes into",
				fmt.Sprintf("Normalize returns a view without %s at %s, and a codec's PreSign writes into that field (%s): the sealed links and their nonce are then not part of the bytes that are signed — whoever holds the block can replace them, and with them the entry's predecessors, without invalidating the signature", f.Name(), p.Pos(ret.Pos()), p.Pos(added[f])))
		}
	})
	r.Floor(rule, "PreSign implementations examined", nPre, 1)
	r.Floor(rule, "entry fields PreSign writes into", len(fields), 1)
	r.Floor(rule, "returns of Normalize", nRet, 1)
}

// oneRequestPerHash: a function asks the block store for a given hash once. A second request for the same
// hash — a retry after a failure, or the request sitting in a loop that does not change the hash — doubles
// the waiting for a block that is slow or absent and shows the store the same hash twice.
func oneRequestPerHash(c *Ctx, r *Report, rule string) {
	p := c.P
	isCid := func(t types.Type) bool { return t != nil && isNamed(t, "github.com/ipfs/go-cid", "Cid") }
	request := func(fn *Fn, call *ast.CallExpr) types.Object {
		cf := p.Callee(fn, call)
		if cf == nil || cf.Pkg() == nil || p.firstParty(cf.Pkg()) || !strings.Contains(cf.Pkg().Path(), ".") {
			return nil
		}
		if cf.Name() != "Get" && cf.Name() != "GetBlock" {
			return nil
		}
		if cf.Type().(*types.Signature).Recv() == nil {
			return nil
		}
		for _, a := range call.Args {
			if id, ok := ast.Unparen(a).(*ast.Ident); ok && isCid(p.TypeOf(fn, id)) {
				return p.ObjOf(fn, id)
			}
		}
		return nil
	}
	n := 0
	for _, fn := range p.Fns {
		if fn.Body == nil {
			continue
		}
		fn := fn
		has := false
		walkNoLit(fn.Body, func(nd ast.Node) bool {
			if call, ok := nd.(*ast.CallExpr); ok && request(fn, call) != nil {
				has = true
			}
			return true
		})
		if !has {
			continue
		}
		fl := &Flow{P: p, Fn: fn, May: true, Entry: Facts{}}
		fl.Node = func(nd ast.Node, f Facts) {
			walkNoLit(nd, func(m ast.Node) bool {
				switch x := m.(type) {
				case *ast.CallExpr:
					if o := request(fn, x); o != nil {
						f["asked|"+p.ID(o)] = true
					}
				case *ast.AssignStmt:
					for _, l := range x.Lhs {
						if id, ok := ast.Unparen(l).(*ast.Ident); ok {
							if o := p.ObjOf(fn, id); o != nil {
								delete(f, "asked|"+p.ID(o))
							}
						}
					}
				case *ast.RangeStmt:
					for _, l := range []ast.Expr{x.Key, x.Value} {
						if id, ok := l.(*ast.Ident); ok {
							if o := p.ObjOf(fn, id); o != nil {
								delete(f, "asked|"+p.ID(o))
							}
						}
					}
				}
				return true
			})
		}
		fl.Run()
		fl.Visit(func(_ *cfgBlk, nd ast.Node, before Facts) {
			walkNoLit(nd, func(m ast.Node) bool {
				call, ok := m.(*ast.CallExpr)
				if !ok {
					return true
				}
				o := request(fn, call)
				if o == nil {
					return true
				}
				n++
				r.Check(!before["asked|"+p.ID(o)], rule, r.Key(rule, fn, "one-request", o.Name()), call.Pos(),
					"the store is asked for "+o.Name()+" here and on no path before",
					fmt.Sprintf("%s asks the store for %s at %s on a path on which it has already asked for it: the same hash is requested twice, and a slow or absent block is waited for twice", fn.Name, o.Name(), p.Pos(call.Pos())))
				return true
			})
		})
	}
	r.Floor(rule, "requests to the block store", n, 2)
}

// candidatesChosenByIdentityOnly: which entries of the other log a merge takes over is decided by what the
// destination already holds and by the log id — by nothing else the entry carries. A test on the entry's content
// (payload, version, clock, key) in the walk that computes the candidates makes a replica skip, silently and for
// good, an entry its writer holds, together with everything only reachable through it.
func candidatesChosenByIdentityOnly(c *Ctx, r *Report, rule string) {
	p := c.P
	diff := p.Func("", "", "difference")
	sf := p.SSAFunc(diff)
	isEntry := func(t types.Type) bool { return t != nil && isNamed(t, p.pkgPath("iface"), "IPFSLogEntry") }
	allowed := map[string]bool{"GetLogID": true, "GetHash": true, "GetNext": true}
	// a first-party helper handed the entry is fine when it, too, looks at nothing but the identity
	readsIdentityOnly := func(g *ssa.Function) bool {
		if g.Blocks == nil {
			return false
		}
		ok := true
		allInstrs(g, true, func(ins ssa.Instruction) {
			cc, isCall := ins.(*ssa.Call)
			if !isCall {
				return
			}
			if cc.Call.IsInvoke() {
				if isEntry(cc.Call.Value.Type()) && !allowed[cc.Call.Method.Name()] {
					ok = false
				}
				return
			}
			for _, a := range cc.Call.Args {
				if isEntry(a.Type()) {
					ok = false // handed on once more: not followed
				}
			}
		})
		return ok
	}
	n := 0
	allInstrs(sf, false, func(ins ssa.Instruction) {
		call, ok := ins.(*ssa.Call)
		if !ok {
			return
		}
		collects := false
		if call.Call.IsInvoke() && call.Call.Method.Name() == "Set" && len(call.Call.Args) == 2 && isEntry(call.Call.Args[1].Type()) {
			collects = true // an entry is put into the result
		}
		if b, ok := call.Call.Value.(*ssa.Builtin); ok && b.Name() == "append" {
			collects = true // a hash is put on the stack of the walk
		}
		if !collects {
			return
		}
		n++
		bad := ""
		var badPos token.Pos
		for _, cnd := range controlConds(call.Block()) {
			for x := range backSlice(cnd, nil) {
				cc, ok := x.(*ssa.Call)
				if !ok || x.Parent() != sf {
					continue
				}
				switch {
				case cc.Call.IsInvoke() && isEntry(cc.Call.Value.Type()) && !allowed[cc.Call.Method.Name()]:
					bad, badPos = cc.Call.Method.Name()+"() of the entry", cc.Pos()
				case !cc.Call.IsInvoke():
					if cal := cc.Call.StaticCallee(); cal != nil {
						takesEntry := false
						for _, a := range cc.Call.Args {
							if isEntry(a.Type()) {
								takesEntry = true
							}
						}
						if takesEntry && !readsIdentityOnly(cal) {
							bad, badPos = cal.Name()+"(entry)", cc.Pos()
						}
					}
				}
			}
		}
		r.Check(bad == "", rule, r.Key(rule, diff, "candidate-test", ""), badPosOr(badPos, call.Pos()),
			"the step that takes an entry (or follows a link) is controlled only by what the destination holds and the log id",
			fmt.Sprintf("the walk that computes the entries to merge takes an entry, or follows its links, only if %s says so (%s): an entry its writer accepted is skipped by the replicas that merge it, with everything only reachable through it — the merge still succeeds and the replicas never converge", bad, p.Pos(badPos)))
	})
	r.Floor(rule, "collecting steps of the candidate walk", n, 2)
}

// fetchOptionsFromFetchOptions: what a constructor tells its loader about the walk (how many entries, in which
// order the surplus is cut, what to leave out) comes from the caller's fetch options. A log option that leaks
// into the fetch options — the log's own sort function as the order in which a limited load is cut — makes the
// load keep other entries than the most recent ones for every log whose order is not the clock order.
func fetchOptionsFromFetchOptions(c *Ctx, r *Report, rule string) {
	p := c.P
	isNamedStruct := func(t types.Type, name string) bool {
		if pt, ok := t.Underlying().(*types.Pointer); ok {
			t = pt.Elem()
		}
		nt := namedOf(t)
		return nt != nil && nt.Obj().Name() == name && p.firstParty(nt.Obj().Pkg())
	}
	n := 0
	for _, fn := range p.Fns {
		if fn.Body == nil || fn.Pkg.PkgPath != p.pkgPath("") {
			continue
		}
		sf := p.SSAFunc(fn)
		if sf == nil {
			continue
		}
		allInstrs(sf, false, func(ins ssa.Instruction) {
			st, ok := ins.(*ssa.Store)
			if !ok {
				return
			}
			f, fa := fieldOf(st.Addr)
			if f == nil || fa == nil || !isNamedStruct(fa.X.Type(), "FetchOptions") {
				return
			}
			if f.Name() == "IO" {
				return // the codec is one setting shared by a log and its loader (R-C18.15 demands that they agree)
			}
			n++
			bad := ""
			for x := range backSlice(st.Val, nil) {
				if g, ga := fieldOf(x); g != nil && ga != nil && isNamedStruct(ga.X.Type(), "LogOptions") {
					bad = g.Name()
				}
			}
			r.Check(bad == "", rule, r.Key(rule, fn, "fetch-option", f.Name()), st.Pos(),
				"the fetch option "+f.Name()+" handed to the loader is not computed from the log's options",
				fmt.Sprintf("%s fills the fetch option %s from the log option %s: the walk and the cut of a limited load follow a setting meant for the log that is being built — with a sort function that is not the clock order the load keeps other entries than the most recent ones, and which ones depends on the arrival order of the blocks", fn.Name, f.Name(), bad))
		})
	}
	r.Floor(rule, "fetch option fields filled by the constructors and loaders", n, 10)
}

// writtenInTheCurrentFormat: the entry constructor stamps the format version itself, with a constant, on every
// path to the pre-sign step: only the current format's writer seals the links, so a version taken from the
// caller's entry writes the links of an entry made under a link key in clear.
func writtenInTheCurrentFormat(c *Ctx, r *Report, rule string) {
	p := c.P
	ce := p.Func("entry", "", "CreateEntryWithIO")
	fl := &Flow{P: p, Fn: ce, Entry: Facts{}}
	fl.Node = func(n ast.Node, f Facts) {
		walkNoLit(n, func(nd ast.Node) bool {
			call, ok := nd.(*ast.CallExpr)
			if !ok {
				return true
			}
			se, ok := ast.Unparen(call.Fun).(*ast.SelectorExpr)
			if !ok {
				return true
			}
			switch se.Sel.Name {
			case "SetV":
				if len(call.Args) == 1 {
					if tv, ok := ce.Pkg.TypesInfo.Types[call.Args[0]]; ok && tv.Value != nil {
						f["v|"+tv.Value.ExactString()] = true
					} else if fixedVersionExpr(p, ce, call.Args[0]) {
						f["v|fixed"] = true
					} else {
						for k := range f {
							if strings.HasPrefix(k, "v|") {
								delete(f, k)
							}
						}
					}
				}
			}
			return true
		})
	}
	fl.Run()
	n := 0
	fl.Visit(func(_ *cfgBlk, nd ast.Node, before Facts) {
		walkNoLit(nd, func(m ast.Node) bool {
			call, ok := m.(*ast.CallExpr)
			if !ok {
				return true
			}
			name := ""
			if se, ok := ast.Unparen(call.Fun).(*ast.SelectorExpr); ok && (se.Sel.Name == "PreSign" || se.Sel.Name == "Sign") {
				name = se.Sel.Name
			} else if cf := p.Callee(ce, call); cf != nil && p.firstParty(cf.Pkg()) {
				// the step moved into a helper of the constructor
				if h := p.ByObj[cf]; h != nil && h.Body != nil {
					walkNoLit(h.Body, func(k ast.Node) bool {
						if c2, ok := k.(*ast.CallExpr); ok {
							if s2, ok := ast.Unparen(c2.Fun).(*ast.SelectorExpr); ok && (s2.Sel.Name == "PreSign" || s2.Sel.Name == "Sign") {
								name = s2.Sel.Name
							}
						}
						return true
					})
				}
			}
			if name == "" {
				return true
			}
			se := &ast.SelectorExpr{Sel: ast.NewIdent(name)}
			n++
			stamped := false
			for k := range before {
				if strings.HasPrefix(k, "v|") {
					stamped = true
				}
			}
			r.Check(stamped, rule, r.Key(rule, ce, "version-stamped", se.Sel.Name), call.Pos(),
				"on every path to "+se.Sel.Name+" the constructor has stamped the entry with a constant format version",
				"on some path to "+se.Sel.Name+" CreateEntryWithIO has not stamped the entry with a constant format version: the version the caller's entry carries decides the block format, and only the current format's writer seals the links — an entry made under a link key with an older version has its predecessors in clear, readable without the key")
			return true
		})
	})
	r.Floor(rule, "pre-sign and sign steps of the entry constructor", n, 1)
}

// dispatcherWaitsBeforeLeaving: the dispatch loop of the fetcher runs "while the queue is not empty", and the queue
// is refilled by the workers; what keeps the loop alive while the queue is momentarily empty and workers are still
// out is the wait at the end of its body. A `continue` in the body goes back to the loop test without that wait:
// when it skips the last queued hash the dispatcher leaves for good and the links the workers bring back are never
// followed.
func dispatcherWaitsBeforeLeaving(c *Ctx, r *Report, rule string) {
	p := c.P
	pq := p.FuncI("entry", "Fetcher", "processQueue")
	n := 0
	walkNoLit(pq.Body, func(nd ast.Node) bool {
		loop, ok := nd.(*ast.ForStmt)
		if !ok {
			return true
		}
		// the dispatch loop: its body spawns the worker and contains the wait
		spawns, waits := false, false
		for _, st := range loop.Body.List {
			if _, ok := st.(*ast.GoStmt); ok {
				spawns = true
			}
			ast.Inspect(st, func(m ast.Node) bool {
				if _, lit := m.(*ast.FuncLit); lit {
					return false
				}
				if call, ok := m.(*ast.CallExpr); ok {
					if se, ok := ast.Unparen(call.Fun).(*ast.SelectorExpr); ok && se.Sel.Name == "Wait" {
						waits = true
					}
					// … or the wait sits in a helper of the fetcher
					if cf := p.Callee(pq, call); cf != nil && p.firstParty(cf.Pkg()) {
						if h := p.ByObj[cf]; h != nil && h.Body != nil {
							walkNoLit(h.Body, func(k ast.Node) bool {
								if c2, ok := k.(*ast.CallExpr); ok {
									if s2, ok := ast.Unparen(c2.Fun).(*ast.SelectorExpr); ok && s2.Sel.Name == "Wait" {
										waits = true
									}
								}
								return true
							})
						}
					}
				}
				return true
			})
		}
		if !spawns || !waits {
			return true
		}
		n++
		var bad *ast.BranchStmt
		walkNoLit(loop.Body, func(m ast.Node) bool {
			if br, ok := m.(*ast.BranchStmt); ok && br.Tok == token.CONTINUE && branchTarget(p, pq, br) == ast.Node(loop) && bad == nil {
				bad = br
			}
			return true
		})
		pos := loop.Pos()
		if bad != nil {
			pos = bad.Pos()
		}
		r.Check(bad == nil, rule, r.Key(rule, pq, "dispatch-loop", ""), pos,
			"every turn of the dispatch loop ends in the wait for queued work or for the last worker",
			"a continue in the dispatch loop goes back to the `queue not empty` test without the wait at the end of the body: when it skips the last queued hash while workers are still out the dispatcher leaves for good, and the links those workers bring back are never followed — the load returns a truncated log without an error")
		return true
	})
	r.Floor(rule, "dispatch loops of the fetcher", n, 1)
}

// fixedVersionExpr: a version that does not come from the entry or the caller — a package-level variable or
// constant, or a call without arguments.
func fixedVersionExpr(p *Prog, fn *Fn, e ast.Expr) bool {
	switch x := ast.Unparen(e).(type) {
	case *ast.Ident:
		if o := p.ObjOf(fn, x); o != nil && o.Parent() == o.Pkg().Scope() {
			return true
		}
	case *ast.SelectorExpr:
		if id, ok := x.X.(*ast.Ident); ok {
			if _, isPkg := p.ObjOf(fn, id).(*types.PkgName); isPkg {
				return true
			}
		}
	case *ast.CallExpr:
		if len(x.Args) == 0 {
			if _, isSel := ast.Unparen(x.Fun).(*ast.SelectorExpr); !isSel {
				return true
			}
		}
		if tv, ok := fn.Pkg.TypesInfo.Types[x.Fun]; ok && tv.IsType() && len(x.Args) == 1 {
			return fixedVersionExpr(p, fn, x.Args[0])
		}
	}
	return false
}

// publishedHeadsAreTheHeadSet: the heads a view publishes (a snapshot, the JSON form, Heads) are the log's head set —
// possibly sorted — and nothing a walk produced: the first k entries of a traversal are the k newest entries, not
// the k heads, as soon as a branch is longer than another.
func publishedHeadsAreTheHeadSet(c *Ctx, r *Report, rule string) {
	p := c.P
	headsF := p.Field("", "IPFSLog", "heads")
	walkers := map[types.Object]bool{}
	for _, nm := range []string{"traverse", "values"} {
		walkers[p.FuncI("", "IPFSLog", nm).Obj] = true
	}
	n := 0
	for _, fn := range p.Fns {
		if fn.Body == nil || fn.Pkg.PkgPath != p.pkgPath("") || fn.Decl == nil || fn.Decl.Recv == nil {
			continue
		}
		sf := p.SSAFunc(fn)
		if sf == nil {
			continue
		}
		var vals []ssa.Value
		var poss []token.Pos
		allInstrs(sf, false, func(ins ssa.Instruction) {
			switch x := ins.(type) {
			case *ssa.Store:
				if f, fa := fieldOf(x.Addr); f != nil && fa != nil && f.Name() == "Heads" {
					if nt := namedOf(fa.X.Type()); nt != nil && (nt.Obj().Name() == "Snapshot" || nt.Obj().Name() == "JSONLog") {
						vals, poss = append(vals, x.Val), append(poss, x.Pos())
					}
				}
			case *ssa.Return:
				if fn.Decl.Name.Name == "Heads" || fn.Decl.Name.Name == "RawHeads" {
					for _, rv := range x.Results {
						vals, poss = append(vals, rv), append(poss, x.Pos())
					}
				}
			}
		})
		for i, v := range vals {
			n++
			fromHeads, walked := false, ""
			for x := range backSlice(v, nil) {
				switch y := x.(type) {
				case *ssa.UnOp:
					if y.Op == token.MUL {
						if f, _ := fieldOf(y.X); f == headsF {
							fromHeads = true
						}
					}
				case *ssa.Call:
					if cal := y.Call.StaticCallee(); cal != nil && walkers[cal.Object()] && y.Parent() == sf {
						walked = cal.Name()
					}
				}
			}
			r.Check(fromHeads && walked == "", rule, r.Key(rule, fn, "published-heads", fmt.Sprint(i)), poss[i],
				"the heads published here are the log's head set, and no walk is on their way",
				fmt.Sprintf("the heads %s publishes come out of %s (or not from the head set at all): the first entries of a walk are the newest entries, not the heads — with branches of unequal length a predecessor of the newest head is listed as a head and a real head is dropped", fn.Name, walked))
		}
	}
	r.Floor(rule, "places where a view publishes the heads", n, 3)
}

// comparisonsAreStateless: the closures Sort hands to the sorting routine answer from their two arguments and the
// ordering function alone. A variable that one comparison sets and a later one tests makes the answer depend on
// which comparisons came before — the output is then no longer sorted by the ordering, and depends on the input
// order.
func comparisonsAreStateless(c *Ctx, r *Report, rule string) {
	p := c.P
	n := 0
	for _, fn := range p.Fns {
		if fn.Body == nil || fn.Pkg.PkgPath != p.pkgPath("entry/sorting") || fn.Decl == nil {
			continue
		}
		fn := fn
		var lits []*ast.FuncLit
		ast.Inspect(fn.Body, func(nd ast.Node) bool {
			if fl, ok := nd.(*ast.FuncLit); ok {
				lits = append(lits, fl)
			}
			return true
		})
		if len(lits) == 0 {
			continue
		}
		declaredIn := func(o types.Object, fl *ast.FuncLit) bool {
			return o.Pos() >= fl.Pos() && o.Pos() <= fl.End()
		}
		// variables of the enclosing function that some closure assigns
		written := map[types.Object]token.Pos{}
		for _, fl := range lits {
			ast.Inspect(fl.Body, func(nd ast.Node) bool {
				if as, ok := nd.(*ast.AssignStmt); ok {
					for _, l := range as.Lhs {
						if id, ok := ast.Unparen(l).(*ast.Ident); ok {
							if o := p.ObjOf(fn, id); o != nil && !declaredIn(o, fl) {
								if _, isVar := o.(*types.Var); isVar && o.Parent() != o.Pkg().Scope() {
									written[o] = as.Pos()
								}
							}
						}
					}
				}
				return true
			})
		}
		for _, fl := range lits {
			n++
			var bad types.Object
			var badPos token.Pos
			ast.Inspect(fl.Body, func(nd ast.Node) bool {
				var cond ast.Expr
				switch x := nd.(type) {
				case *ast.IfStmt:
					cond = x.Cond
				case *ast.SwitchStmt:
					cond = x.Tag
				case *ast.ForStmt:
					cond = x.Cond
				}
				if cond == nil {
					return true
				}
				ast.Inspect(cond, func(m ast.Node) bool {
					if id, ok := m.(*ast.Ident); ok {
						if o := p.ObjOf(fn, id); o != nil {
							if _, w := written[o]; w && bad == nil {
								bad, badPos = o, id.Pos()
							}
						}
					}
					return true
				})
				return true
			})
			name := ""
			if bad != nil {
				name = bad.Name()
			}
			r.Check(bad == nil, rule, r.Key(rule, fn, "stateless-comparison", fmt.Sprint(len(lits))), badPosOr(badPos, fl.Pos()),
				"the closure tests no variable that a comparison sets",
				fmt.Sprintf("a closure of %s tests %s, which a comparison sets: what one comparison answers depends on the comparisons before it — after the first failing pair the rest of the list is left as it came, so the output is not sorted by the ordering and depends on the input order", fn.Name, name))
		}
	}
	r.Floor(rule, "closures of the sorting package", n, 2)
}

// identifiersComeFromAWrite: every function that hands out the identifier of an entry or of a manifest has put the
// block into the store on the way — an identifier computed without the write names a block that this store may not
// hold (a replica with its own store that persists what it received then appends on top of blocks it never wrote).
func identifiersComeFromAWrite(c *Ctx, r *Report, rule string) {
	p := c.P
	stores := func(f *types.Func) bool {
		if f.Pkg() == nil || p.firstParty(f.Pkg()) {
			return false
		}
		sig := f.Type().(*types.Signature)
		return sig.Recv() != nil && (f.Name() == "Add" || f.Name() == "AddMany") && strings.Contains(f.Pkg().Path(), "ipld")
	}
	n := 0
	for _, t := range []struct{ pkg, recv, name string }{{"entry", "Entry", "ToMultihash"}, {"entry", "", "ToMultihashWithIO"}, {"", "IPFSLog", "ToMultihash"}, {"", "", "toMultihash"}} {
		fn := p.FuncI(t.pkg, t.recv, t.name)
		n++
		fl := &Flow{P: p, Fn: fn, Entry: Facts{}}
		mark := func(nd ast.Node, f Facts) {
			walkNoLit(nd, func(m ast.Node) bool {
				if call, ok := m.(*ast.CallExpr); ok && c.CallReaches(fn, call, stores) {
					f["written"] = true
				}
				return true
			})
		}
		fl.Node = mark
		fl.Run()
		fl.Exits(func(_ *cfgBlk, ret *ast.ReturnStmt, at Facts) {
			if ret == nil || len(ret.Results) == 0 {
				return
			}
			if se, ok := ast.Unparen(ret.Results[0]).(*ast.SelectorExpr); ok && se.Sel.Name == "Undef" {
				return // a refusal
			}
			here := Facts{}
			for k := range at {
				here[k] = true
			}
			mark(ret, here)
			r.Check(here["written"], rule, r.Key(rule, fn, "identifier-from-write", ""), ret.Pos(),
				"the identifier handed out here comes after a call that reaches the block store's Add",
				fmt.Sprintf("%s can hand out an identifier without having put the block into the store: a replica that persists the entries it received through it, and then appends, leaves its store with an entry block whose predecessors are missing — the head hash it returns does not load from that store", fn.Name))
		})
	}
	r.Floor(rule, "functions that hand out identifiers", n, 4)
}

// noCallerFunctionUnderTheLock: while a method of the log holds the log's lock it calls no function value it was
// handed as a parameter. Such a value is the caller's code — in a merge, a method value of the other log (its Has,
// its Get), which takes that log's lock inside this one's: two merges in opposite directions nest the two locks in
// opposite orders, and with a writer queued on each both hang.
func noCallerFunctionUnderTheLock(c *Ctx, r *Report, rule string) {
	p := c.P
	lockF := p.Field("", "IPFSLog", "lock")
	nParams, nMethods := 0, 0
	for _, fn := range p.Fns {
		if fn.Body == nil || fn.Decl == nil || fn.Decl.Recv == nil || fn.Pkg.PkgPath != p.pkgPath("") {
			continue
		}
		fn := fn
		funcParams := map[types.Object]bool{}
		sig, _ := fn.Obj.Type().(*types.Signature)
		if sig == nil {
			continue
		}
		for i := 0; i < sig.Params().Len(); i++ {
			if _, isFn := sig.Params().At(i).Type().Underlying().(*types.Signature); isFn {
				funcParams[paramObjAny(fn, i)] = true
			}
		}
		if len(funcParams) == 0 {
			continue
		}
		nMethods++
		nParams += len(funcParams)
		lockOp := func(call *ast.CallExpr) string {
			se, ok := ast.Unparen(call.Fun).(*ast.SelectorExpr)
			if !ok {
				return ""
			}
			if v, _ := p.FieldSel(fn, se.X); v != lockF {
				return ""
			}
			return se.Sel.Name
		}
		fl := &Flow{P: p, Fn: fn, May: true, Entry: Facts{}}
		fl.Node = func(nd ast.Node, f Facts) {
			walkNoLit(nd, func(m ast.Node) bool {
				if call, ok := m.(*ast.CallExpr); ok {
					switch lockOp(call) {
					case "Lock", "RLock":
						f["held"] = true
					case "Unlock", "RUnlock":
						delete(f, "held")
					}
				}
				return true
			})
		}
		fl.Run()
		fl.Visit(func(_ *cfgBlk, nd ast.Node, before Facts) {
			if !before["held"] {
				return
			}
			walkNoLit(nd, func(m ast.Node) bool {
				call, ok := m.(*ast.CallExpr)
				if !ok {
					return true
				}
				if id, ok := ast.Unparen(call.Fun).(*ast.Ident); ok && funcParams[p.ObjOf(fn, id)] {
					if !fn.Decl.Name.IsExported() && onlyLiteralsHandedIn(p, fn, p.ObjOf(fn, id)) {
						return true // a lock wrapper of the package: what it runs is written out at its call sites
					}
					r.Violate(rule, r.Key(rule, fn, "caller-function-under-lock", id.Name), call.Pos(),
						fmt.Sprintf("%s calls %s, a function it was handed, while it holds the log's lock: when that function is a method of another log it takes that log's lock inside this one's — two merges in opposite directions nest the two locks in opposite orders, and with a writer queued on each log both merges and both writers hang", fn.Name, id.Name))
				}
				return true
			})
		})
	}
	r.Hold(rule, r.Key(rule, nil, "examined", ""), token.NoPos, true, fmt.Sprintf("%d function parameters of %d methods of the root package examined: none is called while the log's lock is held", nParams, nMethods))
	r.Floor(rule, "methods of the root package that take a function", nMethods, 1)
}

// onlyLiteralsHandedIn: every call of the unexported function fn in the module hands a function literal in for the
// parameter par (and there is at least one call).
func onlyLiteralsHandedIn(p *Prog, fn *Fn, par types.Object) bool {
	idx := -1
	sig := fn.Obj.Type().(*types.Signature)
	for i := 0; i < sig.Params().Len(); i++ {
		if paramObjAny(fn, i) == par {
			idx = i
		}
	}
	if idx < 0 {
		return false
	}
	sites, ok := 0, true
	for _, g := range p.Fns {
		if g.Body == nil {
			continue
		}
		g := g
		ast.Inspect(g.Body, func(n ast.Node) bool {
			call, isCall := n.(*ast.CallExpr)
			if !isCall {
				return true
			}
			if cf := p.Callee(g, call); cf == nil || cf != fn.Obj {
				return true
			}
			sites++
			if idx >= len(call.Args) {
				ok = false
				return true
			}
			if _, lit := ast.Unparen(call.Args[idx]).(*ast.FuncLit); !lit {
				ok = false
			}
			return true
		})
	}
	return ok && sites > 0
}

// referencesSkipThePredecessors: every identifier that Append puts into the skip references of the new entry got
// there under a test against the predecessors it is about to name: an addition to the reference list that is not
// controlled by a comparison with the predecessor list can put a head into both lists.
func referencesSkipThePredecessors(c *Ctx, r *Report, rule string) {
	p := c.P
	app := orig(p.FuncI("", "IPFSLog", "Append")) // the function as declared: a helper is followed explicitly below
	// the locals handed to the entry literal as Next and Refs
	var refsObj, nextObj types.Object
	walkNoLit(app.Body, func(n ast.Node) bool {
		if kv, ok := n.(*ast.KeyValueExpr); ok {
			if k, ok := kv.Key.(*ast.Ident); ok {
				if v, ok := ast.Unparen(kv.Value).(*ast.Ident); ok {
					if cl, ok := p.parent[kv].(*ast.CompositeLit); ok && isNamed(p.TypeOf(app, cl), p.pkgPath("entry"), "Entry") {
						switch k.Name {
						case "Refs":
							refsObj = p.ObjOf(app, v)
						case "Next":
							nextObj = p.ObjOf(app, v)
						}
					}
				}
			}
		}
		return true
	})
	if refsObj == nil || nextObj == nil {
		r.Undecided(rule, r.Key(rule, app, "refs-filter", ""), app.Body.Pos(), "Append does not hand locals to the Next and Refs of the new entry")
		return
	}
	// both lists computed by one helper (`next, refs := nextAndRefs(...)`): the rule moves into the helper
	walkNoLit(app.Body, func(n ast.Node) bool {
		as, ok := n.(*ast.AssignStmt)
		if !ok || len(as.Rhs) != 1 || len(as.Lhs) < 2 {
			return true
		}
		call, ok := ast.Unparen(as.Rhs[0]).(*ast.CallExpr)
		if !ok {
			return true
		}
		ri, ni := -1, -1
		for i, l := range as.Lhs {
			if id, ok := ast.Unparen(l).(*ast.Ident); ok {
				switch p.ObjOf(app, id) {
				case refsObj:
					ri = i
				case nextObj:
					ni = i
				}
			}
		}
		if ri < 0 || ni < 0 {
			return true
		}
		cf := p.Callee(app, call)
		if cf == nil || !p.firstParty(cf.Pkg()) {
			return true
		}
		h := p.ByObj[cf]
		if h == nil || h.Body == nil {
			return true
		}
		walkNoLit(h.Body, func(m ast.Node) bool {
			if ret, ok := m.(*ast.ReturnStmt); ok && len(ret.Results) == len(as.Lhs) {
				rid, ok1 := ast.Unparen(ret.Results[ri]).(*ast.Ident)
				nid, ok2 := ast.Unparen(ret.Results[ni]).(*ast.Ident)
				if ok1 && ok2 {
					app, refsObj, nextObj = h, p.ObjOf(h, rid), p.ObjOf(h, nid)
				}
			}
			return true
		})
		return true
	})
	mentions := func(n ast.Node, o types.Object) bool {
		found := false
		ast.Inspect(n, func(m ast.Node) bool {
			if id, ok := m.(*ast.Ident); ok && p.ObjOf(app, id) == o {
				found = true
			}
			return true
		})
		return found
	}
	n := 0
	walkNoLit(app.Body, func(nd ast.Node) bool {
		as, ok := nd.(*ast.AssignStmt)
		if !ok || len(as.Lhs) != 1 || len(as.Rhs) != 1 {
			return true
		}
		id, ok := ast.Unparen(as.Lhs[0]).(*ast.Ident)
		if !ok || p.ObjOf(app, id) != refsObj {
			return true
		}
		call, ok := ast.Unparen(as.Rhs[0]).(*ast.CallExpr)
		if !ok || p.Builtin(app, call) != "append" {
			return true
		}
		n++
		// guarded: an enclosing condition names the predecessor list, or tests a flag that a comparison loop over the
		// predecessor list (inside the same enclosing loop) sets
		guarded := false
		for cur := p.parent[ast.Node(as)]; cur != nil && cur != ast.Node(app.Body); cur = p.parent[cur] {
			ifs, ok := cur.(*ast.IfStmt)
			if !ok {
				continue
			}
			if mentions(ifs.Cond, nextObj) {
				guarded = true
			}
			// flags of the condition
			ast.Inspect(ifs.Cond, func(m ast.Node) bool {
				fid, ok := m.(*ast.Ident)
				if !ok {
					return true
				}
				flag := p.ObjOf(app, fid)
				if flag == nil {
					return true
				}
				for _, lp := range enclosingLoops(p, app, as) {
					ast.Inspect(lp, func(k ast.Node) bool {
						if rs, ok := k.(*ast.RangeStmt); ok && mentions(rs.X, nextObj) {
							setsFlag, compares := false, false
							ast.Inspect(rs.Body, func(q ast.Node) bool {
								switch y := q.(type) {
								case *ast.AssignStmt:
									for _, l := range y.Lhs {
										if li, ok := ast.Unparen(l).(*ast.Ident); ok && p.ObjOf(app, li) == flag {
											setsFlag = true
										}
									}
								case *ast.CallExpr:
									if se, ok := ast.Unparen(y.Fun).(*ast.SelectorExpr); ok && se.Sel.Name == "Equals" {
										compares = true
									}
								case *ast.BinaryExpr:
									if y.Op == token.EQL || y.Op == token.NEQ {
										compares = true
									}
								}
								return true
							})
							if setsFlag && compares {
								guarded = true
							}
						}
						return true
					})
				}
				return true
			})
		}
		r.Check(guarded, rule, r.Key(rule, app, "refs-filter", ""), as.Pos(),
			"this addition to the skip references is made under a test against the predecessor list",
			"Append adds an identifier to the skip references of the new entry outside the test against the predecessors it names: when the walk's last entry is a head — a short branch beside a long one — the entry lists it both as predecessor and as reference")
		return true
	})
	r.Floor(rule, "additions to the skip references in Append", n, 1)
}

// lengthTestsAreSignTests: "no limit" is any negative length, at every place that asks. A test for one particular
// negative value at one of them makes a load that another place treats as unlimited follow the bounded rules with a
// negative bound there.
func lengthTestsAreSignTests(c *Ctx, r *Report, rule string) {
	p := c.P
	nSign := 0
	for _, fn := range p.Fns {
		if fn.Body == nil || !(fn.Pkg.PkgPath == p.pkgPath("entry") || fn.Pkg.PkgPath == p.pkgPath("")) {
			continue
		}
		fn := fn
		isLength := func(e ast.Expr) bool {
			e = ast.Unparen(e)
			if st, ok := e.(*ast.StarExpr); ok {
				e = ast.Unparen(st.X)
			}
			if v, _ := p.FieldSel(fn, e); v != nil && strings.EqualFold(v.Name(), "length") {
				return true
			}
			return false
		}
		walkNoLit(fn.Body, func(n ast.Node) bool {
			be, ok := n.(*ast.BinaryExpr)
			if !ok {
				return true
			}
			for _, pr := range [][2]ast.Expr{{be.X, be.Y}, {be.Y, be.X}} {
				if !isLength(pr[0]) {
					continue
				}
				tv, ok := fn.Pkg.TypesInfo.Types[pr[1]]
				if !ok || tv.Value == nil {
					continue
				}
				v, exact := constant.Int64Val(constant.ToInt(tv.Value))
				if !exact {
					continue
				}
				switch be.Op {
				case token.EQL, token.NEQ:
					r.Check(v >= 0, rule, r.Key(rule, fn, "length-test", types.ExprString(be)), be.Pos(),
						"the length is compared for equality with a non-negative value",
						fmt.Sprintf("`%s` in %s singles out one negative length: every negative length means no limit where the loaders and the dispatcher ask — a load with another negative length is unlimited for them and bounded, with a negative bound, here, and returns only the heads and their direct predecessors", types.ExprString(be), fn.Name))
				default:
					if v == 0 || v == -1 {
						nSign++
					}
				}
			}
			return true
		})
	}
	r.Hold(rule, r.Key(rule, nil, "sign-tests", ""), token.NoPos, true, fmt.Sprintf("%d comparisons of a fetch length with 0 or -1 are order comparisons (sign tests)", nSign))
	r.Floor(rule, "sign tests of a fetch length", nSign, 2)
}

// latestClockOnlyOrdersTheQueue: the latest clock time the fetcher has seen is a priority for its queue, not a
// criterion: no branch of the fetcher (outside the bookkeeping that maintains it) depends on it. "Too far behind
// the latest clock to be among the last n" presumes an entry for every clock tick, which a refused append — the
// clock advances before the access controller is asked — already breaks: a limited load then returns too few
// entries.
func latestClockOnlyOrdersTheQueue(c *Ctx, r *Report, rule string) {
	p := c.P
	maxF := p.Field("entry", "Fetcher", "maxClock")
	n := 0
	for _, fn := range p.Fns {
		if fn.Body == nil || fn.Decl == nil || fn.Decl.Recv == nil || fn.Pkg.PkgPath != p.pkgPath("entry") {
			continue
		}
		if nt := namedOf(p.TypeOf(fn, fn.Decl.Recv.List[0].Type)); nt == nil || nt.Obj().Name() != "Fetcher" {
			continue
		}
		if fn.Decl.Name.Name == "updateClock" {
			continue // the bookkeeping itself
		}
		sf := p.SSAFunc(fn)
		if sf == nil {
			continue
		}
		allInstrs(sf, true, func(ins ssa.Instruction) {
			iff, ok := ins.(*ssa.If)
			if !ok {
				return
			}
			n++
			bad := false
			for x := range backSlice(iff.Cond, nil) {
				if u, ok := x.(*ssa.UnOp); ok && u.Op == token.MUL {
					if f, _ := fieldOf(u.X); f == maxF {
						bad = true
					}
				}
			}
			pos := iff.Cond.Pos()
			if !pos.IsValid() {
				pos = fn.Decl.Pos()
			}
			if bad {
				r.Violate(rule, r.Key(rule, fn, "branch-on-latest-clock", ""), pos,
					fmt.Sprintf("a branch of %s depends on the latest clock time seen: an entry is refused a place in the result, or its links are not followed, because it lies too far behind that time — that presumes an entry for every clock tick, which one refused append breaks; a limited load then returns fewer entries than asked for and than there are", fn.Name))
			}
		})
	}
	r.Hold(rule, r.Key(rule, nil, "examined", ""), token.NoPos, true, fmt.Sprintf("%d branches of the fetcher examined", n))
	r.Floor(rule, "branches of the fetcher", n, 10)
}

// workerSlotsArePositive: the number of slots of the semaphore that bounds the fetch workers is known to be positive
// where the semaphore is made — a test that implies it, or a positive default, on every path. A semaphore of weight
// zero or less never grants a slot: the dispatcher's first acquisition blocks until the deadline and the load comes
// back empty, with no error (or never, without a deadline).
func workerSlotsArePositive(c *Ctx, r *Report, rule string) {
	p := c.P
	n := 0
	keyIn := func(fn *Fn, e ast.Expr) string {
		e = ast.Unparen(e)
		for {
			cv, ok := e.(*ast.CallExpr)
			if !ok || len(cv.Args) != 1 {
				break
			}
			if tv, ok := fn.Pkg.TypesInfo.Types[cv.Fun]; !ok || !tv.IsType() {
				break
			}
			e = ast.Unparen(cv.Args[0]) // a conversion
		}
		if _, k, ok := p.PathKey(fn, e); ok {
			return k
		}
		return ""
	}
	// posFlow: must-facts "pos|<path>" — the integer at that path is positive. Helpers that fill defaults into the
	// structure they are handed are summarised by what holds at all their exits (one level).
	var posFlow func(fn *Fn, depth int) *Flow
	posFlow = func(fn *Fn, depth int) *Flow {
		keyOf := func(e ast.Expr) string { return keyIn(fn, e) }
		fl := &Flow{P: p, Fn: fn, Entry: Facts{}}
		fl.Edge = func(cond ast.Expr, taken bool, f Facts) {
			for _, a := range splitCond(cond, taken) {
				var subj ast.Expr
				nc, ok := p.normalizeCmp(fn, a, func(e ast.Expr) bool {
					if keyOf(e) != "" {
						subj = e
						return true
					}
					return false
				})
				if ok && subj != nil && nc.impliesPositive() {
					f["pos|"+keyOf(subj)] = true
				}
			}
		}
		fl.Node = func(nd ast.Node, f Facts) {
			walkNoLit(nd, func(m ast.Node) bool {
				switch x := m.(type) {
				case *ast.AssignStmt:
					for i, l := range x.Lhs {
						k := keyOf(l)
						if k == "" {
							continue
						}
						delete(f, "pos|"+k)
						if len(x.Rhs) == len(x.Lhs) {
							if v, ok := p.constInt(fn, x.Rhs[i]); ok && v > 0 {
								f["pos|"+k] = true
							} else if rk := keyOf(x.Rhs[i]); rk != "" && f["pos|"+rk] {
								f["pos|"+k] = true
							}
						}
					}
				case *ast.ValueSpec:
					for i, nm := range x.Names {
						if i < len(x.Values) {
							if v, ok := p.constInt(fn, x.Values[i]); ok && v > 0 {
								f["pos|"+keyOf(nm)] = true
							}
						}
					}
				case *ast.CallExpr:
					if depth >= 1 {
						return true
					}
					cf := p.Callee(fn, x)
					if cf == nil || !p.firstParty(cf.Pkg()) {
						return true
					}
					h := p.ByObj[cf]
					if h == nil || h.Body == nil || h == fn {
						return true
					}
					var atExits Facts
					hf := posFlow(h, depth+1)
					hf.Run()
					hf.Exits(func(_ *cfgBlk, _ *ast.ReturnStmt, at Facts) {
						if atExits == nil {
							atExits = at.Clone()
							return
						}
						for k := range atExits {
							if !at[k] {
								delete(atExits, k)
							}
						}
					})
					for i, a := range x.Args {
						ak := keyOf(a)
						par := paramObjAny(h, i)
						if ak == "" || par == nil {
							continue
						}
						pk := "pos|" + p.ID(par) + "."
						for k := range atExits {
							if strings.HasPrefix(k, pk) {
								f["pos|"+ak+"."+strings.TrimPrefix(k, pk)] = true
							}
						}
					}
				}
				return true
			})
		}
		return fl
	}
	for _, fn := range p.Fns {
		if fn.Body == nil || fn.Pkg.PkgPath != p.pkgPath("entry") {
			continue
		}
		fn := fn
		var sites []*ast.CallExpr
		walkNoLit(fn.Body, func(nd ast.Node) bool {
			if call, ok := nd.(*ast.CallExpr); ok {
				if cf := p.Callee(fn, call); cf != nil && cf.Name() == "NewWeighted" && cf.Pkg() != nil && strings.HasSuffix(cf.Pkg().Path(), "sync/semaphore") {
					sites = append(sites, call)
				}
			}
			return true
		})
		if len(sites) == 0 {
			continue
		}
		fl := posFlow(fn, 0)
		fl.Run()
		fl.Visit(func(_ *cfgBlk, nd ast.Node, before Facts) {
			walkNoLit(nd, func(m ast.Node) bool {
				call, ok := m.(*ast.CallExpr)
				if !ok {
					return true
				}
				for _, s := range sites {
					if s != call || len(call.Args) != 1 {
						continue
					}
					n++
					k := keyIn(fn, call.Args[0])
					v, isConst := p.constInt(fn, call.Args[0])
					r.Check((isConst && v > 0) || (k != "" && before["pos|"+k]), rule, r.Key(rule, fn, "slots-positive", ""), call.Pos(),
						"the weight of the worker semaphore is known to be positive here",
						fmt.Sprintf("%s makes the worker semaphore with a weight that is not known to be positive (`%s`): with a concurrency of -1 — 'no limit' everywhere else in the options — no slot is ever granted, the dispatcher waits for the deadline and every loader comes back empty without an error, or never", fn.Name, types.ExprString(call.Args[0])))
				}
				return true
			})
		})
	}
	r.Floor(rule, "worker semaphores", n, 1)
}

// fetchLengthIsNotReduced: the length a loader hands to the fetcher is the requested one, or larger — never the
// result of a subtraction. "What is left once the entries the caller holds are counted" is wrong as soon as one of
// those entries lies in the past of another: the fetcher meets it again, counts it, and the load comes back short.
func fetchLengthIsNotReduced(c *Ctx, r *Report, rule string) {
	p := c.P
	n := 0
	for _, fn := range p.Fns {
		if fn.Body == nil || fn.Pkg.PkgPath != p.pkgPath("") {
			continue
		}
		sf := p.SSAFunc(fn)
		if sf == nil {
			continue
		}
		allInstrs(sf, false, func(ins ssa.Instruction) {
			st, ok := ins.(*ssa.Store)
			if !ok {
				return
			}
			f, fa := fieldOf(st.Addr)
			if f == nil || fa == nil || f.Name() != "Length" {
				return
			}
			if nt := namedOf(derefType(fa.X.Type())); nt == nil || nt.Obj().Name() != "FetchOptions" {
				return
			}
			n++
			// the value is a pointer: what is stored through it in this function counts as well
			vals := []ssa.Value{st.Val}
			if al, ok := st.Val.(*ssa.Alloc); ok {
				allInstrs(sf, false, func(i2 ssa.Instruction) {
					if s2, ok := i2.(*ssa.Store); ok && s2.Addr == ssa.Value(al) {
						vals = append(vals, s2.Val)
					}
				})
			}
			var bad *ssa.BinOp
			for _, v := range vals {
				for x := range backSlice(v, nil) {
					if b, ok := x.(*ssa.BinOp); ok && b.Op == token.SUB && b.Parent() == sf {
						bad = b
					}
				}
			}
			pos := st.Pos()
			if bad != nil && bad.Pos().IsValid() {
				pos = bad.Pos()
			}
			r.Check(bad == nil, rule, r.Key(rule, fn, "fetch-length", ""), pos,
				"the length handed to the fetcher is not the result of a subtraction",
				fmt.Sprintf("%s hands the fetcher a length it reduced by a subtraction: the fetcher counts every entry it meets against it, also one the caller already holds when that entry lies in the past of another — the load returns fewer entries than min(max(n, k), size)", fn.Name))
		})
	}
	r.Floor(rule, "fetch lengths handed on by the constructors and loaders", n, 4)
}

func derefType(t types.Type) types.Type {
	if pt, ok := t.Underlying().(*types.Pointer); ok {
		return pt.Elem()
	}
	return t
}

// liveIndexesAreReadUnderTheLock: the entry index and the predecessor index of a log are edited in place by the
// writers, so whoever reads them — also through a local that was loaded from the field while the lock was held —
// does so while the log's lock is held. A copy taken after the unlock runs beside Append's insertions: the map's own
// read lock is taken recursively by its accessors, a writer that queues up between two of those acquisitions blocks
// the reader and is blocked by it, and it still holds the log's lock.
func liveIndexesAreReadUnderTheLock(c *Ctx, r *Report, rule string) {
	p := c.P
	lockF := p.Field("", "IPFSLog", "lock")
	live := map[*types.Var]bool{p.Field("", "IPFSLog", "Entries"): true, p.Field("", "IPFSLog", "Next"): true}
	n := 0
	for _, fn := range p.Fns {
		if fn.Body == nil || fn.Decl == nil || fn.Decl.Recv == nil || fn.Pkg.PkgPath != p.pkgPath("") {
			continue
		}
		fn := fn
		lockOp := func(call *ast.CallExpr) string {
			se, ok := ast.Unparen(call.Fun).(*ast.SelectorExpr)
			if !ok {
				return ""
			}
			if v, _ := p.FieldSel(fn, se.X); v != lockF {
				return ""
			}
			return se.Sel.Name
		}
		locks := false
		walkNoLit(fn.Body, func(nd ast.Node) bool {
			if call, ok := nd.(*ast.CallExpr); ok && (lockOp(call) == "Lock" || lockOp(call) == "RLock") {
				locks = true
			}
			return true
		})
		if !locks {
			continue // runs under its caller's lock: the lock engine's business
		}
		// locals loaded from a live index
		alias := map[types.Object]string{}
		walkNoLit(fn.Body, func(nd ast.Node) bool {
			as, ok := nd.(*ast.AssignStmt)
			if !ok || len(as.Lhs) != len(as.Rhs) {
				return true
			}
			for i, rh := range as.Rhs {
				if v, _ := p.FieldSel(fn, rh); v != nil && live[v] {
					if id, ok := ast.Unparen(as.Lhs[i]).(*ast.Ident); ok {
						if o := p.ObjOf(fn, id); o != nil {
							alias[o] = v.Name()
						}
					}
				}
			}
			return true
		})
		fl := &Flow{P: p, Fn: fn, Entry: Facts{}}
		fl.Node = func(nd ast.Node, f Facts) {
			walkNoLit(nd, func(m ast.Node) bool {
				if call, ok := m.(*ast.CallExpr); ok {
					switch lockOp(call) {
					case "Lock", "RLock":
						f["held"] = true
					case "Unlock", "RUnlock":
						delete(f, "held")
					}
				}
				return true
			})
		}
		fl.Run()
		fl.Visit(func(_ *cfgBlk, nd ast.Node, before Facts) {
			walkNoLit(nd, func(m ast.Node) bool {
				call, ok := m.(*ast.CallExpr)
				if !ok {
					return true
				}
				se, ok := ast.Unparen(call.Fun).(*ast.SelectorExpr)
				if !ok {
					return true
				}
				what := ""
				if v, _ := p.FieldSel(fn, se.X); v != nil && live[v] {
					what = v.Name()
				} else if id, ok := ast.Unparen(se.X).(*ast.Ident); ok {
					what = alias[p.ObjOf(fn, id)]
				}
				if what == "" {
					return true
				}
				n++
				r.Check(before["held"], rule, r.Key(rule, fn, "live-index-read", what+"."+se.Sel.Name), call.Pos(),
					"the live "+what+" index is used here while the log's lock is held",
					fmt.Sprintf("%s calls %s on the log's live %s index on a path on which the log's lock is not held: the index is edited in place by Append and Join, and its accessors take its own read lock recursively — a writer that queues up in between blocks the reader and is blocked by it while it holds the log's lock, and every later operation on the log hangs", fn.Name, se.Sel.Name, what))
				return true
			})
		})
	}
	r.Floor(rule, "uses of the live indexes in the locking methods of the log", n, 5)
}

// predecessorListNotCut: in Append as declared, the local handed to the new entry as Next is never resliced with a
// bound — every head gathered into it stays in it (rule id is a parameter).
func predecessorListNotCut(c *Ctx, r *Report, rule string) {
	p := c.P
	app := orig(p.FuncI("", "IPFSLog", "Append"))
	var nextObj types.Object
	walkNoLit(app.Body, func(n ast.Node) bool {
		if kv, ok := n.(*ast.KeyValueExpr); ok {
			if k, ok := kv.Key.(*ast.Ident); ok && k.Name == "Next" {
				if v, ok := ast.Unparen(kv.Value).(*ast.Ident); ok {
					if cl, ok := p.parent[kv].(*ast.CompositeLit); ok && isNamed(p.TypeOf(app, cl), p.pkgPath("entry"), "Entry") {
						nextObj = p.ObjOf(app, v)
					}
				}
			}
		}
		return true
	})
	if nextObj == nil {
		return // R-C04.12 reports the shape it cannot read
	}
	nas := 0
	walkNoLit(app.Body, func(n ast.Node) bool {
		as, ok := n.(*ast.AssignStmt)
		if !ok {
			return true
		}
		for i, l := range as.Lhs {
			id, ok := ast.Unparen(l).(*ast.Ident)
			if !ok || p.ObjOf(app, id) != nextObj {
				continue
			}
			nas++
			var rhs ast.Expr
			if len(as.Rhs) == len(as.Lhs) {
				rhs = as.Rhs[i]
			} else if len(as.Rhs) == 1 {
				rhs = as.Rhs[0]
			}
			cut := false
			if rhs != nil {
				ast.Inspect(rhs, func(m ast.Node) bool {
					if se, ok := m.(*ast.SliceExpr); ok && (se.Low != nil || se.High != nil) {
						if x, ok := ast.Unparen(se.X).(*ast.Ident); ok && p.ObjOf(app, x) == nextObj {
							cut = true
						}
					}
					return !cut
				})
			}
			r.Check(!cut, rule, r.Key(rule, app, "next-assigned", ""), as.Pos(),
				"the predecessor list of the new entry is only added to",
				"the list handed to the new entry as Next is cut to a part of itself: with more heads than the bound, the heads left out are not named as predecessors — the entry does not dominate them, and since it becomes the single head their branches drop out of every later view")
		}
		return true
	})
	r.Floor(rule, "assignments to the new entry's predecessor list", nas, 1)
}
