package main

// c13.go — rules R-C13.* (lock discipline of one log), R-C14.1 (no foreign log lock while holding one)
// and the lock-related parts of C11, all on top of the E2 engine.

import (
	"fmt"
	"go/ast"
	"go/token"
	"go/types"
	"sort"
	"strings"
)

type lockCtx struct {
	le        *LockEngine
	mutByType map[string]map[string]bool
}

var lockCache = map[*Prog]*LockEngine{}

// repoLockEngine configures E2 with the guard table of go-ipfs-log (confirmed by reading, see DESIGN §2/E2).
func repoLockEngine(c *Ctx) *LockEngine {
	if le, ok := lockCache[c.P]; ok {
		return le
	}
	p := c.P
	le := &LockEngine{p: p, cg: c.CG, Guards: map[*types.Var]string{}, Mutators: map[string]bool{}, Pkgs: map[string]bool{}, ArmedBlock: map[string]bool{"IPFSLog.lock": true}}
	// IPFSLog: mutable state guarded by IPFSLog.lock — every mutator and accessor takes it (property C13 anchors).
	for _, f := range []string{"Entries", "heads", "Next", "Clock", "Identity"} {
		le.Guards[p.Field("", "IPFSLog", f)] = "lock"
	}
	// OrderedMap: keys/values guarded by its own RWMutex.
	for _, f := range []string{"keys", "values"} {
		le.Guards[p.Field("entry", "OrderedMap", f)] = "lock"
	}
	// Fetcher: task cache and clock window are only touched while muProcess is held (processQueue and its workers).
	for _, f := range []string{"tasksCache", "maxClock", "minClock"} {
		le.Guards[p.Field("entry", "Fetcher", f)] = "muProcess"
	}
	// in-place mutators of the values stored in guarded fields
	for _, m := range []string{"Set", "Reverse", "SetID", "SetTime", "Tick"} {
		le.Mutators[m] = true
	}
	for _, pk := range p.Pkgs {
		if strings.HasSuffix(pk.PkgPath, "/test") || strings.HasSuffix(pk.PkgPath, "/example") {
			continue
		}
		le.Pkgs[pk.PkgPath] = true
	}
	// the access-control context captures the log: it may only be built under that log's lock
	le.CtxLits = map[*types.Named][2]string{p.Named("", "CanAppendContext"): {"log", "IPFSLog.lock"}}
	le.Run()
	lockCache[c.P] = le
	return le
}

func isEntryPoint(c *Ctx, fn *Fn) bool {
	if fn.Obj == nil {
		return false
	}
	if ast.IsExported(fn.Obj.Name()) {
		return true
	}
	// unexported function never called from first-party code: treat as reachable (callbacks, interface impls)
	for _, g := range c.P.Fns {
		for _, cs := range c.CG.Sites(g) {
			for _, t := range cs.Targets {
				if t == fn {
					return false
				}
			}
		}
	}
	return true
}

func ownerOfClass(class string) string {
	if i := strings.Index(class, "."); i >= 0 {
		return class[:i]
	}
	return class
}

// guardObligations emits R-<prop>.1-style obligations for every access whose lock class belongs to owners.
func guardObligations(c *Ctx, r *Report, le *LockEngine, rule string, owners map[string]bool, counts map[string]int) {
	p := c.P
	for _, a := range le.Accesses {
		if !owners[ownerOfClass(a.Class)] {
			continue
		}
		fieldName := ""
		if a.Field != nil {
			fieldName = a.Field.Name()
		} else {
			fieldName = "via:" + a.Expr
		}
		if a.Field != nil {
			counts[ownerOfClass(a.Class)+"."+fieldName]++
		}
		key := r.Key(rule, a.Fn, a.Kind, fieldName)
		switch {
		case a.Unknown:
			r.Undecided(rule, key, a.Pos, fmt.Sprintf("%s of %s: base object %s not resolvable to a variable path; cannot match it with a held lock", a.Kind, a.Expr, a.Base))
		case a.Held:
			r.Hold(rule, key, a.Pos, true, fmt.Sprintf("%s %s needs %s(%s) — %s", a.Kind, a.Expr, a.Class, a.Mode, a.Via), "lock="+a.Class, "mode="+a.Mode, "base="+a.Base)
		case a.Lifted:
			r.Hold(rule, key, a.Pos, false, fmt.Sprintf("%s %s: requirement %s(%s) passed to callers of %s (discharged or reported at each call site / entry point)", a.Kind, a.Expr, a.Class, a.Mode, a.Fn.Root().Name))
		default:
			r.Violate(rule, key, a.Pos, fmt.Sprintf("%s of guarded field %s without %s held in mode %s on the same object (%s)", a.Kind, a.Expr, a.Class, a.Mode, a.Via), "base="+a.Base)
		}
	}
	// unmet requirements at entry points
	var fns []*Fn
	for fn := range le.needs {
		fns = append(fns, fn)
	}
	sort.Slice(fns, func(i, j int) bool { return fns[i].Name < fns[j].Name })
	for _, fn := range fns {
		if !isEntryPoint(c, fn) {
			continue
		}
		for _, q := range sortedNeeds(le.needs[fn]) {
			if !owners[ownerOfClass(q.Class)] {
				continue
			}
			key := r.Key(rule, q.Fn, q.Kind+"@entry:"+fn.Name, q.Field)
			if ok, why := dischargeByConstruction(c, le, fn, q); ok {
				r.Hold(rule, key, q.Pos, true, fmt.Sprintf("%s: requirement %s(%s) on %s of entry point %s is discharged at construction sites: %s", q.Why, q.Class, q.Mode, q.Rel, fn.Name, why))
				continue
			}
			path := strings.Join(q.Path, " <- ")
			if path != "" {
				path = " via " + path
			}
			r.Violate(rule, key, q.Pos, fmt.Sprintf("%s: %s(%s) is not held on %s and entry point %s can be called without it%s — a concurrent writer holding the lock races with this access",
				q.Why, q.Class, q.Mode, q.Rel, fn.Name, path), "entry="+fn.Name, "at="+p.Pos(q.Pos))
		}
	}
}

// dischargeByConstruction: a requirement on recv.<f> (f an unexported field of the receiver struct) is
// discharged when every composite literal of that struct is built while the lock of the object stored in
// f is held and the literal flows only into a call argument (R-C13.8).
func dischargeByConstruction(c *Ctx, le *LockEngine, fn *Fn, q lockReq) (bool, string) {
	if !strings.HasPrefix(q.Rel, "recv.") || strings.Count(q.Rel, ".") != 1 {
		return false, ""
	}
	fname := q.Rel[len("recv."):]
	if fn.Decl == nil || fn.Decl.Recv == nil || len(fn.Decl.Recv.List) == 0 {
		return false, ""
	}
	recvT := namedOf(fn.Pkg.TypesInfo.TypeOf(fn.Decl.Recv.List[0].Type))
	if recvT == nil || ast.IsExported(fname) {
		return false, ""
	}
	sites := 0
	okAll := true
	var why []string
	for _, g := range c.P.Fns {
		fl := le.flows[orig(g)]
		if fl == nil {
			// function outside the engine's scope: a literal there cannot be justified
			ast.Inspect(g.Body, func(n ast.Node) bool {
				if cl, ok := n.(*ast.CompositeLit); ok && namedOf(c.P.TypeOf(g, cl)) == recvT && le.inScope(g) {
					okAll = false
				}
				return true
			})
			continue
		}
		fl.Visit(func(_ *cfgBlk, n ast.Node, before Facts) {
			walkNoLit(n, func(nd ast.Node) bool {
				cl, ok := nd.(*ast.CompositeLit)
				if !ok || namedOf(c.P.TypeOf(g, cl)) != recvT {
					return true
				}
				sites++
				var val ast.Expr
				for _, el := range cl.Elts {
					if kv, ok := el.(*ast.KeyValueExpr); ok {
						if id, ok := kv.Key.(*ast.Ident); ok && id.Name == fname {
							val = kv.Value
						}
					}
				}
				if val == nil {
					okAll = false
					why = append(why, fmt.Sprintf("%s: literal without %s", c.P.Pos(cl.Pos()), fname))
					return true
				}
				_, key, ok := c.P.PathKey(g, val)
				heldHere := ok && le.hasLock(before, key, q.Class, q.Mode)
				if !heldHere {
					// the requirement may have been passed to the callers of g and discharged there
					lifted, violated := false, false
					for _, a := range le.Accesses {
						if a.Kind == "context" && a.Pos == cl.Pos() {
							if a.Lifted {
								lifted = true
							} else if !a.Held {
								violated = true
							}
						}
						if a.Kind == "context" && a.Fn == g && !a.Held && !a.Lifted && a.Field == nil && strings.Contains(a.Expr, "context literal") {
							violated = true
						}
					}
					// a lifted requirement that no entry point is left with is discharged at every call site
					if lifted && !violated && !entryPointLeftWith(c, le, g.Root(), "context") {
						why = append(why, fmt.Sprintf("%s in %s: lock supplied by every caller of %s", c.P.Pos(cl.Pos()), g.Name, g.Root().Name))
						// still must flow only into a call argument
					} else {
						okAll = false
						why = append(why, fmt.Sprintf("%s: %s of %s not held when the context is built", c.P.Pos(cl.Pos()), q.Class, types.ExprString(val)))
						return true
					}
				}
				// must flow only into a call argument
				var par ast.Node = c.P.parent[cl]
				if u, ok := par.(*ast.UnaryExpr); ok && u.Op == token.AND {
					par = c.P.parent[u]
				}
				if _, ok := par.(*ast.CallExpr); !ok {
					okAll = false
					why = append(why, fmt.Sprintf("%s: context value escapes (not a direct call argument)", c.P.Pos(cl.Pos())))
					return true
				}
				why = append(why, fmt.Sprintf("%s in %s under %s(%s)", c.P.Pos(cl.Pos()), g.Name, q.Class, types.ExprString(val)))
				return true
			})
		})
	}
	// the field must not be assigned outside literals
	fv := (*types.Var)(nil)
	if st, ok := recvT.Underlying().(*types.Struct); ok {
		for i := 0; i < st.NumFields(); i++ {
			if st.Field(i).Name() == fname {
				fv = st.Field(i)
			}
		}
	}
	for _, g := range c.P.Fns {
		ast.Inspect(g.Body, func(n ast.Node) bool {
			if as, ok := n.(*ast.AssignStmt); ok {
				for _, l := range as.Lhs {
					if v, _ := c.P.FieldSel(g, l); v != nil && v == fv {
						okAll = false
						why = append(why, fmt.Sprintf("%s: field %s reassigned", c.P.Pos(as.Pos()), fname))
					}
				}
			}
			return true
		})
	}
	if sites == 0 {
		return false, "no construction site found"
	}
	return okAll, strings.Join(why, "; ")
}

func init() {
	register(&PropSpec{ID: "C13", Level: "other", Run: runC13,
		Explanation: "Decides the lock discipline that makes a shared log atomic, on every path of the current source: (R-C13.1) every read/write of IPFSLog.{Entries,heads,Next,Clock,Identity}, OrderedMap.{keys,values} holds the owning RWMutex on the same object in a sufficient mode, with helper requirements propagated to every call site and entry point; (R-C13.2) every Lock/RLock is released exactly once on every exit; (R-C13.3) sibling goroutines started in a loop write captured variables only under a lock taken inside the goroutine; (R-C13.4) no critical section that touched guarded state is closed and re-opened before a guarded write (append is one atomic region); (R-C13.5) no channel operation while IPFSLog.lock is held; (R-C13.6) recursive read-locks on OrderedMap are only reachable where no writer can queue; (R-C13.7) configuration fields are never stored after construction; (R-C13.8) the access-control context only exists inside the critical section. Lock order graph between classes is acyclic. Not covered: linearizability of results, races inside dependencies, user access controllers calling back into the log.",
		Assumptions: []string{"a lock instance is identified by the canonical access path of the expression it is reached from (variables are not reassigned between acquire and use — checked: reassigned roots make the access undecided)", "goroutines are created only by go statements on function literals in first-party code"},
	})
}

func runC13(c *Ctx, r *Report) {
	le := repoLockEngine(c)
	p := c.P
	r.Doc("R-C13.1", "every access to a guarded field holds the owning lock on the same object in a sufficient mode (W for stores and in-place mutators, R or W for loads); requirements of helpers are propagated to call sites; an entry point left with an unmet requirement is the violation")
	r.Doc("R-C13.2", "every Lock/RLock is released exactly once on every exit; no release of an unheld lock; lock expressions resolve to a field or variable")
	r.Doc("R-C13.3", "a goroutine started in a loop writes a variable captured from outside the loop only under a lock acquired inside the goroutine")
	r.Doc("R-C13.4", "a critical section that touched guarded state is not closed and re-opened before a guarded write in the same function (check-then-act atomicity; Append is one region)")
	r.Doc("R-C13.5", "no channel send/receive/select while IPFSLog.lock is held")
	r.Doc("R-C13.6", "recursive read acquisition of one OrderedMap lock is only allowed because every in-place mutator of a map stored in a log field runs under that log's write lock (R-C13.1 mutate obligations) — otherwise a queued writer deadlocks the second RLock")
	r.Doc("R-C13.7", "configuration fields (Storage, ID, AccessController, SortFn, io, concurrency) are never stored outside the constructor's composite literal")
	r.Doc("R-C13.8", "every CanAppendContext literal is built while the lock of the log stored in it is held and flows only into a call argument")
	r.Doc("R-C13.10", "the codec objects that Join's parallel validators and Append share are of concurrency-safe types (adopted from C18)")
	importRules(c, r, "C18", []string{"R-C18.7"}, "R-C13.10", 0)
	r.Doc("R-C13.11", "no structure that holds a lock is copied (adopted from C14: a method on a copy locks the copy's lock and excludes nobody)")
	importRules(c, r, "C14", []string{"R-C14.9"}, "R-C13.11")
	r.Doc("R-C13.12", "a view of the log is taken in one critical section: no method of the log composes its result from two or more separately locked reads of the same log (an append or merge completing in between yields heads of one instant with values of another — a snapshot no state of the log ever matched)")
	{
		logT := p.Named("", "IPFSLog")
		exempt := map[string]string{"ToString": "a rendering for humans; the properties say nothing about it"}
		nview := 0
		for _, fn := range p.Fns {
			if fn.Orig != nil || fn.Obj == nil || fn.Body == nil || fn.Decl == nil || fn.Decl.Recv == nil || fn.Pkg.PkgPath != p.Mod {
				continue
			}
			sig := fn.Obj.Type().(*types.Signature)
			if namedOf(sig.Recv().Type()) != logT || len(fn.Decl.Recv.List) != 1 || len(fn.Decl.Recv.List[0].Names) != 1 {
				continue
			}
			recv := fn.Pkg.TypesInfo.Defs[fn.Decl.Recv.List[0].Names[0]]
			// separately locked reads: calls on the receiver to methods that take the log's lock themselves, plus
			// the function's own locked section(s)
			var parts []string
			own := 0
			walkNoLit(fn.Body, func(n ast.Node) bool {
				call, ok := n.(*ast.CallExpr)
				if !ok {
					return true
				}
				se, ok := ast.Unparen(call.Fun).(*ast.SelectorExpr)
				if !ok {
					return true
				}
				cf := p.Callee(fn, call)
				if cf == nil {
					return true
				}
				if (cf.Name() == "RLock" || cf.Name() == "Lock") && cf.Pkg() != nil && cf.Pkg().Path() == "sync" {
					if v, base := p.FieldSel(fn, se.X); v != nil && v.Name() == "lock" {
						if id, ok := ast.Unparen(base).(*ast.Ident); ok && p.ObjOf(fn, id) == recv {
							own++
						}
					}
					return true
				}
				id, ok := ast.Unparen(se.X).(*ast.Ident)
				if !ok || p.ObjOf(fn, id) != recv {
					return true
				}
				callee := p.ByObj[cf]
				if callee == nil {
					return true
				}
				for _, a := range le.acqs[orig(callee)] {
					if a.Class == "IPFSLog.lock" {
						parts = append(parts, cf.Name()+"()")
						break
					}
				}
				return true
			})
			total := len(parts) + own
			if total < 2 && len(parts) == 0 {
				continue
			}
			nview++
			if why, ok := exempt[fn.Obj.Name()]; ok {
				r.List("%s composes its result from %d separately locked reads: %s", fn.Name, total, why)
				continue
			}
			what := strings.Join(parts, ", ")
			if own > 0 {
				if what != "" {
					what += ", and "
				}
				what += fmt.Sprintf("%d locked section(s) of its own", own)
			}
			r.Check(total < 2, "R-C13.12", r.Key("R-C13.12", fn, "one-critical-section", ""), fn.Body.Pos(),
				fn.Name+" reads the log in one critical section",
				fmt.Sprintf("%s composes its result from %d separately locked reads of the log (%s): an append, a merge or an identity change that completes between them gives parts of two different states — a snapshot whose values are newer than its heads rebuilds to a log whose newest entries are unreachable; a clock id read before the lock is taken again overwrites a newer one", fn.Name, total, what))
		}
		r.Floor("R-C13.12", "methods of the log that call a self-locking method of the same log", nview, 1)
	}
	r.Doc("R-C13.14", "the access-controller callbacks run under the log's write lock and never take the log's lock themselves (a context accessor that goes through a locking getter blocks inside CanAppend for good: Append or Join never returns and every later operation on the log hangs)")
	callbacksTakeNoLogLock(c, r, "R-C13.14")
	r.Doc("R-C13.13", "the head map a log publishes is never edited: merging head sets builds a new map (adopted from C14: readers look at the map they took after releasing the lock; a merge that adds to it in place shows them an old head together with its successor — a head set the log never had)")
	importRules(c, r, "C14", []string{"R-C14.4"}, "R-C13.13")
	r.Doc("R-C13.9", "lock-order graph between lock classes is acyclic; no write re-acquisition of a held lock")

	r.Doc("control", "engine positive/negative controls analysed on every run")
	lockControls(c, r, "control")
	counts := map[string]int{}
	guardObligations(c, r, le, "R-C13.1", map[string]bool{"IPFSLog": true, "OrderedMap": true}, counts)
	r.Tables["guarded_access_counts"] = counts
	r.Floor("R-C13.1", "IPFSLog.heads accesses", counts["IPFSLog.heads"], 6)
	r.Floor("R-C13.1", "IPFSLog.Entries accesses", counts["IPFSLog.Entries"], 6)
	r.Floor("R-C13.1", "IPFSLog.Next accesses", counts["IPFSLog.Next"], 1)
	r.Floor("R-C13.1", "IPFSLog.Clock accesses", counts["IPFSLog.Clock"], 4)
	r.Floor("R-C13.1", "IPFSLog.Identity accesses", counts["IPFSLog.Identity"], 2)
	r.Floor("R-C13.1", "OrderedMap.keys accesses", counts["OrderedMap.keys"], 4)
	r.Floor("R-C13.1", "OrderedMap.values accesses", counts["OrderedMap.values"], 2)

	// R-C13.2 pairing
	nops := 0
	for _, op := range le.LockOps {
		if ownerOfClass(op.Class) == "Fetcher" {
			continue
		}
		nops++
		key := r.Key("R-C13.2", op.Fn, op.Op, op.Class)
		if op.Bad != "" {
			r.Violate("R-C13.2", key, op.Pos, fmt.Sprintf("%s on %s(%s): %s", op.Op, op.Class, op.Base, op.Bad))
		} else {
			r.Hold("R-C13.2", key, op.Pos, true, fmt.Sprintf("%s on %s(%s) well-formed (defer=%v)", op.Op, op.Class, op.Base, op.Defer))
		}
	}
	r.Floor("R-C13.2", "lock operations (IPFSLog, OrderedMap)", nops, 20)
	for _, ex := range le.Exits {
		var mine []string
		for _, h := range ex.Held {
			if !strings.Contains(h, "|Fetcher.") {
				mine = append(mine, h)
			}
		}
		key := r.Key("R-C13.2", ex.Fn, "exit", "")
		if len(mine) > 0 {
			r.Violate("R-C13.2", key, ex.Pos, fmt.Sprintf("function exit reached while still holding %v (no deferred release pending) — the next writer blocks forever", mine))
		} else {
			r.Hold("R-C13.2", key, ex.Pos, false, "no lock held at this exit")
		}
	}

	// R-C13.3 sibling goroutine writes
	ngo := 0
	for _, g := range le.GoLits {
		ngo++
		r.Note("go literal %s (parent %s) at %s: joined-before-release=%v inLoop=%v inherits=%v", g.Fn.Name, g.Parent.Name, p.Pos(g.Pos), g.Joined, g.InLoop, g.Inherited)
	}
	r.Floor("R-C13.3", "go statements with literals", ngo, 1)
	nsib := 0
	for _, w := range le.SibWrites {
		if w.Lit.Pkg.PkgPath == p.Mod {
			nsib++
		}
	}
	r.Floor("R-C13.3", "writes to shared variables by Join's validators", nsib, 1)
	for _, w := range le.SibWrites {
		if w.Lit.Pkg.PkgPath != p.Mod { // root package only: Join's validators
			continue
		}
		key := r.Key("R-C13.3", w.Lit, "store", w.Var)
		r.Check(w.OK, "R-C13.3", key, w.Pos,
			fmt.Sprintf("write to shared %q under own lock %v", w.Var, w.Held),
			fmt.Sprintf("goroutines started in a loop all write captured variable %q with no lock taken inside the goroutine — unsynchronised write/write race between sibling validators", w.Var))
	}

	// reads of a variable that sibling validators write must be under the same kind of own lock
	written := map[types.Object]bool{}
	for _, w := range le.SibWrites {
		written[w.Obj] = true
	}
	for _, rd := range le.SibReads {
		if rd.Lit.Pkg.PkgPath != p.Mod || !written[rd.Obj] {
			continue
		}
		key := r.Key("R-C13.3", rd.Lit, "load", rd.Obj.Name())
		r.Check(rd.OK, "R-C13.3", key, rd.Pos,
			fmt.Sprintf("read of shared %q under own lock %v", rd.Obj.Name(), rd.Held),
			fmt.Sprintf("a sibling goroutine reads the shared variable %q (which its siblings write under a lock) without taking that lock: read/write data race", rd.Obj.Name()))
	}

	// R-C13.4 split critical sections
	for _, s := range le.Splits {
		if !strings.Contains(s.Fn.Pkg.PkgPath, p.Mod) {
			continue
		}
		key := r.Key("R-C13.4", s.Fn, "store-after-reopen", s.Field)
		r.Violate("R-C13.4", key, s.Pos, fmt.Sprintf("guarded write to %s happens in a second critical section on %s after an earlier section that read guarded state was released — concurrent operations can interleave between them", s.Field, s.Base))
	}
	// positive instances: functions that write guarded IPFSLog fields
	writers := map[*Fn]bool{}
	for _, a := range le.Accesses {
		if a.Kind != "load" && ownerOfClass(a.Class) == "IPFSLog" && a.Field != nil {
			writers[a.Fn.Root()] = true
		}
	}
	var ws []*Fn
	for w := range writers {
		ws = append(ws, w)
	}
	sort.Slice(ws, func(i, j int) bool { return ws[i].Name < ws[j].Name })
	for _, w := range ws {
		bad := false
		for _, s := range le.Splits {
			if s.Fn.Root() == orig(w) {
				bad = true
			}
		}
		if !bad {
			r.Hold("R-C13.4", r.Key("R-C13.4", w, "single-region", ""), w.Body.Pos(), true, "all guarded writes of "+w.Name+" lie in one uninterrupted critical section")
		}
	}
	r.Floor("R-C13.4", "functions writing guarded log state", len(ws), 2)

	// R-C13.5 blocking under the log lock
	nblock := 0
	for _, b := range le.Blocking {
		armed := false
		for _, h := range b.Held {
			if strings.Contains(h, "|IPFSLog.lock|") {
				armed = true
			}
		}
		if armed {
			nblock++
			r.Violate("R-C13.5", r.Key("R-C13.5", b.Fn, "chanop", ""), b.Pos, fmt.Sprintf("%s while holding %v — a consumer that calls back into the log deadlocks against a waiting writer", b.What, b.Held))
		} else {
			r.List("blocking operation under a non-log lock (not armed): %s at %s holding %v", b.What, p.Pos(b.Pos), b.Held)
		}
	}
	// channel operations in functions that take the log lock, performed after release → holds
	for _, fn := range p.Fns {
		if fn.Pkg.PkgPath != p.Mod {
			continue
		}
		fl := le.flows[orig(fn)]
		if fl == nil {
			continue
		}
		takes := false
		for _, op := range le.LockOps {
			if op.Fn.Root() == fn.Root() && op.Class == "IPFSLog.lock" {
				takes = true
			}
		}
		if !takes {
			continue
		}
		fl.Visit(func(_ *cfgBlk, n ast.Node, before Facts) {
			walkNoLit(n, func(nd ast.Node) bool {
				if s, ok := nd.(*ast.SendStmt); ok {
					held := false
					for k := range before {
						if strings.HasPrefix(k, "H|") && strings.Contains(k, "|IPFSLog.lock|") {
							held = true
						}
					}
					if !held {
						r.Hold("R-C13.5", r.Key("R-C13.5", fn, "send", ""), s.Pos(), true, "channel send happens with no log lock held", heldList(before)...)
					}
				}
				return true
			})
		})
	}

	// lock order edges
	classEdges := map[string]map[string]lockEdge{}
	nRecHaz := 0
	for _, e := range le.Edges {
		if ownerOfClass(e.HeldClass) == "Fetcher" && ownerOfClass(e.AcqClass) == "Fetcher" {
			// Fetcher-internal order is reported under C11
		}
		if e.HeldClass == e.AcqClass {
			if e.HeldBase == e.AcqBase {
				if e.HeldMode == "W" || e.AcqMode == "W" {
					r.Violate("R-C13.9", r.Key("R-C13.9", e.Fn, "reacquire", e.AcqClass), e.Pos, fmt.Sprintf("%s re-acquired (%s) on the same object %s while held (%s) via %s — self-deadlock", e.AcqClass, e.AcqMode, e.AcqBase, e.HeldMode, e.Via))
				} else if e.AcqClass == "OrderedMap.lock" {
					nRecHaz++
					r.List("recursive read-lock of %s on %s in %s via %s (hazard discharged by R-C13.6)", e.AcqClass, e.AcqBase, e.Fn.Name, e.Via)
				} else {
					r.Violate("R-C13.9", r.Key("R-C13.9", e.Fn, "reacquire-read", e.AcqClass), e.Pos, fmt.Sprintf("recursive read acquisition of %s on %s via %s: a writer queued between the two RLocks deadlocks both", e.AcqClass, e.AcqBase, e.Via))
				}
			} else if e.AcqClass == "IPFSLog.lock" {
				r.Violate("R-C13.9", r.Key("R-C13.9", e.Fn, "foreign-log-lock", strings.TrimPrefix(e.Via, "call ")), e.Pos,
					fmt.Sprintf("IPFSLog.lock of %s is acquired (via %s) while IPFSLog.lock of %s is held: two logs operating on each other concurrently deadlock", e.AcqBase, e.Via, e.HeldBase))
			} else {
				r.List("nested acquisition of two %s instances (%s then %s) in %s via %s", e.AcqClass, e.HeldBase, e.AcqBase, e.Fn.Name, e.Via)
			}
			continue
		}
		if classEdges[e.HeldClass] == nil {
			classEdges[e.HeldClass] = map[string]lockEdge{}
		}
		if _, ok := classEdges[e.HeldClass][e.AcqClass]; !ok {
			classEdges[e.HeldClass][e.AcqClass] = e
		}
	}
	// acyclicity of the class graph
	var order []string
	for a, m := range classEdges {
		for b := range m {
			order = append(order, a+" -> "+b)
		}
	}
	sort.Strings(order)
	r.Tables["lock_order_edges"] = order
	for a, m := range classEdges {
		for b, e := range m {
			if reaches(classEdges, b, a, map[string]bool{}) {
				r.Violate("R-C13.9", r.Key("R-C13.9", e.Fn, "order-cycle", a+"->"+b), e.Pos, fmt.Sprintf("lock order cycle: %s is acquired while %s is held (via %s) and the reverse order also exists", b, a, e.Via))
			} else {
				r.Hold("R-C13.9", r.Key("R-C13.9", nil, "order", a+"->"+b), e.Pos, true, fmt.Sprintf("%s acquired under %s (e.g. in %s via %s); no reverse path", b, a, e.Fn.Name, e.Via))
			}
		}
	}

	// R-C13.6: discharge of recursive read-locks
	mutOK := true
	nmut := 0
	for _, a := range le.Accesses {
		if a.Kind == "mutate" && ownerOfClass(a.Class) == "IPFSLog" {
			nmut++
			if !a.Held {
				mutOK = false
			}
		}
	}
	r.Check(mutOK && nRecHaz > 0 || nRecHaz == 0, "R-C13.6", r.Key("R-C13.6", nil, "recursive-rlock", "OrderedMap.lock"), token.NoPos,
		fmt.Sprintf("%d recursive OrderedMap read-lock sites; all %d in-place mutators of maps stored in log fields run under the log's write lock, and every reader of those fields holds the log lock (R-C13.1), so no writer can queue between the two RLocks", nRecHaz, nmut),
		"recursive OrderedMap read-locks exist and some in-place mutator of a log-owned map is not under the log's write lock")

	// R-C13.7 immutable configuration
	imm := map[*types.Var]bool{}
	for _, f := range []string{"Storage", "ID", "AccessController", "SortFn", "io", "concurrency"} {
		imm[p.Field("", "IPFSLog", f)] = true
	}
	nImmReads := 0
	for _, fn := range p.Fns {
		if !le.Pkgs[fn.Pkg.PkgPath] {
			continue
		}
		walkNoLit(fn.Body, func(n ast.Node) bool {
			switch s := n.(type) {
			case *ast.AssignStmt:
				for _, l := range s.Lhs {
					if v, b := p.FieldSel(fn, stripIndexStar(l)); v != nil && imm[v] {
						root, _, _ := p.PathKey(fn, b)
						if root != nil && le.freshLocal(fn, root) {
							continue
						}
						r.Violate("R-C13.7", r.Key("R-C13.7", fn, "store", v.Name()), s.Pos(), fmt.Sprintf("configuration field %s is stored after construction; it is read without the lock everywhere", v.Name()))
					}
				}
			case *ast.SelectorExpr:
				if v, _ := p.FieldSel(fn, s); v != nil && imm[v] {
					nImmReads++
				}
			}
			return true
		})
	}
	r.Hold("R-C13.7", r.Key("R-C13.7", nil, "no-store", "config"), token.NoPos, true, fmt.Sprintf("%d selector uses of configuration fields, none is a store target", nImmReads))
	r.Floor("R-C13.7", "uses of configuration fields", nImmReads, 5)

	// R-C13.8 is evaluated inside guardObligations (dischargeByConstruction); count literals
	ctxT := p.Named("", "CanAppendContext")
	nctx := 0
	for _, fn := range p.Fns {
		if fn.Pkg.PkgPath != p.Mod {
			continue
		}
		walkNoLit(fn.Body, func(n ast.Node) bool {
			if cl, ok := n.(*ast.CompositeLit); ok && namedOf(p.TypeOf(fn, cl)) == ctxT {
				nctx++
			}
			return true
		})
	}
	r.Floor("R-C13.8", "CanAppendContext literals", nctx, 1)
}

func stripIndexStar(e ast.Expr) ast.Expr {
	e = ast.Unparen(e)
	for {
		switch y := e.(type) {
		case *ast.IndexExpr:
			e = ast.Unparen(y.X)
			continue
		case *ast.StarExpr:
			e = ast.Unparen(y.X)
			continue
		}
		return e
	}
}

func reaches(g map[string]map[string]lockEdge, from, to string, seen map[string]bool) bool {
	if from == to {
		return true
	}
	if seen[from] {
		return false
	}
	seen[from] = true
	for n := range g[from] {
		if reaches(g, n, to, seen) {
			return true
		}
	}
	return false
}

// lockControls runs E2 on the control package and checks it fires on exactly the violating functions.
func lockControls(c *Ctx, r *Report, rule string) {
	if c.Ctl == nil {
		r.Note("engine controls skipped (no control module given)")
		return
	}
	p := c.Ctl
	le := &LockEngine{p: p, cg: c.CtlG, Guards: map[*types.Var]string{p.Field("", "Box", "val"): "mu"}, Mutators: map[string]bool{}, Pkgs: map[string]bool{p.Mod: true}}
	le.Run()
	got := map[string]bool{}
	for _, a := range le.Accesses {
		if !a.Held && !a.Lifted {
			got["access:"+shortFn(a.Fn)] = true
		}
	}
	for fn, m := range le.needs {
		if fn.Obj != nil && ast.IsExported(fn.Obj.Name()) && len(m) > 0 {
			got["access:"+shortFn(fn)] = true
		}
	}
	for _, ex := range le.Exits {
		if len(ex.Held) > 0 {
			got["leak:"+shortFn(ex.Fn)] = true
		}
	}
	for _, e := range le.Edges {
		if e.HeldClass == e.AcqClass && e.HeldBase != e.AcqBase {
			got["nested:"+shortFn(e.Fn)] = true
		}
	}
	for _, b := range le.Blocking {
		got["block:"+shortFn(b.Fn)] = true
	}
	for _, w := range le.SibWrites {
		if !w.OK {
			got["sibling:"+shortFn(w.Lit.Root())] = true
		}
	}
	for _, s := range le.Splits {
		got["split:"+shortFn(s.Fn)] = true
	}
	want := map[string]bool{"access:BadRead": true, "access:BadWriteUnderRead": true, "leak:BadLeak": true, "nested:BadNested": true,
		"block:BadSendUnderLock": true, "sibling:BadSiblings": true, "split:BadSplit": true}
	ok := true
	var diff []string
	for k := range want {
		if !got[k] {
			ok = false
			diff = append(diff, "missed "+k)
		}
	}
	for k := range got {
		if !want[k] {
			ok = false
			diff = append(diff, "spurious "+k)
		}
	}
	sort.Strings(diff)
	r.Check(ok, rule, r.Key(rule, nil, "engine-control", "E2-lockset"), token.NoPos,
		fmt.Sprintf("lock engine fired on exactly the %d violating control functions and stayed silent on the conforming ones", len(want)),
		fmt.Sprintf("lock engine control mismatch (checker defect): %v", diff))
}

func shortFn(fn *Fn) string {
	n := fn.Root().Name
	if i := strings.LastIndex(n, "."); i >= 0 {
		n = n[i+1:]
	}
	return n
}

// entryPointLeftWith: is fn (or a function its requirement was lifted to) an entry point still carrying a
// requirement of the given kind?
func entryPointLeftWith(c *Ctx, le *LockEngine, fn *Fn, kind string) bool {
	// any entry point whose needs contain a requirement originating in fn with that kind
	for g, m := range le.needs {
		if !isEntryPoint(c, g) {
			continue
		}
		for _, q := range m {
			if q.Kind == kind && q.Fn.Root() == fn {
				return true
			}
		}
	}
	return false
}
