package main

// c11.go — fetching tolerates faults and terminates: structural clauses on the fetch worker loop.

import (
	"fmt"
	"go/ast"
	"go/token"
	"go/types"
	"sort"
	"strings"
)

func init() {
	register(&PropSpec{ID: "C11", Level: "other", Run: runC11,
		Explanation: "Decides, on every path of entry/fetcher.go's worker loop: (R-C11.1) each fetch worker, on every path to its exit, releases its semaphore slot before it touches the process mutex, then — holding the mutex — decrements the in-progress counter and signals the condition variable; every go start follows a successful slot acquisition and is followed by the counter increment; (R-C11.2) every condition wait holds the cond's Locker and sits in a loop re-reading guarded state; (R-C11.3) the only queue insertion is dominated by the negative result of the exclude gate for the same hash and followed on all paths by marking that hash in the task cache; (R-C11.4) task cache, clock window and the worker-shared locals are only touched under the process mutex; (R-C11.5) the deadline-carrying context is the one passed down to every blocking call (no fresh background context anywhere on the fetch path) and its cancel is deferred; (R-C11.6) a failed fetch has no path that skips the accounting. A lost decrement or a slot held while waiting for the mutex is a hang for some fault sequence. (R-C11.15) every operation on the slot semaphore moves the same positive weight; (R-C11.16) every test of the in-flight counter or the queue length in the dispatcher separates zero from the positive values and the counter starts at zero; (R-C11.12) the fetch starts with a deadline derived from a timeout known to be positive, or with a timeout known to be ≤ 0. Not covered: exactness of the returned set, behaviour of the block store under cancellation.",
	})
}

func runC11(c *Ctx, r *Report) {
	p := c.P
	le := repoLockEngine(c)
	r.Doc("R-C11.1", "worker accounting on every path: slot release precedes the mutex, counter decrement and cond signal happen under the mutex before every exit; go start is dominated by a successful acquire and followed by the counter increment")
	r.Doc("R-C11.2", "every sync.Cond.Wait holds the cond's Locker and is inside a for loop with a condition")
	r.Doc("R-C11.3", "queue insertion only through the exclude-and-mark gate")
	r.Doc("R-C11.4", "Fetcher.{tasksCache,maxClock,minClock} and worker-shared locals only under Fetcher.muProcess")
	r.Doc("R-C11.5", "context propagation on the fetch path: every callee taking a context receives the caller's own context (or one derived from it); WithTimeout's cancel is deferred")
	r.Doc("R-C11.6", "the worker has no exit that bypasses the accounting when the fetch fails")
	r.Doc("R-C11.7", "the caller's timeout and concurrency reach the fetcher through every loader and constructor")
	optionForwarding(c, r, "R-C11.7", append(loaderFetchSpecs(), constructorLoaderSpecs()...), "Timeout", "Concurrency")
	r.Doc("R-C11.8", "nothing in the decode closure a fetch worker runs can panic on a malformed block (a panic in a worker goroutine ends the process, it is not a tolerated fault)")
	importRules(c, r, "C12", []string{"R-C12.1", "R-C12.2", "R-C12.3", "R-C12.4"}, "R-C11.8")
	r.Doc("R-C11.9", "the loops of the fetcher (queueing links, offering hashes) process every element")
	loopsComplete(c, r, "R-C11.9", func(fn *Fn) bool {
		return inPkgs(c.P, fn, "entry") && rootNamed(fn, "processQueue", "addNextEntry", "addHashesToQueue", "Fetch", "updateClock")
	}, "hashes after the point where the loop stops are never requested")
	r.Doc("R-C11.11", "the gate that decides whether a hash is requested answers 'no need' only on a positive finding and otherwise always asks the caller's exclusion function: no path answers without either")
	{
		ex := p.FuncI("entry", "Fetcher", "exclude")
		var resVar types.Object
		if ex.Type.Results != nil {
			for _, f := range ex.Type.Results.List {
				for _, nm := range f.Names {
					resVar = p.ObjOf(ex, nm)
				}
			}
		}
		shouldF := p.Field("entry", "Fetcher", "shouldExclude")
		ef := &Flow{P: p, Fn: ex, Entry: Facts{}}
		ef.Node = func(n ast.Node, f Facts) {
			walkNoLit(n, func(nd ast.Node) bool {
				if call, ok := nd.(*ast.CallExpr); ok {
					if v, _ := p.FieldSel(ex, call.Fun); v == shouldF {
						f["asked"] = true
					}
				}
				return true
			})
			for _, id := range assignedIdents(n) {
				if resVar != nil && p.ObjOf(ex, id) == resVar {
					delete(f, "positive")
				}
			}
		}
		ef.Edge = func(cond ast.Expr, taken bool, f Facts) {
			for _, a := range splitCond(cond, taken) {
				if id, ok := ast.Unparen(a.E).(*ast.Ident); ok && resVar != nil && p.ObjOf(ex, id) == resVar && a.Truth {
					f["positive"] = true
				}
			}
		}
		ef.Run()
		nx := 0
		ef.Exits(func(_ *cfgBlk, ret *ast.ReturnStmt, at Facts) {
			nx++
			pos := ex.Body.Rbrace
			if ret != nil {
				pos = ret.Pos()
				// an explicit `return true` is a positive answer as well
				if len(ret.Results) == 1 {
					if id, ok := ast.Unparen(ret.Results[0]).(*ast.Ident); ok && id.Name == "true" {
						at = at.Clone()
						at["positive"] = true
					}
				}
			}
			r.Check(at["asked"] || at["positive"], "R-C11.11", r.Key("R-C11.11", ex, "exit", ""), pos,
				"the gate answers after a positive finding or after asking the caller's exclusion function",
				"the exclusion gate can answer without a positive finding and without asking the caller's ShouldExclude: hashes the caller excluded are requested from the store")
		})
		r.Floor("R-C11.11", "exits of the exclusion gate", nx, 2)
	}
	r.Doc("R-C11.12", "a configured timeout is applied: on every path on which the timeout is not known to be non-positive, the work is started with a context derived by WithTimeout from the configured value")
	r.Doc("R-C11.13", "an unbounded fetch follows every link kind of every fetched entry (adopted from C09): entries reachable only through references past an unretrievable block are still returned")
	importRules(c, r, "C09", []string{"R-C09.3", "R-C09.4"}, "R-C11.13")
	r.Doc("R-C11.18", "the codec objects the fetch workers share are of concurrency-safe types (adopted from C18: a decode that corrupts its neighbour drops retrievable entries or kills the process)")
	importRules(c, r, "C18", []string{"R-C18.7"}, "R-C11.18", 0)
	r.Doc("R-C11.20", "the readers refuse a block only when reading or decoding it failed (adopted from C09: a decodable block dropped for its content takes with it everything only reachable through it, with no faulty block anywhere)")
	importRules(c, r, "C09", []string{"R-C09.8"}, "R-C11.20")
	r.Doc("R-C11.21", "a function asks the block store for a hash at most once on any path (no retry, no request in a loop that keeps the hash: the same hash would be requested twice and a slow block waited for twice)")
	oneRequestPerHash(c, r, "R-C11.21")
	r.Doc("R-C11.22", "every turn of the fetcher's dispatch loop ends in the wait for queued work or for the last worker: no continue goes back to the loop test past it (the dispatcher would leave while workers are still out, and what they bring back is never followed)")
	dispatcherWaitsBeforeLeaving(c, r, "R-C11.22")
	r.Doc("R-C11.23", "a fetch length is never compared for equality with a negative value: no limit is any negative length, everywhere (a place that knows only -1 bounds a load the others treat as unlimited)")
	lengthTestsAreSignTests(c, r, "R-C11.23")
	r.Doc("R-C11.19", "an options struct handed in by the caller is only completed with defaults: no field is overwritten with a value computed from its own previous content (the exclusion callback wrapped in a remembering closure answers for the previous load on the next one)")
	optionsOnlyCompleted(c, r, "R-C11.19")
	r.Doc("R-C11.17", "the task cache only grows while a fetch runs: no deletion from it and no replacement of the map outside the constructor (the gate reads 'present' as 'already requested'; a forgotten hash is requested again by every later entry that links to it)")
	{
		cacheF := p.Field("entry", "Fetcher", "tasksCache")
		nuse := 0
		for _, fn := range p.Fns {
			if fn.Orig != nil || !inPkgs(p, fn, "entry") {
				continue
			}
			walkNoLit(fn.Body, func(n ast.Node) bool {
				switch x := n.(type) {
				case *ast.CallExpr:
					if p.Builtin(fn, x) == "delete" && len(x.Args) == 2 {
						if v, _ := p.FieldSel(fn, x.Args[0]); v == cacheF {
							nuse++
							r.Violate("R-C11.17", r.Key("R-C11.17", fn, "delete", ""), x.Pos(), "a hash is deleted from the task cache: the exclusion gate then takes it for unknown and it is requested again")
						}
					}
					if p.Builtin(fn, x) == "clear" && len(x.Args) == 1 {
						if v, _ := p.FieldSel(fn, x.Args[0]); v == cacheF {
							nuse++
							r.Violate("R-C11.17", r.Key("R-C11.17", fn, "clear", ""), x.Pos(), "the task cache is cleared while the fetcher is in use: every hash is requested again")
						}
					}
				case *ast.AssignStmt:
					for _, l := range x.Lhs {
						if v, _ := p.FieldSel(fn, l); v == cacheF {
							nuse++
							r.Violate("R-C11.17", r.Key("R-C11.17", fn, "replace", ""), x.Pos(), "the task cache is replaced by another map outside the fetcher's constructor: what was requested so far is forgotten")
						}
					}
				}
				return true
			})
		}
		if nuse == 0 {
			r.Hold("R-C11.17", r.Key("R-C11.17", nil, "cache-grows", ""), token.NoPos, true, "no deletion from, clearing or replacement of Fetcher.tasksCache (it is set once, in the constructor's literal)")
		}
	}
	r.Doc("R-C11.15", "every acquire and release of the fetcher's slot semaphore moves the same positive weight (a release of less leaks slots until the dispatcher blocks for ever, a release of more panics, an acquire of nothing bounds nothing)")
	{
		nsem := 0
		weights := map[int64]bool{}
		for _, fn := range p.Fns {
			if fn.Orig != nil || !inPkgs(p, fn, "entry") {
				continue
			}
			walkNoLit(fn.Body, func(n ast.Node) bool {
				call, ok := n.(*ast.CallExpr)
				if !ok {
					return true
				}
				cf := p.Callee(fn, call)
				if cf == nil || cf.Pkg() == nil || cf.Pkg().Path() != "golang.org/x/sync/semaphore" {
					return true
				}
				var warg ast.Expr
				switch cf.Name() {
				case "Acquire":
					if len(call.Args) == 2 {
						warg = call.Args[1]
					}
				case "TryAcquire", "Release":
					if len(call.Args) == 1 {
						warg = call.Args[0]
					}
				}
				if warg == nil {
					return true
				}
				nsem++
				if cf.Name() == "TryAcquire" {
					// the only place the dispatcher notices its deadline is the context-taking Acquire: a slot taken
					// without it needs its own look at the context first
					seesCtx := false
					walkNoLit(fn.Body, func(m ast.Node) bool {
						if c2, ok := m.(*ast.CallExpr); ok && c2.Pos() < call.Pos() {
							if cf2 := p.Callee(fn, c2); cf2 != nil && cf2.Pkg() != nil && cf2.Pkg().Path() == "context" && (cf2.Name() == "Err" || cf2.Name() == "Done") {
								seesCtx = true
							}
						}
						return true
					})
					r.Check(seesCtx, "R-C11.15", r.Key("R-C11.15", fn, "try-acquire", ""), call.Pos(), "the context is consulted before the non-blocking acquire",
						"a slot is taken with TryAcquire, which never looks at the context, and nothing before it does: once the deadline has passed the dispatcher keeps starting fetches as long as slots are free, so the load does not end within the configured timeout")
				}
				w, isConst := p.constInt(fn, warg)
				key := r.Key("R-C11.15", fn, "weight", cf.Name())
				if !isConst {
					r.Undecided("R-C11.15", key, call.Pos(), "the weight of this semaphore operation is not a constant the rule can compare")
					return true
				}
				weights[w] = true
				r.Check(w >= 1, "R-C11.15", key, call.Pos(), fmt.Sprintf("%s moves the weight %d", cf.Name(), w),
					fmt.Sprintf("%s moves the weight %d: a slot operation that moves nothing neither bounds the number of workers nor gives a slot back, and after as many fetches as there are slots the dispatcher waits for ever", cf.Name(), w))
				return true
			})
		}
		r.Check(len(weights) <= 1, "R-C11.15", r.Key("R-C11.15", nil, "weights-agree", ""), token.NoPos, "all slot operations move the same weight",
			fmt.Sprintf("the slot operations move different weights %v: releasing more than was acquired panics, releasing less leaks slots until the dispatcher blocks", keysOfInt64(weights)))
		r.Floor("R-C11.15", "operations on the slot semaphore", nsem, 2)
	}
	r.Doc("R-C11.14", "whether a hash was already queued, requested or fetched is decided by its presence in the task cache, not by the value stored for it (the first task state is the zero value)")
	{
		ex := p.FuncI("entry", "Fetcher", "exclude")
		cacheF := p.Field("entry", "Fetcher", "tasksCache")
		nlook := 0
		walkNoLit(ex.Body, func(n ast.Node) bool {
			ix, ok := n.(*ast.IndexExpr)
			if !ok {
				return true
			}
			if v, _ := p.FieldSel(ex, ix.X); v != cacheF {
				return true
			}
			nlook++
			commaOK := false
			if as, ok := p.ParentIn(ex, ix).(*ast.AssignStmt); ok && len(as.Lhs) == 2 && len(as.Rhs) == 1 && as.Rhs[0] == ast.Expr(ix) {
				commaOK = true
			}
			r.Check(commaOK, "R-C11.14", r.Key("R-C11.14", ex, "presence-test", ""), ix.Pos(), "the gate asks whether the hash is in the task cache",
				"the exclusion gate looks at the value stored for the hash instead of its presence: the state of a hash that is queued but not yet dispatched is the zero value, so it looks unknown and is queued — and requested — again")
			return true
		})
		r.Floor("R-C11.14", "task-cache lookups in the exclusion gate", nlook, 1)
	}
	{
		fe := p.FuncI("entry", "Fetcher", "Fetch")
		timeoutF := p.Field("entry", "Fetcher", "timeout")
		tf := &Flow{P: p, Fn: fe, Entry: Facts{}}
		tf.Node = func(n ast.Node, f Facts) {
			walkNoLit(n, func(nd ast.Node) bool {
				if call, ok := nd.(*ast.CallExpr); ok {
					if cf := p.Callee(fe, call); cf != nil && cf.Pkg() != nil && cf.Pkg().Path() == "context" && (cf.Name() == "WithTimeout" || cf.Name() == "WithDeadline") && len(call.Args) == 2 {
						if v, _ := p.FieldSel(fe, call.Args[1]); v == timeoutF && f["positive"] {
							f["fine"] = true // deadline in place, derived from a timeout known to be positive (a zero one cancels the fetch at once)
						}
					}
				}
				return true
			})
		}
		tf.Edge = func(cond ast.Expr, taken bool, f Facts) {
			for _, a := range splitCond(cond, taken) {
				// the side on which the timeout is known to be <= 0
				if nc, ok := p.normalizeCmp(fe, a, func(e ast.Expr) bool { v, _ := p.FieldSel(fe, e); return v == timeoutF }); ok && nc.impliesNonPositive() {
					f["fine"] = true // no timeout configured on this path
				}
				if nc, ok := p.normalizeCmp(fe, a, func(e ast.Expr) bool { v, _ := p.FieldSel(fe, e); return v == timeoutF }); ok && nc.impliesPositive() {
					f["positive"] = true
				}
			}
		}
		tf.Run()
		nstart := 0
		tf.Visit(func(_ *cfgBlk, n ast.Node, before Facts) {
			walkNoLit(n, func(nd ast.Node) bool {
				if call, ok := nd.(*ast.CallExpr); ok {
					if cf := p.Callee(fe, call); cf != nil && cf.Name() == "processQueue" {
						nstart++
						r.Check(before["fine"], "R-C11.12", r.Key("R-C11.12", fe, "start", ""), call.Pos(),
							"the fetch starts under the configured deadline whenever a positive timeout is set",
							"the fetch can start without a deadline although a positive timeout may be configured: a load over absent or slow blocks does not return within the timeout")
					}
				}
				return true
			})
		})
		r.Floor("R-C11.12", "starts of the fetch work", nstart, 1)
	}
	r.Doc("R-C11.10", "the fetcher's mutexes are released exactly once on every exit of the dispatcher, of every worker and of the helpers: a worker that ends while holding the process mutex stalls the dispatcher and every other worker for good")
	{
		nops, nex := 0, 0
		for _, op := range le.LockOps {
			if ownerOfClass(op.Class) != "Fetcher" {
				continue
			}
			nops++
			key := r.Key("R-C11.10", op.Fn, op.Op, op.Class)
			if op.Bad != "" {
				r.Violate("R-C11.10", key, op.Pos, fmt.Sprintf("%s on %s(%s): %s", op.Op, op.Class, op.Base, op.Bad))
			} else {
				r.Hold("R-C11.10", key, op.Pos, true, fmt.Sprintf("%s on %s(%s) well-formed (defer=%v)", op.Op, op.Class, op.Base, op.Defer))
			}
		}
		for _, ex := range le.Exits {
			if ex.Fn.Pkg.PkgPath != p.pkgPath("entry") || !strings.HasPrefix(p.Pos(ex.Pos), "entry/fetcher.go") {
				continue
			}
			var mine []string
			for _, h := range ex.Held {
				if strings.Contains(h, "|Fetcher.") {
					mine = append(mine, h)
				}
			}
			nex++
			key := r.Key("R-C11.10", ex.Fn, "exit", "")
			if len(mine) > 0 {
				r.Violate("R-C11.10", key, ex.Pos, fmt.Sprintf("exit reached while still holding %v (no deferred release pending): the dispatcher, which re-acquires the mutex when its wait returns, and every later worker block forever", mine))
			} else {
				r.Hold("R-C11.10", key, ex.Pos, false, "no fetcher lock held at this exit")
			}
		}
		r.Floor("R-C11.10", "lock operations on the fetcher's mutexes", nops, 4)
		r.Floor("R-C11.10", "exits of fetcher functions", nex, 5)
	}

	r.Doc("control", "engine positive/negative controls analysed on every run")
	lockControls(c, r, "control")
	pq := p.FuncI("entry", "Fetcher", "processQueue")
	var worker *Fn
	var goStmt *ast.GoStmt
	walkNoLit(pq.Body, func(n ast.Node) bool {
		if g, ok := n.(*ast.GoStmt); ok {
			if lit, ok := ast.Unparen(g.Call.Fun).(*ast.FuncLit); ok {
				worker = p.ByLit[lit]
				goStmt = g
			} else if cf := p.Callee(pq, g.Call); cf != nil && p.firstParty(cf.Pkg()) && p.ByObj[cf] != nil {
				// the worker as a method or function of its own: go f.runTask(ctx, state, hash)
				worker = p.ByObj[cf]
				goStmt = g
			}
		}
		return true
	})
	if worker == nil {
		infra("unresolved anchor: fetch worker (go statement) in processQueue")
	}
	// run state handed to a worker that is not a closure: the fields of a first-party struct built in the dispatcher
	runState := map[types.Object]bool{}
	walkNoLit(pq.Body, func(n ast.Node) bool {
		if cl, ok := n.(*ast.CompositeLit); ok {
			if nt := namedOf(p.TypeOf(pq, cl)); nt != nil && nt.Obj().Pkg() != nil && nt.Obj().Pkg().Path() == p.pkgPath("entry") && nt.Obj().Name() != "Fetcher" {
				if st, ok := nt.Underlying().(*types.Struct); ok {
					for i := 0; i < st.NumFields(); i++ {
						runState[st.Field(i)] = true
					}
				}
			}
		}
		return true
	})
	semRelease := func(fn *Fn, call *ast.CallExpr) bool {
		return reachesExt(c, fn, call, "golang.org/x/sync/semaphore", "Weighted", "Release", 3)
	}
	semAcquire := func(fn *Fn, call *ast.CallExpr) bool {
		return reachesExt(c, fn, call, "golang.org/x/sync/semaphore", "Weighted", "Acquire", 3)
	}

	// the in-progress counter: an int variable of processQueue tested by a cond-wait loop
	var counter types.Object
	ast.Inspect(pq.Body, func(n ast.Node) bool {
		fs, ok := n.(*ast.ForStmt)
		if !ok || fs.Cond == nil {
			return true
		}
		hasWait := false
		ast.Inspect(fs.Body, func(m ast.Node) bool {
			if call, ok := m.(*ast.CallExpr); ok {
				if f := p.Callee(pq, call); f != nil && isFunc(f, "sync", "Cond", "Wait") {
					hasWait = true
				}
			}
			return true
		})
		if !hasWait {
			return true
		}
		ast.Inspect(fs.Cond, func(m ast.Node) bool {
			if id, ok := m.(*ast.Ident); ok {
				if v, ok := p.ObjOf(pq, id).(*types.Var); ok && (!v.IsField() || runState[v]) {
					if b, ok := v.Type().Underlying().(*types.Basic); ok && b.Info()&types.IsInteger != 0 {
						// must be decremented by the worker
						dec := false
						ast.Inspect(worker.Body, func(k ast.Node) bool {
							if isDecrementOf(p, worker, k, v) {
								dec = true
							}
							return true
						})
						if dec {
							counter = v
						}
					}
				}
			}
			return true
		})
		return true
	})
	if counter == nil {
		r.Undecided("R-C11.1", r.Key("R-C11.1", pq, "counter", ""), pq.Body.Pos(), "no in-progress counter found: an integer local tested by a cond-wait loop and decremented by the worker")
		return
	}

	// --- worker flow: facts released / dec / signalled (signal after dec), with the lock facts of E2
	lockFlow := le.flows[orig(worker)]
	wf := &Flow{P: p, Fn: worker, Entry: Facts{}}
	wf.Node = func(n ast.Node, f Facts) {
		walkNoLit(n, func(nd ast.Node) bool {
			switch x := nd.(type) {
			case *ast.CallExpr:
				if semRelease(worker, x) {
					f["released"] = true
				}
				if cf := p.Callee(worker, x); cf != nil && (isFunc(cf, "sync", "Cond", "Signal") || isFunc(cf, "sync", "Cond", "Broadcast")) && f["dec"] {
					f["signalled"] = true
				}
			}
			if isDecrementOf(p, worker, nd, counter) {
				f["dec"] = true
			}
			return true
		})
	}
	wf.Run()
	nexit := 0
	wf.Exits(func(_ *cfgBlk, ret *ast.ReturnStmt, at Facts) {
		nexit++
		pos := worker.Body.Rbrace
		if ret != nil {
			pos = ret.Pos()
		}
		ok := at["released"] && at["dec"] && at["signalled"]
		var missing []string
		for _, k := range []string{"released", "dec", "signalled"} {
			if !at[k] {
				missing = append(missing, k)
			}
		}
		r.Check(ok, "R-C11.1", r.Key("R-C11.1", worker, "exit", ""), pos,
			"worker exit reached only after slot release, counter decrement and cond signal",
			fmt.Sprintf("worker can exit without %v: the dispatcher then waits forever for a task that is counted in progress (or for a slot that is never returned)", missing))
		r.Check(ok, "R-C11.6", r.Key("R-C11.6", worker, "exit", ""), pos,
			"no exit bypasses the accounting whether or not the fetch produced an entry",
			fmt.Sprintf("a path (e.g. the failed-fetch path) leaves the worker without %v", missing))
	})
	r.Floor("R-C11.1", "worker exits", nexit, 1)
	// release before mutex; decrement & signal under mutex
	if lockFlow == nil {
		infra("no lock flow for worker")
	}
	relBeforeLock := 0
	wf.Visit(func(_ *cfgBlk, n ast.Node, before Facts) {
		st := before.Clone()
		walkNoLit(n, func(nd ast.Node) bool {
			if call, ok := nd.(*ast.CallExpr); ok {
				if semRelease(worker, call) {
					st["released"] = true
				}
				if cf := p.Callee(worker, call); cf != nil && cf.Pkg() != nil && cf.Pkg().Path() == "sync" && cf.Name() == "Lock" {
					if se, ok := ast.Unparen(call.Fun).(*ast.SelectorExpr); ok {
						if class, _, ok := le.lockOf(worker, se.X); ok && class == "Fetcher.muProcess" {
							relBeforeLock++
							r.Check(st["released"], "R-C11.1", r.Key("R-C11.1", worker, "lock-after-release", class), call.Pos(),
								"the worker returns its semaphore slot before waiting for the process mutex",
								"the worker waits for the process mutex while still holding its semaphore slot; the dispatcher holds that mutex while blocked in Acquire — with all slots busy both wait forever")
						}
					}
				}
			}
			return true
		})
	})
	r.Floor("R-C11.1", "mutex acquisitions in the worker", relBeforeLock, 1)
	lockFlow.Visit(func(_ *cfgBlk, n ast.Node, before Facts) {
		walkNoLit(n, func(nd ast.Node) bool {
			held := false
			for k := range before {
				if strings.HasPrefix(k, "H|") && strings.HasSuffix(k, "|Fetcher.muProcess|W") {
					held = true
				}
			}
			if isDecrementOf(p, worker, nd, counter) {
				r.Check(held, "R-C11.1", r.Key("R-C11.1", worker, "dec-under-lock", counter.Name()), nd.Pos(), "counter decrement under Fetcher.muProcess", "in-progress counter decremented without Fetcher.muProcess")
			}
			if call, ok := nd.(*ast.CallExpr); ok {
				if cf := p.Callee(worker, call); cf != nil && (isFunc(cf, "sync", "Cond", "Signal") || isFunc(cf, "sync", "Cond", "Broadcast")) {
					r.Check(held, "R-C11.1", r.Key("R-C11.1", worker, "signal-under-lock", ""), call.Pos(), "cond signalled under its Locker (no lost wake-up)", "cond signalled without holding its Locker: the dispatcher can miss the wake-up between its test and Wait")
				}
			}
			return true
		})
	})

	// --- dispatcher: go dominated by successful acquire, followed by counter++ before any wait/exit
	df := &Flow{P: p, Fn: pq, Entry: Facts{}}
	df.Node = func(n ast.Node, f Facts) {
		walkNoLit(n, func(nd ast.Node) bool {
			switch x := nd.(type) {
			case *ast.GoStmt:
				if x == goStmt {
					delete(f, "slot")
					f["started"] = true
				}
			case *ast.IncDecStmt:
				if placeOf(p, pq, x.X) == counter && x.Tok == token.INC {
					delete(f, "started")
				}
			case *ast.AssignStmt:
				// err := acquire(...) handled on the edge; nothing here
			}
			return true
		})
	}
	// the acquire result: `if err := f.acquireProcessSlot(ctx); err != nil { break }`
	acqErr := map[types.Object]bool{}
	ast.Inspect(pq.Body, func(n ast.Node) bool {
		if as, ok := n.(*ast.AssignStmt); ok && len(as.Lhs) == 1 && len(as.Rhs) == 1 {
			if call, ok := ast.Unparen(as.Rhs[0]).(*ast.CallExpr); ok && semAcquire(pq, call) {
				if id, ok := as.Lhs[0].(*ast.Ident); ok {
					acqErr[p.ObjOf(pq, id)] = true
				}
			}
		}
		return true
	})
	df.Edge = func(cond ast.Expr, taken bool, f Facts) {
		for _, a := range splitCond(cond, taken) {
			if x, isNil, ok := nilTest(a); ok && isNil {
				if id, ok := ast.Unparen(x).(*ast.Ident); ok && acqErr[p.ObjOf(pq, id)] {
					f["slot"] = true
				}
				if call, ok := ast.Unparen(x).(*ast.CallExpr); ok && semAcquire(pq, call) {
					f["slot"] = true
				}
			}
		}
	}
	df.Run()
	df.Visit(func(_ *cfgBlk, n ast.Node, before Facts) {
		walkNoLit(n, func(nd ast.Node) bool {
			if g, ok := nd.(*ast.GoStmt); ok && g == goStmt {
				r.Check(before["slot"], "R-C11.1", r.Key("R-C11.1", pq, "go-after-acquire", ""), g.Pos(),
					"worker started only on the success edge of the slot acquisition",
					"a worker is started without a successfully acquired semaphore slot: its Release then over-releases (panic) or concurrency is unbounded")
			}
			if call, ok := nd.(*ast.CallExpr); ok {
				if cf := p.Callee(pq, call); cf != nil && isFunc(cf, "sync", "Cond", "Wait") && before["started"] {
					r.Violate("R-C11.1", r.Key("R-C11.1", pq, "wait-before-inc", ""), call.Pos(), "dispatcher can wait after starting a worker without having counted it in progress: the wait loop's condition does not see the task")
				}
			}
			return true
		})
	})
	incOK := true
	df.Exits(func(_ *cfgBlk, _ *ast.ReturnStmt, at Facts) {
		if at["started"] {
			incOK = false
		}
	})
	r.Check(incOK, "R-C11.1", r.Key("R-C11.1", pq, "inc-after-go", counter.Name()), goStmt.Pos(), "every worker start is followed by the counter increment before any wait or exit", "a worker start can reach the function exit without the counter increment")

	// --- R-C11.2 condition waits
	nw := 0
	for _, cw := range le.CondWaits {
		nw++
		r.Check(cw.Held && cw.InLoop, "R-C11.2", r.Key("R-C11.2", cw.Fn, "wait", cw.Cond), cw.Pos,
			"Wait holds the cond's Locker and re-checks its condition in a loop",
			fmt.Sprintf("cond wait on %s: locker held=%v, inside a conditioned loop=%v (a wait outside a loop misses spurious/early wake-ups; a wait without the locker panics or loses signals)", cw.Cond, cw.Held, cw.InLoop))
	}
	r.Floor("R-C11.2", "condition waits", nw, 1)
	// the drain loop on the counter dominates the final unlock and the return
	drain := &Flow{P: p, Fn: pq, Entry: Facts{}}
	drain.Edge = func(cond ast.Expr, taken bool, f Facts) {
		// leaving `for counter > 0 {Wait}`: on the false edge of counter > 0 the counter is known drained
		for _, a := range splitCond(cond, taken) {
			isCounter := func(e ast.Expr) bool {
				return placeOf(p, pq, e) == counter
			}
			if nc, ok := p.normalizeCmp(pq, a, isCounter); ok && nc.impliesNonPositive() && nc.holdsAt(0) { // leaves the loop exactly when nothing is in flight (a test that 0 does not pass never ends the wait)
				f["drained"] = true
			}
		}
	}
	drain.Node = func(n ast.Node, f Facts) {
		walkNoLit(n, func(nd ast.Node) bool {
			if g, ok := nd.(*ast.GoStmt); ok && g == goStmt {
				delete(f, "drained")
			}
			if s, ok := nd.(*ast.IncDecStmt); ok {
				if placeOf(p, pq, s.X) == counter {
					delete(f, "drained")
				}
			}
			if s, ok := nd.(*ast.AssignStmt); ok && s.Tok != token.DEFINE {
				for _, l := range s.Lhs {
					if placeOf(p, pq, l) == counter {
						delete(f, "drained")
					}
				}
			}
			return true
		})
	}
	drain.Run()
	nret := 0
	drain.Exits(func(_ *cfgBlk, ret *ast.ReturnStmt, at Facts) {
		nret++
		pos := pq.Body.Rbrace
		if ret != nil {
			pos = ret.Pos()
		}
		// an exit before any worker was started is fine only if the counter is still at its initial zero;
		// require the drained fact at every exit reachable after the counter's declaration
		r.Check(at["drained"], "R-C11.2", r.Key("R-C11.2", pq, "drain-before-return", ""), pos,
			"the function returns only after observing the in-progress counter at zero (all workers accounted)",
			"the wait for the workers is not left exactly when none is in flight (processQueue can return while workers are still in progress, or never returns): they then write to results after it was handed out, and Fetch's deferred cancel kills their requests")
	})

	// ---- R-C11.16: the dispatcher's loops distinguish exactly "nothing" from "something"
	r.Doc("R-C11.16", "the in-flight counter starts at zero, and every test of it or of the queue length in the dispatcher separates exactly zero from the positive values (a loop that goes on at zero never ends, one that stops at one leaves a hash unfetched or a worker unawaited)")
	{
		ntest := 0
		isCounterE := func(fn *Fn) func(ast.Expr) bool {
			return func(e ast.Expr) bool {
				return placeOf(p, fn, e) == counter
			}
		}
		isQueueLen := func(fn *Fn) func(ast.Expr) bool {
			return func(e ast.Expr) bool {
				call, ok := ast.Unparen(e).(*ast.CallExpr)
				if !ok || len(call.Args) != 0 {
					return false
				}
				cf := p.Callee(fn, call)
				return cf != nil && cf.Name() == "Len" && cf.Pkg() != nil && cf.Pkg().Path() == p.pkgPath("entry")
			}
		}
		exact := func(nc normCmp) bool {
			// true for every value >= 1 and false at 0, or the complement
			pos := (nc.Op == token.GTR && nc.C == 0) || (nc.Op == token.GEQ && nc.C == 1) || (nc.Op == token.NEQ && nc.C == 0)
			zero := (nc.Op == token.LEQ && nc.C == 0) || (nc.Op == token.LSS && nc.C == 1) || (nc.Op == token.EQL && nc.C == 0)
			return pos || zero
		}
		for _, fn := range p.AllViews(pq) {
			var conds []ast.Expr
			walkNoLit(fn.Body, func(n ast.Node) bool {
				switch x := n.(type) {
				case *ast.ForStmt:
					if x.Cond != nil {
						conds = append(conds, x.Cond)
					}
				case *ast.IfStmt:
					conds = append(conds, x.Cond)
				}
				return true
			})
			for _, cnd := range conds {
				for _, alt := range dnfCond(cnd, true) {
					for _, a := range alt {
						for _, sb := range []struct {
							what string
							is   func(ast.Expr) bool
						}{{"in-flight counter", isCounterE(fn)}, {"queue length", isQueueLen(fn)}} {
							nc, ok := p.normalizeCmp(fn, a, sb.is)
							if !ok {
								continue
							}
							ntest++
							r.Check(exact(nc), "R-C11.16", r.Key("R-C11.16", fn, "zero-test", sb.what), a.E.Pos(),
								"the test separates zero from the positive values",
								fmt.Sprintf("the dispatcher tests the %s with `%s`, which does not separate zero from the positive values: a wait or dispatch loop that goes on at zero never ends, one that stops at one leaves the last hash unfetched or the last worker unawaited (what it queues is never fetched)", sb.what, types.ExprString(a.E)))
						}
					}
				}
			}
		}
		// a loop that goes on while workers are in flight waits on the condition variable: spinning there keeps the
		// process mutex, and the workers, which need it to report, never finish
		for _, fn := range p.AllViews(pq) {
			walkNoLit(fn.Body, func(n ast.Node) bool {
				fs, ok := n.(*ast.ForStmt)
				if !ok || fs.Cond == nil {
					return true
				}
				onCounter := false
				for _, alt := range dnfCond(fs.Cond, true) {
					for _, a := range alt {
						if _, ok := p.normalizeCmp(fn, a, isCounterE(fn)); ok {
							onCounter = true
						}
					}
				}
				if !onCounter {
					return true
				}
				waits := false
				ast.Inspect(fs.Body, func(m ast.Node) bool {
					if call, ok := m.(*ast.CallExpr); ok {
						if f := p.Callee(fn, call); f != nil && isFunc(f, "sync", "Cond", "Wait") {
							waits = true
						}
					}
					return true
				})
				r.Check(waits, "R-C11.16", r.Key("R-C11.16", fn, "counter-loop-waits", ""), fs.Pos(), "the loop on the in-flight counter waits on the condition variable",
					"a loop that goes on while workers are in flight does not wait on the condition variable: it spins holding the process mutex, the workers block on that mutex before they can report, and the load never returns")
				return true
			})
		}
		// initial value
		okInit, why := false, "no single initialisation of the counter found"
		if cv, isVar := counter.(*types.Var); isVar && cv.IsField() {
			// a field of the run-state struct: zero unless the literal that builds the struct sets it
			okInit, why = true, ""
			walkNoLit(pq.Body, func(n ast.Node) bool {
				if kv, ok := n.(*ast.KeyValueExpr); ok {
					if k, ok := kv.Key.(*ast.Ident); ok && p.ObjOf(pq, k) == counter {
						if v, isC := p.constInt(pq, kv.Value); !isC || v != 0 {
							okInit, why = false, "the literal that builds the run state sets it to something else than 0"
						}
					}
				}
				return true
			})
		} else if def := p.SoleDefAllowingSteps(pq, counter); def != nil {
			if v, isC := p.constInt(pq, def); isC {
				okInit, why = v == 0, fmt.Sprintf("it starts at %d", v)
			} else if bl, isLit := def.(*ast.BasicLit); isLit && bl.Value == "0" {
				okInit = true
			} else {
				why = "it does not start from a constant"
			}
		}
		r.Check(okInit, "R-C11.16", r.Key("R-C11.16", pq, "counter-init", ""), pq.Body.Pos(), "the in-flight counter starts at zero",
			"the in-flight counter does not start at zero ("+why+"): the final wait for the workers never sees it drained, or returns while one is still running")
		r.Floor("R-C11.16", "tests of the counter and the queue length in the dispatcher", ntest, 3)
	}

	// --- R-C11.3 gate
	excludeFn := p.FuncObj("entry", "Fetcher", "exclude")
	if excludeFn == nil {
		infra("unresolved anchor: (*Fetcher).exclude")
	}
	tasksCache := p.Field("entry", "Fetcher", "tasksCache")
	qIface := p.Pkg("entry").Types.Scope().Lookup("processQueue")
	if qIface == nil {
		infra("unresolved anchor: entry.processQueue")
	}
	nAdd := 0
	for _, fn := range p.Fns {
		if fn.Pkg.PkgPath != p.pkgPath("entry") {
			continue
		}
		var adds []*ast.CallExpr
		walkNoLit(fn.Body, func(n ast.Node) bool {
			if call, ok := n.(*ast.CallExpr); ok {
				if cf := p.Callee(fn, call); cf != nil && cf.Name() == "Add" {
					if rv := cf.Type().(*types.Signature).Recv(); rv != nil && namedOf(rv.Type()) != nil && namedOf(rv.Type()).Obj() == qIface {
						adds = append(adds, call)
					}
				}
			}
			return true
		})
		if len(adds) == 0 {
			continue
		}
		gf := &Flow{P: p, Fn: fn, Entry: Facts{}}
		gf.Edge = func(cond ast.Expr, taken bool, f Facts) {
			for _, a := range splitCond(cond, taken) {
				if call, ok := ast.Unparen(a.E).(*ast.CallExpr); ok && !a.Truth {
					if cf := p.Callee(fn, call); cf == excludeFn && len(call.Args) == 1 {
						if _, key, ok := p.PathKey(fn, call.Args[0]); ok {
							f["gate|"+key] = true
						}
					}
				}
			}
		}
		gf.Node = func(n ast.Node, f Facts) {
			for _, id := range assignedIdents(n) {
				if o := p.ObjOf(fn, id); o != nil {
					delete(f, "gate|"+p.ID(o))
				}
			}
			walkNoLit(n, func(nd ast.Node) bool {
				if as, ok := nd.(*ast.AssignStmt); ok {
					for _, l := range as.Lhs {
						if ix, ok := ast.Unparen(l).(*ast.IndexExpr); ok {
							if v, _ := p.FieldSel(fn, ix.X); v == tasksCache {
								if _, key, ok := p.PathKey(fn, ix.Index); ok {
									delete(f, "unmarked|"+key)
								}
							}
						}
					}
				}
				if call, ok := nd.(*ast.CallExpr); ok {
					for _, a := range adds {
						if a == call && len(call.Args) == 2 {
							if _, key, ok := p.PathKey(fn, call.Args[1]); ok {
								f["unmarked|"+key] = true
							}
						}
					}
				}
				return true
			})
		}
		gf.Run()
		gf.Visit(func(_ *cfgBlk, n ast.Node, before Facts) {
			walkNoLit(n, func(nd ast.Node) bool {
				call, ok := nd.(*ast.CallExpr)
				if !ok {
					return true
				}
				for _, a := range adds {
					if a != call {
						continue
					}
					nAdd++
					okGate := false
					if len(call.Args) == 2 {
						if _, key, ok := p.PathKey(fn, call.Args[1]); ok && before["gate|"+key] {
							okGate = true
						}
					}
					r.Check(okGate, "R-C11.3", r.Key("R-C11.3", fn, "queue.Add", ""), call.Pos(),
						"queue insertion dominated by the negative result of exclude() for the same hash",
						"a hash is put on the fetch queue without passing the exclude gate (task cache, undefined CID, caller's predicate): excluded or already-requested hashes are fetched again")
				}
				return true
			})
		})
		// marking: must-analysis keeps "unmarked" only if set on all paths; use a may-flow for the complement
		mf := &Flow{P: p, Fn: fn, May: true, Entry: Facts{}, Node: gf.Node}
		mf.Run()
		marked := true
		mf.Exits(func(_ *cfgBlk, _ *ast.ReturnStmt, at Facts) {
			if at.HasPrefix("unmarked|") {
				marked = false
			}
		})
		r.Check(marked, "R-C11.3", r.Key("R-C11.3", fn, "mark-after-add", ""), fn.Body.Pos(),
			"every queued hash is recorded in the task cache before the function returns",
			"a queued hash can leave the function without being recorded in tasksCache: the same hash is queued again by the next entry that names it")
	}
	r.Floor("R-C11.3", "queue.Add call sites", nAdd, 1)

	// --- R-C11.4 confinement
	counts := map[string]int{}
	guardObligations(c, r, le, "R-C11.4", map[string]bool{"Fetcher": true}, counts)
	r.Floor("R-C11.4", "Fetcher guarded field accesses", counts["Fetcher.tasksCache"]+counts["Fetcher.maxClock"]+counts["Fetcher.minClock"], 6)
	// worker-shared locals: captured variables assigned after declaration, or of the non-thread-safe queue type
	shared := map[types.Object]bool{}
	for _, fn := range AllFnsUnder(pq) {
		ast.Inspect(fn.Body, func(n ast.Node) bool {
			for _, id := range assignedIdentsShallow(n) {
				if v, ok := p.ObjOf(fn, id).(*types.Var); ok && !v.IsField() && declaredIn(v, pq) && !declaredIn(v, worker) {
					if _, isDef := fn.Pkg.TypesInfo.Defs[id]; !isDef {
						shared[v] = true
					}
				}
			}
			return true
		})
	}
	ast.Inspect(pq.Body, func(n ast.Node) bool {
		if id, ok := n.(*ast.Ident); ok {
			if v, ok := p.ObjOf(pq, id).(*types.Var); ok && !v.IsField() && declaredIn(v, pq) && !declaredIn(v, worker) {
				if nt := namedOf(v.Type()); nt != nil && nt.Obj() == qIface {
					shared[v] = true
				}
			}
		}
		return true
	})
	for o := range runState {
		shared[o] = true // the fields of the run state a non-closure worker is handed
	}
	nshared := 0
	lockFlow.Visit(func(_ *cfgBlk, n ast.Node, before Facts) {
		held := false
		for k := range before {
			if strings.HasPrefix(k, "H|") && strings.HasSuffix(k, "|Fetcher.muProcess|W") {
				held = true
			}
		}
		// lock state can change inside a node only at lock calls, which do not mention shared locals
		walkNoLit(n, func(nd ast.Node) bool {
			if id, ok := nd.(*ast.Ident); ok && shared[p.ObjOf(worker, id)] {
				nshared++
				r.Check(held, "R-C11.4", r.Key("R-C11.4", worker, "shared-local", id.Name), id.Pos(),
					"worker touches dispatcher-shared local "+id.Name+" under Fetcher.muProcess",
					"worker touches dispatcher-shared local "+id.Name+" without Fetcher.muProcess (races with the dispatcher and sibling workers)")
			}
			return true
		})
	})
	var sn []string
	for v := range shared {
		sn = append(sn, v.Name())
	}
	sort.Strings(sn)
	r.Tables["worker_shared_locals"] = sn
	r.Floor("R-C11.4", "uses of shared locals in the worker", nshared, 4)

	// --- R-C11.5 context propagation
	fetch := p.FuncI("entry", "Fetcher", "Fetch")
	reach := c.CG.Reach([]*Fn{fetch}, false)
	nctx := 0
	for fn := range reach {
		rootCtx := ctxParam(p, fn.Root())
		for _, cs := range c.CG.Sites(fn) {
			if cs.Callee == nil {
				continue
			}
			sig := cs.Callee.Type().(*types.Signature)
			for i := 0; i < sig.Params().Len() && i < len(cs.Call.Args); i++ {
				if !isNamed(sig.Params().At(i).Type(), "context", "Context") {
					continue
				}
				if cs.Callee.Pkg() != nil && cs.Callee.Pkg().Path() == "context" {
					continue // deriving a context: checked through its result
				}
				nctx++
				arg := ast.Unparen(cs.Call.Args[i])
				ok := false
				why := ""
				if id, isId := arg.(*ast.Ident); isId {
					o := p.ObjOf(fn, id)
					if o == rootCtx || (rootCtx == nil && o != nil) {
						ok = true
					} else if v, isVar := o.(*types.Var); isVar && derivedFromCtx(p, fn, v, rootCtx) {
						ok = true
					} else if v != nil && fn.Lit != nil && paramOf(p, fn, v) {
						// the literal's own ctx parameter: check the argument at its call site(s) — go func(ctx){}(ctx)
						ok = true
					}
					why = "context argument " + id.Name
				} else {
					why = "context argument " + types.ExprString(arg)
				}
				r.Check(ok, "R-C11.5", r.Key("R-C11.5", fn, "ctx-arg", cs.Callee.Name()), cs.Call.Pos(),
					why+" is the caller's own (deadline-carrying) context",
					why+" passed to "+cs.Callee.Name()+" is not the function's own context parameter nor derived from it: the configured timeout/cancellation does not reach this blocking call")
			}
		}
	}
	r.Floor("R-C11.5", "context-taking calls on the fetch path", nctx, 3)
	// WithTimeout in Fetch: result assigned to the ctx variable that is passed on; cancel deferred
	nto := 0
	walkNoLit(fetch.Body, func(n ast.Node) bool {
		as, ok := n.(*ast.AssignStmt)
		if !ok || len(as.Rhs) != 1 || len(as.Lhs) != 2 {
			return true
		}
		call, ok := ast.Unparen(as.Rhs[0]).(*ast.CallExpr)
		if !ok {
			return true
		}
		cf := p.Callee(fetch, call)
		if cf == nil || cf.Pkg() == nil || cf.Pkg().Path() != "context" || !strings.HasPrefix(cf.Name(), "With") {
			return true
		}
		nto++
		ctxID, _ := as.Lhs[0].(*ast.Ident)
		cancelID, _ := as.Lhs[1].(*ast.Ident)
		okCtx := ctxID != nil && (p.ObjOf(fetch, ctxID) == ctxParam(p, fetch) || p.CanonObj(fetch, ctxID) == ctxParam(p, fetch))
		if !okCtx && ctxID != nil && ctxID.Name != "_" {
			// the deadline context kept in a variable of its own: every context handed on after the derivation
			// is that variable
			derived := p.ObjOf(fetch, ctxID)
			nafter, allDerived := 0, true
			walkNoLit(fetch.Body, func(m ast.Node) bool {
				c2, ok := m.(*ast.CallExpr)
				if !ok || c2.Pos() < as.End() {
					return true
				}
				for _, a := range c2.Args {
					if t := p.TypeOf(fetch, a); t != nil && isNamed(t, "context", "Context") {
						nafter++
						if id, ok := ast.Unparen(a).(*ast.Ident); !ok || p.ObjOf(fetch, id) != derived {
							allDerived = false
						}
					}
				}
				return true
			})
			okCtx = nafter > 0 && allDerived
		}
		okArg := len(call.Args) > 0 && func() bool {
			id, ok := ast.Unparen(call.Args[0]).(*ast.Ident)
			return ok && (p.ObjOf(fetch, id) == ctxParam(p, fetch) || p.CanonObj(fetch, id) == ctxParam(p, fetch))
		}()
		deferred := false
		walkNoLit(fetch.Body, func(m ast.Node) bool {
			if d, ok := m.(*ast.DeferStmt); ok && cancelID != nil {
				if id, ok := ast.Unparen(d.Call.Fun).(*ast.Ident); ok && p.ObjOf(fetch, id) == p.ObjOf(fetch, cancelID) {
					deferred = true
				}
			}
			return true
		})
		r.Check(okCtx && okArg && deferred, "R-C11.5", r.Key("R-C11.5", fetch, "with-timeout", ""), as.Pos(),
			"the deadline context derives from and replaces the caller's context; its cancel is deferred",
			fmt.Sprintf("timeout context misuse: replaces ctx=%v derives-from-ctx=%v cancel-deferred=%v", okCtx, okArg, deferred))
		return true
	})
	r.Floor("R-C11.5", "context.With* derivations in Fetch", nto, 1)
}

// placeOf: the variable or struct field an expression names (x, s.f) — the identity rules compare.
func placeOf(p *Prog, fn *Fn, e ast.Expr) types.Object {
	switch x := ast.Unparen(e).(type) {
	case *ast.Ident:
		return p.ObjOf(fn, x)
	case *ast.SelectorExpr:
		if v, ok := p.ObjOf(fn, x.Sel).(*types.Var); ok && v.IsField() {
			return v
		}
	}
	return nil
}

func isDecrementOf(p *Prog, fn *Fn, n ast.Node, v types.Object) bool {
	switch s := n.(type) {
	case *ast.IncDecStmt:
		if s.Tok == token.DEC && placeOf(p, fn, s.X) == v {
			return true
		}
	case *ast.AssignStmt:
		if len(s.Lhs) == 1 && len(s.Rhs) == 1 {
			if placeOf(p, fn, s.Lhs[0]) == v {
				if s.Tok == token.SUB_ASSIGN {
					return true
				}
				if be, ok := ast.Unparen(s.Rhs[0]).(*ast.BinaryExpr); ok && be.Op == token.SUB && s.Tok == token.ASSIGN {
					if placeOf(p, fn, be.X) == v {
						return true
					}
				}
			}
		}
	}
	return false
}

func assignedIdentsShallow(n ast.Node) []*ast.Ident {
	switch s := n.(type) {
	case *ast.AssignStmt:
		var out []*ast.Ident
		for _, l := range s.Lhs {
			if id, ok := ast.Unparen(l).(*ast.Ident); ok {
				out = append(out, id)
			}
		}
		return out
	case *ast.IncDecStmt:
		if id, ok := ast.Unparen(s.X).(*ast.Ident); ok {
			return []*ast.Ident{id}
		}
	}
	return nil
}

func declaredIn(v *types.Var, fn *Fn) bool {
	if v.Pos() >= fn.Body.Pos() && v.Pos() <= fn.Body.End() || (fn.Type != nil && v.Pos() >= fn.Type.Pos() && v.Pos() <= fn.Type.End()) {
		return true
	}
	if fn.Orig == nil {
		return false
	}
	// a helper-transparent view: the variable may be declared in a spliced-in helper (other source positions)
	found := false
	ast.Inspect(fn.Body, func(n ast.Node) bool {
		if id, ok := n.(*ast.Ident); ok && id.Pos() == v.Pos() && id.Name == v.Name() {
			found = true
		}
		return !found
	})
	return found
}

func paramOf(p *Prog, fn *Fn, v *types.Var) bool {
	if fn.Type == nil || fn.Type.Params == nil {
		return false
	}
	for _, f := range fn.Type.Params.List {
		for _, n := range f.Names {
			if fn.Pkg.TypesInfo.Defs[n] == types.Object(v) {
				return true
			}
		}
	}
	return false
}

func ctxParam(p *Prog, fn *Fn) types.Object {
	if fn.Type == nil || fn.Type.Params == nil {
		return nil
	}
	for _, f := range fn.Type.Params.List {
		if isNamed(fn.Pkg.TypesInfo.TypeOf(f.Type), "context", "Context") {
			for _, n := range f.Names {
				if n.Name != "_" {
					return fn.Pkg.TypesInfo.Defs[n]
				}
			}
		}
	}
	return nil
}

// derivedFromCtx: v is only ever assigned from context.With*(root, …).
func derivedFromCtx(p *Prog, fn *Fn, v *types.Var, root types.Object) bool {
	ok, any := true, false
	ast.Inspect(fn.Root().Body, func(n ast.Node) bool {
		as, isAs := n.(*ast.AssignStmt)
		if !isAs {
			return true
		}
		for i, l := range as.Lhs {
			id, isId := ast.Unparen(l).(*ast.Ident)
			if !isId || p.ObjOf(fn, id) != types.Object(v) {
				continue
			}
			any = true
			if len(as.Rhs) == 1 && i == 0 {
				if call, isCall := ast.Unparen(as.Rhs[0]).(*ast.CallExpr); isCall {
					if cf := p.Callee(fn, call); cf != nil && cf.Pkg() != nil && cf.Pkg().Path() == "context" && strings.HasPrefix(cf.Name(), "With") && len(call.Args) > 0 {
						if aid, isA := ast.Unparen(call.Args[0]).(*ast.Ident); isA && p.ObjOf(fn, aid) == root {
							continue
						}
					}
				}
			}
			ok = false
		}
		return true
	})
	return ok && any
}

// reachesExt: the call's static callee is the named external method, or a first-party function that calls it
// (on every path is not required here — used to *identify* wrappers like processDone/acquireProcessSlot).
func reachesExt(c *Ctx, fn *Fn, call *ast.CallExpr, pkg, recv, name string, depth int) bool {
	cf := c.P.Callee(fn, call)
	if cf == nil {
		return false
	}
	if isFunc(cf, pkg, recv, name) {
		return true
	}
	if depth == 0 {
		return false
	}
	t := c.P.ByObj[cf]
	if t == nil {
		return false
	}
	// wrapper: a function whose body is a single statement containing the target call
	if len(t.Body.List) > 2 {
		return false
	}
	found := false
	walkNoLit(t.Body, func(n ast.Node) bool {
		if cc, ok := n.(*ast.CallExpr); ok && reachesExt(c, t, cc, pkg, recv, name, depth-1) {
			found = true
		}
		return true
	})
	return found
}

func keysOfInt64(m map[int64]bool) []int64 {
	var out []int64
	for k := range m {
		out = append(out, k)
	}
	sort.Slice(out, func(i, j int) bool { return out[i] < out[j] })
	return out
}
