package main

// inline.go — helper-transparent views of functions: a synthetic body in which statement-level calls to
// same-package, unexported, single-call-site helpers are spliced in (parameters bound by synthetic
// assignments, `return` turned into assignment + labelled break). Rules that reason about one function's
// control flow then keep working when a maintainer extracts part of that function into a helper. The
// original syntax trees are never modified; type information is reused because helper and caller live in
// the same package.

import (
	"fmt"
	"go/ast"
	"go/token"
	"go/types"

	"golang.org/x/tools/go/cfg"
)

type inliner struct {
	p       *Prog
	root    *Fn
	nlabel  int
	depth   int
	lits    []*Fn
	inlined []string
	alias   map[types.Object]aliasTo
}

// callSites counts static call sites of each declared function inside first-party code.
func (p *Prog) callSiteCounts() map[*types.Func]int {
	if p.siteCount != nil {
		return p.siteCount
	}
	p.siteCount = map[*types.Func]int{}
	for _, fn := range p.Fns {
		ast.Inspect(fn.Body, func(n ast.Node) bool {
			if call, ok := n.(*ast.CallExpr); ok {
				if f := p.Callee(fn, call); f != nil && p.ByObj[f] != nil {
					p.siteCount[f]++
				}
			}
			if fl, ok := n.(*ast.FuncLit); ok && fl != fn.Lit {
				return false // counted when the literal's own Fn is visited
			}
			return true
		})
		// also references as values make a function non-exclusive
		ast.Inspect(fn.Body, func(n ast.Node) bool {
			if id, ok := n.(*ast.Ident); ok {
				if f, ok := p.ObjOf(fn, id).(*types.Func); ok && p.ByObj[f.Origin()] != nil {
					if _, isCallFun := p.parent[id].(*ast.CallExpr); !isCallFun {
						if se, ok := p.parent[id].(*ast.SelectorExpr); ok {
							if c, ok := p.parent[se].(*ast.CallExpr); ok && ast.Unparen(c.Fun) == ast.Expr(se) {
								return true
							}
						}
						p.siteCount[f.Origin()] += 2
					}
				}
			}
			return true
		})
	}
	return p.siteCount
}

// Inl returns the helper-transparent view of fn (fn itself when nothing can be spliced in).
func (p *Prog) Inl(fn *Fn) *Fn {
	if fn == nil {
		return nil
	}
	if v, ok := p.inlViews[fn]; ok {
		return v
	}
	if p.inlViews == nil {
		p.inlViews = map[*Fn]*Fn{}
	}
	il := &inliner{p: p, root: fn}
	body := il.block(fn.Body, nil, fn)
	view := fn
	if body != fn.Body {
		view = &Fn{Name: fn.Name, Obj: fn.Obj, Decl: fn.Decl, Lit: fn.Lit, Parent: fn.Parent, Body: body, Type: fn.Type, Pkg: fn.Pkg,
			Lits: append(append([]*Fn{}, fn.Lits...), il.lits...), Orig: fn, Inlined: il.inlined, Alias: il.alias}
		view.CFG = cfg.New(body, func(c *ast.CallExpr) bool { return p.mayReturn(fn.Pkg, c) })
		if p.viewOf == nil {
			p.viewOf = map[*Fn]*Fn{}
		}
		for _, l := range il.lits {
			for _, sub := range AllFnsUnder(l) {
				p.viewOf[sub] = view
			}
		}
		view.Parents = map[ast.Node]ast.Node{}
		var stack []ast.Node
		ast.Inspect(body, func(n ast.Node) bool {
			if n == nil {
				stack = stack[:len(stack)-1]
				return true
			}
			if len(stack) > 0 {
				view.Parents[n] = stack[len(stack)-1]
			}
			stack = append(stack, n)
			return true
		})
	}
	p.inlViews[fn] = view
	return view
}

// FuncI: anchor lookup returning the helper-transparent view.
func (p *Prog) FuncI(rel, recv, name string) *Fn { return p.Inl(p.Func(rel, recv, name)) }

type retHandler struct {
	lhs   []ast.Expr // where results go (nil: dropped)
	tok   token.Token
	label *ast.Ident
	named []*ast.Ident // helper's named results
}

func (il *inliner) block(b *ast.BlockStmt, rh *retHandler, ctx *Fn) *ast.BlockStmt {
	if b == nil {
		return nil
	}
	out, changed := il.list(b.List, rh, ctx)
	if !changed {
		return b
	}
	return &ast.BlockStmt{Lbrace: b.Lbrace, List: out, Rbrace: b.Rbrace}
}

func (il *inliner) list(in []ast.Stmt, rh *retHandler, ctx *Fn) ([]ast.Stmt, bool) {
	var out []ast.Stmt
	changed := false
	for _, s := range in {
		ns := il.stmt(s, rh, ctx)
		if len(ns) != 1 || ns[0] != s {
			changed = true
		}
		out = append(out, ns...)
	}
	return out, changed
}

// stmt rewrites one statement; returns its replacement(s).
func (il *inliner) stmt(s ast.Stmt, rh *retHandler, ctx *Fn) []ast.Stmt {
	switch x := s.(type) {
	case *ast.ReturnStmt:
		if rh == nil {
			return []ast.Stmt{s}
		}
		var out []ast.Stmt
		if rh.lhs != nil {
			rhs := x.Results
			if len(rhs) == 0 && len(rh.named) == len(rh.lhs) {
				for _, n := range rh.named {
					rhs = append(rhs, n)
				}
			}
			if len(rhs) == len(rh.lhs) || (len(rhs) == 1 && len(rh.lhs) > 1) {
				out = append(out, &ast.AssignStmt{Lhs: rh.lhs, TokPos: x.Pos(), Tok: rh.tok, Rhs: rhs})
			}
		} else {
			for _, e := range x.Results {
				out = append(out, &ast.ExprStmt{X: e})
			}
		}
		out = append(out, &ast.BranchStmt{TokPos: x.Pos(), Tok: token.BREAK, Label: rh.label})
		return out
	case *ast.BlockStmt:
		nb := il.block(x, rh, ctx)
		return []ast.Stmt{nb}
	case *ast.LabeledStmt:
		ns := il.stmt(x.Stmt, rh, ctx)
		if len(ns) == 1 && ns[0] == x.Stmt {
			return []ast.Stmt{s}
		}
		if len(ns) == 1 {
			return []ast.Stmt{&ast.LabeledStmt{Label: x.Label, Colon: x.Colon, Stmt: ns[0]}}
		}
		return []ast.Stmt{&ast.LabeledStmt{Label: x.Label, Colon: x.Colon, Stmt: &ast.BlockStmt{Lbrace: x.Pos(), List: ns, Rbrace: x.End()}}}
	case *ast.IfStmt:
		var pre []ast.Stmt
		init := x.Init
		if init != nil {
			ni := il.stmt(init, rh, ctx)
			if len(ni) != 1 || ni[0] != init {
				pre, init = ni, nil
			}
		}
		body := il.block(x.Body, rh, ctx)
		var els ast.Stmt = x.Else
		if x.Else != nil {
			ne := il.stmt(x.Else, rh, ctx)
			if len(ne) == 1 {
				els = ne[0]
			} else {
				els = &ast.BlockStmt{Lbrace: x.Else.Pos(), List: ne, Rbrace: x.Else.End()}
			}
		}
		if pre == nil && body == x.Body && els == x.Else {
			return []ast.Stmt{s}
		}
		ni := &ast.IfStmt{If: x.If, Init: init, Cond: x.Cond, Body: body, Else: els}
		if pre != nil {
			return []ast.Stmt{&ast.BlockStmt{Lbrace: x.Pos(), List: append(pre, ni), Rbrace: x.End()}}
		}
		return []ast.Stmt{ni}
	case *ast.ForStmt:
		body := il.block(x.Body, rh, ctx)
		if body == x.Body {
			return []ast.Stmt{s}
		}
		return []ast.Stmt{&ast.ForStmt{For: x.For, Init: x.Init, Cond: x.Cond, Post: x.Post, Body: body}}
	case *ast.RangeStmt:
		body := il.block(x.Body, rh, ctx)
		if body == x.Body {
			return []ast.Stmt{s}
		}
		return []ast.Stmt{&ast.RangeStmt{For: x.For, Key: x.Key, Value: x.Value, TokPos: x.TokPos, Tok: x.Tok, Range: x.Range, X: x.X, Body: body}}
	case *ast.SwitchStmt:
		nb, ch := il.clauses(x.Body, rh, ctx)
		if !ch {
			return []ast.Stmt{s}
		}
		return []ast.Stmt{&ast.SwitchStmt{Switch: x.Switch, Init: x.Init, Tag: x.Tag, Body: nb}}
	case *ast.TypeSwitchStmt:
		nb, ch := il.clauses(x.Body, rh, ctx)
		if !ch {
			return []ast.Stmt{s}
		}
		return []ast.Stmt{&ast.TypeSwitchStmt{Switch: x.Switch, Init: x.Init, Assign: x.Assign, Body: nb}}
	case *ast.ExprStmt:
		if call, ok := ast.Unparen(x.X).(*ast.CallExpr); ok {
			if blk := il.splice(call, nil, token.ASSIGN, ctx); blk != nil {
				return []ast.Stmt{blk}
			}
		}
	case *ast.AssignStmt:
		if len(x.Rhs) == 1 {
			if call, ok := ast.Unparen(x.Rhs[0]).(*ast.CallExpr); ok {
				if blk := il.splice(call, x.Lhs, x.Tok, ctx); blk != nil {
					return []ast.Stmt{blk}
				}
			}
		}
	}
	return []ast.Stmt{s}
}

func (il *inliner) clauses(b *ast.BlockStmt, rh *retHandler, ctx *Fn) (*ast.BlockStmt, bool) {
	changed := false
	var out []ast.Stmt
	for _, cs := range b.List {
		cc, ok := cs.(*ast.CaseClause)
		if !ok {
			out = append(out, cs)
			continue
		}
		nl, ch := il.list(cc.Body, rh, ctx)
		if ch {
			changed = true
			out = append(out, &ast.CaseClause{Case: cc.Case, List: cc.List, Colon: cc.Colon, Body: nl})
		} else {
			out = append(out, cs)
		}
	}
	if !changed {
		return b, false
	}
	return &ast.BlockStmt{Lbrace: b.Lbrace, List: out, Rbrace: b.Rbrace}, true
}

// splice builds the inlined block for a statement-level call of an exclusive helper (nil if not eligible).
func (il *inliner) splice(call *ast.CallExpr, lhs []ast.Expr, tok token.Token, ctx *Fn) ast.Stmt {
	p := il.p
	if il.depth >= 2 {
		return nil
	}
	f := p.Callee(ctx, call)
	if f == nil {
		return nil
	}
	h := p.ByObj[f]
	if h == nil || h.Decl == nil || h == il.root || h.Pkg != il.root.Pkg || ast.IsExported(f.Name()) {
		return nil
	}
	if n := p.callSiteCounts()[f]; n < 1 || n > 3 || call.Ellipsis.IsValid() {
		return nil
	} else if n > 1 && !il.smallLeaf(h) {
		return nil // a helper shared by several callers is only looked through when it is a small leaf
	}
	sig := f.Type().(*types.Signature)
	if sig.Variadic() {
		return nil
	}
	// result handling
	nres := sig.Results().Len()
	if lhs != nil && len(lhs) != nres {
		return nil
	}
	il.nlabel++
	label := ast.NewIdent(fmt.Sprintf("inl$%d", il.nlabel))
	rh := &retHandler{lhs: lhs, tok: tok, label: label}
	if tok == token.DEFINE {
		// the first assignment defines; later ones (other return statements) assign — analyses are object based,
		// the distinction does not matter to them
		rh.tok = token.DEFINE
	}
	if h.Decl.Type.Results != nil {
		for _, fld := range h.Decl.Type.Results.List {
			rh.named = append(rh.named, fld.Names...)
		}
	}
	var pre []ast.Stmt
	// receiver binding
	if h.Decl.Recv != nil && len(h.Decl.Recv.List) == 1 && len(h.Decl.Recv.List[0].Names) == 1 {
		se, ok := ast.Unparen(call.Fun).(*ast.SelectorExpr)
		if !ok {
			return nil
		}
		rid := h.Decl.Recv.List[0].Names[0]
		pre = append(pre, &ast.AssignStmt{Lhs: []ast.Expr{rid}, TokPos: call.Pos(), Tok: token.DEFINE, Rhs: []ast.Expr{se.X}})
		il.bindAlias(rid, se.X, h, ctx)
	}
	i := 0
	for _, fld := range h.Decl.Type.Params.List {
		if len(fld.Names) == 0 {
			i++
			continue
		}
		for _, nm := range fld.Names {
			if i < len(call.Args) && nm.Name != "_" {
				pre = append(pre, &ast.AssignStmt{Lhs: []ast.Expr{nm}, TokPos: call.Pos(), Tok: token.DEFINE, Rhs: []ast.Expr{call.Args[i]}})
				il.bindAlias(nm, call.Args[i], h, ctx)
			}
			i++
		}
	}
	il.depth++
	body := il.block(h.Body, rh, h)
	il.depth--
	loopBody := &ast.BlockStmt{Lbrace: h.Body.Lbrace, List: append(append([]ast.Stmt{}, body.List...), &ast.BranchStmt{TokPos: h.Body.Rbrace, Tok: token.BREAK, Label: label}), Rbrace: h.Body.Rbrace}
	loop := &ast.LabeledStmt{Label: label, Colon: call.Pos(), Stmt: &ast.ForStmt{For: call.Pos(), Body: loopBody}}
	il.lits = append(il.lits, h.Lits...)
	il.inlined = append(il.inlined, h.Name)
	return &ast.BlockStmt{Lbrace: call.Pos(), List: append(pre, loop), Rbrace: call.End()}
}

// bindAlias records that the helper's parameter denotes the caller's access path (for PathKey).
func (il *inliner) bindAlias(param *ast.Ident, arg ast.Expr, h, ctx *Fn) {
	p := il.p
	po := h.Pkg.TypesInfo.Defs[param]
	if po == nil {
		return
	}
	// only when the helper never reassigns the parameter
	reassigned := false
	ast.Inspect(h.Body, func(n ast.Node) bool {
		if as, ok := n.(*ast.AssignStmt); ok {
			for _, l := range as.Lhs {
				if id, ok := ast.Unparen(l).(*ast.Ident); ok && p.ObjOf(h, id) == po {
					reassigned = true
				}
			}
		}
		return true
	})
	if reassigned {
		return
	}
	if root, key, ok := p.PathKey(ctx, arg); ok {
		if il.alias == nil {
			il.alias = map[types.Object]aliasTo{}
		}
		if old, seen := il.alias[po]; seen && (old.root != root || old.key != key) {
			il.alias[po] = aliasTo{} // bound differently at two call sites inside one view: no alias
		} else {
			il.alias[po] = aliasTo{root, key, arg}
		}
	}
}

type aliasTo struct {
	root types.Object
	key  string
	expr ast.Expr // the caller's argument expression
}

// AllViews: fn and all literals nested in it, each as a helper-transparent view.
func (p *Prog) AllViews(fn *Fn) []*Fn {
	var out []*Fn
	seen := map[*Fn]bool{}
	var add func(f *Fn)
	add = func(f *Fn) {
		v := p.Inl(orig(f))
		if seen[v] {
			return
		}
		seen[v] = true
		out = append(out, v)
		for _, l := range v.Lits {
			add(l)
		}
	}
	add(fn)
	return out
}

// CanonObj resolves an identifier to its object and, in a helper-transparent view, a never-reassigned helper
// parameter to the caller's variable it was bound to (so that "the same collection" means the same variable on
// both sides of an extracted helper).
func (p *Prog) CanonObj(fn *Fn, id *ast.Ident) types.Object {
	o := p.ObjOf(fn, id)
	for i := 0; i < 4 && o != nil; i++ {
		a, ok := p.aliasOf(fn)[o]
		if !ok || a.root == nil || a.key != p.ID(a.root) {
			break
		}
		o = a.root
	}
	return o
}

// smallLeaf: a short helper whose body calls no first-party function (only methods through interfaces,
// builtins and library code) and contains no function literal — e.g. a loop that files an entry under each of
// its predecessor links. Rules anchored on first-party calls are then never affected by looking through it.
func (il *inliner) smallLeaf(h *Fn) bool {
	p := il.p
	n := 0
	ok := true
	ast.Inspect(h.Body, func(nd ast.Node) bool {
		switch x := nd.(type) {
		case ast.Stmt:
			n++
		case *ast.FuncLit:
			ok = false
		case *ast.CallExpr:
			if f := p.Callee(h, x); f != nil && p.ByObj[f] != nil {
				ok = false
			}
		}
		return ok
	})
	sig, _ := h.Obj.Type().(*types.Signature)
	return ok && n <= 14 && sig != nil && sig.Results().Len() == 0 // a procedure: nothing flows back that a rule could be anchored on
}
