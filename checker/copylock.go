package main

import (
	"fmt"
	"go/ast"
	"go/token"
	"go/types"
	"sort"
	"strings"

	"golang.org/x/tools/go/analysis"
	"golang.org/x/tools/go/analysis/passes/copylock"
	"golang.org/x/tools/go/packages"
)

// lockCopies runs the lock-copy analysis (x/tools copylock, type-resolved) over one loaded package and
// returns its diagnostics: a value receiver, assignment, argument, result, range value or literal that
// copies a value holding a sync lock.
func lockCopies(pkg *packages.Package) []analysis.Diagnostic {
	return runAnalyzer(pkg, copylock.Analyzer)
}

// holdsLock: the named struct type holds a sync.Mutex / sync.RWMutex by value, directly or in a nested struct.
func holdsLock(t types.Type, depth int) bool {
	if depth > 4 {
		return false
	}
	if nt, ok := types.Unalias(t).(*types.Named); ok && nt.Obj().Pkg() != nil && nt.Obj().Pkg().Path() == "sync" {
		return nt.Obj().Name() == "Mutex" || nt.Obj().Name() == "RWMutex"
	}
	st, ok := t.Underlying().(*types.Struct)
	if !ok {
		return false
	}
	for i := 0; i < st.NumFields(); i++ {
		if holdsLock(st.Field(i).Type(), depth+1) {
			return true
		}
	}
	return false
}

// noLockCopied: no first-party code copies a value that holds a lock. One obligation per lock-holding
// struct type (its methods and every copy site of the package are what the analysis examined), one
// violation per copy found.
func noLockCopied(c *Ctx, r *Report, rule string) {
	p := c.P
	var lockTypes []string
	npk := 0
	var pkgPaths []string
	for path := range p.ByPath {
		pkgPaths = append(pkgPaths, path)
	}
	sort.Strings(pkgPaths)
	for _, path := range pkgPaths {
		pkg := p.ByPath[path]
		if !p.firstParty(pkg.Types) || strings.HasSuffix(path, "/test") || len(pkg.Syntax) == 0 {
			continue
		}
		npk++
		diags := lockCopies(pkg)
		scope := pkg.Types.Scope()
		for _, nm := range scope.Names() {
			tn, ok := scope.Lookup(nm).(*types.TypeName)
			if !ok || tn.IsAlias() {
				continue
			}
			if _, isStruct := tn.Type().Underlying().(*types.Struct); !isStruct || !holdsLock(tn.Type(), 0) {
				continue
			}
			lockTypes = append(lockTypes, pkg.Types.Name()+"."+nm)
			// value receivers of this type are the copies that are easiest to introduce: decided per type
			bad := ""
			var badPos token.Pos
			for _, d := range diags {
				if strings.Contains(d.Message, pkg.Types.Name()+"."+nm) || strings.Contains(d.Message, pkg.PkgPath+"."+nm) {
					bad, badPos = d.Message, d.Pos
					break
				}
			}
			pos := tn.Pos()
			if bad != "" {
				pos = badPos
			}
			r.Check(bad == "", rule, r.Key(rule, nil, "never-copied", pkg.Types.Name()+"."+nm), pos,
				"no receiver, assignment, argument, result, range value or literal copies a "+nm+" (it holds a lock)",
				fmt.Sprintf("%s: a copy of the structure carries a copy of its lock — code that locks the copy excludes nobody, and a copy taken while the original is write-locked can never be read-locked (the merge that reads a live log through such a method hangs)", bad))
		}
		for _, d := range diags {
			r.Violate(rule, r.Key(rule, fnAtPos(p, d.Pos), "lock-copy", strings.SplitN(d.Message, ":", 2)[0]), d.Pos, "lock copied by value: "+d.Message)
		}
	}
	sort.Strings(lockTypes)
	r.Tables["lock_holding_struct_types"] = lockTypes
	r.Floor(rule, "first-party packages examined for lock copies", npk, 5)
	r.Floor(rule, "struct types holding a lock by value", len(lockTypes), 3)
}

// lockCopyControls: the lock-copy analysis must fire on exactly the Bad* controls.
func lockCopyControls(c *Ctx, r *Report, rule string) {
	if c.Ctl == nil {
		return
	}
	got := map[string]bool{}
	for _, pkg := range c.Ctl.ByPath {
		if !c.Ctl.firstParty(pkg.Types) {
			continue
		}
		for _, d := range lockCopies(pkg) {
			if fn := fnAtPos(c.Ctl, d.Pos); fn != nil {
				got[shortFn(fn)] = true
			}
		}
	}
	want := map[string]bool{"BadValueReceiver": true, "BadAssign": true}
	ok := len(got) == len(want)
	for k := range want {
		ok = ok && got[k]
	}
	var g []string
	for k := range got {
		g = append(g, k)
	}
	sort.Strings(g)
	r.Check(ok, rule, r.Key(rule, nil, "lock-copy-controls", ""), token.NoPos, "the lock-copy analysis reports exactly the Bad* copy controls",
		fmt.Sprintf("lock-copy controls: reported %v, expected BadAssign and BadValueReceiver only", g))
}

// fnAtPos: the declared function whose source range contains pos.
func fnAtPos(p *Prog, pos token.Pos) *Fn {
	for _, fn := range p.Fns {
		if fn.Decl != nil && fn.Orig == nil && fn.Decl.Pos() <= pos && pos < fn.Decl.End() {
			return fn
		}
	}
	return nil
}

var _ = ast.IsExported
