package main

// c16.go — size-bounded merge: the size-tainted bound is in range (R-C16.1); the truncated index and the
// heads come from one suffix slice of the post-merge linearisation (R-C16.2).

import (
	"fmt"
	"go/token"

	"golang.org/x/tools/go/ssa"
)

func init() {
	register(&PropSpec{ID: "C16", Level: "other", Run: runC16,
		Explanation: "Decides for all values of Join's size argument: (R-C16.1) every slice/index in Join whose bound derives from size is proved in range from dominating checks; (R-C16.2) in the bounded branch the map stored to Entries and the argument of the head scan whose result is stored to heads are built from the same SSA slice value, that value is a suffix (low bound only) of the linearisation, and the linearisation is computed after the unbounded merge's stores. Not covered: that the suffix is 'the newest n' for every DAG.",
		Assumptions: []string{"machine-integer overflow of the small bound expressions is ignored"},
	})
}

func runC16(c *Ctx, r *Report) {
	p := c.P
	join := p.Func("", "IPFSLog", "Join")
	r.Doc("R-C16.1", "size-tainted slice/index bounds in Join proved in range for all values")
	r.Doc("R-C16.2", "truncated Entries and heads derive from one suffix slice of values() computed after the merge's stores")
	r.Doc("control", "engine positive/negative controls analysed on every run")
	lenControls(c, r, "control")
	armed, _ := sinkObligations(c, r, "R-C16.1", join, false)
	r.Floor("R-C16.1", "size-tainted sinks in Join", armed, 1)

	sf := p.SSAFunc(join)
	entriesF := p.Field("", "IPFSLog", "Entries")
	headsF := p.Field("", "IPFSLog", "heads")
	valuesFn := p.FuncObj("", "IPFSLog", "values")
	es := fieldStores(sf, entriesF, false)
	hs := fieldStores(sf, headsF, false)
	r.Floor("R-C16.2", "stores to Entries in Join (bounded branch)", len(es), 1)
	r.Floor("R-C16.2", "stores to heads in Join", len(hs), 2)
	for _, st := range es {
		key := r.Key("R-C16.2", join, "store", "Entries")
		bs := backSlice(st.Val, nil)
		var slices []*ssa.Slice
		for v := range bs {
			if s, ok := v.(*ssa.Slice); ok {
				slices = append(slices, s)
			}
		}
		if len(slices) == 0 {
			r.Violate("R-C16.2", key, st.Pos(), "the index stored by the bounded merge is not built from a slice of the linearisation")
			continue
		}
		// a heads store after this point (same block or dominated) sharing one of the slices
		var shared *ssa.Slice
		var hstore *ssa.Store
		for _, h := range hs {
			if !(h.Block() == st.Block() || st.Block().Dominates(h.Block())) {
				continue
			}
			hb := backSlice(h.Val, nil)
			for _, s := range slices {
				if hb[s] {
					shared, hstore = s, h
				}
			}
		}
		if shared == nil {
			r.Violate("R-C16.2", key, st.Pos(), "the heads stored with the truncated index are not computed from the same truncated slice: heads can name entries that were cut off (or miss the new maximal ones)")
			continue
		}
		suffix := shared.Low != nil && shared.High == nil
		// the slice operand comes from values(), called after the unbounded heads store
		var vcall ssa.Instruction
		for v := range backSlice(shared.X, nil) {
			if call, ok := v.(*ssa.Call); ok && calleeOf(call) == valuesFn {
				vcall = call
			}
		}
		after := false
		if vcall != nil {
			for _, h := range hs {
				if h != hstore && instrDominates(h, vcall) {
					after = true
				}
			}
			// and after every Entries.Set of the apply phase: the call must be dominated by the heads store of the unbounded merge
		}
		ok := suffix && vcall != nil && after
		r.Check(ok, "R-C16.2", key, st.Pos(),
			fmt.Sprintf("Entries and heads of the bounded merge derive from one suffix slice (%s) of values() computed after the unbounded merge", p.Pos(shared.Pos())),
			fmt.Sprintf("bounded merge shape broken: suffix-slice=%v linearisation-from-values()=%v computed-after-unbounded-merge=%v", suffix, vcall != nil, after))
	}
	_ = token.NoPos
}
