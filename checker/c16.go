package main

// c16.go — size-bounded merge: the size-tainted bound is in range (R-C16.1); the truncated index and the
// heads come from one suffix slice of the post-merge linearisation (R-C16.2).

import (
	"fmt"
	"go/ast"
	"go/types"
	"strings"

	"golang.org/x/tools/go/ssa"
)

func init() {
	register(&PropSpec{ID: "C16", Level: "other", Run: runC16,
		Explanation: "Decides for all values of Join's size argument: (R-C16.1) every slice/index in Join whose bound derives from size is proved in range from dominating checks; (R-C16.2) in the bounded branch the map stored to Entries and the argument of the head scan whose result is stored to heads are built from the same SSA slice value, that value is a suffix (low bound only) of the linearisation, and the linearisation is computed after the unbounded merge's stores. R-C16.3 in its current form: every success return reached after the lock either knows size < 0 (an edge whose normalised comparison implies it) or has replaced the entry index by the truncated one — 0 is a bound; (R-C16.6) the list the truncated log is rebuilt from has at most size entries for every size ≥ 0. Not covered: that the suffix is 'the newest n' for every DAG.",
		Assumptions: []string{"machine-integer overflow of the small bound expressions is ignored"},
	})
}

func runC16(c *Ctx, r *Report) {
	p := c.P
	join := p.FuncI("", "IPFSLog", "Join")
	r.Doc("R-C16.1", "size-tainted slice/index bounds in Join proved in range for all values")
	r.Doc("R-C16.2", "truncated Entries and heads derive from one suffix slice of values() computed after the merge's stores")
	r.Doc("control", "engine positive/negative controls analysed on every run")
	lenControls(c, r, "control")
	armed, _ := sinkObligations(c, r, "R-C16.1", join, false)
	sf := p.SSAFunc(join)
	// truncation helpers: first-party callees of Join that take the size (or a value derived from it) and a list
	seenHelper := map[*ssa.Function]bool{}
	allInstrs(sf, true, func(ins ssa.Instruction) {
		call, ok := ins.(*ssa.Call)
		if !ok {
			return
		}
		cal := call.Call.StaticCallee()
		if cal == nil || !p.firstParty(calleePkg(cal)) || seenHelper[cal] {
			return
		}
		takesSize := false
		for _, a := range call.Call.Args {
			if isIntType(a.Type()) {
				if t, _ := intTaint(a, map[ssa.Value]bool{}); t {
					takesSize = true
				}
			}
		}
		if !takesSize {
			return
		}
		seenHelper[cal] = true
		if o, ok := cal.Object().(*types.Func); ok {
			if hf := p.ByObj[o]; hf != nil {
				a, _ := sinkObligations(c, r, "R-C16.1", hf, false)
				armed += a
			}
		}
	})
	r.Floor("R-C16.1", "size-tainted sinks in Join and its truncation helpers", armed, 1)

	entriesF := p.Field("", "IPFSLog", "Entries")
	headsF := p.Field("", "IPFSLog", "heads")
	valuesFn := p.FuncObj("", "IPFSLog", "values")
	es := p.fieldStoresGroup(sf, entriesF)
	hs := p.fieldStoresGroup(sf, headsF)
	r.Floor("R-C16.2", "stores to Entries in Join (bounded branch)", len(es), 1)
	r.Floor("R-C16.2", "stores to heads in Join", len(hs), 2)
	for _, st := range es {
		key := r.Key("R-C16.2", join, "store", "Entries")
		bs := backSlice(st.Val, nil)
		var slices []ssa.Value
		cutOperand := map[ssa.Value]ssa.Value{}
		cutIsSuffix := map[ssa.Value]bool{}
		for v := range bs {
			if ins, ok := v.(ssa.Instruction); ok && ins.Parent() != st.Parent() {
				continue // values inside callees the slice stepped into
			}
			switch s := v.(type) {
			case *ssa.Slice:
				slices = append(slices, s)
				cutOperand[s] = s.X
				cutIsSuffix[s] = s.Low != nil && s.High == nil
			case *ssa.Call:
				if cal := s.Call.StaticCallee(); cal != nil && p.firstParty(calleePkg(cal)) {
					for i, a := range s.Call.Args {
						if _, isSl := a.Type().Underlying().(*types.Slice); isSl {
							if ok, _ := suffixOnly(p, cal, i, 0); ok {
								if _, retSl := s.Type().Underlying().(*types.Slice); retSl {
									slices = append(slices, s)
									cutOperand[s] = a
									cutIsSuffix[s] = true
								}
							}
						}
					}
				}
			}
		}
		if len(slices) == 0 {
			r.Violate("R-C16.2", key, st.Pos(), "the index stored by the bounded merge is not built from a slice of the linearisation")
			continue
		}
		// a heads store after this point (same block or dominated) sharing one of the slices
		var shared ssa.Value
		var hstore *ssa.Store
		for _, h := range hs {
			if !(h.Block() == st.Block() || (h.Parent() == st.Parent() && st.Block().Dominates(h.Block()))) {
				continue
			}
			hb := backSlice(h.Val, nil)
			for _, s := range slices {
				if hb[s] {
					shared, hstore = s, h
				}
			}
		}
		if shared == nil {
			r.Violate("R-C16.2", key, st.Pos(), "the heads stored with the truncated index are not computed from the same truncated slice: heads can name entries that were cut off (or miss the new maximal ones)")
			continue
		}
		// R-C16.9: the predecessor index is rebuilt from the same truncated list (what was cut off must stop counting
		// as a successor: an entry that comes back through a later merge would otherwise be refused as a head)
		{
			nextF := p.Field("", "IPFSLog", "Next")
			rebuilt := false
			for _, ns := range p.fieldStoresGroup(sf, nextF) {
				if !(ns.Block() == st.Block() || (ns.Parent() == st.Parent() && (st.Block().Dominates(ns.Block()) || ns.Block().Dominates(st.Block())))) {
					continue
				}
				nb := backSlice(ns.Val, nil)
				for _, sl := range slices {
					if nb[sl] {
						rebuilt = true
					}
				}
				// a fresh map filled by Set calls whose arguments come from the truncated list
				allInstrs(ns.Parent(), false, func(ins ssa.Instruction) {
					call, ok := ins.(ssa.CallInstruction)
					if !ok {
						return
					}
					com := call.Common()
					var recv ssa.Value
					var args []ssa.Value
					name := ""
					if com.IsInvoke() {
						name, recv, args = com.Method.Name(), com.Value, com.Args
					} else if cal := com.StaticCallee(); cal != nil && cal.Signature.Recv() != nil && len(com.Args) > 0 {
						name, recv, args = cal.Name(), com.Args[0], com.Args[1:]
					}
					if name != "Set" || recv == nil || !(recv == ns.Val || nb[recv] || backSlice(recv, nil)[ns.Val]) {
						return
					}
					for _, a := range args {
						ab := backSlice(a, nil)
						for _, sl := range slices {
							if ab[sl] {
								rebuilt = true
							}
						}
					}
				})
			}
			r.Check(rebuilt, "R-C16.9", r.Key("R-C16.9", join, "next-rebuilt", ""), st.Pos(),
				"the predecessor index is rebuilt from the truncated list together with the entry index and the heads",
				"the bounded merge replaces the entry index by the truncated one but leaves the predecessor index as it was: entries that were cut off still count as successors, so when one of their predecessors comes back through a later merge it is refused as a head and the log loses it (and its history) again")
		}
		suffix := cutIsSuffix[shared]
		// the slice operand comes from values(), called after the unbounded heads store
		var vcall ssa.Instruction
		for v := range backSlice(cutOperand[shared], nil) {
			if call, ok := v.(*ssa.Call); ok && calleeOf(call) == valuesFn {
				vcall = call
			}
		}
		after := false
		if vcall != nil {
			for _, h := range hs {
				if h != hstore && p.instrDominatesG(sf, h, vcall) {
					after = true
				}
			}
			// and after every Entries.Set of the apply phase: the call must be dominated by the heads store of the unbounded merge
		}
		ok := suffix && vcall != nil && after
		r.Check(ok, "R-C16.2", key, st.Pos(),
			fmt.Sprintf("Entries and heads of the bounded merge derive from one suffix slice (%s) of values() computed after the unbounded merge", p.Pos(shared.Pos())),
			fmt.Sprintf("bounded merge shape broken: suffix-slice=%v linearisation-from-values()=%v computed-after-unbounded-merge=%v", suffix, vcall != nil, after))
	}
	// ---- R-C16.3: every success return after the lock passes the bound test
	r.Doc("R-C16.3", "every success return of Join reached after its lock is taken either knows the size bound to be negative or has replaced the entry index by the truncated one (the truncation cannot be skipped, 0 is a bound)")
	r.Doc("R-C16.6", "the list the truncated log is rebuilt from holds at most size entries, for every size ≥ 0 (0 keeps nothing)")
	{
		sfj := p.SSAFunc(join)
		lpj := NewLenProver(p, sfj)
		var sizeP *ssa.Parameter
		for _, pr := range sfj.Params {
			if pr.Name() == "size" || (isIntType(pr.Type()) && sizeP == nil) {
				sizeP = pr
			}
		}
		nlen := 0
		entriesFld := p.Field("", "IPFSLog", "Entries")
		for _, st := range p.fieldStoresGroup(sfj, entriesFld) {
			// the bounded store: NewOrderedMapFromEntries(<list>)
			call, ok := st.Val.(*ssa.Call)
			if !ok {
				continue
			}
			if f := calleeOf(call); f == nil || f.Name() != "NewOrderedMapFromEntries" || len(call.Call.Args) != 1 {
				continue
			}
			// in Join itself, or in a truncation helper that only Join calls (its own integer parameter is the bound;
			// what the call site knows about it is assumed)
			lpx, szx := lpj, sizeP
			if st.Parent() != sfj {
				szx = nil
				for _, pr := range st.Parent().Params {
					if isIntType(pr.Type()) {
						szx = pr
					}
				}
				lpx = NewLenProver(p, st.Parent())
				lpx.useEntry = true
			}
			if szx == nil {
				continue
			}
			nlen++
			goal := lpx.lenTerm(call.Call.Args[0]).add(lpx.term(szx), -1)
			okp, facts, failed := lpx.ProveAt(call.Block(), call, []lin{goal})
			// R-C16.8: … and no fewer than min(size, what there is)
			var valuesVal ssa.Value
			for v := range backSlice(call.Call.Args[0], nil) {
				if c2, ok := v.(*ssa.Call); ok && c2.Parent() == st.Parent() && c2 != call {
					if c2.Call.IsInvoke() && c2.Call.Method.Name() == "Slice" {
						valuesVal = c2
					} else if cal := c2.Call.StaticCallee(); cal != nil && cal.Name() == "Slice" {
						valuesVal = c2
					}
				}
			}
			k8 := r.Key("R-C16.8", join, "kept-enough", "")
			if valuesVal == nil {
				r.Undecided("R-C16.8", k8, call.Pos(), "the linearisation the truncated list is cut from was not found (no Slice() result on the way to the rebuilt index)")
			} else {
				kept := lpx.lenTerm(call.Call.Args[0])
				geSize := lpx.term(szx).add(kept, -1)
				geAll := lpx.lenTerm(valuesVal).add(kept, -1)
				ok8 := true
				failed8 := ""
				np := 0
				for i, d := range lpx.pathFacts(call.Block()) {
					all := append(append([]lfact{}, d...), lpx.defs...)
					if infeasibleFacts(all) {
						continue
					}
					np++
					if !lpx.ProveDNFOnPath(d, [][]lin{{geSize}, {geAll}}) {
						ok8 = false
						var ds []string
						for _, f := range d {
							ds = append(ds, f.String())
						}
						failed8 = fmt.Sprintf("path %d [%s]", i, strings.Join(ds, " ∧ "))
						break
					}
				}
				r.Check(ok8 && np > 0, "R-C16.8", k8, call.Pos(), fmt.Sprintf("len(kept list) ≥ min(size, len(linearisation)) proved on all %d path classes of the bounded branch", np),
					"cannot show that the truncated log keeps min(size, total) entries ("+failed8+"): for some bound (one between the merged size and twice that, or one equal to it) the log is cut down further than the bound asks for")
			}
			r.Check(okp, "R-C16.6", r.Key("R-C16.6", join, "kept-length", ""), call.Pos(), "len(kept list) ≤ size proved on every path of the bounded branch",
				"cannot show that the list the truncated log is rebuilt from has at most size entries ("+failed+"): for some bound (e.g. 0, where a negated index means 'from the start') the log keeps more entries than the bound allows", facts...)
		}
		r.Floor("R-C16.6", "rebuilds of the entry index in the bounded branch", nlen, 1)
	}
	r.Doc("R-C16.9", "when the bounded merge replaces the entry index by the truncated one, it rebuilds the predecessor index from the same list")
	r.Doc("R-C16.8", "the list the truncated log is rebuilt from holds at least min(size, total) entries: the cut never takes more than the bound requires")
	r.Doc("R-C16.7", "the heads of the truncated log are recomputed over the truncated list on every path (adopted from C02)")
	importRules(c, r, "C02", []string{"R-C02.6"}, "R-C16.7")
	r.Doc("R-C16.10", "the state a bounded merge starts from and is observed in is sound: a refused operation leaves no trace in the predecessor index (adopted from C02), and every read of the log's index happens under its lock (adopted from C13: a reader that traverses outside the lock sees neither the log before the cut nor the log after it)")
	importRules(c, r, "C02", []string{"R-C02.7"}, "R-C16.10")
	importRules(c, r, "C13", []string{"R-C13.1"}, "R-C16.10")
	r.Doc("R-C16.12", "a log rebuilt from stored blocks keeps the ordering it was configured with (adopted from C09: the bounded merge truncates the linearisation of the log's own comparator)")
	importRules(c, r, "C09", []string{"R-C09.6"}, "R-C16.12")
	r.Doc("R-C16.13", "every writer stamps with its own key as clock id, also after an identity change (adopted from C04: writers sharing a clock id produce full ties, which the default ordering breaks by position — the bounded merge then keeps other entries than the tail of the unbounded one)")
	importRules(c, r, "C04", []string{"R-C04.1"}, "R-C16.13")
	r.Doc("R-C16.14", "the constructor indexes every predecessor link of every given entry (adopted from C02: the unbounded merge prunes head candidates through that index and the bounded one recomputes the heads without it — with a link left out they disagree for every bound above the merged size)")
	importRules(c, r, "C02", []string{"R-C02.4"}, "R-C16.14")
	r.Doc("R-C16.11", "nothing is allocated for the size bound itself: every sized allocation is bounded by a collection that exists (adopted from C15: a bound far larger than the merged size must behave like the unbounded merge, not run out of memory)")
	importRules(c, r, "C15", []string{"R-C15.15"}, "R-C16.11")
	r.Doc("R-C16.5", "the bounded merge computes its candidates, validates, applies and truncates in one critical section of the destination")
	joinSingleSection(c, r, "R-C16.5", "a concurrent bounded merge truncates the log in the window and the stale difference is applied on top: the result is the tail of no serial order")
	r.Doc("R-C16.4", "the size bound is used only in comparisons and in the truncating slice: the set of merged candidates does not depend on it")
	sizeObj := paramObj(join, 1)
	jf := &Flow{P: p, Fn: join, Entry: Facts{}}
	jf.Node = func(n ast.Node, f Facts) {
		walkNoLit(n, func(nd ast.Node) bool {
			if call, ok := nd.(*ast.CallExpr); ok {
				if cf := p.Callee(join, call); cf != nil && cf.Pkg() != nil && cf.Pkg().Path() == "sync" && cf.Name() == "Lock" {
					if _, isDefer := p.parent[call].(*ast.DeferStmt); !isDefer {
						f["locked"] = true
					}
				}
			}
			return true
		})
	}
	jf.Edge = func(cond ast.Expr, taken bool, f Facts) {
		// the path is done with the bound when it knows the bound to be negative (no bound) …
		for _, a := range splitCond(cond, taken) {
			nc, ok := p.normalizeCmp(join, a, func(e ast.Expr) bool {
				id, ok := ast.Unparen(e).(*ast.Ident)
				return ok && p.ObjOf(join, id) == sizeObj
			})
			if ok && nc.impliesNegative() {
				f["boundTested"] = true
			}
		}
	}
	jfNode := jf.Node
	jf.Node = func(n ast.Node, f Facts) {
		jfNode(n, f)
		// … or when it has replaced the entry index (the truncation; one path fact for both cases)
		walkNoLit(n, func(nd ast.Node) bool {
			if as, ok := nd.(*ast.AssignStmt); ok && f["locked"] {
				for _, l := range as.Lhs {
					if v, _ := p.FieldSel(join, l); v == entriesF {
						f["boundTested"] = true
					}
				}
			}
			return true
		})
	}
	jf.Run()
	nsr := 0
	jf.Exits(func(_ *cfgBlk, ret *ast.ReturnStmt, at Facts) {
		if ret == nil || !at["locked"] {
			return
		}
		if isNil, hasErr := errResultIsNil(p, join, ret); hasErr && isNil {
			nsr++
			r.Check(at["boundTested"], "R-C16.3", r.Key("R-C16.3", join, "success-return", ""), ret.Pos(),
				"every path to this success return knows the bound to be negative or has replaced the entry index by the truncated one", "Join can return success after taking its lock on a path that neither knows the size bound to be negative nor has truncated the log: a bounded merge that brings nothing new, takes a shortcut, or has a bound the test does not count as one (0) leaves the log longer than the bound")
		}
	})
	r.Floor("R-C16.3", "success returns of Join after the lock", nsr, 1)
	// ---- R-C16.4
	var sizePar *ssa.Parameter
	for _, par := range sf.Params {
		if par.Object() == sizeObj {
			sizePar = par
		}
	}
	if sizePar == nil {
		infra("unresolved anchor: Join's size parameter in SSA")
	}
	badUse := sizeUses(p, sf, sizePar, 0)
	r.Check(badUse == "", "R-C16.4", r.Key("R-C16.4", join, "size-uses", ""), join.Body.Pos(),
		"the size bound only feeds comparisons and the truncating slice", "the size bound is "+badUse+": which entries are collected/verified/merged now depends on the bound, so the result is no longer the tail of what the unbounded merge would produce")
}

// sizeUses: how the integer parameter par of sf is used — "" when it only feeds comparisons, slice bounds,
// min/max-like helpers, suffix-only cut helpers, or helpers that in turn use it only that way.
func sizeUses(p *Prog, sf *ssa.Function, par *ssa.Parameter, depth int) string {
	derived := map[ssa.Value]bool{par: true}
	for changed := true; changed; {
		changed = false
		allInstrs(sf, true, func(ins ssa.Instruction) {
			switch x := ins.(type) {
			case *ssa.Store:
				if derived[x.Val] && !derived[x.Addr] {
					if _, isAlloc := x.Addr.(*ssa.Alloc); isAlloc {
						derived[x.Addr] = true
						changed = true
					}
				}
			case *ssa.UnOp:
				if derived[x.X] && !derived[x] {
					derived[x] = true
					changed = true
				}
			case *ssa.BinOp:
				if (derived[x.X] || derived[x.Y]) && !derived[x] && isIntType(x.Type()) {
					derived[x] = true
					changed = true
				}
			case *ssa.Phi:
				for _, e := range x.Edges {
					if derived[e] && !derived[x] {
						derived[x] = true
						changed = true
					}
				}
			case *ssa.Convert:
				if derived[x.X] && !derived[x] {
					derived[x] = true
					changed = true
				}
			case *ssa.Call:
				if b, ok := x.Call.Value.(*ssa.Builtin); ok && (b.Name() == "min" || b.Name() == "max") {
					for _, a := range x.Call.Args {
						if derived[a] && !derived[x] {
							derived[x] = true
							changed = true
						}
					}
				}
			}
		})
	}
	bad := ""
	// a test of the bound that sits inside a loop decides how much is collected, not where the result is cut
	cuts := 0
	allInstrs(sf, true, func(ins ssa.Instruction) {
		switch x := ins.(type) {
		case *ssa.If:
			if !blockInCycle(x.Block()) {
				return
			}
			for v := range backSliceOpt(x.Cond, func(v ssa.Value) bool {
				if b, isB := v.Type().Underlying().(*types.Basic); !isB || b.Info()&(types.IsInteger|types.IsBoolean) == 0 {
					return false // lengths of collections cut by the bound are data, not the bound
				}
				ins, isIns := v.(ssa.Instruction)
				return !isIns || ins.Parent() == x.Parent()
			}, false) {
				if derived[v] {
					bad = "tested inside a loop at " + p.Pos(x.Cond.Pos()) + " (the bound limits what is collected)"
				}
			}
		case *ssa.Slice:
			if (x.Low != nil && derived[x.Low]) || (x.High != nil && derived[x.High]) {
				cuts++
			}
		}
	})
	if bad != "" {
		return bad
	}
	if depth > 0 && cuts == 0 {
		sub := false
		allInstrs(sf, true, func(ins ssa.Instruction) {
			if c, ok := ins.(*ssa.Call); ok {
				for _, a := range c.Call.Args {
					if derived[a] {
						sub = true
					}
				}
			}
		})
		if !sub {
			return "only tested, never used to cut a slice (the helper is not a truncation)"
		}
	}
	allInstrs(sf, true, func(ins ssa.Instruction) {
		switch x := ins.(type) {
		case *ssa.Call:
			if _, isB := x.Call.Value.(*ssa.Builtin); isB {
				return
			}
			for ai, a := range x.Call.Args {
				if !derived[a] {
					continue
				}
				cal := "a function value"
				sc := x.Call.StaticCallee()
				if sc != nil {
					cal = sc.Name()
					if p.firstParty(calleePkg(sc)) {
						// a helper that can only return a suffix of its list argument: the size merely picks the cut
						for i, a2 := range x.Call.Args {
							if _, isSl := a2.Type().Underlying().(*types.Slice); isSl {
								if ok, _ := suffixOnly(p, sc, i, 0); ok {
									return
								}
							}
						}
						// small pure int helpers keep the value inside arithmetic
						if lp := NewLenProver(p, sf); isIntType(x.Type()) && lp.summary(sc, x.Call.Args, linAtom("r"), false) != nil {
							return
						}
						// a helper that itself uses the value only as a bound
						if depth < 2 && len(sc.Blocks) > 0 {
							idx := ai
							if sc.Signature.Recv() != nil {
								// Params include the receiver first; Args too — same indexing
							}
							if idx < len(sc.Params) {
								if sub := sizeUses(p, sc, sc.Params[idx], depth+1); sub == "" {
									return
								} else {
									bad = fmt.Sprintf("passed to %s at %s, where it is %s", cal, p.Pos(x.Pos()), sub)
									return
								}
							}
						}
					}
				}
				bad = fmt.Sprintf("passed to %s at %s", cal, p.Pos(x.Pos()))
			}
		case *ssa.Store:
			if derived[x.Val] {
				if _, isAlloc := x.Addr.(*ssa.Alloc); !isAlloc {
					bad = "stored at " + p.Pos(x.Pos())
				}
			}
		}
	})
	return bad
}

// blockInCycle: b can reach itself in its function's control-flow graph.
func blockInCycle(b *ssa.BasicBlock) bool {
	seen := map[*ssa.BasicBlock]bool{}
	work := append([]*ssa.BasicBlock(nil), b.Succs...)
	for len(work) > 0 {
		x := work[len(work)-1]
		work = work[:len(work)-1]
		if x == b {
			return true
		}
		if seen[x] {
			continue
		}
		seen[x] = true
		work = append(work, x.Succs...)
	}
	return false
}
