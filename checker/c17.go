package main

// c17.go — the block store is causally closed: write-before-publish, synchronous checked add, who may write.

import (
	"fmt"
	"go/ast"
	"go/token"
	"go/types"
	"strings"

	"golang.org/x/tools/go/ssa"
)

func init() {
	register(&PropSpec{ID: "C17", Level: "other", Run: runC17,
		Explanation: "Decides on every path: (R-C17.1) in Append the call that reaches the block store (CreateEntryWithIO → ToMultihashWithIO → IO.Write → Dag().Add, path recovered from the call graph) dominates on its success edge every change of Entries/Next/heads and the return of the entry, and inside CreateEntryWithIO the hash is set and the entry returned only on the success edge of the write; (R-C17.2) in every IO.Write implementation each success return is dominated by the nil edge of the error of a direct (not go, not defer) Dag().Add call, and a failed pin cannot reach a success return; (R-C17.3) only IO.Write implementations call Dag().Add in first-party code and the manifest writer publishes exactly ToJSONLog() of the same log. Not covered: that predecessors named by a new entry are in the store (whatever the in-memory log holds), durability inside the block store.",
	})
}

// isDagAdd: call X.Add(...) where X is a call to Dag() / Pin() on the core API.
func dagCallKind(p *Prog, fn *Fn, call *ast.CallExpr) string {
	se, ok := ast.Unparen(call.Fun).(*ast.SelectorExpr)
	if !ok || se.Sel.Name != "Add" {
		return ""
	}
	inner, ok := ast.Unparen(se.X).(*ast.CallExpr)
	if !ok {
		return ""
	}
	ise, ok := ast.Unparen(inner.Fun).(*ast.SelectorExpr)
	if !ok {
		return ""
	}
	cf := p.Callee(fn, inner)
	if cf == nil || cf.Pkg() == nil || !strings.Contains(cf.Pkg().Path(), "coreiface") {
		return ""
	}
	switch ise.Sel.Name {
	case "Dag":
		return "dag"
	case "Pin":
		return "pin"
	}
	return ""
}

func runC17(c *Ctx, r *Report) {
	p := c.P
	r.Doc("R-C17.1", "write-before-publish: memory is updated and the entry returned only after the block write succeeded")
	r.Doc("R-C17.2", "a CID is returned only after a synchronous, checked Dag().Add (and pin when requested)")
	r.Doc("R-C17.3", "only IO.Write implementations add blocks; the manifest writer publishes ToJSONLog() of the same log")

	// all Dag().Add sites
	type site struct {
		fn   *Fn
		call *ast.CallExpr
		kind string
		bad  string
	}
	var sites []site
	for _, fn := range p.Fns {
		if strings.HasSuffix(fn.Pkg.PkgPath, "/test") || strings.HasSuffix(fn.Pkg.PkgPath, "/example") {
			continue
		}
		walkNoLit(fn.Body, func(n ast.Node) bool {
			if call, ok := n.(*ast.CallExpr); ok {
				if k := dagCallKind(p, fn, call); k != "" {
					s := site{fn: fn, call: call, kind: k}
					switch p.parent[call].(type) {
					case *ast.GoStmt:
						s.bad = "started with go (asynchronous)"
					case *ast.DeferStmt:
						s.bad = "deferred"
					}
					if fn.Parent != nil {
						for x := fn; x != nil; x = x.Parent {
							if x.Lit != nil {
								if call2, ok := p.parent[x.Lit].(*ast.CallExpr); ok {
									if _, isGo := p.parent[call2].(*ast.GoStmt); isGo {
										s.bad = "inside a goroutine literal (asynchronous)"
									}
								}
							}
						}
					}
					sites = append(sites, s)
				}
			}
			return true
		})
	}
	// IO.Write implementers
	ioT := p.Named("iface", "IO").Underlying().(*types.Interface)
	var writeM *types.Func
	for i := 0; i < ioT.NumMethods(); i++ {
		if ioT.Method(i).Name() == "Write" {
			writeM = ioT.Method(i)
		}
	}
	if writeM == nil {
		infra("unresolved anchor: iface.IO.Write")
	}
	impls := c.CG.Implementers(writeM)
	isImpl := map[*Fn]bool{}
	for _, f := range impls {
		isImpl[f] = true
	}
	r.Floor("R-C17.2", "IO.Write implementations", len(impls), 2)
	nd := 0
	for _, s := range sites {
		if s.kind != "dag" {
			continue
		}
		nd++
		r.Check(isImpl[s.fn.Root()], "R-C17.3", r.Key("R-C17.3", s.fn, "dag-add", ""), s.call.Pos(),
			"block added by an IO.Write implementation", "a block is added to the store outside IO.Write ("+s.fn.Name+"): it bypasses the write-then-publish protocol")
	}
	r.Floor("R-C17.3", "Dag().Add call sites", nd, 2)

	// R-C17.2 per implementer
	for _, w := range impls {
		addErr := map[types.Object]string{}
		var directOK, anyAdd bool
		for _, s := range sites {
			if orig(s.fn.Root()) != orig(w) {
				continue
			}
			if s.kind == "dag" {
				anyAdd = true
			}
			if s.bad != "" {
				r.Violate("R-C17.2", r.Key("R-C17.2", w, s.kind+"-add", "async"), s.call.Pos(), "the "+s.kind+" add is "+s.bad+": the identifier can be returned (and published) before the block is in the store, and its error is lost")
				continue
			}
			// error variable
			switch par := p.parent[s.call].(type) {
			case *ast.AssignStmt:
				if id, ok := par.Lhs[len(par.Lhs)-1].(*ast.Ident); ok && id.Name != "_" {
					addErr[p.ObjOf(s.fn, id)] = s.kind
					if s.kind == "dag" {
						directOK = true
					}
				} else {
					r.Violate("R-C17.2", r.Key("R-C17.2", w, s.kind+"-add", "discarded"), s.call.Pos(), "the error of the "+s.kind+" add is discarded")
				}
			case *ast.ExprStmt:
				r.Violate("R-C17.2", r.Key("R-C17.2", w, s.kind+"-add", "discarded"), s.call.Pos(), "the error of the "+s.kind+" add is dropped: a failed write still returns an identifier")
			default:
				// e.g. `if err := X.Add(); err != nil` is an AssignStmt; anything else is unknown
				if _, ok := par.(*ast.BinaryExpr); ok {
					directOK = s.kind == "dag" || directOK
				}
			}
		}
		if !anyAdd {
			r.Violate("R-C17.2", r.Key("R-C17.2", w, "dag-add", "missing"), w.Body.Pos(), "this IO.Write implementation never adds the block to the store")
			continue
		}
		_ = directOK
		fl := &Flow{P: p, Fn: w, Entry: Facts{}}
		fl.Edge = func(cond ast.Expr, taken bool, f Facts) {
			for _, a := range splitCond(cond, taken) {
				if x, isNil, ok := nilTest(a); ok {
					if id, ok := ast.Unparen(x).(*ast.Ident); ok {
						o := p.ObjOf(w, id)
						for _, k := range []string{"dag", "pin"} {
							if f["src|"+p.ID(o)+"|"+k] {
								if isNil {
									f["ok|"+k] = true
								} else {
									f["failed|"+k] = true
								}
							}
						}
					}
				}
			}
		}
		fl.Node = func(n ast.Node, f Facts) {
			// track which call last assigned each error variable
			walkNoLit(n, func(nd ast.Node) bool {
				if as, ok := nd.(*ast.AssignStmt); ok {
					kind := dagKindOfAssign(p, w, as)
					for i, l := range as.Lhs {
						if id, ok := ast.Unparen(l).(*ast.Ident); ok {
							if o := p.ObjOf(w, id); o != nil {
								for _, k := range []string{"dag", "pin"} {
									if f["src|"+p.ID(o)+"|"+k] {
										delete(f, "src|"+p.ID(o)+"|"+k)
										delete(f, "failed|"+k)
									}
								}
								if kind != "" && i == len(as.Lhs)-1 {
									f["src|"+p.ID(o)+"|"+kind] = true
								}
							}
						}
					}
				}
				return true
			})
		}
		fl.Run()
		mf := &Flow{P: p, Fn: w, May: true, Entry: Facts{}, Edge: fl.Edge, Node: fl.Node}
		mf.Run()
		nret := 0
		mayAt := map[*ast.ReturnStmt]Facts{}
		mf.Exits(func(_ *cfgBlk, ret *ast.ReturnStmt, at Facts) {
			if ret != nil {
				mayAt[ret] = at
			}
		})
		fl.Exits(func(_ *cfgBlk, ret *ast.ReturnStmt, at Facts) {
			if ret == nil {
				return
			}
			isNil, hasErr := errResultIsNil(p, w, ret)
			if !hasErr || !isNil {
				return
			}
			nret++
			may := mayAt[ret]
			ok := at["ok|dag"] && !may["failed|dag"] && !may["failed|pin"]
			r.Check(ok, "R-C17.2", r.Key("R-C17.2", w, "success-return", ""), ret.Pos(),
				"the identifier is returned only after Dag().Add returned nil (and no failed pin reaches this return)",
				fmt.Sprintf("a success return is reachable without a checked, successful Dag().Add (add-ok=%v, failed-add-may-reach=%v, failed-pin-may-reach=%v): the caller publishes an identifier whose block is not in the store", at["ok|dag"], may["failed|dag"], may["failed|pin"]))
		})
		r.Floor("R-C17.2", "success returns of "+w.Name, nret, 1)
	}

	// R-C17.1
	app := p.FuncI("", "IPFSLog", "Append")
	create := p.FuncI("entry", "", "CreateEntryWithIO")
	reach := c.CG.Reach([]*Fn{create}, false)
	var pathTo []string
	for _, w := range impls {
		if pth, ok := reach[w]; ok {
			pathTo = pth
		}
	}
	r.Check(len(pathTo) > 0, "R-C17.1", r.Key("R-C17.1", create, "reaches-store", ""), create.Body.Pos(),
		"CreateEntryWithIO reaches the block store: "+strings.Join(pathTo, " → ")+" → Dag().Add", "CreateEntryWithIO no longer reaches an IO.Write implementation: the appended entry is never written")
	// inside CreateEntryWithIO: SetHash and the success return are dominated by the nil edge of the writer's error
	writeErr := map[types.Object]bool{}
	writeCalls := map[*ast.CallExpr]bool{}
	var hashVar types.Object
	walkNoLit(create.Body, func(n ast.Node) bool {
		as, ok := n.(*ast.AssignStmt)
		if !ok || len(as.Rhs) != 1 || len(as.Lhs) != 2 {
			return true
		}
		if call, ok := ast.Unparen(as.Rhs[0]).(*ast.CallExpr); ok {
			for _, cs := range c.CG.Sites(create) {
				if cs.Call != call {
					continue
				}
				for _, t := range cs.Targets {
					sub := c.CG.Reach([]*Fn{t}, false)
					for _, w := range impls {
						if _, ok := sub[w]; ok {
							if id, ok := as.Lhs[1].(*ast.Ident); ok {
								writeErr[p.ObjOf(create, id)] = true
								writeCalls[call] = true
							}
							if id, ok := as.Lhs[0].(*ast.Ident); ok {
								hashVar = p.ObjOf(create, id)
							}
						}
					}
				}
			}
		}
		return true
	})
	r.Floor("R-C17.1", "block-writing calls in CreateEntryWithIO", len(writeErr), 1)
	// the nil edge counts only while err still holds the writer's result (err is re-used in this function); a
	// later assignment to err from another call does not un-write the block, the earned fact stays
	cg := &resultGate{p: p, fn: create, producer: func(call *ast.CallExpr) string {
		if writeCalls[call] {
			return "written"
		}
		return ""
	}}
	cfl := &Flow{P: p, Fn: create, Entry: Facts{}, Node: cg.Node}
	cfl.Edge = func(cond ast.Expr, taken bool, f Facts) {
		cg.Edge(cond, taken, f)
		if f["ok|written"] {
			f["written"] = true
		}
	}
	cfl.Run()
	cfl.Exits(func(_ *cfgBlk, ret *ast.ReturnStmt, at Facts) {
		if ret == nil {
			return
		}
		if isNil, hasErr := errResultIsNil(p, create, ret); hasErr && isNil {
			r.Check(at["written"], "R-C17.1", r.Key("R-C17.1", create, "success-return", ""), ret.Pos(),
				"the created entry is returned only after its block was written successfully", "CreateEntryWithIO can return an entry whose block write failed or did not happen")
		}
	})
	nSetHash := 0
	cfl.Visit(func(_ *cfgBlk, n ast.Node, before Facts) {
		walkNoLit(n, func(nd ast.Node) bool {
			if call, ok := nd.(*ast.CallExpr); ok {
				if se, ok := ast.Unparen(call.Fun).(*ast.SelectorExpr); ok && se.Sel.Name == "SetHash" && len(call.Args) == 1 {
					nSetHash++
					fromWrite := false
					if id, ok := ast.Unparen(call.Args[0]).(*ast.Ident); ok && p.ObjOf(create, id) == hashVar {
						fromWrite = true
					}
					r.Check(before["written"] && fromWrite, "R-C17.1", r.Key("R-C17.1", create, "SetHash", ""), call.Pos(),
						"the entry's hash is the identifier returned by the successful block write", "the entry's hash is set from something other than the identifier of a successfully written block")
				}
			}
			return true
		})
	})
	r.Floor("R-C17.1", "SetHash in CreateEntryWithIO", nSetHash, 1)
	// in Append: state changes and the success return dominated by creation success
	createErr := map[types.Object]bool{}
	createCalls := map[*ast.CallExpr]bool{}
	var entryVar types.Object
	walkNoLit(app.Body, func(n ast.Node) bool {
		as, ok := n.(*ast.AssignStmt)
		if !ok || len(as.Rhs) != 1 || len(as.Lhs) != 2 {
			return true
		}
		if call, ok := ast.Unparen(as.Rhs[0]).(*ast.CallExpr); ok {
			if cf := p.Callee(app, call); cf != nil && p.ByObj[cf] != nil {
				if _, ok := c.CG.Reach([]*Fn{p.ByObj[cf]}, false)[create]; ok {
					if id, ok := as.Lhs[1].(*ast.Ident); ok {
						createErr[p.ObjOf(app, id)] = true
						createCalls[call] = true
					}
					if id, ok := as.Lhs[0].(*ast.Ident); ok {
						entryVar = p.ObjOf(app, id)
					}
				}
			}
		}
		return true
	})
	r.Floor("R-C17.1", "entry-creating calls in Append", len(createErr), 1)
	fields := map[*types.Var]bool{p.Field("", "IPFSLog", "Entries"): true, p.Field("", "IPFSLog", "Next"): true, p.Field("", "IPFSLog", "heads"): true}
	ag := &resultGate{p: p, fn: app, producer: func(call *ast.CallExpr) string {
		if createCalls[call] {
			return "written"
		}
		return ""
	}}
	afl := &Flow{P: p, Fn: app, Entry: Facts{}, Node: ag.Node}
	afl.Edge = func(cond ast.Expr, taken bool, f Facts) {
		ag.Edge(cond, taken, f)
		if f["ok|written"] {
			f["written"] = true
		}
	}
	afl.Run()
	nch := 0
	afl.Visit(func(_ *cfgBlk, n ast.Node, before Facts) {
		for _, sc := range logStateChanges(p, app, n, fields) {
			nch++
			r.Check(before["written"], "R-C17.1", r.Key("R-C17.1", app, sc.What, ""), sc.Pos,
				"memory is updated only after the entry's block is in the store", sc.What+" in Append is not dominated by the success of the block write: a crash (or a failed write) leaves a head in memory/manifests whose block is not in the store")
		}
	})
	r.Floor("R-C17.1", "Entries/Next/heads changes in Append", nch, 2)
	afl.Exits(func(_ *cfgBlk, ret *ast.ReturnStmt, at Facts) {
		if ret == nil {
			return
		}
		if isNil, hasErr := errResultIsNil(p, app, ret); hasErr && isNil {
			sameEntry := false
			if len(ret.Results) > 0 {
				if id, ok := ast.Unparen(ret.Results[0]).(*ast.Ident); ok && p.ObjOf(app, id) == entryVar {
					sameEntry = true
				}
			}
			r.Check(at["written"] && sameEntry, "R-C17.1", r.Key("R-C17.1", app, "success-return", ""), ret.Pos(),
				"Append returns the written entry only after the write succeeded", "Append can return an entry that was not (successfully) written")
		}
	})

	// manifest writer publishes ToJSONLog() of the same log
	tm := p.FuncI("", "", "toMultihash")
	okPub := false
	walkNoLit(tm.Body, func(n ast.Node) bool {
		call, ok := n.(*ast.CallExpr)
		if !ok {
			return true
		}
		if cf := p.Callee(tm, call); cf == writeM && len(call.Args) >= 3 {
			if inner, ok := ast.Unparen(call.Args[2]).(*ast.CallExpr); ok {
				if se, ok := ast.Unparen(inner.Fun).(*ast.SelectorExpr); ok && se.Sel.Name == "ToJSONLog" {
					if id, ok := ast.Unparen(se.X).(*ast.Ident); ok && p.ObjOf(tm, id) == paramObj(tm, 2) {
						okPub = true
					}
				}
			}
		}
		return true
	})
	// every identifier toMultihash returns comes from a write performed by this very call
	tmf := &Flow{P: p, Fn: tm, Entry: Facts{}}
	tmf.Node = func(n ast.Node, f Facts) {
		walkNoLit(n, func(nd ast.Node) bool {
			if call, ok := nd.(*ast.CallExpr); ok && p.Callee(tm, call) == writeM {
				f["written"] = true
			}
			return true
		})
	}
	tmf.Run()
	tmf.Exits(func(_ *cfgBlk, ret *ast.ReturnStmt, at Facts) {
		if ret == nil || len(ret.Results) == 0 {
			return
		}
		if se, ok := ast.Unparen(ret.Results[0]).(*ast.SelectorExpr); ok && se.Sel.Name == "Undef" {
			return
		}
		okw := at["written"]
		walkNoLit(ret, func(nd ast.Node) bool {
			if call, ok := nd.(*ast.CallExpr); ok && p.Callee(tm, call) == writeM {
				okw = true
			}
			return true
		})
		r.Check(okw, "R-C17.3", r.Key("R-C17.3", tm, "identifier-from-write", ""), ret.Pos(),
			"every manifest identifier returned was produced by writing the current ToJSONLog() in this call",
			"toMultihash can return an identifier without writing the current manifest (a remembered one): after a merge that leaves the clock unchanged the published manifest no longer loads to the log's state")
	})
	// nothing in first-party code removes blocks
	r.Doc("R-C17.4", "no first-party code removes or unpins blocks (content-addressed blocks are shared by every replica and entry that names them)")
	nrm := 0
	for _, fn := range p.Fns {
		if strings.HasSuffix(fn.Pkg.PkgPath, "/test") || strings.HasSuffix(fn.Pkg.PkgPath, "/example") {
			continue
		}
		walkNoLit(fn.Body, func(n ast.Node) bool {
			call, ok := n.(*ast.CallExpr)
			if !ok {
				return true
			}
			se, ok := ast.Unparen(call.Fun).(*ast.SelectorExpr)
			if !ok || (se.Sel.Name != "Remove" && se.Sel.Name != "RemoveMany" && se.Sel.Name != "Rm" && se.Sel.Name != "DeleteBlock") {
				return true
			}
			if cf := p.Callee(fn, call); cf != nil && cf.Pkg() != nil && (strings.Contains(cf.Pkg().Path(), "coreiface") || strings.Contains(cf.Pkg().Path(), "go-ipld-format") || strings.Contains(cf.Pkg().Path(), "blockstore") || strings.Contains(cf.Pkg().Path(), "blockservice")) {
				nrm++
				r.Violate("R-C17.4", r.Key("R-C17.4", fn, "block-removal", se.Sel.Name), call.Pos(), "a block is removed from the store: blocks are content-addressed and shared, so another replica's (byte-identical) entry that later entries reference disappears and the store is no longer causally closed")
			}
			return true
		})
	}
	if nrm == 0 {
		r.Hold("R-C17.4", r.Key("R-C17.4", nil, "no-block-removal", ""), token.NoPos, true, "no call of a block-removing API in first-party code")
	}
	r.Check(okPub, "R-C17.3", r.Key("R-C17.3", tm, "manifest", ""), tm.Body.Pos(), "the manifest written is exactly ToJSONLog() of the log being published", "toMultihash does not write ToJSONLog() of its own log")

	// ---- R-C17.5: a manifest identifier handed out was produced by this very call
	r.Doc("R-C17.5", "every manifest identifier returned by ToMultihash comes from a write performed by that call (no remembered identifier: a cached one can be older than an append that already returned)")
	r.Doc("R-C17.6", "on the write path every error result is examined before it is overwritten: a failed encode, sign or block write is never followed by a success return")
	r.Doc("R-C17.7", "a manifest or head hash that was returned loads to the log it was produced from: the manifest carries the log's id and heads, the loaders hand id, entries and heads of what they read to the rebuilt log, and nothing is trimmed without a non-negative limit (adopted from C09)")
	importRules(c, r, "C09", []string{"R-C09.1", "R-C09.2", "R-C09.5"}, "R-C17.7")
	importRules(c, r, "C10", []string{"R-C10.1", "R-C10.13"}, "R-C17.7")
	r.Doc("R-C17.8", "the block written for an entry carries every field exactly as the entry holds it (adopted from C08: a hash that was returned must load to the state at the moment it was produced, payload bytes included)")
	importRules(c, r, "C08", []string{"R-C08.2", "R-C08.6"}, "R-C17.8")
	importRules(c, r, "C09", []string{"R-C09.8"}, "R-C17.8")  // whatever Append wrote must load again: the readers refuse only undecodable blocks
	importRules(c, r, "C18", []string{"R-C18.14"}, "R-C17.8") // …and keep the links the block carries unless they opened sealed ones
	r.Doc("R-C17.10", "the fetch worker keeps what it fetched (adopted from C09: an entry dropped on load for its content makes a returned head hash load to a log without its history)")
	importRules(c, r, "C09", []string{"R-C09.15"}, "R-C17.10")
	r.Doc("R-C17.11", "a refused append leaves the entry index, the predecessor index and the heads untouched (adopted from C02: a phantom successor makes the next merge drop the log's own head, and the manifest published afterwards no longer reaches appends that had been acknowledged)")
	importRules(c, r, "C02", []string{"R-C02.7"}, "R-C17.11")
	r.Doc("R-C17.12", "the heads a merge stores are searched among both head sets on every path (adopted from C02: a head dropped by a merge is named by no later append and reached by no later manifest — a manifest hash returned after the merge does not load to the log state of that moment)")
	importRules(c, r, "C02", []string{"R-C02.3"}, "R-C17.12")
	r.Doc("R-C17.13", "every function that hands out the identifier of an entry or a manifest has written the block on the way (an identifier computed without the write names a block the store may not hold)")
	identifiersComeFromAWrite(c, r, "R-C17.13")
	r.Doc("R-C17.9", "the codec objects shared by logs that append through one link-sealing codec are concurrency-safe (adopted from C18: a stateful marshaller shared by overlapping appends writes blocks whose sealed links are truncated or belong to another entry, and the returned hash no longer loads)")
	importRules(c, r, "C18", []string{"R-C18.7"}, "R-C17.9", 0)
	errDiscipline(c, r, "R-C17.6", func(fn *Fn) bool {
		return rootNamed(fn, "Write", "CreateEntryWithIO", "CreateEntry", "ToMultihashWithIO", "ToMultihash", "toMultihash", "Append", "WriteCBOR")
	}, "the operation reports success (and hands out an identifier) although a step of writing the block failed", deliberateDiscards)
	nm := 0
	for _, t := range []struct{ recv, name string }{{"IPFSLog", "ToMultihash"}, {"", "toMultihash"}} {
		fn := p.FuncI("", t.recv, t.name)
		sf := p.SSAFunc(fn)
		var fromWrite func(v ssa.Value, depth int) (bool, string)
		fromWrite = func(v ssa.Value, depth int) (bool, string) {
			if depth > 8 {
				return false, "a value the rule cannot trace"
			}
			switch x := v.(type) {
			case *ssa.Extract:
				return fromWrite(x.Tuple, depth+1)
			case *ssa.Call:
				if x.Call.IsInvoke() && x.Call.Method.Name() == "Write" {
					return true, ""
				}
				if cal := calleeOf(x); cal != nil && (cal.Name() == "toMultihash" || cal.Name() == "ToMultihash") {
					return true, ""
				}
				return false, "the result of another call"
			case *ssa.Phi:
				for _, e := range x.Edges {
					if ok, why := fromWrite(e, depth+1); !ok {
						return false, why
					}
				}
				return true, ""
			case *ssa.UnOp:
				if x.Op == token.MUL {
					if f, _ := fieldOf(x.X); f != nil {
						return false, "the remembered field " + f.Name()
					}
					if a, ok := x.X.(*ssa.Alloc); ok {
						for _, st := range cellStores(a) {
							if ok, why := fromWrite(st.Val, depth+1); !ok {
								return false, why
							}
						}
						return true, ""
					}
				}
			}
			return false, "a value that is not the result of the write"
		}
		allInstrs(sf, false, func(ins ssa.Instruction) {
			ret, ok := ins.(*ssa.Return)
			if !ok || len(ret.Results) != 2 {
				return
			}
			if cst, ok := ret.Results[1].(*ssa.Const); !ok || !cst.IsNil() {
				// error returns, and tail calls returning the callee's pair
				if ex, ok := ret.Results[1].(*ssa.Extract); !ok || ex.Tuple != tupleOf(ret.Results[0]) {
					return
				}
			}
			nm++
			okw, why := fromWrite(ret.Results[0], 0)
			r.Check(okw, "R-C17.5", r.Key("R-C17.5", fn, "identifier-from-write", ""), ret.Pos(),
				"the identifier returned is the result of the manifest write of this call",
				"the manifest identifier returned is "+why+", not the result of a write performed by this call: a publication that overlaps an append can leave an older manifest remembered, and every later publication hands out a manifest that lacks an append which had already returned")
		})
	}
	r.Floor("R-C17.5", "success returns of the manifest publishers", nm, 2)
}

func tupleOf(v ssa.Value) ssa.Value {
	if ex, ok := v.(*ssa.Extract); ok {
		return ex.Tuple
	}
	return nil
}

func dagKindOfAssign(p *Prog, fn *Fn, as *ast.AssignStmt) string {
	if len(as.Rhs) == 1 {
		if call, ok := ast.Unparen(as.Rhs[0]).(*ast.CallExpr); ok {
			return dagCallKind(p, fn, call)
		}
	}
	return ""
}
