package main

// core.go — E0 loader: type-checked first-party program, function table (declarations and
// literals), per-function go/cfg graphs, AST parent links, anchor resolution.

import (
	"fmt"
	"go/ast"
	"go/token"
	"go/types"
	"os"
	"sort"
	"strings"

	"golang.org/x/tools/go/cfg"
	"golang.org/x/tools/go/packages"
	"golang.org/x/tools/go/ssa"
	"golang.org/x/tools/go/ssa/ssautil"
	"golang.org/x/tools/go/types/typeutil"
)

const modPath = "berty.tech/go-ipfs-log"

// Fn is one function body: a declaration or a function literal.
type Fn struct {
	Name   string
	Obj    *types.Func // nil for literals
	Decl   *ast.FuncDecl
	Lit    *ast.FuncLit
	Parent *Fn
	Body   *ast.BlockStmt
	Type   *ast.FuncType
	Pkg    *packages.Package
	CFG    *cfg.CFG
	Lits   []*Fn
	// set on helper-transparent views (inline.go)
	Orig    *Fn
	Inlined []string
	Alias   map[types.Object]aliasTo // helper parameters bound to the caller's access paths (views only)
	Parents map[ast.Node]ast.Node    // parent links of the spliced body (views only; shared subtrees keep their original links in Prog.parent)
}

// orig returns the underlying declared function of a view.
func orig(fn *Fn) *Fn {
	if fn != nil && fn.Orig != nil {
		return fn.Orig
	}
	return fn
}

func (f *Fn) Root() *Fn {
	for f.Parent != nil {
		f = f.Parent
	}
	return f
}

type Prog struct {
	Dir       string
	Mod       string // module path of the analysed tree
	Fset      *token.FileSet
	Pkgs      []*packages.Package          // first-party, sorted by path
	ByPath    map[string]*packages.Package // import path -> package
	Fns       []*Fn
	ByObj     map[*types.Func]*Fn
	ByLit     map[*ast.FuncLit]*Fn
	parent    map[ast.Node]ast.Node
	objID     map[types.Object]int
	SSA       *ssa.Program
	SSAPkgs   map[string]*ssa.Package
	Tags      string
	Goarch    string
	siteCount map[*types.Func]int
	inlViews  map[*Fn]*Fn
	alias     map[types.Object]aliasTo
	viewOf    map[*Fn]*Fn // function literal -> the helper-transparent view whose spliced body contains it
}

type infraError struct{ msg string }

func (e infraError) Error() string { return e.msg }

func infra(format string, a ...interface{}) {
	panic(infraError{fmt.Sprintf(format, a...)})
}

// Load type-checks ./... under dir. skipTest drops packages whose path ends in /test.
func Load(dir, mod string, minPkgs int, tags, goarch string, withTests bool) *Prog {
	env := append(os.Environ(), "GOWORK=off", "GOFLAGS=-mod=mod", "GOPROXY=off", "GOSUMDB=off", "GOTOOLCHAIN=local")
	if goarch != "" {
		env = append(env, "GOARCH="+goarch)
	}
	cfgp := &packages.Config{Mode: packages.LoadSyntax, Dir: dir, Env: env, Tests: withTests}
	if tags != "" {
		cfgp.BuildFlags = []string{"-tags=" + tags}
	}
	pkgs, err := packages.Load(cfgp, "./...")
	if err != nil {
		infra("load %s: %v", dir, err)
	}
	p := &Prog{Dir: dir, Mod: mod, ByPath: map[string]*packages.Package{}, ByObj: map[*types.Func]*Fn{},
		ByLit: map[*ast.FuncLit]*Fn{}, parent: map[ast.Node]ast.Node{}, objID: map[types.Object]int{},
		SSAPkgs: map[string]*ssa.Package{}, Tags: tags, Goarch: goarch}
	for _, pk := range pkgs {
		if len(pk.Errors) > 0 {
			infra("type/load errors in %s: %v", pk.PkgPath, pk.Errors[0])
		}
		if pk.IllTyped {
			infra("package %s is ill-typed", pk.PkgPath)
		}
		if p.Fset == nil {
			p.Fset = pk.Fset
		}
		// with Tests:true the same path may appear as "p [p.test]"; keep the variant with most files
		if old, ok := p.ByPath[pk.PkgPath]; ok && len(old.Syntax) >= len(pk.Syntax) {
			continue
		}
		if strings.HasSuffix(pk.PkgPath, ".test") {
			continue
		}
		p.ByPath[pk.PkgPath] = pk
	}
	for _, pk := range p.ByPath {
		p.Pkgs = append(p.Pkgs, pk)
	}
	sort.Slice(p.Pkgs, func(i, j int) bool { return p.Pkgs[i].PkgPath < p.Pkgs[j].PkgPath })
	if len(p.Pkgs) < minPkgs {
		infra("only %d packages loaded from %s (need >= %d)", len(p.Pkgs), dir, minPkgs)
	}
	for _, pk := range p.Pkgs {
		p.indexPkg(pk)
	}
	var initial []*packages.Package
	initial = append(initial, p.Pkgs...)
	prog, spkgs := ssautil.Packages(initial, ssa.InstantiateGenerics|ssa.GlobalDebug)
	prog.Build()
	p.SSA = prog
	for i, sp := range spkgs {
		if sp != nil {
			p.SSAPkgs[initial[i].PkgPath] = sp
		}
	}
	return p
}

func (p *Prog) indexPkg(pk *packages.Package) {
	for _, file := range pk.Syntax {
		// parent links
		var stack []ast.Node
		ast.Inspect(file, func(n ast.Node) bool {
			if n == nil {
				stack = stack[:len(stack)-1]
				return true
			}
			if len(stack) > 0 {
				p.parent[n] = stack[len(stack)-1]
			}
			stack = append(stack, n)
			return true
		})
		for _, d := range file.Decls {
			fd, ok := d.(*ast.FuncDecl)
			if !ok || fd.Body == nil {
				continue
			}
			obj, _ := pk.TypesInfo.Defs[fd.Name].(*types.Func)
			fn := &Fn{Name: funcName(obj), Obj: obj, Decl: fd, Body: fd.Body, Type: fd.Type, Pkg: pk}
			p.addFn(fn)
		}
		// package-level function literals (var x = func...) — index them too
		for _, d := range file.Decls {
			gd, ok := d.(*ast.GenDecl)
			if !ok {
				continue
			}
			n := 0
			ast.Inspect(gd, func(nd ast.Node) bool {
				if fl, ok := nd.(*ast.FuncLit); ok {
					if _, seen := p.ByLit[fl]; seen {
						return false
					}
					n++
					fn := &Fn{Name: fmt.Sprintf("%s.init$%d@%d", pk.Name, n, p.Fset.Position(fl.Pos()).Line), Lit: fl, Body: fl.Body, Type: fl.Type, Pkg: pk}
					p.addFn(fn)
					return false
				}
				return true
			})
		}
	}
}

func (p *Prog) addFn(fn *Fn) {
	fn.CFG = cfg.New(fn.Body, func(c *ast.CallExpr) bool { return p.mayReturn(fn.Pkg, c) })
	p.Fns = append(p.Fns, fn)
	if fn.Obj != nil {
		p.ByObj[fn.Obj] = fn
	}
	if fn.Lit != nil {
		p.ByLit[fn.Lit] = fn
	}
	n := 0
	var walk func(nd ast.Node) bool
	walk = func(nd ast.Node) bool {
		if fl, ok := nd.(*ast.FuncLit); ok {
			n++
			child := &Fn{Name: fmt.Sprintf("%s$%d", fn.Name, n), Lit: fl, Parent: fn, Body: fl.Body, Type: fl.Type, Pkg: fn.Pkg}
			fn.Lits = append(fn.Lits, child)
			p.addFn(child)
			return false
		}
		return true
	}
	ast.Inspect(fn.Body, walk)
}

func (p *Prog) mayReturn(pk *packages.Package, c *ast.CallExpr) bool {
	if id, ok := c.Fun.(*ast.Ident); ok {
		if b, ok := pk.TypesInfo.Uses[id].(*types.Builtin); ok && b.Name() == "panic" {
			return false
		}
	}
	if f := typeutil.StaticCallee(pk.TypesInfo, c); f != nil && f.Pkg() != nil {
		full := f.Pkg().Path() + "." + f.Name()
		switch full {
		case "os.Exit", "log.Fatal", "log.Fatalf", "log.Fatalln", "runtime.Goexit":
			return false
		}
	}
	return true
}

func funcName(f *types.Func) string {
	if f == nil {
		return "?"
	}
	sig := f.Type().(*types.Signature)
	pkg := ""
	if f.Pkg() != nil {
		pkg = f.Pkg().Name()
	}
	if r := sig.Recv(); r != nil {
		t := r.Type()
		ptr := ""
		if pt, ok := t.(*types.Pointer); ok {
			t = pt.Elem()
			ptr = "*"
		}
		tn := "?"
		if nt, ok := t.(*types.Named); ok {
			tn = nt.Obj().Name()
		}
		return fmt.Sprintf("%s.(%s%s).%s", pkg, ptr, tn, f.Name())
	}
	return pkg + "." + f.Name()
}

// ---- positions -------------------------------------------------------------------------

func (p *Prog) Pos(pos token.Pos) string {
	if !pos.IsValid() {
		return "?"
	}
	ps := p.Fset.Position(pos)
	f := ps.Filename
	if strings.HasPrefix(f, p.Dir+"/") {
		f = f[len(p.Dir)+1:]
	}
	return fmt.Sprintf("%s:%d", f, ps.Line)
}

func (p *Prog) Parent(n ast.Node) ast.Node { return p.parent[n] }

// EnclosingFn returns the innermost function body containing n.
func (p *Prog) EnclosingFn(n ast.Node) *Fn {
	for cur := n; cur != nil; cur = p.parent[cur] {
		switch x := cur.(type) {
		case *ast.FuncLit:
			if cur != n {
				return p.ByLit[x]
			}
		case *ast.FuncDecl:
			for _, fn := range p.Fns {
				if fn.Decl == x {
					return fn
				}
			}
		}
	}
	return nil
}

func (p *Prog) ID(o types.Object) string {
	if o == nil {
		return "nil"
	}
	id, ok := p.objID[o]
	if !ok {
		id = len(p.objID) + 1
		p.objID[o] = id
	}
	return fmt.Sprintf("%s#%d", o.Name(), id)
}

// ---- anchors ---------------------------------------------------------------------------

func (p *Prog) pkgPath(rel string) string {
	if rel == "" {
		return p.Mod
	}
	return p.Mod + "/" + rel
}

func (p *Prog) Pkg(rel string) *packages.Package {
	pk := p.ByPath[p.pkgPath(rel)]
	if pk == nil {
		infra("unresolved anchor: package %s", p.pkgPath(rel))
	}
	return pk
}

func (p *Prog) HasPkg(rel string) bool { return p.ByPath[p.pkgPath(rel)] != nil }

// Named resolves a package-level named type.
func (p *Prog) Named(rel, name string) *types.Named {
	o := p.Pkg(rel).Types.Scope().Lookup(name)
	tn, ok := o.(*types.TypeName)
	if !ok {
		infra("unresolved anchor: type %s.%s", p.pkgPath(rel), name)
	}
	// follow aliases
	t := types.Unalias(tn.Type())
	nt, ok := t.(*types.Named)
	if !ok {
		infra("unresolved anchor: %s.%s is not a named type", p.pkgPath(rel), name)
	}
	return nt
}

// Field resolves a struct field of a named type.
func (p *Prog) Field(rel, typ, field string) *types.Var {
	v := p.FieldOpt(rel, typ, field)
	if v == nil {
		infra("unresolved anchor: field %s.%s.%s", p.pkgPath(rel), typ, field)
	}
	return v
}

func (p *Prog) FieldOpt(rel, typ, field string) *types.Var {
	nt := p.Named(rel, typ)
	st, ok := nt.Underlying().(*types.Struct)
	if !ok {
		infra("unresolved anchor: %s.%s is not a struct", p.pkgPath(rel), typ)
	}
	for i := 0; i < st.NumFields(); i++ {
		if st.Field(i).Name() == field {
			return st.Field(i)
		}
	}
	return nil
}

// Func resolves a package-level function ("" recv) or method.
func (p *Prog) Func(rel, recv, name string) *Fn {
	fn := p.FuncOpt(rel, recv, name)
	if fn == nil {
		infra("unresolved anchor: func %s %s.%s", p.pkgPath(rel), recv, name)
	}
	return fn
}

func (p *Prog) FuncObj(rel, recv, name string) *types.Func {
	pk := p.Pkg(rel)
	if recv == "" {
		f, _ := pk.Types.Scope().Lookup(name).(*types.Func)
		return f
	}
	o, _ := pk.Types.Scope().Lookup(recv).(*types.TypeName)
	if o == nil {
		return nil
	}
	t := types.Unalias(o.Type())
	for _, tt := range []types.Type{t, types.NewPointer(t)} {
		ms := types.NewMethodSet(tt)
		for i := 0; i < ms.Len(); i++ {
			if f, ok := ms.At(i).Obj().(*types.Func); ok && f.Name() == name {
				return f
			}
		}
	}
	// unexported methods are not in the method set across packages only; same-package lookup:
	if nt, ok := t.(*types.Named); ok {
		for i := 0; i < nt.NumMethods(); i++ {
			if nt.Method(i).Name() == name {
				return nt.Method(i)
			}
		}
	}
	return nil
}

func (p *Prog) FuncOpt(rel, recv, name string) *Fn {
	if !p.HasPkg(rel) {
		infra("unresolved anchor: package %s", p.pkgPath(rel))
	}
	f := p.FuncObj(rel, recv, name)
	if f == nil {
		return nil
	}
	return p.ByObj[f]
}

// SSAFunc returns the SSA function of a source function (declaration or literal).
func (p *Prog) SSAFunc(fn *Fn) *ssa.Function {
	fn = orig(fn)
	root := fn.Root()
	if root.Obj == nil {
		return nil
	}
	sf := p.SSA.FuncValue(root.Obj)
	if sf == nil {
		infra("no SSA for %s", root.Name)
	}
	if fn == root {
		return sf
	}
	var find func(f *ssa.Function) *ssa.Function
	find = func(f *ssa.Function) *ssa.Function {
		for _, an := range f.AnonFuncs {
			if an.Syntax() == ast.Node(fn.Lit) {
				return an
			}
			if r := find(an); r != nil {
				return r
			}
		}
		return nil
	}
	r := find(sf)
	if r == nil {
		infra("no SSA for literal %s", fn.Name)
	}
	return r
}

// ---- type helpers ----------------------------------------------------------------------

func deref(t types.Type) types.Type {
	t = types.Unalias(t)
	if pt, ok := t.Underlying().(*types.Pointer); ok {
		return types.Unalias(pt.Elem())
	}
	return t
}

func namedOf(t types.Type) *types.Named {
	if t == nil {
		return nil
	}
	nt, _ := deref(t).(*types.Named)
	return nt
}

func isNamed(t types.Type, pkgPath, name string) bool {
	nt := namedOf(t)
	return nt != nil && nt.Obj().Name() == name && nt.Obj().Pkg() != nil && nt.Obj().Pkg().Path() == pkgPath
}

func (p *Prog) firstParty(pkg *types.Package) bool {
	return pkg != nil && (pkg.Path() == p.Mod || strings.HasPrefix(pkg.Path(), p.Mod+"/"))
}

// Callee resolves the called function object (static function, method or interface method).
func (p *Prog) Callee(fn *Fn, c *ast.CallExpr) *types.Func {
	f, _ := typeutil.Callee(fn.Pkg.TypesInfo, c).(*types.Func)
	if f != nil {
		f = f.Origin()
	}
	return f
}

func (p *Prog) Builtin(fn *Fn, c *ast.CallExpr) string {
	fun := ast.Unparen(c.Fun)
	if id, ok := fun.(*ast.Ident); ok {
		if b, ok := fn.Pkg.TypesInfo.Uses[id].(*types.Builtin); ok {
			return b.Name()
		}
	}
	return ""
}

func (p *Prog) TypeOf(fn *Fn, e ast.Expr) types.Type { return fn.Pkg.TypesInfo.TypeOf(e) }

func (p *Prog) ObjOf(fn *Fn, id *ast.Ident) types.Object { return fn.Pkg.TypesInfo.ObjectOf(id) }

// isFuncNamed: f is package-level function/method with given package path, receiver type name and name.
func isFunc(f *types.Func, pkgPath, recv, name string) bool {
	if f == nil || f.Name() != name || f.Pkg() == nil || f.Pkg().Path() != pkgPath {
		return false
	}
	sig := f.Type().(*types.Signature)
	if recv == "" {
		return sig.Recv() == nil
	}
	if sig.Recv() == nil {
		return false
	}
	nt := namedOf(sig.Recv().Type())
	return nt != nil && nt.Obj().Name() == recv
}

// FieldSel: if e is a selector of a struct field, returns the field and the base expression.
func (p *Prog) FieldSel(fn *Fn, e ast.Expr) (*types.Var, ast.Expr) {
	se, ok := ast.Unparen(e).(*ast.SelectorExpr)
	if !ok {
		// in a helper-transparent view a helper parameter stands for the caller's argument expression
		if id, isID := ast.Unparen(e).(*ast.Ident); isID && fn != nil && fn.Orig != nil {
			if v, isVar := p.ObjOf(fn, id).(*types.Var); isVar {
				if a, ok := fn.Alias[v]; ok && a.root != nil && a.expr != nil && a.expr != e {
					return p.FieldSel(fn, a.expr)
				}
			}
		}
		return nil, nil
	}
	sel := fn.Pkg.TypesInfo.Selections[se]
	if sel == nil || sel.Kind() != types.FieldVal {
		return nil, nil
	}
	v, _ := sel.Obj().(*types.Var)
	return v, se.X
}

// PathKey canonicalises an access path rooted at a variable: x, x.f, x.f.g, *x, (&x).f.
func (p *Prog) PathKey(fn *Fn, e ast.Expr) (root types.Object, key string, ok bool) {
	e = ast.Unparen(e)
	switch x := e.(type) {
	case *ast.Ident:
		o := p.ObjOf(fn, x)
		if v, isVar := o.(*types.Var); isVar {
			if a, ok := fn.Alias[v]; ok && fn.Orig != nil && a.root != nil {
				return a.root, a.key, true // helper parameter seen through a helper-transparent view
			}
			return v, p.ID(v), true
		}
		return nil, "", false
	case *ast.StarExpr:
		return p.PathKey(fn, x.X)
	case *ast.UnaryExpr:
		if x.Op == token.AND {
			return p.PathKey(fn, x.X)
		}
	case *ast.SelectorExpr:
		if v, base := p.FieldSel(fn, x); v != nil {
			r, k, ok := p.PathKey(fn, base)
			if ok {
				return r, k + "." + v.Name(), true
			}
		}
	}
	return nil, "", false
}

// walkNoLit walks n in source order without descending into function literals.
func walkNoLit(n ast.Node, f func(ast.Node) bool) {
	ast.Inspect(n, func(nd ast.Node) bool {
		if nd == nil {
			return true
		}
		if _, ok := nd.(*ast.FuncLit); ok && nd != n {
			f(nd) // let the visitor see the literal itself
			return false
		}
		return f(nd)
	})
}

// Calls lists call expressions in fn's own body (not nested literals) in source order.
func (p *Prog) Calls(fn *Fn) []*ast.CallExpr {
	var out []*ast.CallExpr
	walkNoLit(fn.Body, func(n ast.Node) bool {
		if c, ok := n.(*ast.CallExpr); ok {
			out = append(out, c)
		}
		return true
	})
	return out
}

// AllFnsUnder returns fn and all nested literals.
func AllFnsUnder(fn *Fn) []*Fn {
	out := []*Fn{fn}
	for _, l := range fn.Lits {
		out = append(out, AllFnsUnder(l)...)
	}
	return out
}

func exprString(fset *token.FileSet, e ast.Node) string {
	return types.ExprString(exprOf(e))
}

func exprOf(n ast.Node) ast.Expr {
	if e, ok := n.(ast.Expr); ok {
		return e
	}
	return &ast.Ident{Name: fmt.Sprintf("<%T>", n)}
}

// ParentIn: the parent of n as seen from fn — in a helper-transparent view the spliced-in helper bodies hang
// under the call site, not under the helper's declaration.
func (p *Prog) ParentIn(fn *Fn, n ast.Node) ast.Node {
	if fn != nil && fn.Parents != nil {
		if par, ok := fn.Parents[n]; ok {
			return par
		}
	}
	return p.parent[n]
}

// aliasOf: the parameter bindings visible from fn — its own when fn is a helper-transparent view, those of the
// view that contains it when fn is a function literal of a spliced-in helper.
func (p *Prog) aliasOf(fn *Fn) map[types.Object]aliasTo {
	if fn == nil {
		return nil
	}
	if fn.Alias != nil {
		return fn.Alias
	}
	for f := fn; f != nil; f = f.Parent {
		if v := p.viewOf[f]; v != nil {
			return v.Alias
		}
	}
	return nil
}

// SoleDef returns the defining expression of a local variable that is assigned exactly once in the function
// that declares it (`k := expr` or `k = expr`; not a parameter, range variable or multi-value assignment), else nil.
func (p *Prog) SoleDef(fn *Fn, v types.Object) ast.Expr {
	if fn == nil || v == nil {
		return nil
	}
	root := fn.Root()
	var def ast.Expr
	n := 0
	ast.Inspect(root.Body, func(m ast.Node) bool {
		switch x := m.(type) {
		case *ast.AssignStmt:
			for i, l := range x.Lhs {
				if id, ok := ast.Unparen(l).(*ast.Ident); ok && p.ObjOf(fn, id) == v {
					n++
					if len(x.Lhs) == len(x.Rhs) {
						def = x.Rhs[i]
					} else {
						n++ // multi-value: not a plain definition
					}
				}
			}
		case *ast.RangeStmt:
			for _, l := range []ast.Expr{x.Key, x.Value} {
				if id, ok := l.(*ast.Ident); ok && p.ObjOf(fn, id) == v {
					n += 2
				}
			}
		case *ast.IncDecStmt:
			if id, ok := ast.Unparen(x.X).(*ast.Ident); ok && p.ObjOf(fn, id) == v {
				n += 2
			}
		case *ast.ValueSpec:
			for i, id := range x.Names {
				if p.ObjOf(fn, id) == v && len(x.Values) == len(x.Names) {
					n++
					def = x.Values[i]
				}
			}
		case *ast.UnaryExpr:
			if x.Op == token.AND {
				if id, ok := ast.Unparen(x.X).(*ast.Ident); ok && p.ObjOf(fn, id) == v {
					n += 2 // address taken
				}
			}
		}
		return true
	})
	if n == 1 {
		return def
	}
	return nil
}

func isBoolType(t types.Type) bool {
	if t == nil {
		return false
	}
	b, ok := t.Underlying().(*types.Basic)
	return ok && b.Info()&types.IsBoolean != 0
}

// SoleDefAllowingSteps: like SoleDef, but `v++`, `v--`, `v += c`, `v -= c` (also inside function literals) do not
// count as definitions: the expression the variable is initialised with.
func (p *Prog) SoleDefAllowingSteps(fn *Fn, v types.Object) ast.Expr {
	if fn == nil || v == nil {
		return nil
	}
	root := fn.Root()
	var def ast.Expr
	n := 0
	ast.Inspect(root.Body, func(m ast.Node) bool {
		switch x := m.(type) {
		case *ast.AssignStmt:
			if x.Tok != token.ASSIGN && x.Tok != token.DEFINE {
				return true
			}
			for i, l := range x.Lhs {
				if id, ok := ast.Unparen(l).(*ast.Ident); ok && p.ObjOf(fn, id) == v {
					n++
					if len(x.Lhs) == len(x.Rhs) {
						def = x.Rhs[i]
					} else {
						n++
					}
				}
			}
		case *ast.ValueSpec:
			for i, id := range x.Names {
				if p.ObjOf(fn, id) == v {
					n++
					if len(x.Values) == len(x.Names) {
						def = x.Values[i]
					} else if len(x.Values) == 0 {
						def = &ast.BasicLit{Kind: token.INT, Value: "0"}
					}
				}
			}
		}
		return true
	})
	if n == 1 {
		return def
	}
	return nil
}

// peelSliceCopy: `append(<empty>, xs...)`, `slices.Clone(xs)` and single-definition locals holding one stand
// for xs (a copy has the same elements; sorting the copy does not change which).
func peelSliceCopy(p *Prog, fn *Fn, e ast.Expr) ast.Expr {
	for i := 0; i < 4; i++ {
		e = ast.Unparen(e)
		switch x := e.(type) {
		case *ast.Ident:
			o := p.ObjOf(fn, x)
			if o == nil {
				return e
			}
			d := p.SoleDef(p.EnclosingFn(x), o)
			if d == nil {
				return e
			}
			// only when the definition is itself a copy form (a plain temporary is the caller's business)
			if pe := peelOnce(p, fn, d); pe != nil {
				e = pe
				continue
			}
			return e
		case *ast.CallExpr:
			if pe := peelOnce(p, fn, x); pe != nil {
				e = pe
				continue
			}
			return e
		default:
			return e
		}
	}
	return e
}

func peelOnce(p *Prog, fn *Fn, e ast.Expr) ast.Expr {
	call, ok := ast.Unparen(e).(*ast.CallExpr)
	if !ok {
		return nil
	}
	if p.Builtin(fn, call) == "append" && len(call.Args) == 2 && call.Ellipsis.IsValid() && emptySliceExpr(p, fn, call.Args[0]) {
		return call.Args[1]
	}
	if cf := p.Callee(fn, call); cf != nil && cf.Pkg() != nil && cf.Pkg().Path() == "slices" && cf.Name() == "Clone" && len(call.Args) == 1 {
		return call.Args[0]
	}
	return nil
}

// emptySliceExpr: []T{}, []T(nil), nil, make([]T, 0[, n]), x[:0:0].
func emptySliceExpr(p *Prog, fn *Fn, e ast.Expr) bool {
	e = ast.Unparen(e)
	switch x := e.(type) {
	case *ast.Ident:
		return x.Name == "nil"
	case *ast.CompositeLit:
		return len(x.Elts) == 0
	case *ast.CallExpr:
		if tv, ok := fn.Pkg.TypesInfo.Types[x.Fun]; ok && tv.IsType() && len(x.Args) == 1 {
			return isNilIdent(x.Args[0])
		}
		if p.Builtin(fn, x) == "make" && len(x.Args) >= 2 {
			if tv, ok := fn.Pkg.TypesInfo.Types[x.Args[1]]; ok && tv.Value != nil && tv.Value.String() == "0" {
				return true
			}
		}
	case *ast.SliceExpr:
		if x.Slice3 && x.High != nil && x.Max != nil {
			h, ok1 := fn.Pkg.TypesInfo.Types[x.High]
			m, ok2 := fn.Pkg.TypesInfo.Types[x.Max]
			return ok1 && ok2 && h.Value != nil && m.Value != nil && h.Value.String() == "0" && m.Value.String() == "0"
		}
	}
	return false
}

// AllDefs returns every defining expression of a local variable (plain 1:1 assignments and declarations), or
// ok=false when it is also defined some other way (multi-value assignment, range variable, ++/--, address taken).
func (p *Prog) AllDefs(fn *Fn, v types.Object) (defs []ast.Expr, ok bool) {
	if fn == nil || v == nil {
		return nil, false
	}
	ok = true
	ast.Inspect(fn.Root().Body, func(m ast.Node) bool {
		switch x := m.(type) {
		case *ast.AssignStmt:
			for i, l := range x.Lhs {
				if id, isID := ast.Unparen(l).(*ast.Ident); isID && p.ObjOf(fn, id) == v {
					if len(x.Lhs) == len(x.Rhs) && (x.Tok == token.ASSIGN || x.Tok == token.DEFINE) {
						defs = append(defs, x.Rhs[i])
					} else {
						ok = false
					}
				}
			}
		case *ast.RangeStmt:
			for _, l := range []ast.Expr{x.Key, x.Value} {
				if id, isID := l.(*ast.Ident); isID && p.ObjOf(fn, id) == v {
					ok = false
				}
			}
		case *ast.IncDecStmt:
			if id, isID := ast.Unparen(x.X).(*ast.Ident); isID && p.ObjOf(fn, id) == v {
				ok = false
			}
		case *ast.ValueSpec:
			for i, id := range x.Names {
				if p.ObjOf(fn, id) == v {
					if len(x.Values) == len(x.Names) {
						defs = append(defs, x.Values[i])
					} else if len(x.Values) != 0 {
						ok = false
					}
				}
			}
		case *ast.UnaryExpr:
			if x.Op == token.AND {
				if id, isID := ast.Unparen(x.X).(*ast.Ident); isID && p.ObjOf(fn, id) == v {
					ok = false
				}
			}
		}
		return true
	})
	return defs, ok && len(defs) > 0
}

// keysCollection: the collection variable X when e denotes X.Keys() — the call itself, a copy of it
// (append(<empty>, …), slices.Clone), or a local every definition of which is one of these for the same X (a
// definition that copies the local onto itself, `ks = append([]string{}, ks...)`, names the same keys).
func keysCollection(p *Prog, fn *Fn, e ast.Expr, depth int) types.Object {
	if depth > 4 {
		return nil
	}
	e = ast.Unparen(e)
	for i := 0; i < 4; i++ {
		if pe := peelOnce(p, fn, e); pe != nil {
			e = ast.Unparen(pe)
			continue
		}
		break
	}
	switch x := e.(type) {
	case *ast.CallExpr:
		if se, ok := ast.Unparen(x.Fun).(*ast.SelectorExpr); ok && se.Sel.Name == "Keys" && len(x.Args) == 0 {
			if id, ok := ast.Unparen(se.X).(*ast.Ident); ok {
				return p.CanonObj(fn, id)
			}
		}
	case *ast.Ident:
		o := p.ObjOf(fn, x)
		defs, ok := p.AllDefs(p.EnclosingFn(x), o)
		if !ok {
			return nil
		}
		var res types.Object
		for _, d := range defs {
			pd := ast.Unparen(d)
			for i := 0; i < 4; i++ {
				if pe := peelOnce(p, fn, pd); pe != nil {
					pd = ast.Unparen(pe)
					continue
				}
				break
			}
			if id, ok := pd.(*ast.Ident); ok && p.ObjOf(fn, id) == o {
				continue // a copy of itself
			}
			c := keysCollection(p, fn, pd, depth+1)
			if c == nil || (res != nil && c != res) {
				return nil
			}
			res = c
		}
		return res
	}
	return nil
}
