package main

// c12.go — untrusted blocks cannot crash the process: wire-struct nil fields, wire-byte indices, explicit
// crash points and error discipline in the decode closure, clock always set by ToPlain.

import (
	"fmt"
	"go/ast"
	"go/token"
	"go/types"
	"sort"
	"strings"

	"golang.org/x/tools/go/ssa"
)

func init() {
	register(&PropSpec{ID: "C12", Level: "other", Run: runC12,
		Explanation: "Decides, for every block a decoder can produce, on every path of the first-party decode closure (functions reachable from IO.Read/DecodeRawEntry/DecodeRawJSONLog, FromMultihashWithIO, the jsonable ToPlain converters, the CID cast, DecryptLinks and the secretbox open functions): (R-C12.1) every dereferencing use of a pointer field of a decoder-filled struct (types discovered from the static arguments of DecodeInto/Unmarshal) is dominated by a non-nil test of that field — field access, explicit *, or a callee that dereferences it before testing; (R-C12.2) every index/slice on wire-derived bytes is proved in range; (R-C12.3) no unchecked type assertion, panic or Must* call, and no discarded error whose value results are then used without a nil test; (R-C12.4) every success return of an entry ToPlain has passed SetClock, so clock accessors on decoded entries are safe. Third-party decoders are trusted not to panic. Not covered: resource exhaustion, semantically absurd but well-typed entries.",
		Trusted:     []string{"refmt, go-ipld-cbor, go-cid, go-merkledag, encoding/json do not panic on arbitrary input"},
	})
}

// wireTypes: struct types filled by decoders, with the transitive closure over their fields.
func wireTypes(c *Ctx) (map[*types.Named]string, []string) {
	p := c.P
	roots := map[*types.Named]string{}
	var sites []string
	for _, fn := range p.Fns {
		if strings.HasSuffix(fn.Pkg.PkgPath, "/test") {
			continue
		}
		walkNoLit(fn.Body, func(n ast.Node) bool {
			call, ok := n.(*ast.CallExpr)
			if !ok {
				return true
			}
			cf := p.Callee(fn, call)
			if cf == nil || cf.Pkg() == nil {
				return true
			}
			argIdx := -1
			switch {
			case cf.Name() == "DecodeInto" && strings.Contains(cf.Pkg().Path(), "go-ipld-cbor"):
				argIdx = 1
			case cf.Name() == "Unmarshal" && cf.Pkg().Path() == "encoding/json":
				argIdx = 1
			case cf.Name() == "Unmarshal" && strings.Contains(cf.Pkg().Path(), "go-ipld-cbor"):
				argIdx = 1
			}
			if argIdx < 0 || argIdx >= len(call.Args) {
				return true
			}
			if nt := namedOf(p.TypeOf(fn, call.Args[argIdx])); nt != nil && p.firstParty(nt.Obj().Pkg()) {
				if _, ok := nt.Underlying().(*types.Struct); ok {
					roots[nt] = fmt.Sprintf("%s at %s", cf.Name(), p.Pos(call.Pos()))
					sites = append(sites, fmt.Sprintf("%s(%s) at %s", cf.Name(), nt.Obj().Name(), p.Pos(call.Pos())))
				}
			}
			return true
		})
	}
	// closure over field types
	work := []*types.Named{}
	for nt := range roots {
		work = append(work, nt)
	}
	for len(work) > 0 {
		nt := work[len(work)-1]
		work = work[:len(work)-1]
		st, ok := nt.Underlying().(*types.Struct)
		if !ok {
			continue
		}
		for i := 0; i < st.NumFields(); i++ {
			t := st.Field(i).Type()
			for {
				switch u := t.Underlying().(type) {
				case *types.Pointer:
					t = u.Elem()
					continue
				case *types.Slice:
					t = u.Elem()
					continue
				}
				break
			}
			if ft, ok := types.Unalias(t).(*types.Named); ok && p.firstParty(ft.Obj().Pkg()) {
				if _, seen := roots[ft]; !seen {
					if _, isStruct := ft.Underlying().(*types.Struct); isStruct {
						roots[ft] = "field of " + nt.Obj().Name()
						work = append(work, ft)
					}
				}
			}
		}
	}
	sort.Strings(sites)
	return roots, sites
}

func decodeScope(c *Ctx) map[*Fn][]string {
	p := c.P
	var roots []*Fn
	add := func(f *Fn) {
		if f != nil {
			roots = append(roots, f)
		}
	}
	add(p.FuncI("entry", "", "FromMultihashWithIO"))
	add(p.FuncOpt("entry", "Fetcher", "fetchEntry")) // small wrapper: may have been inlined away
	for _, t := range []struct{ pkg, recv string }{{"io/cbor", "IOCbor"}, {"io/pb", "pb"}} {
		for _, m := range []string{"Read", "DecodeRawEntry", "DecodeRawJSONLog"} {
			add(p.FuncI(t.pkg, t.recv, m))
		}
	}
	add(p.FuncI("io/cbor", "", "castBytesToCid"))
	add(p.FuncI("io/cbor", "IOCbor", "DecryptLinks"))
	for _, m := range []string{"Open", "OpenWithNonce"} {
		add(p.FuncI("enc", "boxed", m))
	}
	// jsonable ToPlain converters
	for _, fn := range p.Fns {
		if fn.Pkg.PkgPath == p.pkgPath("io/jsonable") && fn.Obj != nil && fn.Obj.Name() == "ToPlain" {
			add(fn)
		}
	}
	// unmarshal transform literals registered in the atlas (called by refmt during decode)
	for _, fn := range p.Fns {
		if fn.Lit != nil && fn.Pkg.PkgPath == p.pkgPath("io/cbor") {
			if call, ok := p.parent[fn.Lit].(*ast.CallExpr); ok {
				if cf := p.Callee(fn.Root(), call); cf != nil && cf.Name() == "MakeUnmarshalTransformFunc" {
					add(fn)
				}
			}
		}
	}
	return c.CG.Reach(roots, false)
}

func runC12(c *Ctx, r *Report) {
	p := c.P
	r.Doc("R-C12.1", "dereferencing uses of pointer fields of decoder-filled structs are dominated by a non-nil test")
	r.Doc("R-C12.2", "indices and slices on wire-derived bytes are proved in range")
	r.Doc("R-C12.3", "no unchecked type assertion, panic or Must* call in the decode closure; a discarded error is followed by a nil test of the value results before use")
	r.Doc("R-C12.4", "every success return of an entry ToPlain has passed SetClock")
	r.Doc("control", "engine positive/negative controls analysed on every run")
	lenControls(c, r, "control")
	nilControls(c, r, "control")

	wt, sites := wireTypes(c)
	ne := NewNilEngine(p, c.CG)
	var wnames, nilable []string
	for nt, why := range wt {
		wnames = append(wnames, nt.Obj().Pkg().Name()+"."+nt.Obj().Name()+" ("+why+")")
		st := nt.Underlying().(*types.Struct)
		for i := 0; i < st.NumFields(); i++ {
			f := st.Field(i)
			if _, ok := f.Type().Underlying().(*types.Pointer); ok {
				ne.NilableField[f] = "pointer field of decoder-filled struct " + nt.Obj().Name()
				nilable = append(nilable, nt.Obj().Name()+"."+f.Name())
			}
		}
	}
	sort.Strings(wnames)
	sort.Strings(nilable)
	r.Tables["wire_struct_types"] = wnames
	r.Tables["wire_nilable_pointer_fields"] = nilable
	r.Tables["decoder_call_sites"] = sites
	r.Floor("R-C12.1", "decoder-filled struct types", len(wt), 3)
	r.Floor("R-C12.1", "nilable pointer fields of wire structs", len(nilable), 3)

	scope := decodeScope(c)
	var scopeNames []string
	for fn := range scope {
		scopeNames = append(scopeNames, fn.Name)
		r.Analysed[fn.Name] = true
	}
	sort.Strings(scopeNames)
	r.Tables["decode_closure"] = scopeNames
	r.Floor("R-C12.3", "functions in the decode closure", len(scope), 8)

	// R-C12.1 — over all first-party non-test functions (a wire struct may be consumed anywhere)
	nuse := 0
	for _, fn := range p.Fns {
		if strings.HasSuffix(fn.Pkg.PkgPath, "/test") {
			continue
		}
		for _, u := range ne.FieldUses(fn) {
			nuse++
			fname := "?"
			if u.Field != nil {
				fname = u.Field.Name()
			}
			key := r.Key("R-C12.1", fn, "deref", fname)
			r.Check(u.OK, "R-C12.1", key, u.Pos,
				fmt.Sprintf("%s (%s) is dominated by a non-nil test", u.Path, u.What),
				fmt.Sprintf("%s is nil for a well-formed block that omits the field, and it is dereferenced here (%s) with no dominating nil test: nil-pointer panic on the fetch goroutine", u.Path, u.What))
		}
	}
	r.Floor("R-C12.1", "dereferencing uses of nilable wire fields", nuse, 3)

	// R-C12.2
	armed := 0
	var fns []*Fn
	for fn := range scope {
		fns = append(fns, fn)
	}
	sort.Slice(fns, func(i, j int) bool { return fns[i].Name < fns[j].Name })
	for _, fn := range fns {
		if fn.Parent != nil {
			continue
		}
		if fn.Pkg.PkgPath != p.pkgPath("enc") && fn.Pkg.PkgPath != p.pkgPath("io/cbor") && fn.Pkg.PkgPath != p.pkgPath("io/pb") && fn.Pkg.PkgPath != p.pkgPath("io/jsonable") {
			continue
		}
		a, _ := sinkObligations(c, r, "R-C12.2", fn, true)
		armed += a
	}
	r.Floor("R-C12.2", "wire-byte index/slice sinks", armed, 3)

	// R-C12.3
	nAssert, nErr := 0, 0
	workerScope := map[*Fn]bool{}
	for _, w := range AllFnsUnder(p.FuncI("entry", "Fetcher", "processQueue")) {
		workerScope[w] = true // the fetch worker consumes the decoder's result: only its error discipline is examined
	}
	fns3 := append([]*Fn{}, fns...)
	for w := range workerScope {
		if _, in := scope[w]; !in {
			fns3 = append(fns3, w)
		}
	}
	sort.Slice(fns3, func(i, j int) bool { return fns3[i].Name < fns3[j].Name })
	for _, fn := range fns3 {
		_, inDecode := scope[fn]
		walkNoLit(fn.Body, func(n ast.Node) bool {
			if _, isAssign := n.(*ast.AssignStmt); !inDecode && !isAssign {
				return true
			}
			switch x := n.(type) {
			case *ast.TypeAssertExpr:
				if x.Type == nil {
					return true // type switch
				}
				nAssert++
				checked := false
				switch par := p.parent[x].(type) {
				case *ast.AssignStmt:
					checked = len(par.Lhs) == 2 && len(par.Rhs) == 1
				case *ast.ValueSpec:
					checked = len(par.Names) == 2 && len(par.Values) == 1
				}
				r.Check(checked, "R-C12.3", r.Key("R-C12.3", fn, "type-assert", types.ExprString(x.Type)), x.Pos(),
					"type assertion uses the comma-ok form", "unchecked type assertion in the decode closure panics on a value of another type")
			case *ast.CallExpr:
				if p.Builtin(fn, x) == "panic" {
					r.Violate("R-C12.3", r.Key("R-C12.3", fn, "panic", ""), x.Pos(), "explicit panic reachable while decoding an untrusted block")
				}
				if cf := p.Callee(fn, x); cf != nil && strings.HasPrefix(cf.Name(), "Must") {
					r.Violate("R-C12.3", r.Key("R-C12.3", fn, "must-call", cf.Name()), x.Pos(), "Must* call (panics on error) reachable while decoding an untrusted block")
				}
			case *ast.AssignStmt:
				// discarded error: `v, _ := f()` where the blank is f's error result
				if len(x.Rhs) != 1 {
					return true
				}
				call, ok := ast.Unparen(x.Rhs[0]).(*ast.CallExpr)
				if !ok {
					return true
				}
				tup, ok := p.TypeOf(fn, call).(*types.Tuple)
				if !ok || tup.Len() != len(x.Lhs) || tup.Len() < 2 || !isErrorType(tup.At(tup.Len()-1).Type()) {
					return true
				}
				nErr++
				last, ok := x.Lhs[len(x.Lhs)-1].(*ast.Ident)
				if !ok || last.Name != "_" {
					return true
				}
				// every pointer/interface result must be nil-tested before being dereferenced
				okAll := true
				var bad string
				for i := 0; i < len(x.Lhs)-1; i++ {
					id, ok := x.Lhs[i].(*ast.Ident)
					if !ok || id.Name == "_" {
						continue
					}
					o := p.ObjOf(fn, id)
					if o == nil {
						continue
					}
					if _, isPtr := o.Type().Underlying().(*types.Pointer); !isPtr && !types.IsInterface(o.Type()) {
						continue
					}
					fl := ne.nilFlow(fn)
					fl.Visit(func(_ *cfgBlk, nd ast.Node, before Facts) {
						for _, u := range ne.derefsOf(fn, nd, func(e ast.Expr) (string, bool) {
							if eid, ok := ast.Unparen(e).(*ast.Ident); ok && p.ObjOf(fn, eid) == o {
								return p.ID(o), true
							}
							return "", false
						}, 0) {
							if !before["nn|"+u.Key] {
								okAll = false
								bad = fmt.Sprintf("%s used at %s (%s)", id.Name, p.Pos(u.Pos), u.What)
							}
						}
					})
				}
				r.Check(okAll, "R-C12.3", r.Key("R-C12.3", fn, "discarded-error", types.ExprString(call.Fun)), x.Pos(),
					"the error is dropped (drop-and-continue) and the value is nil-tested before every use",
					"the error of "+types.ExprString(call.Fun)+" is discarded and its result is used without a nil test: "+bad)
			}
			return true
		})
	}
	// third-party functions called from the decode closure that turn an argument into a panic
	{
		type site struct {
			fn   *Fn
			call *ast.CallExpr
		}
		sites := map[extFuncKey][]site{}
		for _, fn := range fns {
			fn := fn
			walkNoLit(fn.Body, func(n ast.Node) bool {
				call, ok := n.(*ast.CallExpr)
				if !ok {
					return true
				}
				cf := p.Callee(fn, call)
				if cf == nil || cf.Pkg() == nil || p.firstParty(cf.Pkg()) || !strings.Contains(cf.Pkg().Path(), ".") {
					return true
				}
				if sig := cf.Type().(*types.Signature); sig.Params().Len() == 0 && sig.Recv() == nil {
					return true // nothing of the block reaches it
				}
				k := extKeyOf(cf)
				sites[k] = append(sites[k], site{fn, call})
				return true
			})
		}
		var keys []extFuncKey
		for k := range sites {
			keys = append(keys, k)
		}
		sort.Slice(keys, func(i, j int) bool {
			return keys[i].pkg+keys[i].recv+keys[i].name < keys[j].pkg+keys[j].recv+keys[j].name
		})
		res := p.explicitPanics(keys)
		for _, k := range keys {
			for i, st := range sites[k] {
				why := res[k]
				if k.pkg == "golang.org/x/crypto/nacl/secretbox" && k.name == "Open" && len(st.call.Args) == 4 && isNilIdent(st.call.Args[0]) {
					why = "" // read: its only panic is on an output buffer overlapping the box; with a nil output buffer there is none
				}
				r.Check(why == "" || why == "?", "R-C12.3", r.Key("R-C12.3", st.fn, "dependency-panic", fmt.Sprintf("%s.%s#%d", k.recv, k.name, i)), st.call.Pos(),
					"the third-party function called here has no explicit panic in its body",
					fmt.Sprintf("%s.%s.%s is called while decoding an untrusted block and %s: a value of the block it refuses takes the process down instead of being reported", k.pkg, k.recv, k.name, why))
			}
		}
		r.Floor("R-C12.3", "third-party functions called from the decode closure examined for an explicit panic", len(keys), 4)
		ctl := p.explicitPanics([]extFuncKey{{pkg: "github.com/ipfs/go-cid", name: "NewCidV0"}})
		ck := extFuncKey{pkg: "github.com/ipfs/go-cid", name: "NewCidV0"}
		r.Check(ctl[ck] != "" && ctl[ck] != "?", "R-C12.3", r.Key("R-C12.3", nil, "control", "cid.NewCidV0"), 0,
			"control: the examination recognises go-cid's NewCidV0 as panicking on its argument",
			"control failed: go-cid's NewCidV0 was not recognised as panicking ("+ctl[ck]+") — the examination of dependency sources is not working")
	}
	r.Floor("R-C12.3", "error-returning calls examined in the decode closure", nErr, 4)
	_ = nAssert

	// R-C12.4
	nTP := 0
	for _, fn := range p.Fns {
		if fn.Pkg.PkgPath != p.pkgPath("io/jsonable") || fn.Obj == nil || fn.Obj.Name() != "ToPlain" {
			continue
		}
		// entry converters: first parameter is an IPFSLogEntry
		out := paramObjAny(fn, 0)
		if out == nil || !isNamed(out.Type(), p.pkgPath("iface"), "IPFSLogEntry") {
			continue
		}
		nTP++
		fl := &Flow{P: p, Fn: fn, Entry: Facts{}}
		fl.Node = func(n ast.Node, f Facts) {
			walkNoLit(n, func(nd ast.Node) bool {
				if call, ok := nd.(*ast.CallExpr); ok {
					if se, ok := ast.Unparen(call.Fun).(*ast.SelectorExpr); ok && se.Sel.Name == "SetClock" {
						if id, ok := ast.Unparen(se.X).(*ast.Ident); ok && p.ObjOf(fn, id) == out {
							f["clockSet"] = true
						}
					}
				}
				return true
			})
		}
		fl.Run()
		fl.Exits(func(_ *cfgBlk, ret *ast.ReturnStmt, at Facts) {
			if ret == nil {
				return
			}
			if isNil, hasErr := errResultIsNil(p, fn, ret); hasErr && isNil {
				r.Check(at["clockSet"], "R-C12.4", r.Key("R-C12.4", fn, "success-return", ""), ret.Pos(),
					"a successfully converted entry always has its clock set",
					"ToPlain can succeed without SetClock: GetClock() of the decoded entry is a nil *LamportClock inside a non-nil interface and GetTime()/Compare in the fetcher and sorters panic")
			}
		})
	}
	r.Floor("R-C12.4", "entry ToPlain converters", nTP, 1)
	// the reference entry's SetClock always leaves a non-nil clock (GetClock() then never wraps a nil pointer)
	sc := p.FuncI("entry", "Entry", "SetClock")
	clockField := p.Field("entry", "Entry", "Clock")
	scf := &Flow{P: p, Fn: sc, Entry: Facts{}}
	scf.Node = func(n ast.Node, f Facts) {
		walkNoLit(n, func(nd ast.Node) bool {
			if as, ok := nd.(*ast.AssignStmt); ok {
				for i, l := range as.Lhs {
					if v, _ := p.FieldSel(sc, l); v == clockField && i < len(as.Rhs) {
						if p.freshNonNil(sc, as.Rhs[i], 0) {
							f["clockNonNil"] = true
						} else {
							delete(f, "clockNonNil")
						}
					}
				}
			}
			return true
		})
	}
	scf.Run()
	scf.Exits(func(_ *cfgBlk, ret *ast.ReturnStmt, at Facts) {
		pos := sc.Body.Rbrace
		if ret != nil {
			pos = ret.Pos()
		}
		r.Check(at["clockNonNil"], "R-C12.4", r.Key("R-C12.4", sc, "exit", ""), pos,
			"SetClock leaves a freshly allocated clock in the entry on every path",
			"SetClock can return with the entry's clock nil (or not freshly set): a block whose clock decodes to an 'undefined' value yields an entry whose GetClock() is a nil pointer inside a non-nil interface, and GetTime()/Compare on it panic")
	})

	// R-C12.5: a failed decode hands back no entry
	r.Doc("R-C12.5", "in the decode closure a return with a non-nil error carries a nil value (callers filter failed blocks by the value)")
	r.Doc("R-C12.6", "a block that fails to load or decode costs nothing but itself: the worker still returns its slot, decrements the in-progress counter and wakes the dispatcher on that path")
	importRules(c, r, "C11", []string{"R-C11.1", "R-C11.6"}, "R-C12.6")
	r.Doc("R-C12.9", "no function taken from a table is called without a presence test (a version or type the table does not list yields a nil function)")
	noCallThroughUncheckedLookup(c, r, "R-C12.9", func(fn *Fn) bool {
		return inPkgs(c.P, fn, "entry", "io/cbor", "io/jsonable", "io/pb", "identityprovider", "keystore", "")
	})
	r.Doc("R-C12.10", "a copied entry has a clock whenever the original has one (the copy is what Verify hands to the codec under a link key)")
	entryCopyFieldwise(c, r, "R-C12.10")
	r.Doc("R-C12.11", "pointer fields of the in-memory entry that a block may leave out (the identity) are dereferenced only behind a nil test, directly or through their getter: every accessor and Verify must be safe on a decoded entry")
	{
		entT := p.Named("entry", "Entry")
		ne2 := NewNilEngine(p, c.CG)
		var optional []string
		getters := map[string]bool{}
		st := entT.Underlying().(*types.Struct)
		for i := 0; i < st.NumFields(); i++ {
			f := st.Field(i)
			if _, ok := f.Type().Underlying().(*types.Pointer); ok {
				ne2.NilableField[f] = "pointer field of the entry, set from the block only when the block carries it"
				optional = append(optional, "Entry."+f.Name())
			}
		}
		for _, fn := range p.Fns {
			if fn.Obj == nil || fn.Body == nil || len(fn.Body.List) != 1 || fn.Pkg.PkgPath != p.pkgPath("entry") {
				continue
			}
			if rs, ok := fn.Body.List[0].(*ast.ReturnStmt); ok && len(rs.Results) == 1 {
				if v, _ := p.FieldSel(fn, rs.Results[0]); v != nil && ne2.NilableField[v] != "" {
					getters[fn.Obj.Name()] = true
				}
			}
		}
		r.Tables["optional_entry_pointer_fields"] = optional
		r.Floor("R-C12.11", "optional pointer fields of the entry", len(optional), 1)
		r.Floor("R-C12.11", "getters of optional pointer fields", len(getters), 1)
		nuse := 0
		for _, fn := range p.Fns {
			if strings.HasSuffix(fn.Pkg.PkgPath, "/test") || fn.Body == nil {
				continue
			}
			for _, u := range ne2.FieldUses(fn) {
				nuse++
				fname := "?"
				if u.Field != nil {
					fname = u.Field.Name()
				}
				r.Check(u.OK, "R-C12.11", r.Key("R-C12.11", fn, "deref", fname), u.Pos,
					fmt.Sprintf("%s (%s) is dominated by a non-nil test", u.Path, u.What),
					fmt.Sprintf("%s is nil on an entry decoded from a block that leaves the field out (every legacy entry does), and it is dereferenced here (%s) with no dominating nil test: verifying or reading such an entry panics", u.Path, u.What))
			}
			// <x>.GetIdentity().<field>: the getter's result dereferenced
			walkNoLit(fn.Body, func(n ast.Node) bool {
				se, ok := n.(*ast.SelectorExpr)
				if !ok {
					return true
				}
				call, ok := ast.Unparen(se.X).(*ast.CallExpr)
				if !ok {
					return true
				}
				cf := p.Callee(fn, call)
				if cf == nil || !getters[cf.Name()] || !p.firstParty(cf.Pkg()) {
					return true
				}
				if sig, ok := cf.Type().(*types.Signature); !ok || sig.Recv() == nil || sig.Results().Len() != 1 {
					return true
				} else if _, isPtr := sig.Results().At(0).Type().Underlying().(*types.Pointer); !isPtr {
					return true
				}
				if _, isMethodVal := p.TypeOf(fn, se).(*types.Signature); isMethodVal {
					if pc, ok := p.parent[se].(*ast.CallExpr); !ok || pc.Fun != se {
						return true
					}
					// a method call on the result: pointer-receiver methods of Identity tolerate nothing either
				}
				nuse++
				want := types.ExprString(call)
				guarded := false
				for cur := ast.Node(se); cur != nil && !guarded; cur = p.parent[cur] {
					par := p.parent[cur]
					switch x := par.(type) {
					case *ast.IfStmt:
						if cur == x.Body {
							for _, a := range splitCond(x.Cond, true) {
								if e, isNil, ok := nilTest(a); ok && !isNil && types.ExprString(ast.Unparen(e)) == want {
									guarded = true
								}
							}
						}
					case *ast.BlockStmt:
						for _, s2 := range x.List {
							if s2 == cur {
								break
							}
							if is, ok := s2.(*ast.IfStmt); ok && is.Else == nil && blockAlwaysLeaves(is.Body) {
								for _, a := range splitCond(is.Cond, false) {
									if e, isNil, ok := nilTest(a); ok && !isNil && types.ExprString(ast.Unparen(e)) == want {
										guarded = true
									}
								}
							}
						}
					}
				}
				r.Check(guarded, "R-C12.11", r.Key("R-C12.11", fn, "deref-getter", cf.Name()+"."+se.Sel.Name), se.Pos(),
					"the getter's result is tested for nil before it is dereferenced",
					"`"+types.ExprString(se)+"`: "+cf.Name()+"() is nil on an entry decoded from a block that leaves the field out, and its result is dereferenced here with no nil test: nil-pointer panic")
				return true
			})
		}
		r.Tables["optional_entry_field_derefs"] = []string{fmt.Sprintf("%d", nuse)}
	}
	r.Doc("R-C12.12", "in the decode closure a success carries a value: no function returning (value, error) returns a literal nil value together with a nil error (a reader that answers 'nothing, no error' for an absent block hands its callers a nil they dereference)")
	{
		nret := 0
		var fl []*Fn
		for fn := range decodeScope(c) {
			fl = append(fl, fn)
		}
		sort.Slice(fl, func(i, j int) bool { return fl[i].Name < fl[j].Name })
		for _, fn := range fl {
			if fn.Body == nil || fn.Type == nil || fn.Type.Results == nil {
				continue
			}
			var rt []types.Type
			for _, f := range fn.Type.Results.List {
				k := len(f.Names)
				if k == 0 {
					k = 1
				}
				for i := 0; i < k; i++ {
					rt = append(rt, p.TypeOf(fn, f.Type))
				}
			}
			if len(rt) != 2 || !isErrorType(rt[1]) {
				continue
			}
			switch rt[0].Underlying().(type) {
			case *types.Pointer, *types.Interface:
			default:
				continue
			}
			walkNoLit(fn.Body, func(n ast.Node) bool {
				rs, ok := n.(*ast.ReturnStmt)
				if !ok || len(rs.Results) != 2 {
					return true
				}
				nret++
				r.Check(!(isNilIdent(rs.Results[0]) && isNilIdent(rs.Results[1])), "R-C12.12", r.Key("R-C12.12", fn, "nil-nil-return", ""), rs.Pos(),
					"the return does not answer 'no value, no error'",
					fn.Name+" returns a nil value with a nil error: its callers on the decode path test the error and then use the value — a nil dereference on the fetch goroutine for a block the store does not hold")
				return true
			})
		}
		r.Floor("R-C12.12", "returns of (value, error) functions in the decode closure", nret, 10)
	}
	r.Doc("R-C12.13", "no channel can be closed twice: a close sits neither in a loop the channel outlives nor in a closure that several validators or calls run, unless under a sync.Once (the second close panics on a goroutine nothing recovers — a history with two refused blocks takes the process down)")
	channelsClosedOnce(c, r, "R-C12.13")
	r.Doc("R-C12.15", "the head scan counts predecessor links only (adopted from C02: history the fetcher rescued through a skip pointer past an undecodable block belongs to the loaded log only if its newest entry becomes a head — a scan that also counts skip pointers drops it from the view although no block of it was bad)")
	importRules(c, r, "C02", []string{"R-C02.1"}, "R-C12.15")
	r.Doc("R-C12.14", "no possibly-nil pointer of a concrete type is stored in an interface: a nil *T inside a non-nil interface passes every `!= nil` guard and is dereferenced by the first method call (a clock helper that returns nil for a load that yielded no entry)")
	{
		var mayBeNil func(v ssa.Value, depth int, seen map[ssa.Value]bool) bool
		mayBeNil = func(v ssa.Value, depth int, seen map[ssa.Value]bool) bool {
			if v == nil || depth > 6 || seen[v] {
				return false
			}
			seen[v] = true
			switch x := v.(type) {
			case *ssa.Const:
				return x.IsNil()
			case *ssa.Phi:
				for _, e := range x.Edges {
					if mayBeNil(e, depth+1, seen) {
						return true
					}
				}
			case *ssa.ChangeType:
				return mayBeNil(x.X, depth+1, seen)
			case *ssa.UnOp:
				if x.Op == token.MUL {
					if a, ok := x.X.(*ssa.Alloc); ok {
						sts := cellStores(a)
						if len(sts) == 0 {
							return true // declared, never assigned: the zero value
						}
						for _, st := range sts {
							if mayBeNil(st.Val, depth+1, seen) {
								return true
							}
						}
					}
				}
			case *ssa.Call:
				if cal := x.Call.StaticCallee(); cal != nil && cal.Pkg != nil && p.firstParty(cal.Pkg.Pkg) && len(cal.Blocks) > 0 {
					for _, b := range cal.Blocks {
						if ret, ok := b.Instrs[len(b.Instrs)-1].(*ssa.Return); ok && len(ret.Results) >= 1 {
							// a result returned beside a non-nil error is not used by a caller that tests the error
							if len(ret.Results) == 2 && isErrorType(ret.Results[1].Type()) {
								if k, isC := ret.Results[1].(*ssa.Const); !isC || !k.IsNil() {
									continue
								}
							}
							if mayBeNil(ret.Results[0], depth+1, seen) {
								return true
							}
						}
					}
				}
			}
			return false
		}
		nconv := 0
		for _, fn := range p.Fns {
			if fn.Orig != nil || fn.Obj == nil || fn.Body == nil || !p.firstParty(fn.Pkg.Types) || strings.HasSuffix(fn.Pkg.PkgPath, "/test") {
				continue
			}
			sf := p.SSAFunc(fn)
			if sf == nil {
				continue
			}
			fn := fn
			allInstrs(sf, true, func(ins ssa.Instruction) {
				mi, ok := ins.(*ssa.MakeInterface)
				if !ok {
					return
				}
				if _, isPtr := mi.X.Type().Underlying().(*types.Pointer); !isPtr {
					return
				}
				if isErrorType(mi.Type()) {
					return
				}
				nconv++
				r.Check(!mayBeNil(mi.X, 0, map[ssa.Value]bool{}), "R-C12.14", r.Key("R-C12.14", fn, "pointer-to-interface", types.TypeString(mi.X.Type(), nil)), nearestPos(mi),
					"the pointer stored in the interface is never nil",
					fmt.Sprintf("a %s that can be nil is stored in a %s: the interface is then not nil although it holds no object — `!= nil` guards pass and the first method call dereferences nil (a load that yields no entry crashes the constructor)", types.TypeString(mi.X.Type(), nil), types.TypeString(mi.Type(), nil)))
			})
		}
		r.Floor("R-C12.14", "pointers of concrete type stored in interfaces", nconv, 10)
	}
	r.Doc("R-C12.8", "verifying a decoded entry keeps no state between calls (adopted from C07: a remembered failed key parse is a nil the next verification dereferences)")
	importRules(c, r, "C07", []string{"R-C07.6"}, "R-C12.8", 0) // an expected-zero rule: nothing to adopt on a clean tree
	r.Doc("R-C12.7", "on the decode path every error result is examined before the next step overwrites it: a failed step never hands its zero values on as if it had succeeded")
	{
		scope := decodeScope(c)
		errDiscipline(c, r, "R-C12.7", func(fn *Fn) bool {
			if _, ok := scope[fn.Root()]; ok {
				return true
			}
			return rootNamed(fn, "FromMultihashWithIO", "fromMultihash", "fromJSON", "fetchEntry") || inPkgs(c.P, fn, "io/cbor", "io/jsonable", "io/pb", "enc")
		}, "the decoder goes on with the zero values of the failed step — a nil pointer dereferenced further down, or an entry that silently lacks the field", deliberateDiscards)
	}
	nerr := 0
	for _, fn := range fns {
		if fn.Type.Results == nil || len(fn.Type.Results.List) == 0 {
			continue
		}
		// (T, error) with T pointer or interface
		var rtypes []types.Type
		for _, f := range fn.Type.Results.List {
			k := len(f.Names)
			if k == 0 {
				k = 1
			}
			for j := 0; j < k; j++ {
				rtypes = append(rtypes, fn.Pkg.TypesInfo.TypeOf(f.Type))
			}
		}
		if len(rtypes) != 2 || !isErrorType(rtypes[1]) {
			continue
		}
		if _, isPtr := rtypes[0].Underlying().(*types.Pointer); !isPtr && !types.IsInterface(rtypes[0]) {
			continue
		}
		walkNoLit(fn.Body, func(n ast.Node) bool {
			ret, ok := n.(*ast.ReturnStmt)
			if !ok || len(ret.Results) != 2 || isNilIdent(ret.Results[1]) {
				return true
			}
			nerr++
			r.Check(isNilIdent(ret.Results[0]), "R-C12.5", r.Key("R-C12.5", fn, "error-return", ""), ret.Pos(),
				"error return carries no value", "a decode function returns a (partially filled) value together with an error: callers that drop the error and filter on the value (the fetch worker) then use an entry without clock/identity and crash")
			return true
		})
	}
	r.Floor("R-C12.5", "error returns of value-returning decode functions", nerr, 8)
}
