package main

// passes.go — a minimal in-process driver for go/analysis passes over the packages the checker has already
// loaded (syntax + types). Requirements are computed recursively; facts are not supported (passes that import
// facts see none), which only costs precision in passes that use them.

import (
	"go/types"
	"reflect"
	"sort"

	"golang.org/x/tools/go/analysis"
	"golang.org/x/tools/go/packages"
)

func runAnalyzer(pkg *packages.Package, a *analysis.Analyzer) []analysis.Diagnostic {
	results := map[*analysis.Analyzer]interface{}{}
	var diags []analysis.Diagnostic
	var run func(an *analysis.Analyzer, collect bool) interface{}
	run = func(an *analysis.Analyzer, collect bool) interface{} {
		if r, ok := results[an]; ok {
			return r
		}
		req := map[*analysis.Analyzer]interface{}{}
		for _, dep := range an.Requires {
			req[dep] = run(dep, false)
		}
		pass := &analysis.Pass{
			Analyzer:   an,
			Fset:       pkg.Fset,
			Files:      pkg.Syntax,
			Pkg:        pkg.Types,
			TypesInfo:  pkg.TypesInfo,
			TypesSizes: pkg.TypesSizes,
			ResultOf:   req,
			Report: func(d analysis.Diagnostic) {
				if collect {
					diags = append(diags, d)
				}
			},
			ImportObjectFact:  func(types.Object, analysis.Fact) bool { return false },
			ImportPackageFact: func(*types.Package, analysis.Fact) bool { return false },
			ExportObjectFact:  func(types.Object, analysis.Fact) {},
			ExportPackageFact: func(analysis.Fact) {},
			AllObjectFacts:    func() []analysis.ObjectFact { return nil },
			AllPackageFacts:   func() []analysis.PackageFact { return nil },
		}
		res, err := an.Run(pass)
		if err != nil {
			infra("analysis pass %s failed on %s: %v", an.Name, pkg.PkgPath, err)
		}
		if an.ResultType != nil && res != nil && !reflect.TypeOf(res).AssignableTo(an.ResultType) {
			infra("analysis pass %s returned %T", an.Name, res)
		}
		results[an] = res
		return res
	}
	run(a, true)
	sort.Slice(diags, func(i, j int) bool { return diags[i].Pos < diags[j].Pos })
	return diags
}
