package main

// c08.go — canonical encoding, exact decoding: atlas ⇄ struct agreement, writer ⇄ reader agreement,
// nothing order- or process-dependent reaches the encoder, the hash is not part of the encoded view.

import (
	"fmt"
	"go/ast"
	"go/token"
	"go/types"
	"sort"
	"strings"

	"golang.org/x/tools/go/ssa"
)

func init() {
	register(&PropSpec{ID: "C08", Level: "other", Run: runC08,
		Explanation: "Decides agreement tables extracted from the current source: (R-C08.1) for every struct registered in the CBOR atlas each AddField names a field of that struct, serial names are unique, and every field of the structs the writer actually emits is registered exactly once; (R-C08.2) for each wire struct, every field the writer (ToJsonable*) populates is consumed by the matching reader (ToPlain) into a setter / result field, with matching codec pairs (hex.EncodeToString⇄hex.DecodeString, string(·)⇄[]byte(·), ToJsonableX⇄X.ToPlain, identity); (R-C08.3) on the encode closure (IO.Write, ToJsonableEntry, Normalize, ToJSONLog, toMultihash, castCidToBytes) there is no order-sensitive range over a Go map, no time/rand call and no package-level mutable cache, both marshaller constructions use RFC7049 key sorting, and ToJSONLog sorts the very slice it then iterates; the decode closure keeps no state between blocks (no package-level or pooled scratch objects); (R-C08.4) Normalize copies the hash only under a flag that no call site sets, ToMultihashWithIO always normalises and writes, and both decoders set the hash from the requested identifier after conversion. Not covered: byte-exactness of third-party encoders, re-encode CID equality, pinned interop vectors.",
	})
}

func runC08(c *Ctx, r *Report) {
	p := c.P
	r.Doc("R-C08.1", "atlas ⇄ struct agreement")
	r.Doc("R-C08.2", "writer ⇄ reader agreement per wire struct and field, with matching codec pairs")
	r.Doc("R-C08.3", "nothing order-, time- or process-history-dependent reaches the encoder or survives between decodes")
	r.Doc("R-C08.4", "the hash is not part of the encoded view; it is set from the requested identifier")
	r.Doc("R-C08.5", "every reader and writer on the load path uses the configured codec (an entry written by one codec and read by the default one does not read back equal)")
	optionForwarding(c, r, "R-C08.5", append(append(loaderFetchSpecs(), constructorLoaderSpecs()...), constructorLogSpecs()...), "IO")
	r.Doc("R-C08.7", "the loops of the writers and readers (link lists, head lists) process every element")
	loopsComplete(c, r, "R-C08.7", func(fn *Fn) bool {
		return inPkgs(c.P, fn, "io/jsonable", "io/cbor", "io/pb") || rootNamed(fn, "ToJSONLog", "Normalize", "entrySliceToCids")
	}, "links or heads after the point where the loop stops are not written (or not read back): the entry read back differs from the one written")

	// ---- R-C08.1
	ioFn := p.FuncI("io/cbor", "", "IO")
	type reg struct {
		t      *types.Named
		fields map[string]string // field -> serial
		pos    token.Pos
		dups   []string
	}
	var regs []reg
	ast.Inspect(ioFn.Body, func(n ast.Node) bool {
		call, ok := n.(*ast.CallExpr)
		if !ok {
			return true
		}
		se, ok := ast.Unparen(call.Fun).(*ast.SelectorExpr)
		if !ok || se.Sel.Name != "Complete" {
			return true
		}
		// walk the chain down
		rg := reg{fields: map[string]string{}, pos: call.Pos()}
		cur := ast.Expr(call)
		for {
			cc, ok := ast.Unparen(cur).(*ast.CallExpr)
			if !ok {
				break
			}
			cs, ok := ast.Unparen(cc.Fun).(*ast.SelectorExpr)
			if !ok {
				break
			}
			switch cs.Sel.Name {
			case "AddField":
				if len(cc.Args) == 2 {
					name := strings.Trim(types.ExprString(cc.Args[0]), "\"")
					serial := ""
					if cl, ok := ast.Unparen(cc.Args[1]).(*ast.CompositeLit); ok {
						for _, el := range cl.Elts {
							if kv, ok := el.(*ast.KeyValueExpr); ok && kv.Key.(*ast.Ident).Name == "SerialName" {
								serial = strings.Trim(types.ExprString(kv.Value), "\"")
							}
						}
					}
					if _, dup := rg.fields[name]; dup {
						rg.dups = append(rg.dups, name)
					}
					rg.fields[name] = serial
				}
			case "BuildEntry":
				if len(cc.Args) == 1 {
					rg.t = namedOf(p.TypeOf(ioFn, cc.Args[0]))
				}
			}
			cur = cs.X
		}
		if rg.t != nil && len(rg.fields) > 0 {
			regs = append(regs, rg)
		}
		return false
	})
	r.Floor("R-C08.1", "struct types registered in the atlas", len(regs), 5)
	emitted := map[string]bool{"Entry": true, "EntryV1": true, "LamportClock": true, "Identity": true, "IdentitySignature": true, "JSONLog": true}
	for _, rg := range regs {
		st, ok := rg.t.Underlying().(*types.Struct)
		if !ok {
			continue
		}
		key := r.Key("R-C08.1", ioFn, "atlas", rg.t.Obj().Name())
		var problems []string
		have := map[string]bool{}
		for i := 0; i < st.NumFields(); i++ {
			have[st.Field(i).Name()] = true
		}
		serials := map[string]string{}
		for f, s := range rg.fields {
			if !have[f] {
				problems = append(problems, "AddField("+f+") names no field of "+rg.t.Obj().Name())
			}
			if s == "" {
				problems = append(problems, "field "+f+" has no serial name")
			}
			if other, dup := serials[s]; dup {
				problems = append(problems, "serial name "+s+" used for "+other+" and "+f)
			}
			serials[s] = f
		}
		for _, d := range rg.dups {
			problems = append(problems, "field "+d+" registered twice")
		}
		if emitted[rg.t.Obj().Name()] {
			for i := 0; i < st.NumFields(); i++ {
				if f := st.Field(i); f.Exported() {
					if _, ok := rg.fields[f.Name()]; !ok {
						problems = append(problems, "field "+f.Name()+" of "+rg.t.Obj().Name()+" is not registered: it silently vanishes on write")
					}
				}
			}
		}
		sort.Strings(problems)
		r.Check(len(problems) == 0, "R-C08.1", key, rg.pos, fmt.Sprintf("%d fields registered, all exist, serial names unique", len(rg.fields)), strings.Join(problems, "; "))
	}

	// ---- R-C08.2 writer ⇄ reader
	type pair struct {
		typ    string
		writer *Fn
		reader *Fn
		skip   map[string]string
	}
	jp := "io/jsonable"
	pairs := []pair{
		{"Entry", p.FuncI(jp, "", "ToJsonableEntry"), p.FuncI(jp, "Entry", "ToPlain"), map[string]string{"Hash": "set from the requested identifier by the decoder", "EncryptedLinks": "consumed by DecryptLinks before ToPlain", "EncryptedLinksNonce": "consumed by DecryptLinks before ToPlain"}},
		{"EntryV0", p.FuncI(jp, "", "ToJsonableEntry"), p.FuncI(jp, "EntryV0", "ToPlain"), map[string]string{}},
		{"LamportClock", p.FuncI(jp, "", "ToJsonableLamportClock"), p.FuncI(jp, "LamportClock", "ToPlain"), map[string]string{}},
		{"Identity", p.FuncI(jp, "", "ToJsonableIdentity"), p.FuncI(jp, "Identity", "ToPlain"), map[string]string{}},
		{"IdentitySignature", p.FuncI(jp, "", "ToJsonableIdentitySignature"), p.FuncI(jp, "IdentitySignature", "ToPlain"), map[string]string{}},
	}
	codecOf := func(fn *Fn, e ast.Expr) string {
		e = ast.Unparen(e)
		switch x := e.(type) {
		case *ast.CallExpr:
			if tv, ok := fn.Pkg.TypesInfo.Types[x.Fun]; ok && tv.IsType() {
				return "conv:" + types.TypeString(tv.Type, func(*types.Package) string { return "" })
			}
			if cf := p.Callee(fn, x); cf != nil {
				if p.firstParty(cf.Pkg()) {
					if strings.HasPrefix(cf.Name(), "Get") && len(x.Args) == 0 {
						return "id" // a plain getter
					}
					return "fp:" + cf.Name()
				}
				return cf.Name()
			}
		case *ast.Ident:
			if x.Name == "nil" {
				return "nil"
			}
		}
		return "id"
	}
	matches := func(w, rd string) bool {
		switch {
		case w == "EncodeToString" && rd == "DecodeString":
			return true
		case w == "conv:string" && rd == "conv:[]byte":
			return true
		case strings.HasPrefix(w, "fp:ToJsonable") && rd == "fp:ToPlain":
			return true
		case w == "id" && (rd == "id" || rd == "Parse"):
			return true
		case w == "id" && rd == "fp:ToPlain": // identity passed through a nil-guarded local
			return true
		}
		return false
	}
	npairs := 0
	for _, pr := range pairs {
		wt := p.Named(jp, pr.typ)
		// writer literal(s) of this type
		written := map[string]string{}
		walkNoLit(pr.writer.Body, func(n ast.Node) bool {
			cl, ok := n.(*ast.CompositeLit)
			if !ok || namedOf(p.TypeOf(pr.writer, cl)) != wt {
				return true
			}
			for _, el := range cl.Elts {
				if kv, ok := el.(*ast.KeyValueExpr); ok {
					written[kv.Key.(*ast.Ident).Name] = codecOf(pr.writer, kv.Value)
				}
			}
			return true
		})
		if len(written) == 0 {
			r.Undecided("R-C08.2", r.Key("R-C08.2", pr.writer, "writer", pr.typ), pr.writer.Body.Pos(), "no literal of "+pr.typ+" in the writer")
			continue
		}
		// reader: uses of recv.F
		read := map[string]string{}
		var scanReader func(rfn *Fn, depth int)
		scanReader = func(rfn *Fn, depth int) {
			if rfn == nil || rfn.Decl == nil || rfn.Decl.Recv == nil || len(rfn.Decl.Recv.List) != 1 || len(rfn.Decl.Recv.List[0].Names) != 1 {
				return
			}
			recv := rfn.Pkg.TypesInfo.Defs[rfn.Decl.Recv.List[0].Names[0]]
			walkNoLit(rfn.Body, func(n ast.Node) bool {
				se, ok := n.(*ast.SelectorExpr)
				if !ok {
					return true
				}
				v, b := p.FieldSel(rfn, se)
				if v == nil {
					return true
				}
				if id, ok := ast.Unparen(b).(*ast.Ident); !ok || (p.ObjOf(rfn, id) != recv && p.CanonObj(rfn, id) != recv) {
					return true
				}
				// the enclosing operation
				codec := "id"
				switch par := p.parent[se].(type) {
				case *ast.CallExpr:
					isArg := false
					for _, a := range par.Args {
						if a == ast.Expr(se) {
							isArg = true
						}
					}
					if isArg {
						codec = codecOf(rfn, par)
						if strings.HasPrefix(codec, "fp:Set") || (strings.HasPrefix(codec, "fp:") && !strings.HasPrefix(codec, "fp:ToPlain")) || codec == "id" {
							codec = "id"
						}
					}
				case *ast.SelectorExpr: // recv.F.Method(...)
					if call, ok := p.parent[par].(*ast.CallExpr); ok && ast.Unparen(call.Fun) == ast.Expr(par) {
						codec = codecOf(rfn, call)
					}
				case *ast.StarExpr: // *recv.F
					if call, ok := p.parent[par].(*ast.CallExpr); ok {
						codec = codecOf(rfn, call)
					}
				case *ast.BinaryExpr: // nil tests
					return true
				case *ast.RangeStmt:
					codec = "id"
				}
				if old, seen := read[v.Name()]; !seen || old == "id" {
					read[v.Name()] = codec
				}
				return true
			})
			// the decoding may be split over methods of the same wire type called on the same receiver
			if depth < 2 {
				walkNoLit(rfn.Body, func(n ast.Node) bool {
					call, ok := n.(*ast.CallExpr)
					if !ok {
						return true
					}
					se, ok := ast.Unparen(call.Fun).(*ast.SelectorExpr)
					if !ok {
						return true
					}
					if id, ok := ast.Unparen(se.X).(*ast.Ident); !ok || p.ObjOf(rfn, id) != recv {
						return true
					}
					if cf := p.Callee(rfn, call); cf != nil {
						if h := p.ByObj[cf]; h != nil && h != rfn && h.Pkg == rfn.Pkg {
							scanReader(h, depth+1)
						}
					}
					return true
				})
			}
		}
		scanReader(pr.reader, 0)
		var fields []string
		for f := range written {
			fields = append(fields, f)
		}
		sort.Strings(fields)
		for _, f := range fields {
			npairs++
			key := r.Key("R-C08.2", pr.reader, "field", pr.typ+"."+f)
			if why, ok := pr.skip[f]; ok {
				r.Hold("R-C08.2", key, pr.reader.Body.Pos(), false, "declared exception: "+why)
				continue
			}
			w := written[f]
			rd, isRead := read[f]
			if w == "nil" {
				r.Hold("R-C08.2", key, pr.reader.Body.Pos(), false, "written as nil")
				continue
			}
			if !isRead {
				r.Violate("R-C08.2", key, pr.reader.Body.Pos(), fmt.Sprintf("%s.%s is written by %s but never read by %s: the field is lost on read-back", pr.typ, f, pr.writer.Name, pr.reader.Name))
				continue
			}
			r.Check(matches(w, rd), "R-C08.2", key, pr.reader.Body.Pos(),
				fmt.Sprintf("%s.%s: writer %s ⇄ reader %s", pr.typ, f, w, rd),
				fmt.Sprintf("%s.%s is written with %s but read with %s: the decoded value differs from what was written", pr.typ, f, w, rd))
		}
	}
	r.Floor("R-C08.2", "writer/reader field pairs", npairs, 12)
	// every decoded field of the entry reaches a setter of the output entry
	rdr := p.FuncI(jp, "Entry", "ToPlain")
	setters := map[string]bool{}
	walkNoLit(rdr.Body, func(n ast.Node) bool {
		if call, ok := n.(*ast.CallExpr); ok {
			if se, ok := ast.Unparen(call.Fun).(*ast.SelectorExpr); ok && strings.HasPrefix(se.Sel.Name, "Set") {
				setters[strings.TrimPrefix(se.Sel.Name, "Set")] = true
			}
		}
		return true
	})
	// the link lists reach the setters as they were decoded: an empty list stays an empty list and an absent one
	// stays absent (the codec writes the two differently, so a reshaped list re-encodes to another identifier)
	r.Doc("R-C08.13", "the decoded link lists are handed to the entry as they are — the field itself or slices.Clone of it, never append(nil-or-empty, list...), which turns an empty list into an absent one or the reverse")
	nlist := 0
	walkNoLit(rdr.Body, func(n ast.Node) bool {
		call, ok := n.(*ast.CallExpr)
		if !ok || len(call.Args) != 1 {
			return true
		}
		se, ok := ast.Unparen(call.Fun).(*ast.SelectorExpr)
		if !ok || (se.Sel.Name != "SetNext" && se.Sel.Name != "SetRefs") {
			return true
		}
		nlist++
		arg := ast.Unparen(call.Args[0])
		if id, isID := arg.(*ast.Ident); isID {
			if d := p.SoleDef(rdr, p.ObjOf(rdr, id)); d != nil {
				arg = ast.Unparen(d)
			}
		}
		reshaped := ""
		if c2, isCall := arg.(*ast.CallExpr); isCall && p.Builtin(rdr, c2) == "append" && len(c2.Args) == 2 && c2.Ellipsis.IsValid() && emptySliceExpr(p, rdr, c2.Args[0]) {
			if isNilIdent(c2.Args[0]) || func() bool {
				cv, isConv := ast.Unparen(c2.Args[0]).(*ast.CallExpr)
				return isConv && len(cv.Args) == 1 && isNilIdent(cv.Args[0])
			}() {
				reshaped = "an empty list decodes to an absent (nil) one"
			} else {
				reshaped = "an absent list decodes to an empty one"
			}
		}
		r.Check(reshaped == "", "R-C08.13", r.Key("R-C08.13", rdr, "list-as-decoded", strings.TrimPrefix(se.Sel.Name, "Set")), call.Pos(),
			"the decoded list is handed on as it is",
			fmt.Sprintf("`%s`: %s — the codec writes `[]` and `null` differently, so the decoded entry re-encodes to another identifier than the block it was read from", types.ExprString(call), reshaped))
		return true
	})
	r.Floor("R-C08.13", "link lists handed to the decoded entry", nlist, 2)
	// every part of the decoded entry is computed from one field of the block: a part patched up from another one
	// (the key taken from the identity, the log id from the clock) reads back differently from what was written
	r.Doc("R-C08.14", "each setter call of a ToPlain reader gets a value computed from one field of the wire struct only (a decoded key replaced by the identity's key when they look alike no longer round-trips: the entry re-encodes to another identifier)")
	{
		nset := 0
		for _, pr := range pairs {
			if pr.reader == nil || pr.reader.Body == nil {
				continue
			}
			srd := p.SSAFunc(pr.reader)
			if srd == nil || len(srd.Params) == 0 {
				continue
			}
			wireT := namedOf(srd.Params[0].Type())
			allInstrs(srd, false, func(ins ssa.Instruction) {
				call, ok := ins.(*ssa.Call)
				if !ok || !call.Call.IsInvoke() || !strings.HasPrefix(call.Call.Method.Name(), "Set") || len(call.Call.Args) != 1 {
					return
				}
				nset++
				fields := map[string]bool{}
				for x := range backSlice(call.Call.Args[0], nil) {
					if x.Parent() != srd {
						continue
					}
					if f, fa := fieldOf(x); f != nil && fa != nil && namedOf(fa.X.Type()) == wireT {
						fields[f.Name()] = true
					}
				}
				var fl []string
				for f := range fields {
					fl = append(fl, f)
				}
				sort.Strings(fl)
				r.Check(len(fl) <= 1, "R-C08.14", r.Key("R-C08.14", pr.reader, "one-source", strings.TrimPrefix(call.Call.Method.Name(), "Set")), call.Pos(),
					"the value handed to "+call.Call.Method.Name()+" is computed from one field of the block",
					fmt.Sprintf("the value %s hands to %s is computed from several fields of the block (%s): one part of the decoded entry is patched up from another, so what is read back is not what was written and the entry re-encodes to another identifier", pr.reader.Name, call.Call.Method.Name(), strings.Join(fl, ", ")))
			})
		}
		r.Floor("R-C08.14", "setter calls of the ToPlain readers", nset, 8)
	}
	for _, want := range []string{"V", "LogID", "Key", "Sig", "Next", "Refs", "Clock", "Payload", "Identity"} {
		r.Check(setters[want], "R-C08.2", r.Key("R-C08.2", rdr, "setter", want), rdr.Body.Pos(), "the decoded "+want+" is stored into the entry", "Entry.ToPlain never calls Set"+want+": the decoded entry loses that field")
	}

	// ---- R-C08.3
	var roots []*Fn
	for _, t := range []struct{ pkg, recv, name string }{{"io/cbor", "IOCbor", "Write"}, {"io/pb", "pb", "Write"}, {jp, "", "ToJsonableEntry"}, {"entry", "", "Normalize"}, {"", "IPFSLog", "ToJSONLog"}, {"", "", "toMultihash"}, {"io/cbor", "", "castCidToBytes"}, {"entry", "", "ToMultihashWithIO"}} {
		roots = append(roots, p.FuncI(t.pkg, t.recv, t.name))
	}
	enc := c.CG.Reach(roots, false)
	dec := decodeScope(c)
	nfun := 0
	for _, set := range []map[*Fn][]string{enc, dec} {
		for fn := range set {
			nfun++
			detScan(c, r, "R-C08.3", fn)
		}
	}
	r.Floor("R-C08.3", "functions in the encode and decode closures", nfun, 15)
	// marshaller constructions use RFC7049 key sorting
	nm := 0
	for _, fn := range p.Fns {
		if fn.Pkg.PkgPath != p.pkgPath("io/cbor") {
			continue
		}
		walkNoLit(fn.Body, func(n ast.Node) bool {
			call, ok := n.(*ast.CallExpr)
			if !ok {
				return true
			}
			cf := p.Callee(fn, call)
			if cf == nil || (cf.Name() != "NewPooledMarshaller" && cf.Name() != "NewPooledUnmarshaller") {
				return true
			}
			nm++
			hasSort := false
			var scan func(e ast.Expr, depth int)
			scan = func(e ast.Expr, depth int) {
				ast.Inspect(e, func(m ast.Node) bool {
					if id, ok := m.(*ast.Ident); ok {
						if id.Name == "KeySortMode_RFC7049" {
							hasSort = true
						} else if v, isVar := p.ObjOf(fn, id).(*types.Var); isVar && !v.IsField() && depth < 3 {
							// the atlas (or its options) held in a local first
							if def := p.SoleDef(fn, v); def != nil {
								scan(def, depth+1)
							}
						}
					}
					return true
				})
			}
			scan(call.Args[0], 0)
			r.Check(hasSort, "R-C08.3", r.Key("R-C08.3", fn, cf.Name(), ""), call.Pos(), "marshaller built with RFC7049 (canonical) key sorting", cf.Name()+" is built without RFC7049 key sorting: map keys are emitted in a non-canonical order")
			return true
		})
	}
	r.Floor("R-C08.3", "marshaller constructions", nm, 2)
	// ToJSONLog sorts the slice it iterates
	tj := p.FuncI("", "IPFSLog", "ToJSONLog")
	sortFn := p.FuncObj("entry/sorting", "", "Sort")
	var sorted types.Object
	var sortPos token.Pos
	walkNoLit(tj.Body, func(n ast.Node) bool {
		if call, ok := n.(*ast.CallExpr); ok && p.Callee(tj, call) == sortFn && len(call.Args) == 3 {
			if id, ok := ast.Unparen(call.Args[1]).(*ast.Ident); ok {
				sorted, sortPos = p.ObjOf(tj, id), call.Pos()
			}
		}
		return true
	})
	okSort := false
	walkNoLit(tj.Body, func(n ast.Node) bool {
		if rs, ok := n.(*ast.RangeStmt); ok && rs.Pos() > sortPos {
			if id, ok := ast.Unparen(rs.X).(*ast.Ident); ok && sorted != nil && p.ObjOf(tj, id) == sorted {
				okSort = true
			}
		}
		// handed whole to a converting helper after the sort
		if call, ok := n.(*ast.CallExpr); ok && call.Pos() > sortPos && p.Callee(tj, call) != sortFn {
			for _, a := range call.Args {
				if id, ok := ast.Unparen(a).(*ast.Ident); ok && sorted != nil && p.ObjOf(tj, id) == sorted {
					if sl, ok := p.TypeOf(tj, call).Underlying().(*types.Slice); ok && strings.HasSuffix(sl.Elem().String(), "cid.Cid") {
						okSort = true
					}
				}
			}
		}
		// the counted form: sorted[i] read inside a loop after the sort
		if ix, ok := n.(*ast.IndexExpr); ok && ix.Pos() > sortPos && len(enclosingLoops(p, tj, ix)) > 0 {
			if id, ok := ast.Unparen(ix.X).(*ast.Ident); ok && sorted != nil && p.ObjOf(tj, id) == sorted {
				okSort = true
			}
		}
		return true
	})
	r.Check(okSort, "R-C08.3", r.Key("R-C08.3", tj, "heads-sorted", ""), tj.Body.Pos(), "the manifest's head list is built from the sorted slice", "ToJSONLog does not build the head list from a slice it sorted first: the manifest identifier depends on the order in which merges arrived")

	// ---- R-C08.6: the encoded view is the entry's own field values, verbatim
	r.Doc("R-C08.6", "the view handed to the codec carries every field exactly as the entry's getter returns it (no de-duplication, sorting or nil/empty reshaping between decode and re-encode)")
	{
		normV := p.FuncI("entry", "", "Normalize")
		snf := p.SSAFunc(normV)
		entT := p.Named("entry", "Entry")
		getterOf := map[string]string{"LogID": "GetLogID", "Payload": "GetPayload", "Next": "GetNext", "Refs": "GetRefs", "V": "GetV", "Key": "GetKey", "Identity": "GetIdentity", "Sig": "GetSig", "AdditionalData": "GetAdditionalData"}
		var strip func(v ssa.Value, depth int) []ssa.Value
		strip = func(v ssa.Value, depth int) []ssa.Value {
			if depth > 6 {
				return []ssa.Value{v}
			}
			switch x := v.(type) {
			case *ssa.ChangeType:
				return strip(x.X, depth+1)
			case *ssa.MakeInterface:
				return strip(x.X, depth+1)
			case *ssa.Phi:
				var out []ssa.Value
				for _, e := range x.Edges {
					out = append(out, strip(e, depth+1)...)
				}
				return out
			}
			return []ssa.Value{v}
		}
		nv := 0
		allInstrs(snf, false, func(ins ssa.Instruction) {
			st, ok := ins.(*ssa.Store)
			if !ok {
				return
			}
			f, fa := fieldOf(st.Addr)
			if f == nil || namedOf(fa.X.Type()) != entT {
				return
			}
			g, ok := getterOf[f.Name()]
			if !ok {
				return
			}
			nv++
			bad := ""
			for _, src := range strip(st.Val, 0) {
				call, isCall := src.(*ssa.Call)
				if isCall && call.Call.IsInvoke() && call.Call.Method.Name() == g {
					if _, isParam := call.Call.Value.(*ssa.Parameter); isParam {
						continue
					}
				}
				if isCall {
					if cal := calleeOf(call); cal != nil {
						bad = "passed through " + cal.Name() + "()"
					} else if call.Call.IsInvoke() {
						bad = "taken from " + call.Call.Method.Name() + "()"
					} else {
						bad = "computed by a call"
					}
				} else {
					bad = "computed by " + fmt.Sprintf("%T", src)
				}
			}
			r.Check(bad == "", "R-C08.6", r.Key("R-C08.6", normV, "verbatim", f.Name()), st.Pos(),
				"Entry."+f.Name()+" of the encoded view is the result of "+g+"() itself",
				"Normalize does not copy "+f.Name()+" verbatim from "+g+"() (it is "+bad+"): a decoded entry whose list repeats a link, or is null rather than empty, re-encodes to a different identifier than the one it was read from")
		})
		r.Floor("R-C08.6", "fields of the encoded view", nv, 6)
	}

	// ---- R-C08.8: accessors of the entry and clock types agree with their fields
	r.Doc("R-C08.10", "the clock survives normalisation and copying unchanged: NewLamportClock stores its arguments as they are and CopyLamportClock takes both parts of every clock that exists")
	clockValueObject(c, r, "R-C08.10")
	r.Doc("R-C08.11", "no slice on the paths that build the signed and encoded form of an entry comes from a third-party function that yields it in map iteration order (the dependency's source is examined): the same logical entry always encodes to the same identifier")
	{
		var roots []*Fn
		for _, t := range []struct{ pkg, recv, name string }{{"entry", "", "CreateEntryWithIO"}, {"entry", "Entry", "Copy"}, {"entry", "", "Normalize"}, {"io/jsonable", "", "ToJsonableEntry"}, {"io/cbor", "IOCbor", "PreSign"}, {"io/cbor", "IOCbor", "Write"}, {"", "IPFSLog", "ToJSONLog"}, {"", "IPFSLog", "Append"}} {
			roots = append(roots, p.FuncI(t.pkg, t.recv, t.name))
		}
		noOrderFromDependencyMaps(c, r, "R-C08.11", roots)
	}
	r.Doc("R-C08.12", "entries are only written to while they are fresh (adopted from C05: a verification that seals links into the entry object it was handed leaves sealed-link fields in another log's entries, which then re-encode to other identifiers)")
	importRules(c, r, "C05", []string{"R-C05.1"}, "R-C08.12")
	r.Doc("R-C08.9", "what was written with a link key reads back with it: the sealed-box object holds its own copy of the key (adopted from C18)")
	importRules(c, r, "C18", []string{"R-C18.9"}, "R-C08.9")
	r.Doc("R-C08.15", "what PreSign seals is the entry's own link lists, element for element (adopted from C18: a sorted or filtered copy sealed into the links blob reads back as another predecessor list than the one that was written)")
	importRules(c, r, "C18", []string{"R-C18.2"}, "R-C08.15")
	r.Doc("R-C08.8", "every setter of the entry and clock types stores its argument in the field its getter returns (the readers fill entries through setters, the writers read them through getters)")
	{
		nacc := 0
		for _, tn := range []string{"Entry", "LamportClock"} {
			nt := p.Named("entry", tn)
			st, ok := nt.Underlying().(*types.Struct)
			if !ok {
				continue
			}
			fields := map[string]*types.Var{}
			for i := 0; i < st.NumFields(); i++ {
				fields[strings.ToLower(st.Field(i).Name())] = st.Field(i)
			}
			ms := types.NewMethodSet(types.NewPointer(nt))
			for i := 0; i < ms.Len(); i++ {
				m, ok := ms.At(i).Obj().(*types.Func)
				if !ok {
					continue
				}
				fn := p.ByObj[m]
				if fn == nil {
					continue
				}
				name := m.Name()
				sig := m.Type().(*types.Signature)
				switch {
				case strings.HasPrefix(name, "Set") && sig.Params().Len() == 1 && sig.Results().Len() == 0:
					f := fields[strings.ToLower(strings.TrimPrefix(name, "Set"))]
					if f == nil {
						continue
					}
					nacc++
					sf := p.SSAFunc(fn)
					okStore := false
					reshaped := ""
					allInstrs(sf, false, func(ins ssa.Instruction) {
						if st, ok := ins.(*ssa.Store); ok {
							if fv, _ := fieldOf(st.Addr); fv == f && len(sf.Params) == 2 && backSlice(st.Val, nil)[sf.Params[1]] {
								okStore = true
								// a setter replaces: what it stores must not depend on what the field held before (a decoder
								// fills a fresh object through it, and a "never backwards"/merging setter keeps the zero value)
								for v := range backSlice(st.Val, nil) {
									if u, ok := v.(*ssa.UnOp); ok && u.Op == token.MUL {
										if fv2, _ := fieldOf(u.X); fv2 == f {
											reshaped = p.Pos(st.Pos()) + " (the stored value is computed from the field's previous value)"
										}
									}
								}
								// a list setter keeps every element: a helper between the argument and the field that filters or
								// de-duplicates makes the entry differ from the block it was decoded from
								for v := range backSlice(st.Val, nil) {
									if call, ok := v.(*ssa.Call); ok {
										if cal := call.Call.StaticCallee(); cal != nil && cal.Object() != nil {
											if cf, ok := cal.Object().(*types.Func); ok {
												if drops, why := mayDropElements(p, p.ByObj[cf]); drops {
													reshaped = p.Pos(st.Pos()) + " (through " + cf.Name() + ": " + why + ")"
												}
											}
										}
									}
								}
								// a list setter must keep the list's shape: append(nil, list...) turns an empty list into nil,
								// which the codec writes as null instead of []
								if call, ok := st.Val.(*ssa.Call); ok {
									if b, ok := call.Call.Value.(*ssa.Builtin); ok && b.Name() == "append" && len(call.Call.Args) > 0 {
										if cst, ok := call.Call.Args[0].(*ssa.Const); ok && cst.IsNil() {
											reshaped = p.Pos(st.Pos())
										}
									}
								}
							}
						}
					})
					if reshaped != "" {
						r.Violate("R-C08.8", r.Key("R-C08.8", fn, "setter-shape", f.Name()), fn.Body.Pos(), name+" does not store its argument as it is (at "+reshaped+"): an empty list handed in becomes nil, or the value is merged with what the field held — a decoded entry then differs from the block it was read from and re-encodes to another identifier")
					}
					r.Check(okStore, "R-C08.8", r.Key("R-C08.8", fn, "setter", f.Name()), fn.Body.Pos(), name+" stores its argument in "+f.Name(),
						name+" does not store its argument in the field "+f.Name()+": entries filled by the decoders lose that field, so an entry read back differs from the one written")
				case strings.HasPrefix(name, "Get") && sig.Params().Len() == 0 && sig.Results().Len() == 1:
					f := fields[strings.ToLower(strings.TrimPrefix(name, "Get"))]
					if f == nil {
						continue
					}
					nacc++
					sf := p.SSAFunc(fn)
					okRet := false
					allInstrs(sf, false, func(ins ssa.Instruction) {
						if ret, ok := ins.(*ssa.Return); ok && len(ret.Results) == 1 {
							for x := range backSlice(ret.Results[0], nil) {
								if u, ok := x.(*ssa.UnOp); ok && u.Op == token.MUL {
									if fv, _ := fieldOf(u.X); fv == f {
										okRet = true
									}
								}
							}
						}
					})
					r.Check(okRet, "R-C08.8", r.Key("R-C08.8", fn, "getter", f.Name()), fn.Body.Pos(), name+" returns the field "+f.Name(),
						name+" does not return the field "+f.Name()+": the writers encode another value than the one the entry holds")
				}
			}
		}
		r.Floor("R-C08.8", "accessors of Entry and LamportClock", nacc, 12)
	}

	// ---- R-C08.4
	norm := p.FuncI("entry", "", "Normalize")
	incF := p.Field("entry", "normalizeEntryOpts", "includeHash")
	// hash copied only under includeHash
	nf := &Flow{P: p, Fn: norm, Entry: Facts{}}
	nf.Edge = func(cond ast.Expr, taken bool, f Facts) {
		for _, a := range splitCond(cond, taken) {
			if v, _ := p.FieldSel(norm, a.E); v == incF && a.Truth {
				f["include"] = true
			}
		}
	}
	nf.Run()
	nh := 0
	nf.Visit(func(_ *cfgBlk, n ast.Node, before Facts) {
		walkNoLit(n, func(nd ast.Node) bool {
			switch x := nd.(type) {
			case *ast.AssignStmt:
				for _, l := range x.Lhs {
					if v, _ := p.FieldSel(norm, l); v != nil && v.Name() == "Hash" {
						nh++
						r.Check(before["include"], "R-C08.4", r.Key("R-C08.4", norm, "hash-copy", ""), x.Pos(), "the hash is copied into the written view only under includeHash", "Normalize copies the entry's hash into the view that is encoded: the identifier of an entry depends on a previously assigned hash")
					}
				}
			case *ast.KeyValueExpr:
				if id, ok := x.Key.(*ast.Ident); ok && id.Name == "Hash" {
					if cl, ok := p.parent[x].(*ast.CompositeLit); ok && isNamed(p.TypeOf(norm, cl), p.pkgPath("entry"), "Entry") {
						nh++
						r.Violate("R-C08.4", r.Key("R-C08.4", norm, "hash-copy", "literal"), x.Pos(), "Normalize puts the hash into the view that is encoded")
					}
				}
			}
			return true
		})
	})
	setsInclude := false
	for _, fn := range p.Fns {
		ast.Inspect(fn.Body, func(n ast.Node) bool {
			switch x := n.(type) {
			case *ast.KeyValueExpr:
				if id, ok := x.Key.(*ast.Ident); ok && p.ObjOf(fn, id) == types.Object(incF) {
					setsInclude = true
				}
			case *ast.AssignStmt:
				for _, l := range x.Lhs {
					if v, _ := p.FieldSel(fn, l); v == incF {
						setsInclude = true
					}
				}
			}
			return true
		})
	}
	r.Check(!setsInclude, "R-C08.4", r.Key("R-C08.4", norm, "includeHash-unset", ""), norm.Body.Pos(), "no call site enables includeHash", "some call site sets includeHash: the hash becomes part of the encoded view")
	// ToMultihashWithIO: every success return passes through Normalize and io.Write
	tm := p.FuncI("entry", "", "ToMultihashWithIO")
	tf := &Flow{P: p, Fn: tm, Entry: Facts{}}
	isWrite := func(f *types.Func) bool { return f.Name() == "Write" }
	writesIn := func(n ast.Node, f Facts) {
		// a normalisation anywhere in the statement (also as an argument of the writing call) comes first
		walkNoLit(n, func(nd ast.Node) bool {
			if call, ok := nd.(*ast.CallExpr); ok {
				if cf := p.Callee(tm, call); cf != nil && cf.Name() == "Normalize" {
					f["normalized"] = true
				}
			}
			return true
		})
		walkNoLit(n, func(nd ast.Node) bool {
			if call, ok := nd.(*ast.CallExpr); ok && f["normalized"] {
				// the codec's Write, directly or through a helper of the package
				if c.CallReaches(tm, call, isWrite) {
					f["written"] = true
				}
			}
			return true
		})
	}
	tf.Node = writesIn
	tf.Run()
	tf.Exits(func(_ *cfgBlk, ret *ast.ReturnStmt, at Facts) {
		if ret == nil || len(ret.Results) == 0 {
			return
		}
		// error returns have cid.Undef as first result
		if se, ok := ast.Unparen(ret.Results[0]).(*ast.SelectorExpr); ok && se.Sel.Name == "Undef" {
			return
		}
		okw := at["written"]
		if !okw {
			// `return io.Write(...)` form: the write is in the return statement itself
			here := Facts{}
			for k := range at {
				here[k] = true
			}
			writesIn(ret, here)
			okw = here["written"]
		}
		r.Check(okw, "R-C08.4", r.Key("R-C08.4", tm, "identifier-from-write", ""), ret.Pos(), "the identifier returned is always the one computed by writing the normalised view", "ToMultihashWithIO can return an identifier without normalising and writing the entry (e.g. a pre-set hash): the same logical entry no longer encodes to the same identifier, and nothing is stored")
	})
	// decoders: SetHash(requested id) after ToPlain
	for _, d := range []struct{ pkg, recv string }{{"io/cbor", "IOCbor"}, {"io/pb", "pb"}} {
		fn := p.FuncI(d.pkg, d.recv, "DecodeRawEntry")
		hashParam := paramObj(fn, 1)
		df := &Flow{P: p, Fn: fn, Entry: Facts{}}
		df.Node = func(n ast.Node, f Facts) {
			walkNoLit(n, func(nd ast.Node) bool {
				if call, ok := nd.(*ast.CallExpr); ok {
					if se, ok := ast.Unparen(call.Fun).(*ast.SelectorExpr); ok {
						if se.Sel.Name == "ToPlain" {
							f["converted"] = true
							delete(f, "hashSet")
						}
						if se.Sel.Name == "SetHash" && len(call.Args) == 1 {
							if id, ok := ast.Unparen(call.Args[0]).(*ast.Ident); ok && p.ObjOf(fn, id) == hashParam && f["converted"] {
								f["hashSet"] = true
							}
						}
					}
				}
				return true
			})
		}
		df.Run()
		df.Exits(func(_ *cfgBlk, ret *ast.ReturnStmt, at Facts) {
			if ret == nil {
				return
			}
			if isNil, hasErr := errResultIsNil(p, fn, ret); hasErr && isNil {
				r.Check(at["hashSet"], "R-C08.4", r.Key("R-C08.4", fn, "hash-from-request", ""), ret.Pos(), "the decoded entry's hash is the requested identifier, set after conversion", "the decoder can return an entry whose hash is not the requested identifier (or is overwritten by the conversion)")
			}
		})
	}
	_ = nh
}

// detScan: determinism / statelessness scan of one function (E8).
func detScan(c *Ctx, r *Report, rule string, fn *Fn) {
	p := c.P
	walkNoLit(fn.Body, func(n ast.Node) bool {
		switch x := n.(type) {
		case *ast.RangeStmt:
			if _, isMap := p.TypeOf(fn, x.X).Underlying().(*types.Map); isMap {
				if why := orderSensitive(p, fn, x); why != "" {
					r.Violate(rule, r.Key(rule, fn, "map-range", ""), x.Pos(), "range over a Go map whose body is order-sensitive ("+why+"): the result depends on map iteration order")
				} else {
					r.Hold(rule, r.Key(rule, fn, "map-range", ""), x.Pos(), true, "range over a map with an order-insensitive body (map→map copy / set insertion)")
				}
			}
		case *ast.CallExpr:
			// a package-level container that is filled on this path (an LRU, a sync.Map, a pool …)
			if se, ok := ast.Unparen(x.Fun).(*ast.SelectorExpr); ok {
				switch se.Sel.Name {
				case "Add", "Set", "Store", "Put", "Push", "ContainsOrAdd", "PeekOrAdd", "LoadOrStore":
					if id, ok := ast.Unparen(se.X).(*ast.Ident); ok {
						if v, ok := p.ObjOf(fn, id).(*types.Var); ok && !v.IsField() && v.Pkg() != nil && v.Parent() == v.Pkg().Scope() && p.firstParty(v.Pkg()) {
							r.Violate(rule, r.Key(rule, fn, "package-cache", v.Name()), x.Pos(), "the package-level container "+v.Name()+" is filled ("+se.Sel.Name+") on this path: what is computed for one input is remembered and handed out for later inputs that map to the same slot")
						}
					}
				}
			}
			if cf := p.Callee(fn, x); cf != nil && cf.Pkg() != nil {
				switch cf.Pkg().Path() {
				case "time", "math/rand", "crypto/rand":
					if cf.Pkg().Path() == "time" && cf.Name() != "Now" && cf.Name() != "Since" {
						return true
					}
					r.Violate(rule, r.Key(rule, fn, "nondeterministic-call", cf.Pkg().Name()+"."+cf.Name()), x.Pos(), cf.Pkg().Name()+"."+cf.Name()+" on a path whose output must be a pure function of its input")
				case "sync":
					if nt := recvNamed(cf); nt == "Pool" || nt == "Map" {
						r.Violate(rule, r.Key(rule, fn, "shared-scratch-state", "sync."+nt), x.Pos(), "sync."+nt+" used on the encode/decode path: objects or results survive from one block to the next, so what a block decodes/encodes to depends on process history")
					}
				}
			}
		case *ast.SelectStmt:
			if len(x.Body.List) > 1 {
				r.Violate(rule, r.Key(rule, fn, "select", ""), x.Pos(), "multi-way select on a path whose output must be deterministic")
			}
		case *ast.Ident:
			// reads/writes of package-level mutable variables of map/slice/pointer-to-struct type (caches)
			if v, ok := p.ObjOf(fn, x).(*types.Var); ok && !v.IsField() && v.Parent() == v.Pkg().Scope() && p.firstParty(v.Pkg()) {
				switch v.Type().Underlying().(type) {
				case *types.Map:
					if isStore(p, x) {
						r.Violate(rule, r.Key(rule, fn, "package-cache", v.Name()), x.Pos(), "package-level map "+v.Name()+" is written on the encode/decode path: results are memoised across blocks")
					}
				}
			}
		}
		return true
	})
}

func recvNamed(f *types.Func) string {
	if rv := f.Type().(*types.Signature).Recv(); rv != nil {
		if nt := namedOf(rv.Type()); nt != nil {
			return nt.Obj().Name()
		}
	}
	return ""
}

func isStore(p *Prog, id *ast.Ident) bool {
	for cur := ast.Node(id); cur != nil; cur = p.parent[cur] {
		if as, ok := p.parent[cur].(*ast.AssignStmt); ok {
			for _, l := range as.Lhs {
				if l == cur {
					return true
				}
			}
			return false
		}
		if _, ok := cur.(ast.Stmt); ok {
			return false
		}
	}
	return false
}

// orderSensitive: the body of a range-over-map appends, concatenates, sends, writes to an ordered
// container, or exits early.
func orderSensitive(p *Prog, fn *Fn, rs *ast.RangeStmt) string {
	why := ""
	ast.Inspect(rs.Body, func(n ast.Node) bool {
		switch x := n.(type) {
		case *ast.CallExpr:
			if p.Builtin(fn, x) == "append" {
				why = "append"
			}
			if se, ok := ast.Unparen(x.Fun).(*ast.SelectorExpr); ok && (se.Sel.Name == "Set" || se.Sel.Name == "Write" || se.Sel.Name == "WriteString") {
				why = "call of " + se.Sel.Name
			}
		case *ast.SendStmt:
			why = "channel send"
		case *ast.BranchStmt:
			if x.Tok == token.BREAK {
				why = "early exit"
			}
		case *ast.ReturnStmt:
			why = "early return"
		case *ast.AssignStmt:
			if x.Tok == token.ADD_ASSIGN {
				why = "concatenation/accumulation"
			}
		}
		return true
	})
	return why
}
