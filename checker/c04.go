package main

// c04.go — every appended entry dominates the log: identity⇄clock pairing, strict clock advance (E6 monotone
// lattice over go/ssa), single new head, links derived from the heads, bounded reference budget.

import (
	"fmt"
	"go/ast"
	"go/constant"
	"go/token"
	"go/types"
	"sort"
	"strings"

	"golang.org/x/tools/go/ssa"
)

func init() {
	register(&PropSpec{ID: "C04", Level: "other", Run: runC04,
		Explanation: "Decides on every path: (R-C04.1) every function that stores IPFSLog.Identity also stores Clock built from the public key of the same identity, and every other Clock store takes its id from the previous clock; (R-C04.2) with a three-point lattice {none, ≥, >} over go/ssa (max-like helpers verified by the linear prover, '+c', accumulate-max loops over a slice derived from the log's heads), the time given to the new clock in Append is strictly above the maximum head time — or strictly above the old clock time while every other clock store (NewLog, SetIdentity, Join) is ≥ the old clock and ≥ the maximum time of the heads stored with it; (R-C04.3) the value stored to heads in Append is built from exactly the entry returned by entry creation, which is also the entry inserted and returned; (R-C04.4) the new entry's predecessor list and clock derive from the log's heads and clock read in the same critical section, and the entry is created from the log's id and identity; (R-C04.5) the reference budget handed to the power-of-two picker is proved ≤ the requested pointer count. Not covered: that next equals the head set, that references lie in the causal past.",
	})
}

type geLevel int // 0 none, 1 ≥, 2 >

type monoEngine struct {
	p       *Prog
	clockF  *types.Var
	headsF  *types.Var
	maxLike map[*ssa.Function]int // 0 unknown 1 yes 2 no
	accum   map[*ssa.Function]int
	why     []string
}

func (me *monoEngine) note(format string, a ...interface{}) {
	me.why = append(me.why, fmt.Sprintf(format, a...))
}

// isMaxLike: f(x, y int) int with result ≥ x and result ≥ y on every return (proved by E3's summaries).
func (me *monoEngine) isMaxLike(f *ssa.Function) bool {
	if f == nil || len(f.Blocks) == 0 || len(f.Params) != 2 {
		return false
	}
	switch me.maxLike[f] {
	case 1:
		return true
	case 2:
		return false
	}
	me.maxLike[f] = 2
	if !isIntType(f.Params[0].Type()) || !isIntType(f.Params[1].Type()) {
		return false
	}
	lp := NewLenProver(me.p, f)
	ok := true
	n := 0
	for _, b := range f.Blocks {
		ret, isRet := b.Instrs[len(b.Instrs)-1].(*ssa.Return)
		if !isRet {
			continue
		}
		n++
		if len(ret.Results) != 1 {
			return false
		}
		res := lp.term(ret.Results[0])
		for _, par := range f.Params {
			goal := lp.term(par).add(res, -1) // par - res <= 0
			if okp, _, _ := lp.Prove(b, []lin{goal}); !okp {
				ok = false
			}
		}
	}
	if ok && n > 0 {
		me.maxLike[f] = 1
	}
	return ok && n > 0
}

// derivesFromField: v's backward slice contains a load of the given struct field.
func derivesFromField(v ssa.Value, f *types.Var) bool {
	return derivesFromFieldDepth(v, f, 0)
}

// derivesFromFieldDepth: also through the parameter of an unexported helper, when every call of that helper in
// its package hands in a value that derives from the field (`l.advanceClock(heads)` with heads read from l.heads).
func derivesFromFieldDepth(v ssa.Value, f *types.Var, depth int) bool {
	var params []*ssa.Parameter
	for x := range backSlice(v, nil) {
		if u, ok := x.(*ssa.UnOp); ok && u.Op == token.MUL {
			if fv, _ := fieldOf(u.X); fv == f {
				return true
			}
		}
		if q, ok := x.(*ssa.Parameter); ok && depth < 2 {
			params = append(params, q)
		}
	}
	for _, q := range params {
		g := q.Parent()
		if g == nil || g.Pkg == nil || g.Object() == nil || g.Object().Exported() {
			continue
		}
		idx := -1
		for i, pq := range g.Params {
			if pq == q {
				idx = i
			}
		}
		ncall, all := 0, true
		for _, mem := range g.Pkg.Members {
			caller, ok := mem.(*ssa.Function)
			var fns []*ssa.Function
			if ok {
				fns = append(fns, caller)
			}
			if tp, isT := mem.(*ssa.Type); isT {
				for _, ptr := range []bool{false, true} {
					t := tp.Type()
					if ptr {
						t = types.NewPointer(t)
					}
					ms := g.Prog.MethodSets.MethodSet(t)
					for i := 0; i < ms.Len(); i++ {
						if mf := g.Prog.MethodValue(ms.At(i)); mf != nil {
							fns = append(fns, mf)
						}
					}
				}
			}
			for _, cf := range fns {
				allInstrs(cf, true, func(ins ssa.Instruction) {
					call, isCall := ins.(*ssa.Call)
					if !isCall || call.Call.StaticCallee() != g || idx < 0 || idx >= len(call.Call.Args) {
						return
					}
					ncall++
					if !derivesFromFieldDepth(call.Call.Args[idx], f, depth+1) {
						all = false
					}
				})
			}
		}
		if ncall > 0 && all {
			return true
		}
	}
	return false
}

// accumOver: phi is an accumulate-max over the elements' clock times of a ranged slice: phi = [init, maxlike(phi, time(elem))].
// Returns the ranged slice value and the init value.
func (me *monoEngine) accumOver(phi *ssa.Phi) (slice ssa.Value, init ssa.Value, ok bool) {
	if !isLoopHeaderPhi(phi) {
		return nil, nil, false
	}
	if len(phi.Edges) == 3 {
		// `if acc < t { acc = t }` whose else side jumps straight back to the loop header: the header merges the
		// initial value, the accumulator itself (kept) and t (assigned under the comparison)
		return me.accumOverKeepOrAssign(phi)
	}
	if len(phi.Edges) != 2 {
		return nil, nil, false
	}
	for i, e := range phi.Edges {
		var other ssa.Value
		if q, isPhi := e.(*ssa.Phi); isPhi {
			// the hand-written maximum: if acc < t { acc = t }  (a two-edge merge of the accumulator and t under
			// the comparison of exactly those two)
			other = condAssignMax(phi, q)
			if other == nil {
				continue
			}
		} else {
			call, isCall := e.(*ssa.Call)
			if !isCall {
				continue
			}
			var args []ssa.Value
			if b, isB := call.Call.Value.(*ssa.Builtin); isB && b.Name() == "max" {
				args = call.Call.Args
			} else if cal := call.Call.StaticCallee(); cal != nil && me.isMaxLike(cal) {
				args = call.Call.Args
			}
			if len(args) != 2 {
				continue
			}
			if args[0] == ssa.Value(phi) {
				other = args[1]
			} else if args[1] == ssa.Value(phi) {
				other = args[0]
			} else {
				continue
			}
		}
		// other = GetTime(GetClock(elem)) with elem = *IndexAddr(S, _)
		tcall, isT := other.(*ssa.Call)
		if !isT || !tcall.Call.IsInvoke() || tcall.Call.Method.Name() != "GetTime" {
			continue
		}
		ccall, isC := tcall.Call.Value.(*ssa.Call)
		if !isC || !ccall.Call.IsInvoke() || ccall.Call.Method.Name() != "GetClock" {
			continue
		}
		ld, isL := ccall.Call.Value.(*ssa.UnOp)
		if !isL || ld.Op != token.MUL {
			continue
		}
		ia, isI := ld.X.(*ssa.IndexAddr)
		if !isI {
			continue
		}
		return ia.X, phi.Edges[1-i], true
	}
	return nil, nil, false
}

// accumOverKeepOrAssign: the three-edge form of the accumulate-max (see accumOver).
func (me *monoEngine) accumOverKeepOrAssign(phi *ssa.Phi) (slice ssa.Value, init ssa.Value, ok bool) {
	hdr := phi.Block()

	var t ssa.Value
	var tPred *ssa.BasicBlock
	nself := 0
	for i, e := range phi.Edges {
		pred := hdr.Preds[i]
		switch {
		case e == ssa.Value(phi):
			nself++
		case !hdr.Dominates(pred):
			init = e
		default:
			t, tPred = e, pred
		}
	}
	if nself != 1 || init == nil || t == nil {
		return nil, nil, false
	}
	// the block that assigns t is entered through the comparison of acc and t, on the side where t is larger
	d := tPred.Idom()
	nreal := 0
	for _, ins := range tPred.Instrs {
		if _, isDbg := ins.(*ssa.DebugRef); !isDbg {
			nreal++
		}
	}
	if nreal != 1 || d == nil || len(d.Instrs) == 0 { // `acc = t` leaves an empty block that jumps back
		return nil, nil, false
	}
	iff, isIf := d.Instrs[len(d.Instrs)-1].(*ssa.If)
	if !isIf {
		return nil, nil, false
	}
	cmp, isCmp := iff.Cond.(*ssa.BinOp)
	if !isCmp {
		return nil, nil, false
	}
	op := cmp.Op
	switch {
	case cmp.X == ssa.Value(phi) && cmp.Y == t:
	case cmp.Y == ssa.Value(phi) && cmp.X == t:
		op = flipOp(op)
	default:
		return nil, nil, false
	}
	onTrue := d.Succs[0] == tPred
	if !((onTrue && (op == token.LSS || op == token.LEQ)) || (!onTrue && (op == token.GEQ || op == token.GTR))) {
		return nil, nil, false
	}
	tcall, isT := t.(*ssa.Call)
	if !isT || !tcall.Call.IsInvoke() || tcall.Call.Method.Name() != "GetTime" {
		return nil, nil, false
	}
	ccall, isC := tcall.Call.Value.(*ssa.Call)
	if !isC || !ccall.Call.IsInvoke() || ccall.Call.Method.Name() != "GetClock" {
		return nil, nil, false
	}
	ld, isL := ccall.Call.Value.(*ssa.UnOp)
	if !isL || ld.Op != token.MUL {
		return nil, nil, false
	}
	ia, isI := ld.X.(*ssa.IndexAddr)
	if !isI {
		return nil, nil, false
	}
	return ia.X, init, true
}

// condAssignMax: q = φ(acc, t) merges "acc kept" and "acc = t" under a comparison of acc and t that assigns t
// exactly when t is the larger (or equal): returns t, else nil.
func condAssignMax(acc *ssa.Phi, q *ssa.Phi) ssa.Value {
	if len(q.Edges) != 2 {
		return nil
	}
	ti := -1
	for i, e := range q.Edges {
		if e == ssa.Value(acc) {
			ti = 1 - i
		}
	}
	if ti < 0 {
		return nil
	}
	t := q.Edges[ti]
	d := q.Block().Idom()
	if d == nil || len(d.Instrs) == 0 {
		return nil
	}
	iff, ok := d.Instrs[len(d.Instrs)-1].(*ssa.If)
	if !ok {
		return nil
	}
	cmp, ok := iff.Cond.(*ssa.BinOp)
	if !ok {
		return nil
	}
	var accLeft bool
	switch {
	case cmp.X == ssa.Value(acc) && cmp.Y == t:
		accLeft = true
	case cmp.Y == ssa.Value(acc) && cmp.X == t:
		accLeft = false
	default:
		return nil
	}
	// which branch of the test carries the assignment of t?
	tPred := q.Block().Preds[ti]
	onTrue := tPred == d.Succs[0] || (tPred != d && d.Succs[0].Dominates(tPred))
	if tPred == d {
		// the join is a direct successor: the edge that comes straight from the test
		onTrue = d.Succs[0] == q.Block()
	}
	op := cmp.Op
	if !accLeft { // t OP acc  ==  acc flip(OP) t
		op = flipOp(op)
	}
	// op now reads acc OP t
	assignsWhenLarger := false
	if onTrue {
		assignsWhenLarger = op == token.LSS || op == token.LEQ
	} else {
		assignsWhenLarger = op == token.GEQ || op == token.GTR
	}
	if !assignsWhenLarger {
		return nil
	}
	return t
}

// isAccumHelper: f(slice, int) int returns an accumulate-max over its slice parameter starting from its int parameter.
func (me *monoEngine) isAccumHelper(f *ssa.Function) bool {
	if f == nil || len(f.Blocks) == 0 || len(f.Params) != 2 {
		return false
	}
	switch me.accum[f] {
	case 1:
		return true
	case 2:
		return false
	}
	me.accum[f] = 2
	ok := true
	n := 0
	for _, b := range f.Blocks {
		ret, isRet := b.Instrs[len(b.Instrs)-1].(*ssa.Return)
		if !isRet {
			continue
		}
		n++
		if len(ret.Results) != 1 {
			return false
		}
		phi, isPhi := ret.Results[0].(*ssa.Phi)
		if !isPhi {
			ok = false
			continue
		}
		sl, init, okA := me.accumOver(phi)
		if !okA || sl != ssa.Value(f.Params[0]) || init != ssa.Value(f.Params[1]) {
			ok = false
		}
	}
	if ok && n > 0 {
		me.accum[f] = 1
	}
	return ok && n > 0
}

// ge computes, for an integer value, the sources it is known to be ≥ / > of: "old" and "heads".
func (me *monoEngine) ge(v ssa.Value, depth int) (map[string]geLevel, bool) {
	if depth > 12 {
		return nil, false
	}
	switch x := v.(type) {
	case *ssa.Const:
		return map[string]geLevel{}, true
	case *ssa.Convert:
		return me.ge(x.X, depth+1)
	case *ssa.ChangeType:
		return me.ge(x.X, depth+1)
	case *ssa.BinOp:
		if x.Op == token.ADD {
			for _, pr := range [][2]ssa.Value{{x.X, x.Y}, {x.Y, x.X}} {
				if c, ok := pr[1].(*ssa.Const); ok && c.Value != nil && c.Value.Kind() == constant.Int {
					k, _ := constant.Int64Val(c.Value)
					if k < 0 {
						me.note("subtraction/negative step at %s", me.p.Pos(x.Pos()))
						return nil, false
					}
					m, ok := me.ge(pr[0], depth+1)
					if !ok {
						return nil, false
					}
					out := map[string]geLevel{}
					for s, l := range m {
						if k >= 1 {
							l = 2
						}
						out[s] = l
					}
					return out, true
				}
			}
		}
		me.note("non-monotone arithmetic %s at %s", x.Op, me.p.Pos(x.Pos()))
		return nil, false
	case *ssa.Phi:
		if sl, init, ok := me.accumOver(x); ok {
			m, ok2 := me.ge(init, depth+1)
			if !ok2 {
				return nil, false
			}
			out := map[string]geLevel{}
			for s, l := range m {
				out[s] = l
			}
			if derivesFromField(sl, me.headsF) {
				if out["heads"] < 1 {
					out["heads"] = 1
				}
			}
			return out, true
		}
		if isLoopHeaderPhi(x) {
			me.note("loop-carried value that is not an accumulate-max at %s", me.p.Pos(x.Pos()))
			return nil, false
		}
		var out map[string]geLevel
		for _, e := range x.Edges {
			m, ok := me.ge(e, depth+1)
			if !ok {
				return nil, false
			}
			if out == nil {
				out = map[string]geLevel{}
				for s, l := range m {
					out[s] = l
				}
				continue
			}
			for s, l := range out {
				if m[s] < l {
					out[s] = m[s]
				}
				if out[s] == 0 {
					delete(out, s)
				}
			}
		}
		return out, true
	case *ssa.UnOp:
		if x.Op == token.MUL { // load of a cell: all stores
			sts := cellStores(x.X)
			if len(sts) == 0 {
				return nil, false
			}
			var out map[string]geLevel
			for _, st := range sts {
				m, ok := me.ge(st.Val, depth+1)
				if !ok {
					return nil, false
				}
				if out == nil {
					out = m
					continue
				}
				for s, l := range out {
					if m[s] < l {
						out[s] = m[s]
					}
					if out[s] == 0 {
						delete(out, s)
					}
				}
			}
			return out, true
		}
	case *ssa.Call:
		if x.Call.IsInvoke() {
			if x.Call.Method.Name() == "GetTime" && derivesFromField(x.Call.Value, me.clockF) {
				return map[string]geLevel{"old": 1}, true
			}
			me.note("opaque interface call %s at %s", x.Call.Method.Name(), me.p.Pos(x.Pos()))
			return nil, false
		}
		if b, ok := x.Call.Value.(*ssa.Builtin); ok && b.Name() == "max" {
			return me.geUnion(x.Call.Args, depth)
		}
		cal := x.Call.StaticCallee()
		if cal != nil && me.isMaxLike(cal) {
			return me.geUnion(x.Call.Args, depth)
		}
		if cal != nil && me.isAccumHelper(cal) {
			m, ok := me.ge(x.Call.Args[1], depth+1)
			if !ok {
				return nil, false
			}
			out := map[string]geLevel{}
			for s, l := range m {
				out[s] = l
			}
			if derivesFromField(x.Call.Args[0], me.headsF) && out["heads"] < 1 {
				out["heads"] = 1
			}
			// remember which slice was ranged (for constructor checks)
			return out, true
		}
		name := "?"
		if cal != nil {
			name = cal.Name()
		}
		me.note("call %s is neither max-like nor an accumulate-max at %s", name, me.p.Pos(x.Pos()))
		return nil, false
	}
	me.note("value %T outside the monotone vocabulary", v)
	return nil, false
}

func (me *monoEngine) geUnion(args []ssa.Value, depth int) (map[string]geLevel, bool) {
	out := map[string]geLevel{}
	for _, a := range args {
		m, ok := me.ge(a, depth+1)
		if !ok {
			// max(a, unknown) is still ≥ a: an opaque operand contributes nothing
			continue
		}
		for s, l := range m {
			if out[s] < l {
				out[s] = l
			}
		}
	}
	return out, true
}

// clockStores: stores to IPFSLog.Clock with the time argument of the clock constructor.
type clockStore struct {
	st   *ssa.Store
	time ssa.Value
	id   ssa.Value
}

func findClockStores(p *Prog, sf *ssa.Function, clockF *types.Var) []clockStore {
	var out []clockStore
	for _, st := range p.fieldStoresGroup(sf, clockF) {
		cs := clockStore{st: st}
		v := st.Val
		if mi, ok := v.(*ssa.MakeInterface); ok {
			v = mi.X
		}
		if call, ok := v.(*ssa.Call); ok && len(call.Call.Args) == 2 {
			if cal := call.Call.StaticCallee(); cal != nil && cal.Name() == "NewLamportClock" {
				cs.id, cs.time = call.Call.Args[0], call.Call.Args[1]
			}
		}
		out = append(out, cs)
	}
	return out
}

func fmtGE(m map[string]geLevel) string {
	var ks []string
	for k, l := range m {
		ks = append(ks, fmt.Sprintf("%s:%s", k, map[geLevel]string{1: "≥", 2: ">"}[l]))
	}
	sort.Strings(ks)
	return "{" + strings.Join(ks, ", ") + "}"
}

func runC04(c *Ctx, r *Report) {
	p := c.P
	r.Doc("R-C04.1", "identity⇄clock pairing")
	r.Doc("R-C04.2", "strict clock advance: new time > max head time, or > old clock with every other clock store ≥ old and ≥ its heads")
	r.Doc("R-C04.3", "the new entry becomes the only head and is the entry inserted and returned")
	r.Doc("R-C04.4", "the new entry's predecessors, clock, id and identity come from the log's current state")
	r.Doc("R-C04.5", "reference budget ≤ requested pointer count")
	r.Doc("R-C04.6", "the heads named as predecessors are still the log's heads when the entry is installed (one critical section)")
	r.Doc("R-C04.7", "the loops that take the maximum clock over the heads and build predecessors and references process every element")
	r.Doc("R-C04.9", "clocks of entries a log holds are never written: mutating clock methods run only on fresh objects (adopted from C05: entry objects are shared between logs, so a raised clock time in one log makes another log's next append no longer dominate it)")
	importRules(c, r, "C05", []string{"R-C05.1"}, "R-C04.9")
	r.Doc("R-C04.10", "what a merge stores into the log it reads in the same critical section (adopted from C13: a clock id read before the lock is taken again overwrites the clock an identity change installed in between — entries then carry the previous writer's key as clock id)")
	importRules(c, r, "C13", []string{"R-C13.12"}, "R-C04.10", 0)
	r.Doc("R-C04.11", "a refused merge leaves the entry index, the predecessor index and the heads untouched (adopted from C02: batches filed before a later batch is refused stay in the index without being heads — the next append neither names nor dominates them)")
	importRules(c, r, "C02", []string{"R-C02.7"}, "R-C04.11")
	r.Doc("R-C04.12", "every addition to the skip references of the entry Append builds is controlled by a comparison with the predecessor list (an addition outside that filter lists a head both as predecessor and as reference)")
	referencesSkipThePredecessors(c, r, "R-C04.12")
	r.Doc("R-C04.13", "the list Append hands to the new entry as Next is never resliced with a bound: every head gathered into it stays a predecessor")
	predecessorListNotCut(c, r, "R-C04.13")
	r.Doc("R-C04.8", "the appended entry becomes the single head whatever it contains: the head-set constructor files every existing entry (adopted from C02)")
	importRules(c, r, "C02", []string{"R-C02.11"}, "R-C04.8")
	loopsComplete(c, r, "R-C04.7", func(fn *Fn) bool {
		return rootNamed(fn, "Append", "SetIdentity", "Join", "getEveryPow2", "maxClockTimeForEntries")
	}, "a head later in the list is not taken into the maximum: the new entry does not dominate it")
	appendSingleSection(c, r, "R-C04.6", "a concurrent append or merge changes the heads in the window, so the new entry does not name the current heads and its clock does not dominate them")
	clockF, headsF, identF := p.Field("", "IPFSLog", "Clock"), p.Field("", "IPFSLog", "heads"), p.Field("", "IPFSLog", "Identity")
	me := &monoEngine{p: p, clockF: clockF, headsF: headsF, maxLike: map[*ssa.Function]int{}, accum: map[*ssa.Function]int{}}
	app := p.FuncI("", "IPFSLog", "Append")
	join := p.FuncI("", "IPFSLog", "Join")
	setID := p.FuncI("", "IPFSLog", "SetIdentity")
	newLog := p.FuncI("", "", "NewLog")

	// ---- R-C04.2
	type res struct {
		fn  *Fn
		m   map[string]geLevel
		ok  bool
		why string
		pos token.Pos
	}
	eval := func(fn *Fn) []res {
		var out []res
		for _, cs := range findClockStores(p, p.SSAFunc(fn), clockF) {
			me.why = nil
			if cs.time == nil {
				out = append(out, res{fn: fn, ok: false, why: "clock not built by NewLamportClock(id, time)", pos: cs.st.Pos()})
				continue
			}
			m, ok := me.ge(cs.time, 0)
			out = append(out, res{fn: fn, m: m, ok: ok, why: strings.Join(me.why, "; "), pos: cs.st.Pos()})
		}
		return out
	}
	appR, joinR, setR := eval(app), eval(join), eval(setID)
	r.Floor("R-C04.2", "clock stores in Append/Join/SetIdentity", len(appR)+len(joinR)+len(setR), 3)
	// (b): Join and SetIdentity ≥ old and ≥ heads; NewLog: the clock is initialised ≥ the heads it stores
	bOK := true
	var bWhy []string
	for _, x := range append(append([]res{}, joinR...), setR...) {
		if !x.ok || x.m["old"] < 1 || x.m["heads"] < 1 {
			bOK = false
			bWhy = append(bWhy, fmt.Sprintf("%s stores a clock with %s %s", x.fn.Name, fmtGE(x.m), x.why))
		}
	}
	nlOK, nlWhy := newLogClockCoversHeads(p, me, newLog)
	if !nlOK {
		bOK = false
		bWhy = append(bWhy, "NewLog: "+nlWhy)
	}
	for _, x := range appR {
		key := r.Key("R-C04.2", x.fn, "clock-store", "")
		aHeads := x.ok && x.m["heads"] == 2
		aOld := x.ok && x.m["old"] == 2
		switch {
		case aHeads:
			r.Hold("R-C04.2", key, x.pos, true, fmt.Sprintf("new clock time %s: strictly above the maximum head time (catch-up elsewhere: %v)", fmtGE(x.m), bOK))
		case aOld && bOK:
			r.Hold("R-C04.2", key, x.pos, true, fmt.Sprintf("new clock time %s strictly above the old clock, and every other clock store keeps the clock ≥ its heads", fmtGE(x.m)))
		default:
			r.Violate("R-C04.2", key, x.pos, fmt.Sprintf("the time of the appended entry is not shown to exceed every entry in the log: new time %s %s; it must be > the maximum over all heads, or > the old clock while NewLog/SetIdentity/Join keep the clock ≥ the heads they store (%s)", fmtGE(x.m), x.why, strings.Join(bWhy, "; ")))
		}
	}
	for _, x := range append(append([]res{}, joinR...), setR...) {
		key := r.Key("R-C04.2", x.fn, "clock-catch-up", "")
		if x.ok && x.m["old"] >= 1 {
			r.Hold("R-C04.2", key, x.pos, true, fmt.Sprintf("stored clock time %s never moves backwards", fmtGE(x.m)))
		} else {
			r.Violate("R-C04.2", key, x.pos, fmt.Sprintf("the clock stored by %s is not ≥ the previous clock (%s %s): the log's clock can move backwards and a later append reuses a time", x.fn.Name, fmtGE(x.m), x.why))
		}
	}
	r.List("clock catch-up status (needed only if Append does not scan all heads): all-other-stores-cover-heads=%v %v", bOK, bWhy)

	// ---- R-C04.1
	for _, fn := range []*Fn{setID, newLog} {
		pairingRule(c, r, fn, identF, clockF)
	}
	for _, fn := range []*Fn{app, join} {
		for _, cs := range findClockStores(p, p.SSAFunc(fn), clockF) {
			key := r.Key("R-C04.1", fn, "clock-id", "")
			ok := false
			if cs.id != nil {
				for v := range backSlice(cs.id, nil) {
					if call, isC := v.(*ssa.Call); isC && call.Call.IsInvoke() && call.Call.Method.Name() == "GetID" && derivesFromField(call.Call.Value, clockF) {
						ok = true
					}
				}
			}
			r.Check(ok, "R-C04.1", key, cs.st.Pos(), "the new clock keeps the id of the previous clock (the writer's key)", "the clock stored by "+fn.Name+" does not take its id from the previous clock: appended entries stop carrying the writer's public key as clock id")
		}
	}

	// ---- R-C04.3 / R-C04.4 (AST)
	var created types.Object
	var createCall *ast.CallExpr
	walkNoLit(app.Body, func(n ast.Node) bool {
		if as, ok := n.(*ast.AssignStmt); ok && len(as.Rhs) == 1 && len(as.Lhs) == 2 {
			if call, ok := ast.Unparen(as.Rhs[0]).(*ast.CallExpr); ok {
				if cf := p.Callee(app, call); cf != nil && strings.HasPrefix(cf.Name(), "CreateEntry") {
					if id, ok := as.Lhs[0].(*ast.Ident); ok {
						created, createCall = p.ObjOf(app, id), call
					}
				}
			}
		}
		return true
	})
	if created == nil {
		r.Undecided("R-C04.3", r.Key("R-C04.3", app, "created-entry", ""), app.Body.Pos(), "no entry creation call found in Append")
		return
	}
	isCreated := func(e ast.Expr) bool {
		id, ok := ast.Unparen(e).(*ast.Ident)
		return ok && p.ObjOf(app, id) == created
	}
	nHead, nIns, nRet := 0, 0, 0
	walkNoLit(app.Body, func(n ast.Node) bool {
		switch x := n.(type) {
		case *ast.AssignStmt:
			for i, l := range x.Lhs {
				if v, _ := p.FieldSel(app, l); v == headsF && i < len(x.Rhs) {
					nHead++
					only := false
					// NewOrderedMapFromEntries([]T{e})
					if call, ok := ast.Unparen(x.Rhs[i]).(*ast.CallExpr); ok && len(call.Args) == 1 {
						if cl, ok := ast.Unparen(call.Args[0]).(*ast.CompositeLit); ok && len(cl.Elts) == 1 && isCreated(cl.Elts[0]) {
							only = true
						}
					}
					r.Check(only, "R-C04.3", r.Key("R-C04.3", app, "heads-store", ""), x.Pos(), "the heads become exactly the created entry", "Append stores a head set that is not exactly the newly created entry")
				}
			}
		case *ast.CallExpr:
			if se, ok := ast.Unparen(x.Fun).(*ast.SelectorExpr); ok && se.Sel.Name == "Set" && len(x.Args) == 2 {
				if v, _ := p.FieldSel(app, se.X); v != nil && v.Name() == "Entries" {
					nIns++
					r.Check(isCreated(x.Args[1]), "R-C04.3", r.Key("R-C04.3", app, "insert", ""), x.Pos(), "the created entry is the one inserted", "Append inserts an entry other than the one it created")
				}
			}
		case *ast.ReturnStmt:
			if isNil, hasErr := errResultIsNil(p, app, x); hasErr && isNil && len(x.Results) == 2 {
				nRet++
				r.Check(isCreated(x.Results[0]), "R-C04.3", r.Key("R-C04.3", app, "return", ""), x.Pos(), "the created entry is the one returned", "Append returns an entry other than the one it created and stored")
			}
		}
		return true
	})
	r.Floor("R-C04.3", "heads store / insert / return in Append", minIntC(nHead, minIntC(nIns, nRet)), 1)
	// R-C04.4: SSA dependencies of the entry literal handed to creation
	sf := p.SSAFunc(app)
	entryT := p.Named("entry", "Entry")
	fieldsWanted := map[string]*types.Var{"Next": headsF, "Clock": clockF}
	got := map[string]bool{}
	allInstrs(sf, false, func(ins ssa.Instruction) {
		st, ok := ins.(*ssa.Store)
		if !ok {
			return
		}
		f, fa := fieldOf(st.Addr)
		if f == nil || namedOf(fa.X.Type()) != entryT {
			return
		}
		if want, ok := fieldsWanted[f.Name()]; ok {
			if derivesFromField(st.Val, want) {
				got[f.Name()] = true
			}
		}
		if f.Name() == "LogID" {
			if derivesFromField(st.Val, p.Field("", "IPFSLog", "ID")) {
				got["LogID"] = true
			}
		}
	})
	for _, f := range []string{"Next", "Clock", "LogID"} {
		src := map[string]string{"Next": "heads", "Clock": "Clock", "LogID": "ID"}[f]
		r.Check(got[f], "R-C04.4", r.Key("R-C04.4", app, "entry-field", f), createCall.Pos(),
			"the new entry's "+f+" derives from the log's "+src, "the new entry's "+f+" does not derive from the log's "+src+": the appended entry does not name the current heads / carry the log's clock / belong to this log")
	}
	// identity argument
	okIdent := false
	for _, a := range createCall.Args {
		if v, _ := p.FieldSel(app, a); v == identF {
			okIdent = true
		}
		if id, ok := ast.Unparen(a).(*ast.Ident); ok {
			// a local read from l.Identity (possibly through a helper's result is not accepted)
			walkNoLit(app.Body, func(n ast.Node) bool {
				if as, ok := n.(*ast.AssignStmt); ok && len(as.Lhs) == len(as.Rhs) {
					for i, l := range as.Lhs {
						if lid, ok := l.(*ast.Ident); ok && p.ObjOf(app, lid) == p.ObjOf(app, id) {
							if v, _ := p.FieldSel(app, as.Rhs[i]); v == identF {
								okIdent = true
							}
						}
					}
				}
				return true
			})
		}
	}
	r.Check(okIdent, "R-C04.4", r.Key("R-C04.4", app, "identity-arg", ""), createCall.Pos(), "the entry is created (signed) with the log's identity", "the entry is not created with the log's own identity")

	// ---- R-C04.5
	pow := p.FuncObj("", "", "getEveryPow2")
	ptrF := p.Field("iface", "AppendOptions", "PointerCount")
	lp := NewLenProver(p, sf)
	nb := 0
	allInstrs(sf, false, func(ins ssa.Instruction) {
		call, ok := ins.(*ssa.Call)
		if !ok || calleeOf(call) != pow || len(call.Call.Args) != 2 {
			return
		}
		nb++
		budget := lp.term(call.Call.Args[1])
		// the requested count: a phi/value derived from opts.PointerCount
		var req ssa.Value
		for v := range backSlice(call.Call.Args[1], nil) {
			if phi, ok := v.(*ssa.Phi); ok && isIntType(phi.Type()) && derivesFromField(phi, ptrF) {
				// (the slice is a map: among several candidates the first in the source is taken, every run)
				if req == nil || phi.Pos() < req.Pos() {
					req = phi
				}
			}
		}
		if req == nil {
			// the requested count computed by a helper (`pointerCount := effectivePointerCount(opts)`): its result
			for v := range backSlice(call.Call.Args[1], nil) {
				if c2, ok := v.(*ssa.Call); ok && c2.Parent() == sf && isIntType(c2.Type()) && derivesFromField(c2, ptrF) {
					if cal := c2.Call.StaticCallee(); cal != nil && p.firstParty(calleePkg(cal)) && calleeOf(c2) != pow && minMaxHelper(p, p.ByObj[calleeOf(c2)]) == "" {
						// the helper is handed the options value itself
						for _, a := range c2.Call.Args {
							if q := paramBehind(a); q != nil && q.Parent() == sf {
								if pt, ok := q.Type().Underlying().(*types.Pointer); ok && namedOf(pt.Elem()) == p.Named("iface", "AppendOptions") {
									req = c2
								}
							}
						}
					}
				}
			}
		}
		if req == nil {
			for v := range backSlice(call.Call.Args[1], nil) {
				if u, ok := v.(*ssa.UnOp); ok && u.Op == token.MUL && u.Parent() == sf {
					if f, _ := fieldOf(u.X); f == ptrF {
						req = u
					}
				}
			}
		}
		key := r.Key("R-C04.5", app, "reference-budget", "")
		if req == nil {
			r.Violate("R-C04.5", key, call.Pos(), "the reference budget does not depend on the requested pointer count: the number of skip references is not bounded by it")
			return
		}
		goal := budget.add(lp.term(req), -1)
		ok2, facts, failed := lp.Prove(call.Block(), []lin{goal})
		if ok2 {
			r.Hold("R-C04.5", key, call.Pos(), true, "reference budget ≤ requested pointer count for all values", facts...)
		} else {
			r.Violate("R-C04.5", key, call.Pos(), "cannot show the reference budget ≤ the requested pointer count ("+failed+"): with many heads or long logs the entry carries more skip references than logarithmic in the pointer count", facts...)
		}
	})
	r.Floor("R-C04.5", "calls of the power-of-two picker in Append", nb, 1)
}

// pairingRule: in fn, IPFSLog.Identity and IPFSLog.Clock are set together from the same identity.
func pairingRule(c *Ctx, r *Report, fn *Fn, identF, clockF *types.Var) {
	p := c.P
	logT := p.Named("", "IPFSLog")
	fromSame := func(identExpr, clockExpr ast.Expr) bool {
		id, ok := ast.Unparen(identExpr).(*ast.Ident)
		if !ok {
			return false
		}
		call, ok := ast.Unparen(clockExpr).(*ast.CallExpr)
		if !ok || len(call.Args) < 1 {
			return false
		}
		v, b := p.FieldSel(fn, call.Args[0])
		if v == nil || v.Name() != "PublicKey" {
			return false
		}
		bid, ok := ast.Unparen(b).(*ast.Ident)
		return ok && p.ObjOf(fn, bid) == p.ObjOf(fn, id)
	}
	key := r.Key("R-C04.1", fn, "identity-clock", "")
	// composite literal form
	found := false
	walkNoLit(fn.Body, func(n ast.Node) bool {
		cl, ok := n.(*ast.CompositeLit)
		if !ok || namedOf(p.TypeOf(fn, cl)) != logT {
			return true
		}
		var ie, ce ast.Expr
		for _, el := range cl.Elts {
			if kv, ok := el.(*ast.KeyValueExpr); ok {
				switch kv.Key.(*ast.Ident).Name {
				case "Identity":
					ie = kv.Value
				case "Clock":
					ce = kv.Value
				}
			}
		}
		if ie != nil {
			found = true
			r.Check(ce != nil && fromSame(ie, ce), "R-C04.1", key, cl.Pos(), "the log is built with a clock whose id is the identity's public key", "the log is constructed with an identity but its clock id is not that identity's public key")
		}
		return true
	})
	if found {
		return
	}
	// assignment form: flow fact clock-from|<ident> must hold at every exit after Identity was stored
	var identVar types.Object
	var pos token.Pos
	walkNoLit(fn.Body, func(n ast.Node) bool {
		if as, ok := n.(*ast.AssignStmt); ok {
			for i, l := range as.Lhs {
				if v, _ := p.FieldSel(fn, l); v == identF && i < len(as.Rhs) {
					if id, ok := ast.Unparen(as.Rhs[i]).(*ast.Ident); ok {
						identVar, pos = p.ObjOf(fn, id), as.Pos()
					}
				}
			}
		}
		return true
	})
	if identVar == nil {
		r.Undecided("R-C04.1", key, fn.Body.Pos(), "no store of Identity found in "+fn.Name)
		return
	}
	fl := &Flow{P: p, Fn: fn, Entry: Facts{}}
	fl.Node = func(n ast.Node, f Facts) {
		walkNoLit(n, func(nd ast.Node) bool {
			if as, ok := nd.(*ast.AssignStmt); ok {
				for i, l := range as.Lhs {
					if i >= len(as.Rhs) {
						continue
					}
					if v, _ := p.FieldSel(fn, l); v == identF {
						f["identSet"] = true
					}
					if v, _ := p.FieldSel(fn, l); v == clockF {
						if call, ok := ast.Unparen(as.Rhs[i]).(*ast.CallExpr); ok && len(call.Args) >= 1 {
							if pv, b := p.FieldSel(fn, call.Args[0]); pv != nil && pv.Name() == "PublicKey" {
								if bid, ok := ast.Unparen(b).(*ast.Ident); ok && p.ObjOf(fn, bid) == identVar {
									f["clockPaired"] = true
									continue
								}
							}
						}
						delete(f, "clockPaired")
					}
				}
			}
			return true
		})
	}
	fl.Run()
	ok := true
	fl.Exits(func(_ *cfgBlk, _ *ast.ReturnStmt, at Facts) {
		if at["identSet"] && !at["clockPaired"] {
			ok = false
		}
	})
	r.Check(ok, "R-C04.1", key, pos, "every path that changes the identity also resets the clock to the new identity's public key", "the identity can be changed without resetting the clock to the new identity's public key: later entries carry the previous writer's key as clock id")
}

// newLogClockCoversHeads: the time given to the constructor's clock is an accumulate-max over the very slice
// that initialises the heads (no store to its source between the two reads).
func newLogClockCoversHeads(p *Prog, me *monoEngine, newLog *Fn) (bool, string) {
	sf := p.SSAFunc(newLog)
	logT := p.Named("", "IPFSLog")
	var timeV, headsInit ssa.Value
	allInstrs(sf, false, func(ins ssa.Instruction) {
		st, ok := ins.(*ssa.Store)
		if !ok {
			return
		}
		f, fa := fieldOf(st.Addr)
		if f == nil || namedOf(fa.X.Type()) != logT {
			return
		}
		switch f.Name() {
		case "Clock":
			v := st.Val
			if mi, ok := v.(*ssa.MakeInterface); ok {
				v = mi.X
			}
			if call, ok := v.(*ssa.Call); ok && len(call.Call.Args) == 2 {
				timeV = call.Call.Args[1]
			}
		case "heads":
			headsInit = st.Val
		}
	})
	if timeV == nil || headsInit == nil {
		return false, "constructor literal not recognised"
	}
	// slices ranged by accumulate-max helpers in the time's slice
	var ranged []ssa.Value
	for v := range backSlice(timeV, nil) {
		if call, ok := v.(*ssa.Call); ok {
			if cal := call.Call.StaticCallee(); cal != nil && me.isAccumHelper(cal) {
				ranged = append(ranged, call.Call.Args[0])
			}
		}
	}
	if len(ranged) == 0 {
		return false, "the initial clock time is not a maximum over any entry list"
	}
	// loads feeding the heads initialiser
	var headLoads []*ssa.UnOp
	for v := range backSlice(headsInit, func(x ssa.Value) bool { _, isLoad := x.(*ssa.UnOp); return !isLoad || x == headsInit }) {
		if u, ok := v.(*ssa.UnOp); ok && u.Op == token.MUL {
			headLoads = append(headLoads, u)
		}
	}
	for _, rg := range ranged {
		ru, ok := rg.(*ssa.UnOp)
		if !ok || ru.Op != token.MUL {
			continue
		}
		rf, _ := fieldOf(ru.X)
		for _, hl := range headLoads {
			hf, _ := fieldOf(hl.X)
			if rf == nil || rf != hf {
				continue
			}
			// same field: any store to it between the two loads?
			between := false
			for _, st := range fieldStores(sf, rf, false) {
				if ssaReaches(ru.Block(), st.Block()) && ssaReaches(st.Block(), hl.Block()) {
					between = true
				}
			}
			if !between {
				return true, ""
			}
			return false, fmt.Sprintf("the clock is initialised from %s read before it is replaced (heads derived from the entries later): a log opened without explicit heads starts with a clock below its heads", rf.Name())
		}
	}
	return false, "the list scanned for the initial clock is not the list that initialises the heads"
}
