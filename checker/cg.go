package main

// cg.go — E1: first-party call graph. Static callees, interface calls resolved against first-party
// method sets (CHA restricted to the module), function literals owned by their parent, and references
// to first-party functions used as values ("may be called by whoever receives the value").

import (
	"go/ast"
	"go/types"
	"sort"

	"golang.org/x/tools/go/ssa"
)

type ssaCall = ssa.CallInstruction

type CallSite struct {
	Fn      *Fn
	Call    *ast.CallExpr
	Callee  *types.Func // resolved object (may be an interface method); nil for func-value calls
	Targets []*Fn       // first-party bodies that may run
	Iface   bool
	Go      bool
	Defer   bool
}

type CG struct {
	p       *Prog
	sites   map[*Fn][]CallSite
	valrefs map[*Fn][]*Fn // first-party functions referenced as values in fn
	impls   map[*types.Func][]*Fn
	named   []*types.Named
}

func (p *Prog) BuildCG() *CG {
	g := &CG{p: p, sites: map[*Fn][]CallSite{}, valrefs: map[*Fn][]*Fn{}, impls: map[*types.Func][]*Fn{}}
	for _, pk := range p.Pkgs {
		sc := pk.Types.Scope()
		for _, n := range sc.Names() {
			if tn, ok := sc.Lookup(n).(*types.TypeName); ok && !tn.IsAlias() {
				if nt, ok := tn.Type().(*types.Named); ok {
					if _, isIface := nt.Underlying().(*types.Interface); !isIface {
						g.named = append(g.named, nt)
					}
				}
			}
		}
	}
	for _, fn := range p.Fns {
		g.index(fn)
	}
	return g
}

func (g *CG) index(fn *Fn) {
	p := g.p
	inCallPos := map[ast.Expr]bool{}
	goCalls := map[*ast.CallExpr]bool{}
	deferCalls := map[*ast.CallExpr]bool{}
	walkNoLit(fn.Body, func(n ast.Node) bool {
		switch s := n.(type) {
		case *ast.GoStmt:
			goCalls[s.Call] = true
		case *ast.DeferStmt:
			deferCalls[s.Call] = true
		case *ast.CallExpr:
			inCallPos[ast.Unparen(s.Fun)] = true
			cs := CallSite{Fn: fn, Call: s, Go: goCalls[s], Defer: deferCalls[s]}
			if lit, ok := ast.Unparen(s.Fun).(*ast.FuncLit); ok {
				if t := p.ByLit[lit]; t != nil {
					cs.Targets = []*Fn{t}
				}
			} else if t := p.localClosure(fn, s); t != nil {
				cs.Targets = []*Fn{t}
			} else if f := p.Callee(fn, s); f != nil {
				cs.Callee = f
				if recv := f.Type().(*types.Signature).Recv(); recv != nil && types.IsInterface(recv.Type()) {
					cs.Iface = true
					cs.Targets = g.Implementers(f)
				} else if t := p.ByObj[f]; t != nil {
					cs.Targets = []*Fn{t}
				}
			}
			g.sites[fn] = append(g.sites[fn], cs)
		}
		return true
	})
	// value references
	walkNoLit(fn.Body, func(n ast.Node) bool {
		var id *ast.Ident
		switch e := n.(type) {
		case *ast.Ident:
			id = e
		default:
			return true
		}
		if f, ok := p.ObjOf(fn, id).(*types.Func); ok {
			// is this ident (or its selector parent) in call position?
			var top ast.Expr = id
			if se, ok := p.parent[id].(*ast.SelectorExpr); ok && se.Sel == id {
				top = se
			}
			if inCallPos[top] {
				return true
			}
			if t := p.ByObj[f.Origin()]; t != nil {
				g.valrefs[fn] = append(g.valrefs[fn], t)
			}
		}
		return true
	})
}

// Implementers: first-party concrete methods that implement interface method m.
func (g *CG) Implementers(m *types.Func) []*Fn {
	if r, ok := g.impls[m]; ok {
		return r
	}
	var out []*Fn
	recv := m.Type().(*types.Signature).Recv()
	if recv == nil {
		return nil
	}
	iface, _ := recv.Type().Underlying().(*types.Interface)
	if iface == nil {
		return nil
	}
	for _, nt := range g.named {
		for _, t := range []types.Type{nt, types.NewPointer(nt)} {
			if !types.Implements(t, iface) {
				continue
			}
			obj, _, _ := types.LookupFieldOrMethod(t, true, m.Pkg(), m.Name())
			if f, ok := obj.(*types.Func); ok {
				if fn := g.p.ByObj[f.Origin()]; fn != nil {
					dup := false
					for _, o := range out {
						if o == fn {
							dup = true
						}
					}
					if !dup {
						out = append(out, fn)
					}
				}
			}
		}
	}
	sort.Slice(out, func(i, j int) bool { return out[i].Name < out[j].Name })
	g.impls[m] = out
	return out
}

func (g *CG) Sites(fn *Fn) []CallSite { return g.sites[fn] }

// Succs: functions that may run as a consequence of running fn (callees, its literals, value refs).
func (g *CG) Succs(fn *Fn, withValueRefs bool) []*Fn {
	var out []*Fn
	for _, cs := range g.sites[fn] {
		out = append(out, cs.Targets...)
	}
	out = append(out, fn.Lits...)
	if withValueRefs {
		out = append(out, g.valrefs[fn]...)
	}
	return out
}

// Reach computes the closure of functions reachable from roots, with one witness path each.
func (g *CG) Reach(roots []*Fn, withValueRefs bool) map[*Fn][]string {
	seen := map[*Fn][]string{}
	var work []*Fn
	for _, r := range roots {
		if r == nil {
			continue
		}
		r = orig(r) // a helper-transparent view is not a node of the graph; its declared function is
		if _, ok := seen[r]; !ok {
			seen[r] = []string{r.Name}
			work = append(work, r)
		}
	}
	for len(work) > 0 {
		f := work[0]
		work = work[1:]
		for _, s := range g.Succs(f, withValueRefs) {
			if _, ok := seen[s]; !ok {
				seen[s] = append(append([]string{}, seen[f]...), s.Name)
				work = append(work, s)
			}
		}
	}
	return seen
}

// localClosure: the call's function is a local variable assigned exactly once, from a function literal.
func (p *Prog) localClosure(fn *Fn, c *ast.CallExpr) *Fn {
	id, ok := ast.Unparen(c.Fun).(*ast.Ident)
	if !ok {
		return nil
	}
	v, ok := p.ObjOf(fn, id).(*types.Var)
	if !ok || v.IsField() {
		return nil
	}
	var lit *ast.FuncLit
	n := 0
	ast.Inspect(fn.Root().Body, func(nd ast.Node) bool {
		switch s := nd.(type) {
		case *ast.AssignStmt:
			for i, l := range s.Lhs {
				if lid, ok := ast.Unparen(l).(*ast.Ident); ok && p.ObjOf(fn, lid) == types.Object(v) {
					n++
					if len(s.Rhs) == len(s.Lhs) {
						lit, _ = ast.Unparen(s.Rhs[i]).(*ast.FuncLit)
					}
				}
			}
		case *ast.ValueSpec:
			for i, nm := range s.Names {
				if p.ObjOf(fn, nm) == types.Object(v) && i < len(s.Values) {
					n++
					lit, _ = ast.Unparen(s.Values[i]).(*ast.FuncLit)
				}
			}
		}
		return true
	})
	if n != 1 || lit == nil {
		return nil
	}
	return p.ByLit[lit]
}

// CallReaches: the call's callee is (or can reach, through first-party code) a function satisfying pred.
func (c *Ctx) CallReaches(fn *Fn, call *ast.CallExpr, pred func(*types.Func) bool) bool {
	cf := c.P.Callee(fn, call)
	if cf == nil {
		return false
	}
	if pred(cf) {
		return true
	}
	var roots []*Fn
	for _, cs := range c.CG.Sites(orig(fn)) {
		if cs.Call == call {
			roots = append(roots, cs.Targets...)
		}
	}
	if len(roots) == 0 {
		if t := c.P.ByObj[cf]; t != nil {
			roots = []*Fn{t}
		}
	}
	for t := range c.CG.Reach(roots, false) {
		if t.Obj != nil && pred(t.Obj) {
			return true
		}
		// calls made by t to interface methods satisfying pred
		for _, cs := range c.CG.Sites(t) {
			if cs.Callee != nil && pred(cs.Callee) {
				return true
			}
		}
	}
	return false
}

// SSAReaches: same for an SSA call instruction.
func (c *Ctx) SSACallReaches(call ssaCall, pred func(*types.Func) bool) bool {
	f := calleeOf(call)
	if f == nil {
		return false
	}
	if pred(f) {
		return true
	}
	t := c.P.ByObj[f]
	if t == nil {
		return false
	}
	for u := range c.CG.Reach([]*Fn{t}, false) {
		if u.Obj != nil && pred(u.Obj) {
			return true
		}
		for _, cs := range c.CG.Sites(u) {
			if cs.Callee != nil && pred(cs.Callee) {
				return true
			}
		}
	}
	return false
}
