package main

// c03.go — Values() is sorted by the configured ordering: comparator provenance, re-sort after every stack
// insertion, visited gate on insertions, stop at the end hash.

import (
	"fmt"
	"go/ast"
	"go/token"
	"go/types"
	"sort"
	"strings"
)

func init() {
	register(&PropSpec{ID: "C03", Level: "other", Run: runC03,
		Explanation: "Decides structural necessary conditions of a complete, duplicate-free linearisation sorted by the configured ordering, on every path: (R-C03.1) every sorting.Sort call in the root package's log methods takes as comparator the receiver's SortFn field, and NewLog stores into SortFn a value derived from the caller's option (through NoZeroes) — the linearisation never uses a hard-wired comparator; (R-C03.2) in traverse, no pop of the work stack can be reached after a growth of the stack without an intervening sorting.Sort of that stack; (R-C03.3) every growth of the stack by a predecessor is dominated by a negative lookup of that entry in the visited set and followed on all paths by marking it visited, and every popped entry is both emitted and marked; (R-C03.4) reaching the end hash leaves the loop without another pop; (R-C03.5) the linearisation is recomputed from the log's current heads and index on every call (values() takes heads from the receiver and traverse looks predecessors up in the receiver's Entries). Not covered: that the walk visits every entry once and respects causality for every DAG.",
	})
}

func runC03(c *Ctx, r *Report) {
	p := c.P
	r.Doc("R-C03.1", "comparator provenance: Sort is driven by the receiver's configured SortFn; NewLog derives SortFn from the option")
	r.Doc("R-C03.2", "re-sort after every stack growth before the next pop")
	r.Doc("R-C03.3", "visited gate: stack growth only for unseen entries, which are then marked; popped entries are emitted and marked")
	r.Doc("R-C03.4", "the end hash stops the traversal")
	r.Doc("R-C03.15", "a constructor that names the heads itself takes them from the snapshot its loader returned, the one the entries come from (heads worked out from a list the caller holds are not the heads of what was loaded: the view starts from the wrong entries and misses or misplaces the rest)")
	explicitHeadsComeFromTheLoader(c, r, "R-C03.15")
	r.Doc("R-C03.5", "values() walks from the receiver's heads over the receiver's Entries")
	r.Doc("R-C03.7", "the predecessor index is extended in the same pass as the entry index (an entry's links are indexed iff the entry is inserted)")
	r.Doc("R-C03.8", "head maps handed out as snapshots are never mutated in place (Merge is pure)")
	r.Doc("R-C03.9", "a refused append or merge leaves the indexes the linearisation walks untouched (phantom links cut entries off from Values())")
	refusedOperationsLeaveNoTrace(c, r, "R-C03.9")
	r.Doc("R-C03.10", "the head scan the linearisation starts from is exact: predecessor links only, every entry examined (a head lost by FindHeads cuts its whole branch off from Values())")
	findHeadsShape(c, r, "R-C03.10")
	r.Doc("R-C03.11", "a reopened log linearises with the comparator it was configured with")
	optionForwarding(c, r, "R-C03.11", append(constructorLoaderSpecs(), constructorLogSpecs()...), "SortFn")
	r.Doc("R-C03.12", "the loops of the linearisation (pushing every predecessor of a popped entry) process every element")
	loopsComplete(c, r, "R-C03.12", func(fn *Fn) bool {
		return rootNamed(fn, "traverse", "values", "Values") || inPkgs(c.P, fn, "entry/sorting")
	}, "a predecessor is never pushed on the stack: its whole branch is missing from Values()")
	r.Doc("R-C03.13", "causal order rests on clocks: every appended entry's time exceeds every head's time (adopted from C04), and the heads the walk starts from depend on all four inputs of the merge (adopted from C01)")
	importRules(c, r, "C04", []string{"R-C04.2"}, "R-C03.13")
	r.Doc("R-C03.14", "every entry the log holds can be a head: the head-set constructor leaves nothing out for its content (adopted from C02)")
	importRules(c, r, "C02", []string{"R-C02.11"}, "R-C03.14")
	r.Doc("R-C03.16", "a size-bounded merge rebuilds the successor index from the entries it keeps (adopted from C16: a stale record of a cut-off successor hides the entry from the head search when it comes back with a later merge, and the walk from the heads never reaches it)")
	importRules(c, r, "C16", []string{"R-C16.9"}, "R-C03.16")
	mergedHeadsDeps(c, r, "R-C03.13", p.FuncI("", "IPFSLog", "Join"))
	pureMerge(c, r, "R-C03.8")
	{
		join := p.FuncI("", "IPFSLog", "Join")
		nextF, entriesF2 := p.Field("", "IPFSLog", "Next"), p.Field("", "IPFSLog", "Entries")
		loopOf := map[*types.Var]ast.Node{}
		posOf := map[*types.Var]token.Pos{}
		walkNoLit(join.Body, func(nd ast.Node) bool {
			call, ok := nd.(*ast.CallExpr)
			if !ok {
				return true
			}
			se, ok := ast.Unparen(call.Fun).(*ast.SelectorExpr)
			if !ok || se.Sel.Name != "Set" {
				return true
			}
			v, _ := p.FieldSel(join, se.X)
			if v != nextF && v != entriesF2 {
				return true
			}
			// outermost enclosing loop
			var outer ast.Node
			for cur := p.ParentIn(join, ast.Node(call)); cur != nil && cur != ast.Node(join.Body); cur = p.ParentIn(join, cur) {
				switch cur.(type) {
				case *ast.RangeStmt, *ast.ForStmt:
					outer = cur
				}
			}
			loopOf[v], posOf[v] = outer, call.Pos()
			return true
		})
		same := loopOf[nextF] != nil && loopOf[nextF] == loopOf[entriesF2]
		r.Check(same, "R-C03.7", r.Key("R-C03.7", join, "index-together", ""), posOf[nextF],
			"Next and Entries are extended by the same loop over the new items", "Join extends the predecessor index (Next) and the entry index (Entries) in different passes: when the merge is refused or interrupted between them the predecessor index names entries the log does not hold, and a later merge drops a legitimate head from Values()")
	}
	r.Doc("R-C03.6", "the heads/index the linearisation reads are replaced atomically with respect to other operations")
	appendSingleSection(c, r, "R-C03.6", "an operation landing in the window has its heads overwritten, so entries stay in the index but vanish from Values()")
	sortFn := p.FuncObj("entry/sorting", "", "Sort")
	sortFnF := p.Field("", "IPFSLog", "SortFn")
	logT := p.Named("", "IPFSLog")

	// R-C03.1
	nSort := 0
	for _, fn := range p.Fns {
		root := fn.Root()
		if fn.Pkg.PkgPath != p.Mod || root.Decl == nil || root.Decl.Recv == nil {
			continue
		}
		if namedOf(root.Pkg.TypesInfo.TypeOf(root.Decl.Recv.List[0].Type)) != logT {
			continue
		}
		recv := root.Pkg.TypesInfo.Defs[root.Decl.Recv.List[0].Names[0]]
		walkNoLit(fn.Body, func(n ast.Node) bool {
			call, ok := n.(*ast.CallExpr)
			if !ok || p.Callee(fn, call) != sortFn || len(call.Args) != 3 {
				return true
			}
			nSort++
			v, b := p.FieldSel(fn, call.Args[0])
			ok2 := v == sortFnF
			if ok2 {
				id, isId := ast.Unparen(b).(*ast.Ident)
				ok2 = isId && p.ObjOf(fn, id) == recv
			}
			r.Check(ok2, "R-C03.1", r.Key("R-C03.1", fn, "Sort", ""), call.Pos(),
				"sorted with the log's configured comparator", "a log method sorts with "+types.ExprString(call.Args[0])+" instead of the log's configured SortFn: with a non-default ordering the linearisation (or heads/manifest order) is no longer sorted by the configured ordering")
			return true
		})
	}
	r.Floor("R-C03.1", "sorting.Sort calls in IPFSLog methods", nSort, 2)
	// NewLog: SortFn initialiser derives from options.SortFn
	newLog := p.FuncI("", "", "NewLog")
	optSort := p.Field("iface", "LogOptions", "SortFn")
	okInit := false
	walkNoLit(newLog.Body, func(n ast.Node) bool {
		cl, ok := n.(*ast.CompositeLit)
		if !ok || namedOf(p.TypeOf(newLog, cl)) != logT {
			return true
		}
		for _, el := range cl.Elts {
			if kv, ok := el.(*ast.KeyValueExpr); ok && kv.Key.(*ast.Ident).Name == "SortFn" {
				ast.Inspect(kv.Value, func(m ast.Node) bool {
					if e, ok := m.(ast.Expr); ok {
						if v, _ := p.FieldSel(newLog, e); v == optSort {
							okInit = true
						}
					}
					return true
				})
			}
		}
		return true
	})
	r.Check(okInit, "R-C03.1", r.Key("R-C03.1", newLog, "SortFn-init", ""), newLog.Body.Pos(), "NewLog derives the log's comparator from the caller's option", "NewLog does not derive the log's SortFn from options.SortFn: the configured ordering is ignored")

	// traverse
	tr := p.FuncI("", "IPFSLog", "traverse")
	// the work stack: the slice variable that is popped with x[0] and re-sliced x = x[1:]
	var stack types.Object
	walkNoLit(tr.Body, func(n ast.Node) bool {
		if as, ok := n.(*ast.AssignStmt); ok && len(as.Lhs) == 1 && len(as.Rhs) == 1 {
			if id, ok := as.Lhs[0].(*ast.Ident); ok {
				if se, ok := ast.Unparen(as.Rhs[0]).(*ast.SliceExpr); ok && se.High == nil {
					if id2, ok := ast.Unparen(se.X).(*ast.Ident); ok && p.ObjOf(tr, id) == p.ObjOf(tr, id2) {
						stack = p.ObjOf(tr, id)
					}
				}
			}
		}
		return true
	})
	if stack == nil {
		r.Undecided("R-C03.2", r.Key("R-C03.2", tr, "stack", ""), tr.Body.Pos(), "no work stack (a slice variable popped by x = x[1:]) found in traverse")
		return
	}
	isStack := func(e ast.Expr) bool {
		id, ok := ast.Unparen(e).(*ast.Ident)
		return ok && p.ObjOf(tr, id) == stack
	}
	isPop := func(n ast.Node) (ast.Expr, bool) { // x[0] read
		if ix, ok := n.(*ast.IndexExpr); ok && isStack(ix.X) {
			return ix, true
		}
		return nil, false
	}
	// visited set: a map[string]struct{} / map[string]bool local
	var visited types.Object
	walkNoLit(tr.Body, func(n ast.Node) bool {
		if as, ok := n.(*ast.AssignStmt); ok {
			for _, l := range as.Lhs {
				if ix, ok := ast.Unparen(l).(*ast.IndexExpr); ok {
					if id, ok := ast.Unparen(ix.X).(*ast.Ident); ok {
						if _, isMap := p.TypeOf(tr, id).Underlying().(*types.Map); isMap && visited == nil {
							visited = p.ObjOf(tr, id)
						}
					}
				}
			}
		}
		return true
	})
	endParam := types.Object(nil)
	for i := 0; ; i++ {
		o := paramObj(tr, i)
		if o == nil {
			break
		}
		if b, ok := o.Type().Underlying().(*types.Basic); ok && b.Kind() == types.String {
			endParam = o
		}
	}
	node := func(n ast.Node, f Facts) {
		walkNoLit(n, func(nd ast.Node) bool {
			switch x := nd.(type) {
			case *ast.AssignStmt:
				for i, l := range x.Lhs {
					if isStack(l) && i < len(x.Rhs) {
						rhs := ast.Unparen(x.Rhs[i])
						if se, ok := rhs.(*ast.SliceExpr); ok && isStack(se.X) {
							continue // pop / re-slice keeps the order
						}
						f["dirty"] = true
						f.DelPrefix("dirty@")
						// which entry is pushed?
						if call, ok := rhs.(*ast.CallExpr); ok && p.Builtin(tr, call) == "append" {
							ast.Inspect(call, func(m ast.Node) bool {
								if id, ok := m.(*ast.Ident); ok {
									if v, ok := p.ObjOf(tr, id).(*types.Var); ok && v != stack && isNamed(v.Type(), p.pkgPath("iface"), "IPFSLogEntry") {
										f["pushed|"+p.ID(v)] = true
									}
								}
								return true
							})
						}
					}
					// visited[key(e)] = …
					if ix, ok := ast.Unparen(l).(*ast.IndexExpr); ok {
						if id, ok := ast.Unparen(ix.X).(*ast.Ident); ok && p.ObjOf(tr, id) == visited {
							if v := entryVarIn(p, tr, ix.Index); v != nil {
								delete(f, "pushed|"+p.ID(v))
								f["marked|"+p.ID(v)] = true
							}
						}
					}
				}
			case *ast.CallExpr:
				if p.Callee(tr, x) == sortFn && len(x.Args) == 3 && isStack(x.Args[1]) {
					delete(f, "dirty")
					f.DelPrefix("dirty@")
				}
			}
			return true
		})
		// boolean flags that record "the stack changed": flag = true while dirty ties the two together
		walkNoLit(n, func(nd ast.Node) bool {
			if as, ok := nd.(*ast.AssignStmt); ok && len(as.Lhs) == 1 && len(as.Rhs) == 1 {
				if id, ok := as.Lhs[0].(*ast.Ident); ok {
					if rid, ok := ast.Unparen(as.Rhs[0]).(*ast.Ident); ok && (rid.Name == "true" || rid.Name == "false") {
						if o := p.ObjOf(tr, id); o != nil {
							k := "dirty@" + p.ID(o)
							if rid.Name == "true" && f["dirty"] {
								delete(f, "dirty")
								f[k] = true
							}
							if rid.Name == "false" && f[k] {
								delete(f, k)
								f["dirty"] = true
							}
						}
					}
				}
			}
			return true
		})
	}
	may := &Flow{P: p, Fn: tr, May: true, Entry: Facts{}, Node: node}
	may.Edge = func(cond ast.Expr, taken bool, f Facts) {
		for _, a := range splitCond(cond, taken) {
			if id, ok := ast.Unparen(a.E).(*ast.Ident); ok && !a.Truth {
				if o := p.ObjOf(tr, id); o != nil {
					delete(f, "dirty@"+p.ID(o)) // on this edge the flag is false: the flagged-dirty paths do not come here
				}
			}
			if be, ok := ast.Unparen(a.E).(*ast.BinaryExpr); ok && ((be.Op == token.EQL && a.Truth) || (be.Op == token.NEQ && !a.Truth)) {
				for _, side := range []ast.Expr{be.X, be.Y} {
					if id, ok := ast.Unparen(side).(*ast.Ident); ok && endParam != nil && p.ObjOf(tr, id) == endParam {
						f["atEnd"] = true
					}
				}
			}
		}
	}
	may.Run()
	npop, ngrow := 0, 0
	may.Visit(func(_ *cfgBlk, n ast.Node, before Facts) {
		st := before.Clone()
		walkNoLit(n, func(nd ast.Node) bool {
			if e, ok := isPop(nd); ok {
				// only reads (not the LHS of an assignment)
				if as, isAs := p.parent[e].(*ast.AssignStmt); isAs {
					for _, l := range as.Lhs {
						if l == e {
							return true
						}
					}
				}
				npop++
				r.Check(!st["dirty"] && !st.HasPrefix("dirty@"), "R-C03.2", r.Key("R-C03.2", tr, "pop", ""), e.Pos(),
					"the stack is sorted whenever the next entry is taken from it", "an entry can be popped from the work stack after the stack grew without being re-sorted with the configured comparator: the linearisation is no longer sorted (entries appear before entries they should follow)")
				r.Check(!st["atEnd"], "R-C03.4", r.Key("R-C03.4", tr, "pop-after-end", ""), e.Pos(),
					"no entry is taken from the stack once the end hash was reached", "after the end hash was reached the loop can take another entry from the stack: traversal continues past the requested lower bound")
			}
			return true
		})
	})
	r.Floor("R-C03.2", "pops of the traversal stack", npop, 1)
	// growth gate (must facts on the negative visited lookup)
	must := &Flow{P: p, Fn: tr, Entry: Facts{}}
	must.Edge = func(cond ast.Expr, taken bool, f Facts) {
		// `_, ok := visited[key(e)]; ok` false edge
		for _, a := range splitCond(cond, taken) {
			if id, ok := ast.Unparen(a.E).(*ast.Ident); ok && !a.Truth {
				if v := lookupSubject(p, tr, id, visited); v != nil {
					f["unseen|"+p.ID(v)] = true
				}
			}
			// the lookup through a membership helper: `hasKey(visited, key(e))` false
			if call, ok := ast.Unparen(a.E).(*ast.CallExpr); ok && !a.Truth {
				if cf := p.Callee(tr, call); cf != nil {
					if mi, ki, ok := membershipHelper(p, p.ByObj[cf]); ok && mi < len(call.Args) && ki < len(call.Args) {
						if mid, ok := ast.Unparen(call.Args[mi]).(*ast.Ident); ok && p.ObjOf(tr, mid) == visited {
							if v := entryVarIn(p, tr, call.Args[ki]); v != nil {
								f["unseen|"+p.ID(v)] = true
							}
						}
					}
				}
			}
		}
	}
	must.Node = func(n ast.Node, f Facts) {
		for _, id := range assignedIdents(n) {
			if o := p.ObjOf(tr, id); o != nil {
				delete(f, "unseen|"+p.ID(o))
			}
		}
	}
	must.Run()
	must.Visit(func(_ *cfgBlk, n ast.Node, before Facts) {
		walkNoLit(n, func(nd ast.Node) bool {
			as, ok := nd.(*ast.AssignStmt)
			if !ok {
				return true
			}
			for i, l := range as.Lhs {
				if !isStack(l) || i >= len(as.Rhs) {
					continue
				}
				call, ok := ast.Unparen(as.Rhs[i]).(*ast.CallExpr)
				if !ok || p.Builtin(tr, call) != "append" {
					continue
				}
				ast.Inspect(call, func(m ast.Node) bool {
					if id, ok := m.(*ast.Ident); ok {
						if v, ok := p.ObjOf(tr, id).(*types.Var); ok && v != stack && isNamed(v.Type(), p.pkgPath("iface"), "IPFSLogEntry") {
							ngrow++
							r.Check(before["unseen|"+p.ID(v)], "R-C03.3", r.Key("R-C03.3", tr, "push", v.Name()), as.Pos(),
								"a predecessor is pushed only after a negative lookup in the visited set", "a predecessor is pushed on the work stack without a dominating negative lookup in the visited set: entries reachable along several paths (diamonds) appear twice in the walk")
						}
					}
					return true
				})
			}
			return true
		})
	})
	r.Floor("R-C03.3", "stack growths by a predecessor", ngrow, 1)
	// every push is followed by marking: may-fact pushed|v must not reach the loop head pop
	leak := ""
	may.Visit(func(_ *cfgBlk, n ast.Node, before Facts) {
		walkNoLit(n, func(nd ast.Node) bool {
			if e, ok := isPop(nd); ok {
				for k := range before {
					if strings.HasPrefix(k, "pushed|") {
						leak = p.Pos(e.Pos())
					}
				}
			}
			return true
		})
	})
	r.Check(leak == "", "R-C03.3", r.Key("R-C03.3", tr, "mark-after-push", ""), tr.Body.Pos(),
		"every pushed predecessor is marked visited before the next pop", "a pushed predecessor can reach the next pop (at "+leak+") without being marked visited: it is pushed again through another successor")

	// every popped entry is emitted and marked visited before its predecessors are pushed (a root that is also a
	// predecessor of another root is otherwise taken twice and counted twice against the requested amount)
	{
		var popped types.Object
		walkNoLit(tr.Body, func(n ast.Node) bool {
			if as, ok := n.(*ast.AssignStmt); ok && len(as.Lhs) == 1 && len(as.Rhs) == 1 {
				if _, ok := isPop(ast.Unparen(as.Rhs[0])); ok {
					if id, ok := as.Lhs[0].(*ast.Ident); ok {
						popped = p.ObjOf(tr, id)
					}
				}
			}
			return true
		})
		key := r.Key("R-C03.3", tr, "popped-emitted-marked", "")
		if popped == nil {
			r.Violate("R-C03.3", key, tr.Body.Pos(), "no variable receives the entry taken from the stack")
		} else {
			pf := &Flow{P: p, Fn: tr, Entry: Facts{}}
			pf.Node = func(n ast.Node, f Facts) {
				walkNoLit(n, func(nd ast.Node) bool {
					switch x := nd.(type) {
					case *ast.AssignStmt:
						for i, l := range x.Lhs {
							if id, ok := ast.Unparen(l).(*ast.Ident); ok && p.ObjOf(tr, id) == popped && i < len(x.Rhs) {
								delete(f, "emitted")
								delete(f, "marked")
							}
							if ix, ok := ast.Unparen(l).(*ast.IndexExpr); ok {
								if id, ok := ast.Unparen(ix.X).(*ast.Ident); ok && p.ObjOf(tr, id) == visited {
									if v := entryVarIn(p, tr, ix.Index); v != nil && types.Object(v) == popped {
										f["marked"] = true
									}
								}
							}
						}
					case *ast.CallExpr:
						if se, ok := ast.Unparen(x.Fun).(*ast.SelectorExpr); ok && se.Sel.Name == "Set" && len(x.Args) == 2 {
							if id, ok := ast.Unparen(x.Args[1]).(*ast.Ident); ok && p.ObjOf(tr, id) == popped {
								f["emitted"] = true
							}
						}
					}
					return true
				})
			}
			pf.Run()
			npush := 0
			bad := ""
			pf.Visit(func(_ *cfgBlk, n ast.Node, before Facts) {
				walkNoLit(n, func(nd ast.Node) bool {
					as, ok := nd.(*ast.AssignStmt)
					if !ok {
						return true
					}
					for i, l := range as.Lhs {
						if !isStack(l) || i >= len(as.Rhs) {
							continue
						}
						if call, ok := ast.Unparen(as.Rhs[i]).(*ast.CallExpr); ok && p.Builtin(tr, call) == "append" {
							npush++
							if !before["emitted"] || !before["marked"] {
								bad = fmt.Sprintf("%s (emitted=%v, marked=%v)", p.Pos(as.Pos()), before["emitted"], before["marked"])
							}
						}
					}
					return true
				})
			})
			r.Check(bad == "" && npush > 0, "R-C03.3", key, tr.Body.Pos(), "the entry taken from the stack is emitted and marked visited before its predecessors are pushed",
				"predecessors are pushed at "+bad+" although the entry just taken from the stack was not both emitted and marked visited: a start entry that is also in the causal past of another start entry is taken from the stack twice — it is counted twice against the requested amount (the iterator returns fewer distinct entries than asked)")
		}
	}

	// the start entries are on the stack before anything is marked: unless they are marked visited up front (or a
	// popped entry that is already marked is skipped), a start entry that lies in the causal past of another one is
	// pushed a second time, taken twice and counted twice against the requested amount
	{
		var mainLoop *ast.ForStmt
		walkNoLit(tr.Body, func(n ast.Node) bool {
			if fs, ok := n.(*ast.ForStmt); ok && mainLoop == nil {
				hasPop := false
				walkNoLit(fs.Body, func(m ast.Node) bool {
					if _, ok := isPop(m); ok {
						hasPop = true
					}
					return true
				})
				if hasPop {
					mainLoop = fs
				}
			}
			return true
		})
		marked := false
		if mainLoop != nil {
			// (a) a loop before the walk that marks what it ranges over
			walkNoLit(tr.Body, func(n ast.Node) bool {
				rs, ok := n.(*ast.RangeStmt)
				if !ok || rs.Pos() >= mainLoop.Pos() {
					return true
				}
				rangeVars := map[types.Object]bool{}
				for _, kv := range []ast.Expr{rs.Key, rs.Value} {
					if id, ok := kv.(*ast.Ident); ok && id.Name != "_" {
						rangeVars[p.ObjOf(tr, id)] = true
					}
				}
				walkNoLit(rs.Body, func(m ast.Node) bool {
					as, ok := m.(*ast.AssignStmt)
					if !ok {
						return true
					}
					for _, l := range as.Lhs {
						ix, ok := ast.Unparen(l).(*ast.IndexExpr)
						if !ok {
							continue
						}
						if id, ok := ast.Unparen(ix.X).(*ast.Ident); !ok || p.ObjOf(tr, id) != visited {
							continue
						}
						ast.Inspect(ix.Index, func(k ast.Node) bool {
							if id, ok := k.(*ast.Ident); ok && rangeVars[p.ObjOf(tr, id)] {
								marked = true
							}
							return true
						})
						if v := entryVarIn(p, tr, ix.Index); v != nil && rangeVars[v] {
							marked = true
						}
					}
					return true
				})
				return true
			})
			// (b) a popped entry that is already marked is skipped before it is counted: a statement of the walk's
			// own body (not of the loop over the predecessors) whose subject is the variable the pop defines
			var poppedVar types.Object
			for _, st := range mainLoop.Body.List {
				if as, ok := st.(*ast.AssignStmt); ok && len(as.Lhs) == 1 && len(as.Rhs) == 1 {
					if _, ok := isPop(ast.Unparen(as.Rhs[0])); ok {
						if id, ok := as.Lhs[0].(*ast.Ident); ok {
							poppedVar = p.ObjOf(tr, id)
						}
					}
				}
			}
			for _, st := range mainLoop.Body.List {
				ifs, ok := st.(*ast.IfStmt)
				if !ok || len(ifs.Body.List) == 0 {
					continue
				}
				if br, ok := ifs.Body.List[len(ifs.Body.List)-1].(*ast.BranchStmt); !ok || br.Tok != token.CONTINUE {
					continue
				}
				for _, a := range splitCond(ifs.Cond, true) {
					if id, ok := ast.Unparen(a.E).(*ast.Ident); ok && a.Truth {
						if v := lookupSubject(p, tr, id, visited); v != nil && poppedVar != nil && types.Object(v) == poppedVar {
							marked = true
						}
					}
				}
				if init, ok := ifs.Init.(*ast.AssignStmt); ok && len(init.Lhs) == 2 {
					if id, ok := init.Lhs[1].(*ast.Ident); ok {
						if v := lookupSubject(p, tr, id, visited); v != nil && poppedVar != nil && types.Object(v) == poppedVar {
							marked = true
						}
					}
				}
			}
		}
		r.Check(marked, "R-C03.3", r.Key("R-C03.3", tr, "start-marked", ""), tr.Body.Pos(),
			"the start entries are marked visited before the walk (or an already marked entry is skipped when it is taken)",
			"the start entries are put on the stack without being marked visited, and nothing skips an entry that is taken a second time: a start entry that lies in the causal past of another start entry is pushed again when the walk reaches it, taken twice and counted twice — with an amount the iteration stops early and emits fewer entries than asked for and available")
	}

	// one key derivation for the visited set: every store into it and every lookup in it computes the key from
	// the entry through the same chain of calls (an entry marked under one representation of its hash and looked
	// up under another is never found)
	if visited != nil {
		shapes := map[string]token.Pos{}
		var shapeOf func(e ast.Expr, depth int) string
		shapeOf = func(e ast.Expr, depth int) string {
			e = ast.Unparen(e)
			switch x := e.(type) {
			case *ast.Ident:
				if v, ok := p.ObjOf(tr, x).(*types.Var); ok && depth < 3 && !v.IsField() {
					if isNamed(v.Type(), p.pkgPath("iface"), "IPFSLogEntry") {
						return "entry"
					}
					if d := p.SoleDef(tr, v); d != nil {
						return shapeOf(d, depth+1)
					}
				}
				return "?" + x.Name
			case *ast.CallExpr:
				if se, ok := ast.Unparen(x.Fun).(*ast.SelectorExpr); ok && len(x.Args) == 0 {
					return shapeOf(se.X, depth) + "." + se.Sel.Name + "()"
				}
			}
			return "?" + types.ExprString(e)
		}
		note := func(k ast.Expr) {
			sh := shapeOf(k, 0)
			if _, ok := shapes[sh]; !ok {
				shapes[sh] = k.Pos()
			}
		}
		walkNoLit(tr.Body, func(n ast.Node) bool {
			switch x := n.(type) {
			case *ast.IndexExpr:
				if id, ok := ast.Unparen(x.X).(*ast.Ident); ok && p.ObjOf(tr, id) == visited {
					note(x.Index)
				}
			case *ast.CallExpr:
				if cf := p.Callee(tr, x); cf != nil {
					if mi, ki, ok := membershipHelper(p, p.ByObj[cf]); ok && mi < len(x.Args) && ki < len(x.Args) {
						if mid, ok := ast.Unparen(x.Args[mi]).(*ast.Ident); ok && p.ObjOf(tr, mid) == visited {
							note(x.Args[ki])
						}
					}
				}
			}
			return true
		})
		var list []string
		for sh := range shapes {
			list = append(list, sh)
		}
		sort.Strings(list)
		pos := tr.Body.Pos()
		if len(list) > 1 {
			pos = shapes[list[1]]
		}
		r.Check(len(list) == 1, "R-C03.3", r.Key("R-C03.3", tr, "one-key-derivation", ""), pos,
			"every store into and lookup in the visited set derives the key the same way ("+strings.Join(list, "")+")",
			"the visited set is keyed in "+fmt.Sprint(len(list))+" different ways ("+strings.Join(list, " / ")+"): an entry marked under one form of its hash is not found under the other — the start entries, or entries reached along two paths, are taken twice and counted twice against the requested amount")
	}

	// R-C03.5
	vals := p.FuncI("", "IPFSLog", "values")
	headsF, entriesF := p.Field("", "IPFSLog", "heads"), p.Field("", "IPFSLog", "Entries")
	usesHeads, usesEntries := false, false
	walkNoLit(vals.Body, func(n ast.Node) bool {
		if e, ok := n.(ast.Expr); ok {
			if v, _ := p.FieldSel(vals, e); v == headsF {
				usesHeads = true
			}
		}
		return true
	})
	walkNoLit(tr.Body, func(n ast.Node) bool {
		if call, ok := n.(*ast.CallExpr); ok {
			if se, ok := ast.Unparen(call.Fun).(*ast.SelectorExpr); ok && (se.Sel.Name == "Get" || se.Sel.Name == "UnsafeGet") {
				if v, _ := p.FieldSel(tr, se.X); v == entriesF {
					usesEntries = true
				}
			}
		}
		return true
	})
	r.Check(usesHeads && usesEntries, "R-C03.5", r.Key("R-C03.5", vals, "inputs", ""), vals.Body.Pos(),
		"the linearisation starts at the receiver's current heads and resolves predecessors in the receiver's current index",
		fmt.Sprintf("the linearisation does not read the log's current state (heads=%v, Entries lookup=%v)", usesHeads, usesEntries))
}

// entryVarIn: the entry-typed variable an expression like e.GetHash().String() is about. A local assigned
// exactly once (`hash := e.GetHash().String()`) stands for its defining expression.
func entryVarIn(p *Prog, fn *Fn, e ast.Expr) *types.Var {
	return entryVarInDepth(p, fn, e, 0)
}

func entryVarInDepth(p *Prog, fn *Fn, e ast.Expr, depth int) *types.Var {
	var out *types.Var
	ast.Inspect(e, func(n ast.Node) bool {
		if id, ok := n.(*ast.Ident); ok {
			if v, ok := p.ObjOf(fn, id).(*types.Var); ok {
				if isNamed(v.Type(), p.pkgPath("iface"), "IPFSLogEntry") {
					out = v
				} else if depth < 3 && !v.IsField() {
					if def := p.SoleDef(fn, v); def != nil {
						if w := entryVarInDepth(p, fn, def, depth+1); w != nil {
							out = w
						}
					}
				}
			}
		}
		return true
	})
	return out
}

// lookupSubject: ok variable defined by `_, ok := visited[key(e)]` → the entry variable e.
func lookupSubject(p *Prog, fn *Fn, okIdent *ast.Ident, visited types.Object) *types.Var {
	o := p.ObjOf(fn, okIdent)
	var out *types.Var
	ast.Inspect(fn.Body, func(n ast.Node) bool {
		as, ok := n.(*ast.AssignStmt)
		if !ok || len(as.Lhs) != 2 || len(as.Rhs) != 1 {
			return true
		}
		id, ok := as.Lhs[1].(*ast.Ident)
		if !ok || p.ObjOf(fn, id) != o {
			return true
		}
		if ix, ok := ast.Unparen(as.Rhs[0]).(*ast.IndexExpr); ok {
			if mid, ok := ast.Unparen(ix.X).(*ast.Ident); ok && p.ObjOf(fn, mid) == visited {
				out = entryVarIn(p, fn, ix.Index)
			}
		}
		return true
	})
	return out
}

// endHashStops: in traverse, once the comparison with the end-hash parameter succeeded no further entry is
// taken from the work stack (shared by C03 and C15).
func endHashStops(c *Ctx, r *Report, rule string) {
	p := c.P
	tr := p.FuncI("", "IPFSLog", "traverse")
	var endParam types.Object
	for i := 0; ; i++ {
		o := paramObj(tr, i)
		if o == nil {
			break
		}
		if b, ok := o.Type().Underlying().(*types.Basic); ok && b.Kind() == types.String {
			endParam = o
		}
	}
	if endParam == nil {
		r.Undecided(rule, r.Key(rule, tr, "end-hash", ""), tr.Body.Pos(), "traverse has no end-hash parameter")
		return
	}
	may := &Flow{P: p, Fn: tr, May: true, Entry: Facts{}}
	may.Edge = func(cond ast.Expr, taken bool, f Facts) {
		for _, a := range splitCond(cond, taken) {
			if be, ok := ast.Unparen(a.E).(*ast.BinaryExpr); ok && ((be.Op == token.EQL && a.Truth) || (be.Op == token.NEQ && !a.Truth)) {
				for _, side := range []ast.Expr{be.X, be.Y} {
					if id, ok := ast.Unparen(side).(*ast.Ident); ok && p.ObjOf(tr, id) == endParam {
						f["atEnd"] = true
					}
				}
			}
		}
	}
	may.Run()
	n, tested := 0, false
	walkNoLit(tr.Body, func(nd ast.Node) bool {
		if id, ok := nd.(*ast.Ident); ok && p.ObjOf(tr, id) == endParam {
			if _, isBin := p.parent[id].(*ast.BinaryExpr); isBin {
				tested = true
			}
		}
		return true
	})
	r.Check(tested, rule, r.Key(rule, tr, "end-hash-tested", ""), tr.Body.Pos(), "the traversal compares visited entries with the end hash", "the traversal never compares with the end hash: a lower bound has no effect")
	may.Visit(func(_ *cfgBlk, nd ast.Node, before Facts) {
		walkNoLit(nd, func(x ast.Node) bool {
			ix, ok := x.(*ast.IndexExpr)
			if !ok {
				return true
			}
			if _, isSlice := p.TypeOf(tr, ix.X).Underlying().(*types.Slice); !isSlice {
				return true
			}
			if as, isAs := p.parent[ix].(*ast.AssignStmt); isAs {
				for _, l := range as.Lhs {
					if l == ast.Expr(ix) {
						return true
					}
				}
			}
			if lit, ok := ast.Unparen(ix.Index).(*ast.BasicLit); !ok || lit.Value != "0" {
				return true
			}
			n++
			r.Check(!before["atEnd"], rule, r.Key(rule, tr, "pop-after-end", ""), ix.Pos(),
				"no entry is taken from the stack once the end hash was reached", "after the end hash was reached the loop can take another entry from the stack: iteration with a lower bound runs past the bound (on forked logs the concurrent branch and the bound itself are emitted)")
			return true
		})
	})
	r.Floor(rule, "pops of the traversal stack", n, 1)
}

// appendSingleSection: Append's read of the heads and its stores lie in one critical section (shared by C03/C04/C05).
func appendSingleSection(c *Ctx, r *Report, rule string, consequence string) {
	le := repoLockEngine(c)
	app := c.P.Func("", "IPFSLog", "Append")
	bad := false
	for _, s := range le.Splits {
		if s.Fn.Root() == orig(app) {
			bad = true
			r.Violate(rule, r.Key(rule, app, "store-after-reopen", s.Field), s.Pos, "Append releases the log's lock between reading the heads and storing "+s.Field+": "+consequence)
		}
	}
	// the section must actually exist: Append holds the write lock when it stores
	held := false
	for _, a := range le.Accesses {
		if a.Fn.Root() == orig(app) && a.Kind != "load" && a.Held {
			held = true
		}
	}
	if !bad {
		r.Check(held, rule, r.Key(rule, app, "single-region", ""), app.Body.Pos(), "Append reads the heads and installs the new entry in one uninterrupted critical section", "Append does not hold the log's write lock when it installs the new entry")
	}
}

// membershipHelper: h answers whether a key is in a map — `_, ok := m[k]; return ok`, `if _, ok := m[k]; ok
// { return true }; return false`, or the same with the branches the other way round are NOT accepted (that
// would be a negated membership); returns the indices of the map and key parameters.
func membershipHelper(p *Prog, h *Fn) (mapIdx, keyIdx int, ok bool) {
	if h == nil || h.Body == nil || h.Obj == nil {
		return 0, 0, false
	}
	sig := h.Obj.Type().(*types.Signature)
	if sig.Results().Len() != 1 || !isBoolType(sig.Results().At(0).Type()) || len(h.Body.List) != 2 {
		return 0, 0, false
	}
	paramIdx := func(e ast.Expr) int {
		id, isID := ast.Unparen(e).(*ast.Ident)
		if !isID {
			return -1
		}
		for i := 0; i < sig.Params().Len(); i++ {
			if paramObjAny(h, i) == p.ObjOf(h, id) {
				return i
			}
		}
		return -1
	}
	lookup := func(st ast.Stmt) (okObj types.Object, mi, ki int) {
		as, isAs := st.(*ast.AssignStmt)
		if !isAs || len(as.Lhs) != 2 || len(as.Rhs) != 1 {
			return nil, -1, -1
		}
		ix, isIx := ast.Unparen(as.Rhs[0]).(*ast.IndexExpr)
		if !isIx {
			return nil, -1, -1
		}
		if _, isMap := p.TypeOf(h, ix.X).Underlying().(*types.Map); !isMap {
			return nil, -1, -1
		}
		oid, isID := as.Lhs[1].(*ast.Ident)
		if !isID {
			return nil, -1, -1
		}
		return p.ObjOf(h, oid), paramIdx(ix.X), paramIdx(ix.Index)
	}
	isIdentOf := func(e ast.Expr, o types.Object) bool {
		id, isID := ast.Unparen(e).(*ast.Ident)
		return isID && o != nil && p.ObjOf(h, id) == o
	}
	isConst := func(e ast.Expr, name string) bool {
		id, isID := ast.Unparen(e).(*ast.Ident)
		return isID && id.Name == name
	}
	ret, isRet := h.Body.List[1].(*ast.ReturnStmt)
	if !isRet || len(ret.Results) != 1 {
		return 0, 0, false
	}
	// _, ok := m[k]; return ok
	if okObj, mi, ki := lookup(h.Body.List[0]); okObj != nil && mi >= 0 && ki >= 0 && isIdentOf(ret.Results[0], okObj) {
		return mi, ki, true
	}
	// if _, ok := m[k]; ok { return true }; return false
	if is, isIf := h.Body.List[0].(*ast.IfStmt); isIf && is.Init != nil && is.Else == nil && len(is.Body.List) == 1 {
		if okObj, mi, ki := lookup(is.Init); okObj != nil && mi >= 0 && ki >= 0 && isIdentOf(is.Cond, okObj) {
			if r2, isR := is.Body.List[0].(*ast.ReturnStmt); isR && len(r2.Results) == 1 && isConst(r2.Results[0], "true") && isConst(ret.Results[0], "false") {
				return mi, ki, true
			}
		}
	}
	return 0, 0, false
}
