package main

// errflow.go — E11, error discipline. An error result that is stored in a variable must be examined (tested,
// returned, wrapped, passed on) on every path before the variable is overwritten or the function ends; an error
// result must not be sent to the blank identifier. Go code recycles one `err` variable through a function, so a
// dropped or weakened check does not stop the build: the next call simply overwrites the unexamined error and
// the function carries on with the zero values of the failed step.

import (
	"fmt"
	"go/ast"
	"go/token"
	"go/types"
	"sort"
	"strings"
)

type errDrop struct {
	Fn   *Fn
	Pos  token.Pos // where the error was produced
	At   token.Pos // where it was overwritten / the exit
	Var  string
	Call string
	Kind string // overwritten | unexamined-at-exit | blank
}

// errorConstructor: calls that make an error value rather than report a failure of an operation.
func errorConstructor(p *Prog, fn *Fn, call *ast.CallExpr) bool {
	if se, ok := ast.Unparen(call.Fun).(*ast.SelectorExpr); ok {
		switch se.Sel.Name {
		case "Errorf", "New", "Wrap", "Wrapf", "WithStack", "Join":
			return true
		}
	}
	return false
}

// errDrops analyses one function (not its literals).
func errDrops(p *Prog, fn *Fn) []errDrop {
	if fn.Body == nil || fn.CFG == nil {
		return nil
	}
	// variables referenced inside nested literals escape the flow analysis
	captured := map[types.Object]bool{}
	walkNoLit(fn.Body, func(n ast.Node) bool {
		if lit, ok := n.(*ast.FuncLit); ok {
			ast.Inspect(lit.Body, func(m ast.Node) bool {
				if id, ok := m.(*ast.Ident); ok {
					if o := p.ObjOf(fn, id); o != nil {
						captured[o] = true
					}
				}
				return true
			})
		}
		return true
	})
	// named error results are read by a bare return
	namedErr := map[types.Object]bool{}
	if fn.Type != nil && fn.Type.Results != nil {
		for _, f := range fn.Type.Results.List {
			for _, nm := range f.Names {
				if o := p.ObjOf(fn, nm); o != nil && isErrorType(o.Type()) {
					namedErr[o] = true
				}
			}
		}
	}
	callName := func(call *ast.CallExpr) string {
		return types.ExprString(call.Fun)
	}
	var drops []errDrop
	seen := map[string]bool{}
	report := func(d errDrop) {
		k := fmt.Sprintf("%d|%d|%s", d.Pos, d.At, d.Kind)
		if !seen[k] {
			seen[k] = true
			drops = append(drops, d)
		}
	}
	type prod struct {
		pos  token.Pos
		call string
		name string
	}
	prods := map[string]prod{} // fact -> producer
	fl := &Flow{P: p, Fn: fn, May: true, Entry: Facts{}}
	reads := func(n ast.Node, skip map[*ast.Ident]bool, f Facts) {
		walkNoLit(n, func(nd ast.Node) bool {
			if id, ok := nd.(*ast.Ident); ok && !skip[id] {
				if o := p.ObjOf(fn, id); o != nil && isErrorType(o.Type()) {
					f.DelPrefix("pend|" + p.ID(o) + "|")
				}
			}
			return true
		})
	}
	var reporting bool
	fl.Node = func(n ast.Node, f Facts) {
		skip := map[*ast.Ident]bool{}
		type asg struct {
			id   *ast.Ident
			call *ast.CallExpr
		}
		var asgs []asg
		walkNoLit(n, func(nd ast.Node) bool {
			switch as := nd.(type) {
			case *ast.AssignStmt:
				var call *ast.CallExpr
				if len(as.Rhs) == 1 {
					call, _ = ast.Unparen(as.Rhs[0]).(*ast.CallExpr)
				}
				for i, l := range as.Lhs {
					id, ok := ast.Unparen(l).(*ast.Ident)
					if !ok {
						continue
					}
					skip[id] = true
					var rc *ast.CallExpr
					if call != nil && (len(as.Lhs) > 1 || i == 0) {
						rc = call
					} else if len(as.Rhs) == len(as.Lhs) {
						rc, _ = ast.Unparen(as.Rhs[i]).(*ast.CallExpr)
					}
					asgs = append(asgs, asg{id, rc})
					// blank identifier receiving an error result
					if id.Name == "_" && rc != nil && reporting {
						if tv := p.TypeOf(fn, rc); tv != nil {
							var rt types.Type
							if tup, ok := tv.(*types.Tuple); ok && i < tup.Len() {
								rt = tup.At(i).Type()
							} else if !ok && i == 0 {
								rt = tv
							}
							if rt != nil && isErrorType(rt) {
								report(errDrop{Fn: fn, Pos: rc.Pos(), At: id.Pos(), Var: "_", Call: callName(rc), Kind: "blank"})
							}
						}
					}
				}
			case *ast.ReturnStmt:
				if len(as.Results) == 0 {
					for o := range namedErr {
						f.DelPrefix("pend|" + p.ID(o) + "|")
					}
				}
			}
			return true
		})
		// reads happen before the assignment of the same statement takes effect
		reads(n, skip, f)
		for _, a := range asgs {
			o := p.ObjOf(fn, a.id)
			if o == nil || !isErrorType(o.Type()) || captured[o] || a.id.Name == "_" {
				continue
			}
			pre := "pend|" + p.ID(o) + "|"
			// replacing a pending error by a freshly made one keeps the failure alive (it still has to be examined)
			if reporting && !(a.call != nil && errorConstructor(p, fn, a.call)) {
				for k := range f {
					if strings.HasPrefix(k, pre) {
						pr := prods[k]
						report(errDrop{Fn: fn, Pos: pr.pos, At: a.id.Pos(), Var: pr.name, Call: pr.call, Kind: "overwritten"})
					}
				}
			}
			f.DelPrefix(pre)
			if a.call != nil {
				k := pre + p.Pos(a.call.Pos())
				prods[k] = prod{a.call.Pos(), callName(a.call), a.id.Name}
				f[k] = true
			}
		}
	}
	fl.Run()
	reporting = true
	fl.Visit(func(_ *cfgBlk, n ast.Node, before Facts) {}) // replays Node with reporting on
	fl.Exits(func(_ *cfgBlk, ret *ast.ReturnStmt, at Facts) {
		pos := fn.Body.Rbrace
		if ret != nil {
			pos = ret.Pos()
		}
		for k := range at {
			if strings.HasPrefix(k, "pend|") {
				pr := prods[k]
				report(errDrop{Fn: fn, Pos: pr.pos, At: pos, Var: pr.name, Call: pr.call, Kind: "unexamined-at-exit"})
			}
		}
	})
	sort.Slice(drops, func(i, j int) bool {
		if drops[i].Pos != drops[j].Pos {
			return drops[i].Pos < drops[j].Pos
		}
		return drops[i].At < drops[j].At
	})
	return drops
}

// errDiscipline arms E11 over the functions selected by scope and reports under the given rule. allow lists
// deliberate discards as "function/callee" with their reason (printed, never silently skipped).
func errDiscipline(c *Ctx, r *Report, rule string, scope func(*Fn) bool, consequence string, allow map[string]string) {
	p := c.P
	nf, nd := 0, 0
	for _, fn := range p.Fns {
		if fn.Orig != nil || !p.firstParty(fn.Pkg.Types) || !scope(fn) {
			continue
		}
		nf++
		for _, d := range errDrops(p, fn) {
			if why, ok := allow[fn.Name+"/"+d.Call]; ok && d.Kind == "blank" {
				r.List("deliberate discard of the error of %s in %s: %s", d.Call, fn.Name, why)
				continue
			}
			nd++
			what := ""
			switch d.Kind {
			case "overwritten":
				what = fmt.Sprintf("the error of %s (in %s) is overwritten at %s before it was examined on some path", d.Call, d.Var, p.Pos(d.At))
			case "unexamined-at-exit":
				what = fmt.Sprintf("the error of %s (in %s) is never examined on a path to the exit at %s", d.Call, d.Var, p.Pos(d.At))
			case "blank":
				what = fmt.Sprintf("the error of %s is sent to the blank identifier", d.Call)
			}
			r.Violate(rule, r.Key(rule, fn, "dropped-error", d.Call), d.Pos, what+": "+consequence)
		}
		for _, d := range errPolarity(p, fn) {
			nd++
			if d.Kind == "failed-then-success" {
				r.Violate(rule, r.Key(rule, fn, "failed-then-success", d.Var), d.Pos, fmt.Sprintf("%s returns a nil error at %s on a path where %s is known to be non-nil and was not looked at again: a failed step is reported as success: %s", fn.Name, p.Pos(d.Pos), d.Var, consequence))
				continue
			}
			r.Violate(rule, r.Key(rule, fn, "inverted-error-test", d.Call), d.Pos, fmt.Sprintf("%s builds a failure from %s on a path where %s is known to be nil: the test of the error is inverted — the step's success is reported as a failure and its failure goes on with the zero values: %s", d.Call, d.Var, d.Var, consequence))
		}
	}
	if nd == 0 {
		r.Hold(rule, r.Key(rule, nil, "errors-examined", ""), token.NoPos, true, fmt.Sprintf("every stored error result is examined before it is overwritten or the function ends, and no failure is built from an error known to be nil, in %d functions", nf))
	}
	r.Floor(rule, "functions under error discipline", nf, 3)
}

// scopes for the properties that arm E11
func inPkgs(p *Prog, fn *Fn, rels ...string) bool {
	for _, r := range rels {
		if fn.Pkg.PkgPath == p.pkgPath(r) {
			return true
		}
	}
	return false
}

func rootNamed(fn *Fn, names ...string) bool {
	rn := fn.Root().Name
	for _, n := range names {
		if rn == n || strings.HasSuffix(rn, "."+n) || strings.HasSuffix(rn, ")."+n) {
			return true
		}
	}
	return false
}

var deliberateDiscards = map[string]string{
	"entry.(*Fetcher).processQueue$1/f.fetchEntry": "a block that cannot be fetched or decoded is skipped: the worker tests the entry value for nil (R-C12.3) and the accounting runs on both paths (R-C11.6)",
	"ipfslog.(*IPFSLog).values/l.traverse":         "traverse only fails for a nil start set, which values() excludes just before the call",
}

// errPolarity: contradictions between what a path knows about an error variable and what it does with it.
//
//	nil-wrapped:  on a path where the variable is known to be nil (the nil edge of its test, no assignment
//	              since) it is handed to a call that builds an error from it (errmsg.X.Wrap(err),
//	              fmt.Errorf("…%w", err)) — the test is inverted: the success path reports a failure made of
//	              nil and the failure path carries on with the zero value.
//
// A plain `return x, err` with a known-nil err is the usual tail idiom and is not reported.
func errPolarity(p *Prog, fn *Fn) []errDrop {
	if fn.Body == nil || fn.CFG == nil {
		return nil
	}
	var out []errDrop
	seen := map[token.Pos]bool{}
	fl := &Flow{P: p, Fn: fn, Entry: Facts{}}
	fl.Edge = func(cond ast.Expr, taken bool, f Facts) {
		for _, a := range splitCond(cond, taken) {
			if x, isNil, ok := nilTest(a); ok && isNil {
				if id, ok := ast.Unparen(x).(*ast.Ident); ok {
					if o := p.ObjOf(fn, id); o != nil && isErrorType(o.Type()) {
						f["nil|"+p.ID(o)] = true
					}
				}
			}
		}
	}
	fl.Node = func(n ast.Node, f Facts) {
		for _, id := range assignedIdents(n) {
			if o := p.ObjOf(fn, id); o != nil {
				delete(f, "nil|"+p.ID(o))
			}
		}
		// a literal that captures the variable may assign it
		walkNoLit(n, func(nd ast.Node) bool {
			if lit, ok := nd.(*ast.FuncLit); ok {
				ast.Inspect(lit.Body, func(m ast.Node) bool {
					if id, ok := m.(*ast.Ident); ok {
						if o := p.ObjOf(fn, id); o != nil {
							delete(f, "nil|"+p.ID(o))
						}
					}
					return true
				})
			}
			return true
		})
	}
	fl.Run()
	// failed-then-success: on a path where the variable is known to be non-nil and has not been read since, the
	// function returns a literal nil error
	ff := &Flow{P: p, Fn: fn, May: true, Entry: Facts{}}
	ff.Edge = func(cond ast.Expr, taken bool, f Facts) {
		// the branch that handles the failure (a non-empty `if err != nil { … }` body: a fallback, a log line) is
		// the program looking at the failure; what is reported is the failure *falling through* — the else side
		// of `if err == nil { … }`, or an empty handler
		var top ast.Node = cond
		for {
			par := p.ParentIn(fn, top)
			if _, isExpr := par.(ast.Expr); !isExpr {
				break
			}
			top = par
		}
		if ifs, ok := p.ParentIn(fn, top).(*ast.IfStmt); ok && ifs.Cond == top && len(ifs.Body.List) > 0 {
			// does this edge lead into the body? (for a sub-condition of `a && b` the true edge may; of `a || b` it does)
			if taken {
				return
			}
		}
		for _, a := range splitCond(cond, taken) {
			if x, isNil, ok := nilTest(a); ok && !isNil {
				if id, ok := ast.Unparen(x).(*ast.Ident); ok {
					if o := p.ObjOf(fn, id); o != nil && isErrorType(o.Type()) {
						f["failed|"+p.ID(o)+"|"+id.Name] = true
					}
				}
			}
		}
	}
	ff.Node = func(n ast.Node, f Facts) {
		if ret, ok := n.(*ast.ReturnStmt); ok && len(ret.Results) > 0 && fnReturnsError(p, fn) {
			if isNilIdent(ret.Results[len(ret.Results)-1]) {
				for k := range f {
					if strings.HasPrefix(k, "failed|") && !seen[ret.Pos()] {
						seen[ret.Pos()] = true
						out = append(out, errDrop{Pos: ret.Pos(), At: ret.Pos(), Var: k[strings.LastIndex(k, "|")+1:], Call: "return", Kind: "failed-then-success"})
					}
				}
			}
		}
		// any mention of the variable (read or write) ends the knowledge
		ast.Inspect(n, func(m ast.Node) bool {
			if id, ok := m.(*ast.Ident); ok {
				if o := p.ObjOf(fn, id); o != nil && isErrorType(o.Type()) {
					f.DelPrefix("failed|" + p.ID(o) + "|")
				}
			}
			return true
		})
	}
	ff.Run()
	fl.Visit(func(_ *cfgBlk, n ast.Node, before Facts) {
		walkNoLit(n, func(nd ast.Node) bool {
			call, ok := nd.(*ast.CallExpr)
			if !ok {
				return true
			}
			if t := p.TypeOf(fn, call); t == nil || !isErrorType(t) {
				return true
			}
			for _, a := range call.Args {
				id, ok := ast.Unparen(a).(*ast.Ident)
				if !ok {
					continue
				}
				o := p.ObjOf(fn, id)
				if o == nil || !isErrorType(o.Type()) || !before["nil|"+p.ID(o)] || seen[call.Pos()] {
					continue
				}
				seen[call.Pos()] = true
				out = append(out, errDrop{Pos: call.Pos(), At: call.Pos(), Var: id.Name, Call: types.ExprString(call.Fun), Kind: "nil-wrapped"})
			}
			return true
		})
	})
	return out
}

// discardedErrorsCannotOccur: an error result sent to the blank identifier must be one the call cannot
// produce. For a first-party callee every return that carries an error has to sit behind a nil test of a
// parameter, and the call site has to pass a value known to be non-nil there (tested on every path to the
// call). The sites where failing is expected and handled through the value are tabled with their reason.
func discardedErrorsCannotOccur(c *Ctx, r *Report, rule string, scope func(*Fn) bool, tabled map[string]string, consequence string) {
	p := c.P
	ne := NewNilEngine(p, c.CG)
	nsite := 0
	for _, fn := range p.Fns {
		if fn.Orig != nil || fn.Body == nil || !p.firstParty(fn.Pkg.Types) || strings.HasSuffix(fn.Pkg.PkgPath, "/test") || !scope(fn) {
			continue
		}
		var blanks []errDrop
		for _, d := range errDrops(p, fn) {
			if d.Kind == "blank" {
				blanks = append(blanks, d)
			}
		}
		if len(blanks) == 0 {
			continue
		}
		var fl *Flow
		for _, d := range blanks {
			nsite++
			var call *ast.CallExpr
			walkNoLit(fn.Body, func(n ast.Node) bool {
				if cx, ok := n.(*ast.CallExpr); ok && cx.Pos() == d.Pos && call == nil {
					call = cx
				}
				return true
			})
			// failure handled through the value: the value received beside the error is tested for nil afterwards
			if as, ok := p.parent[call].(*ast.AssignStmt); ok && call != nil && len(as.Lhs) >= 2 {
				if vid, ok := as.Lhs[0].(*ast.Ident); ok && vid.Name != "_" {
					vo := p.ObjOf(fn, vid)
					tested := false
					walkNoLit(fn.Body, func(n ast.Node) bool {
						be, ok := n.(*ast.BinaryExpr)
						if !ok || be.Pos() < call.End() {
							return true
						}
						if x, _, ok := nilTest(condAtom{be, true}); ok {
							if id, ok := ast.Unparen(x).(*ast.Ident); ok && p.ObjOf(fn, id) == vo && vo != nil {
								tested = true
							}
						}
						return true
					})
					if tested {
						if why, ok := tabled[d.Call]; ok {
							r.List("discarded error of %s in %s: the value received beside it is tested for nil (%s)", d.Call, fn.Name, why)
						} else {
							r.List("discarded error of %s in %s: the value received beside it is tested for nil", d.Call, fn.Name)
						}
						r.Hold(rule, r.Key(rule, fn, "discarded-error", d.Call), d.Pos, true, "the failure is handled through the value: "+vid.Name+" is tested for nil after the call")
						continue
					}
				}
			}
			key := r.Key(rule, fn, "discarded-error", d.Call)
			var callee *Fn
			if call != nil {
				if cf := p.Callee(fn, call); cf != nil {
					callee = p.ByObj[cf]
				}
			}
			if callee == nil || callee.Body == nil {
				r.Violate(rule, key, d.Pos, fmt.Sprintf("the error of %s is discarded and the callee cannot be examined (not a first-party function): %s", d.Call, consequence))
				continue
			}
			if fl == nil {
				fl = ne.nilFlow(fn)
				fl.Run()
			}
			var before Facts
			fl.Visit(func(_ *cfgBlk, n ast.Node, f Facts) {
				if before != nil {
					return
				}
				walkNoLit(n, func(m ast.Node) bool {
					if m == ast.Node(call) {
						before = f.Clone()
						if before == nil {
							before = Facts{}
						}
					}
					return true
				})
			})
			nres := callee.Obj.Type().(*types.Signature).Results().Len()
			bad := ""
			var badPos token.Pos
			nfail := 0
			walkNoLit(callee.Body, func(n ast.Node) bool {
				rs, ok := n.(*ast.ReturnStmt)
				if !ok || bad != "" {
					return true
				}
				if len(rs.Results) != nres {
					if len(rs.Results) != 0 || nres == 0 {
						return true
					}
					bad, badPos = "a bare return of named results", rs.Pos()
					return true
				}
				if isNilIdent(rs.Results[nres-1]) {
					return true
				}
				nfail++
				// climb to a nil test of a parameter
				excluded := false
				for cur := ast.Node(rs); cur != nil && !excluded; cur = p.parent[cur] {
					is, ok := p.parent[cur].(*ast.IfStmt)
					if !ok || cur != ast.Node(is.Body) {
						continue
					}
					for _, a := range splitCond(is.Cond, true) {
						x, isNil, ok := nilTest(a)
						if !ok || !isNil {
							continue
						}
						id, ok := ast.Unparen(x).(*ast.Ident)
						if !ok {
							continue
						}
						po := p.ObjOf(callee, id)
						for i := 0; i < len(call.Args); i++ {
							if paramObjAny(callee, i) != po || po == nil {
								continue
							}
							if _, akey, ok := p.PathKey(fn, call.Args[i]); ok && before["nn|"+akey] {
								excluded = true
							}
						}
					}
				}
				if !excluded {
					bad, badPos = "the failing return at "+p.Pos(rs.Pos()), rs.Pos()
				}
				return true
			})
			_ = badPos
			r.Check(bad == "", rule, key, d.Pos,
				fmt.Sprintf("the discarded error of %s cannot occur: each of its %d failing returns is behind a nil test of a parameter that is known to be non-nil at this call", d.Call, nfail),
				fmt.Sprintf("the error of %s is sent to the blank identifier, but %s is not ruled out by what is known at the call: the caller goes on with whatever was returned beside the error: %s", d.Call, bad, consequence))
		}
	}
	r.Floor(rule, "error results sent to the blank identifier", nsite, 1)
}
