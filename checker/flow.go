package main

// flow.go — forward dataflow over go/cfg with string-valued facts (E5 primitives).
// Must-analysis: meet = intersection (a fact holds at a point iff it holds on every path to it).
// May-analysis: meet = union.

import (
	"go/ast"
	"go/token"
	"go/types"
	"sort"
	"strings"

	"golang.org/x/tools/go/cfg"
)

type Facts map[string]bool

type cfgBlk = cfg.Block

func (f Facts) Clone() Facts {
	if f == nil {
		return nil
	}
	g := make(Facts, len(f))
	for k := range f {
		g[k] = true
	}
	return g
}

func (f Facts) List() []string {
	var out []string
	for k := range f {
		out = append(out, k)
	}
	sort.Strings(out)
	return out
}

func (f Facts) HasPrefix(pfx string) bool {
	for k := range f {
		if strings.HasPrefix(k, pfx) {
			return true
		}
	}
	return false
}

func (f Facts) DelPrefix(pfx string) {
	for k := range f {
		if strings.HasPrefix(k, pfx) {
			delete(f, k)
		}
	}
}

func factsEqual(a, b Facts) bool {
	if (a == nil) != (b == nil) || len(a) != len(b) {
		return false
	}
	for k := range a {
		if !b[k] {
			return false
		}
	}
	return true
}

type Flow struct {
	P     *Prog
	Fn    *Fn
	May   bool
	Entry Facts
	// Node transfers facts across one CFG node (mutating f). Function literals nested in the node are not entered.
	Node func(n ast.Node, f Facts)
	// Edge refines facts along a conditional edge (mutating f). cond may be a synthesised tag==case comparison.
	Edge func(cond ast.Expr, taken bool, f Facts)
	In   map[*cfg.Block]Facts
	Out  map[*cfg.Block]Facts
	// InlineDefers keeps the legacy view in which a defer statement is shown to Node like any other node (the
	// lock engine models deferred unlocks itself). By default a deferred call is executed where it really runs:
	// at every exit of the function that is reached after the defer statement, last registered first.
	InlineDefers bool
}

const flowDeferFact = "\x00defer|"

// deferredAt returns the deferred calls registered on every (must) or some (may) path to a point with facts f,
// last registered first, as expression statements.
func (fl *Flow) deferredAt(f Facts) []ast.Node {
	var ds []*ast.DeferStmt
	walkNoLit(fl.Fn.Body, func(n ast.Node) bool {
		if d, ok := n.(*ast.DeferStmt); ok && f[flowDeferFact+fl.P.Pos(d.Pos())] {
			ds = append(ds, d)
		}
		return true
	})
	out := make([]ast.Node, 0, len(ds))
	for i := len(ds) - 1; i >= 0; i-- {
		out = append(out, &ast.ExprStmt{X: ds[i].Call})
	}
	return out
}

// transfer applies Node to one CFG node under the defer model.
func (fl *Flow) transfer(n ast.Node, st Facts) {
	if d, ok := n.(*ast.DeferStmt); ok && !fl.InlineDefers {
		// the arguments are evaluated now, the call runs at exit
		st[flowDeferFact+fl.P.Pos(d.Pos())] = true
		return
	}
	if fl.Node != nil {
		fl.Node(n, st)
	}
}

func (fl *Flow) isExit(b *cfg.Block) bool {
	return len(b.Succs) == 0
}

// BlockCond returns the branch condition of a two-way block (nil if none, e.g. range loops).
func (p *Prog) BlockCond(b *cfg.Block) ast.Expr {
	if len(b.Succs) != 2 || len(b.Nodes) == 0 || b.Kind == cfg.KindRangeLoop {
		return nil
	}
	e, ok := b.Nodes[len(b.Nodes)-1].(ast.Expr)
	if !ok {
		return nil
	}
	if cc, ok := p.parent[e].(*ast.CaseClause); ok {
		isCase := false
		for _, c := range cc.List {
			if c == e {
				isCase = true
			}
		}
		if isCase {
			if body, ok := p.parent[cc].(*ast.BlockStmt); ok {
				switch sw := p.parent[body].(type) {
				case *ast.SwitchStmt:
					if sw.Tag == nil {
						return e
					}
					return &ast.BinaryExpr{X: sw.Tag, Op: token.EQL, Y: e}
				default:
					return nil
				}
			}
			return nil
		}
	}
	return e
}

func (fl *Flow) Run() {
	g := fl.Fn.CFG
	fl.In = map[*cfg.Block]Facts{}
	fl.Out = map[*cfg.Block]Facts{}
	if len(g.Blocks) == 0 {
		return
	}
	entry := fl.Entry
	if entry == nil {
		entry = Facts{}
	}
	fl.In[g.Blocks[0]] = entry.Clone()
	work := []*cfg.Block{g.Blocks[0]}
	inq := map[*cfg.Block]bool{g.Blocks[0]: true}
	iter := 0
	for len(work) > 0 {
		iter++
		if iter > 100000 {
			infra("dataflow did not converge in %s", fl.Fn.Name)
		}
		b := work[0]
		work = work[1:]
		inq[b] = false
		st := fl.In[b].Clone()
		for _, n := range b.Nodes {
			fl.transfer(n, st)
		}
		if fl.isExit(b) && !fl.InlineDefers && fl.Node != nil {
			for _, dn := range fl.deferredAt(st) {
				fl.Node(dn, st)
			}
		}
		fl.Out[b] = st
		cond := fl.P.BlockCond(b)
		for i, s := range b.Succs {
			es := st.Clone()
			if cond != nil && fl.Edge != nil {
				fl.Edge(cond, i == 0, es)
			}
			old, seen := fl.In[s]
			var nw Facts
			if !seen {
				nw = es
			} else if fl.May {
				nw = old.Clone()
				for k := range es {
					nw[k] = true
				}
			} else {
				nw = Facts{}
				for k := range old {
					if es[k] {
						nw[k] = true
					}
				}
			}
			if !seen || !factsEqual(old, nw) {
				fl.In[s] = nw
				if !inq[s] {
					work = append(work, s)
					inq[s] = true
				}
			}
		}
	}
}

// Visit replays the converged analysis and shows the facts holding immediately before each node.
func (fl *Flow) Visit(visit func(b *cfg.Block, n ast.Node, before Facts)) {
	for _, b := range fl.Fn.CFG.Blocks {
		in, ok := fl.In[b]
		if !ok {
			continue // unreachable
		}
		st := in.Clone()
		for _, n := range b.Nodes {
			if _, isDefer := n.(*ast.DeferStmt); isDefer && !fl.InlineDefers {
				fl.transfer(n, st)
				continue
			}
			visit(b, n, st)
			fl.transfer(n, st)
		}
		if fl.isExit(b) && !fl.InlineDefers {
			for _, dn := range fl.deferredAt(st) {
				visit(b, dn, st)
				if fl.Node != nil {
					fl.Node(dn, st)
				}
			}
		}
	}
}

// Exits returns, for every reachable block without successors, the final node (a *ast.ReturnStmt, or nil
// for falling off the end / a no-return call) and the facts at that exit.
func (fl *Flow) Exits(visit func(b *cfg.Block, ret *ast.ReturnStmt, at Facts)) {
	for _, b := range fl.Fn.CFG.Blocks {
		if len(b.Succs) != 0 {
			continue
		}
		out, ok := fl.Out[b]
		if !ok {
			continue
		}
		var ret *ast.ReturnStmt
		if n := len(b.Nodes); n > 0 {
			ret, _ = b.Nodes[n-1].(*ast.ReturnStmt)
			if ret == nil {
				// a block ending in a no-return call (panic) is not a normal exit
				if es, ok := b.Nodes[n-1].(*ast.ExprStmt); ok {
					if c, ok := es.X.(*ast.CallExpr); ok && !fl.P.mayReturn(fl.Fn.Pkg, c) {
						continue
					}
				}
			}
		}
		visit(b, ret, out)
	}
}

// splitConj returns the conjuncts known true when cond evaluates to `taken`.
// (a && b) true => a, b true;  (a || b) false => a, b false;  !a handled by flipping.
type condAtom struct {
	E     ast.Expr
	Truth bool
}

func splitCond(cond ast.Expr, taken bool) []condAtom {
	cond = ast.Unparen(cond)
	switch x := cond.(type) {
	case *ast.UnaryExpr:
		if x.Op == token.NOT {
			return splitCond(x.X, !taken)
		}
	case *ast.BinaryExpr:
		if x.Op == token.LAND && taken {
			return append(splitCond(x.X, true), splitCond(x.Y, true)...)
		}
		if x.Op == token.LOR && !taken {
			return append(splitCond(x.X, false), splitCond(x.Y, false)...)
		}
		if x.Op == token.LAND || x.Op == token.LOR {
			return nil
		}
	}
	return []condAtom{{cond, taken}}
}

// nilTest: if atom is `x == nil` / `x != nil` (either side), returns x and whether x is known nil.
func nilTest(a condAtom) (ast.Expr, bool, bool) {
	be, ok := ast.Unparen(a.E).(*ast.BinaryExpr)
	if !ok || (be.Op != token.EQL && be.Op != token.NEQ) {
		return nil, false, false
	}
	var x ast.Expr
	if isNilIdent(be.Y) {
		x = be.X
	} else if isNilIdent(be.X) {
		x = be.Y
	} else {
		return nil, false, false
	}
	isNil := (be.Op == token.EQL) == a.Truth
	return x, isNil, true
}

func isNilIdent(e ast.Expr) bool {
	id, ok := ast.Unparen(e).(*ast.Ident)
	return ok && id.Name == "nil"
}

// assignedIdents lists identifiers (re)assigned or defined by a node (not entering literals).
func assignedIdents(n ast.Node) []*ast.Ident {
	var out []*ast.Ident
	walkNoLit(n, func(nd ast.Node) bool {
		switch s := nd.(type) {
		case *ast.AssignStmt:
			for _, l := range s.Lhs {
				if id, ok := ast.Unparen(l).(*ast.Ident); ok {
					out = append(out, id)
				}
			}
		case *ast.ValueSpec:
			out = append(out, s.Names...)
		case *ast.IncDecStmt:
			if id, ok := ast.Unparen(s.X).(*ast.Ident); ok {
				out = append(out, id)
			}
		case *ast.RangeStmt:
			if id, ok := s.Key.(*ast.Ident); ok {
				out = append(out, id)
			}
			if id, ok := s.Value.(*ast.Ident); ok {
				out = append(out, id)
			}
		}
		return true
	})
	return out
}

// errCorr: path correlation between "an error variable was just set to a known non-nil value" and a later
// `err == nil` edge: on such an edge the path is infeasible, so path facts with the given prefix are dropped.
type errCorr struct {
	p      *Prog
	fn     *Fn
	prefix string
}

func (ec errCorr) node(n ast.Node, f Facts) {
	walkNoLit(n, func(nd ast.Node) bool {
		as, ok := nd.(*ast.AssignStmt)
		if !ok {
			return true
		}
		for i, l := range as.Lhs {
			id, ok := ast.Unparen(l).(*ast.Ident)
			if !ok {
				continue
			}
			o := ec.p.ObjOf(ec.fn, id)
			if o == nil || !isErrorType(o.Type()) {
				continue
			}
			var rhs ast.Expr
			if len(as.Rhs) == len(as.Lhs) {
				rhs = as.Rhs[i]
			}
			if rhs != nil && knownNonNilErr(ec.p, ec.fn, rhs) {
				f["errset|"+ec.p.ID(o)] = true
			} else {
				delete(f, "errset|"+ec.p.ID(o))
			}
		}
		return true
	})
}

func (ec errCorr) edge(cond ast.Expr, taken bool, f Facts) {
	for _, a := range splitCond(cond, taken) {
		if x, isNil, ok := nilTest(a); ok && isNil {
			if id, ok := ast.Unparen(x).(*ast.Ident); ok {
				if o := ec.p.ObjOf(ec.fn, id); o != nil && f["errset|"+ec.p.ID(o)] {
					f.DelPrefix(ec.prefix) // this edge cannot be taken on the paths that set the error
				}
			}
		}
	}
}

// knownNonNilErr: a package-level error value/constant, or a Wrap/Errorf/New call.
func knownNonNilErr(p *Prog, fn *Fn, e ast.Expr) bool {
	e = ast.Unparen(e)
	switch x := e.(type) {
	case *ast.SelectorExpr:
		switch o := p.ObjOf(fn, x.Sel).(type) {
		case *types.Var:
			return !o.IsField() && o.Parent() == o.Pkg().Scope()
		case *types.Const:
			return true
		}
	case *ast.Ident:
		switch o := p.ObjOf(fn, x).(type) {
		case *types.Var:
			return !o.IsField() && o.Pkg() != nil && o.Parent() == o.Pkg().Scope() && isErrorType(o.Type())
		case *types.Const:
			return true
		}
	case *ast.CallExpr:
		if se, ok := ast.Unparen(x.Fun).(*ast.SelectorExpr); ok && (se.Sel.Name == "Wrap" || se.Sel.Name == "Errorf" || se.Sel.Name == "New") {
			return true
		}
	}
	return false
}

// resultGate earns the fact "ok|<kind>" on the nil edge of an error variable only while that variable still holds
// the error result of a designated call (kind). An earlier or later nil test of the same, re-used variable (Go code
// recycles `err`) earns nothing; a fact once earned survives later reuse of the variable.
type resultGate struct {
	p        *Prog
	fn       *Fn
	producer func(call *ast.CallExpr) string // kind of a designated call, "" otherwise
}

func (g *resultGate) Node(n ast.Node, f Facts) {
	walkNoLit(n, func(nd ast.Node) bool {
		switch as := nd.(type) {
		case *ast.AssignStmt:
			kind := ""
			if len(as.Rhs) == 1 {
				if call, ok := ast.Unparen(as.Rhs[0]).(*ast.CallExpr); ok {
					kind = g.producer(call)
				}
			}
			for i, l := range as.Lhs {
				id, ok := ast.Unparen(l).(*ast.Ident)
				if !ok {
					continue
				}
				o := g.p.ObjOf(g.fn, id)
				if o == nil {
					continue
				}
				f.DelPrefix("holds|" + g.p.ID(o) + "|")
				if kind != "" && i == len(as.Lhs)-1 && isErrorType(o.Type()) {
					f["holds|"+g.p.ID(o)+"|"+kind] = true
				}
			}
		case *ast.ValueSpec:
			for _, id := range as.Names {
				if o := g.p.ObjOf(g.fn, id); o != nil {
					f.DelPrefix("holds|" + g.p.ID(o) + "|")
				}
			}
		}
		return true
	})
}

func (g *resultGate) Edge(cond ast.Expr, taken bool, f Facts) {
	for _, a := range splitCond(cond, taken) {
		x, isNil, ok := nilTest(a)
		if !ok || !isNil {
			continue
		}
		id, ok := ast.Unparen(x).(*ast.Ident)
		if !ok {
			continue
		}
		o := g.p.ObjOf(g.fn, id)
		if o == nil {
			continue
		}
		pre := "holds|" + g.p.ID(o) + "|"
		for k := range f {
			if strings.HasPrefix(k, pre) {
				f["ok|"+strings.TrimPrefix(k, pre)] = true
			}
		}
	}
}

// dnfCond returns the alternatives (a disjunction of conjunctions of atoms) known when cond evaluates to taken.
// splitCond gives up on the true edge of `a || b` and the false edge of `a && b`; here each disjunct becomes its
// own alternative, so a rule can ask "does every alternative establish what I need?".
func dnfCond(cond ast.Expr, taken bool) [][]condAtom {
	cond = ast.Unparen(cond)
	switch x := cond.(type) {
	case *ast.UnaryExpr:
		if x.Op == token.NOT {
			return dnfCond(x.X, !taken)
		}
	case *ast.BinaryExpr:
		if x.Op == token.LAND || x.Op == token.LOR {
			conj := (x.Op == token.LAND) == taken // a&&b true, a||b false: both sides known
			l, r := dnfCond(x.X, taken), dnfCond(x.Y, taken)
			if conj {
				var out [][]condAtom
				for _, a := range l {
					for _, b := range r {
						out = append(out, append(append([]condAtom{}, a...), b...))
					}
				}
				if len(out) > 16 {
					return [][]condAtom{{}}
				}
				return out
			}
			out := append(append([][]condAtom{}, l...), r...)
			if len(out) > 16 {
				return [][]condAtom{{}}
			}
			return out
		}
	}
	return [][]condAtom{{{cond, taken}}}
}

// ctxAtom: an atom together with the function whose type information resolves it (a predicate helper's atoms
// live in the helper).
type ctxAtom struct {
	condAtom
	In *Fn
}

// expandPredicates: the alternatives of a condition with calls of first-party predicate helpers
// (`func hasLinks(e) bool { return len(e.GetNext()) > 0 || len(e.GetRefs()) > 0 }`, a body that is one return of
// a boolean expression) replaced by the alternatives of the helper's expression, two levels deep.
func expandPredicates(p *Prog, fn *Fn, alts [][]condAtom) [][]ctxAtom {
	var expandAtom func(a condAtom, in *Fn, depth int) [][]ctxAtom
	expandAtom = func(a condAtom, in *Fn, depth int) [][]ctxAtom {
		e, truth := ast.Unparen(a.E), a.Truth
		for {
			u, ok := e.(*ast.UnaryExpr)
			if !ok || u.Op != token.NOT {
				break
			}
			e, truth = ast.Unparen(u.X), !truth
		}
		if call, ok := e.(*ast.CallExpr); ok && depth < 2 {
			if cf := p.Callee(in, call); cf != nil && p.firstParty(cf.Pkg()) {
				if h := p.ByObj[cf]; h != nil && h.Body != nil && len(h.Body.List) == 1 {
					if ret, ok := h.Body.List[0].(*ast.ReturnStmt); ok && len(ret.Results) == 1 && isBoolType(p.TypeOf(h, ret.Results[0])) {
						var out [][]ctxAtom
						for _, alt := range dnfCond(ret.Results[0], truth) {
							parts := [][]ctxAtom{{}}
							for _, b := range alt {
								sub := expandAtom(b, h, depth+1)
								var nx [][]ctxAtom
								for _, pre := range parts {
									for _, sfx := range sub {
										nx = append(nx, append(append([]ctxAtom{}, pre...), sfx...))
									}
								}
								parts = nx
							}
							out = append(out, parts...)
						}
						if len(out) > 0 && len(out) <= 16 {
							return out
						}
					}
				}
			}
		}
		return [][]ctxAtom{{{a, in}}}
	}
	var out [][]ctxAtom
	for _, alt := range alts {
		parts := [][]ctxAtom{{}}
		for _, a := range alt {
			sub := expandAtom(a, fn, 0)
			var nx [][]ctxAtom
			for _, pre := range parts {
				for _, sfx := range sub {
					nx = append(nx, append(append([]ctxAtom{}, pre...), sfx...))
				}
			}
			parts = nx
		}
		out = append(out, parts...)
	}
	if len(out) > 32 {
		return [][]ctxAtom{{}}
	}
	return out
}

// blockAlwaysLeaves: the block's last statement is a return, a branch (continue/break/goto) or a panic call.
func blockAlwaysLeaves(b *ast.BlockStmt) bool {
	if b == nil || len(b.List) == 0 {
		return false
	}
	switch x := b.List[len(b.List)-1].(type) {
	case *ast.ReturnStmt, *ast.BranchStmt:
		return true
	case *ast.ExprStmt:
		if call, ok := x.X.(*ast.CallExpr); ok {
			if id, ok := call.Fun.(*ast.Ident); ok && id.Name == "panic" {
				return true
			}
		}
	}
	return false
}
