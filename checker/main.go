package main

// iplcheck — repository-specific static checker for berty/go-ipfs-log (see /verif/DESIGN.md).
//
//	iplcheck -repo /repo -property C13 -tier quick -evidence /verif/evidence/C13.json -known /verif/known-findings.json

import (
	"flag"
	"fmt"
	"os"
	"runtime/debug"
	"sort"
	"strconv"
	"strings"
	"time"
)

type PropSpec struct {
	ID          string
	Level       string
	Run         func(c *Ctx, r *Report)
	Explanation string
	Assumptions []string
	Trusted     []string
}

// Ctx is what a rule sees: the program, its call graph, the tier.
type Ctx struct {
	P    *Prog
	CG   *CG
	Tier string
	Ctl  *Prog // control packages (engine positive controls)
	CtlG *CG

	imported  map[string]*Report // scratch reports of properties whose rules were adopted by another one
	importing map[string]bool
}

var registry = map[string]*PropSpec{}

func register(s *PropSpec) { registry[s.ID] = s }

var commonAssumptions = []string{
	"first-party code only: dependencies are used through their types and a small table of modelled library contracts (sync, sort, bytes/strings.Compare, encoding/json UTF-8 coercion, lru, datastore, semaphore)",
	"no unsafe or reflection-based access to the analysed fields; clients touch a log through its methods",
	"the verdict is about the named structural clause (a necessary condition of the property), not about run-time behaviour",
}

var commonTrusted = []string{
	"go/types, go/packages, go/cfg, go/ssa of golang.org/x/tools v0.29.0",
	"the checker's own rules and frozen instance tables under /verif/checker (each table entry carries its reason)",
}

func main() {
	repo := flag.String("repo", "/repo", "tree to analyse")
	prop := flag.String("property", "", "property id (C01..C20), comma list, or 'all'")
	tier := flag.String("tier", "quick", "quick|thorough")
	evdir := flag.String("evidence-dir", "/verif/evidence", "directory for evidence files")
	known := flag.String("known", "/verif/known-findings.json", "known-findings file (read-only)")
	controls := flag.String("controls", "/verif/controls", "directory of the engine control module ('' to skip)")
	mod := flag.String("module", modPath, "module path of the analysed tree")
	list := flag.Bool("list", false, "list registered properties")
	explain := flag.String("explain", "", "violation file to re-evaluate (prints whether the obligation is still reported)")
	flag.Parse()

	if *list {
		var ids []string
		for id := range registry {
			ids = append(ids, id)
		}
		sort.Strings(ids)
		fmt.Println(strings.Join(ids, " "))
		return
	}
	seed := 0
	if s := os.Getenv("VERIF_SEED"); s != "" {
		seed, _ = strconv.Atoi(s)
	}
	if t := os.Getenv("VERIF_TIER"); t == "quick" || t == "thorough" {
		if !isFlagSet("tier") {
			*tier = t
		}
	}
	var ids []string
	if *prop == "all" {
		for id := range registry {
			ids = append(ids, id)
		}
		sort.Strings(ids)
	} else {
		ids = strings.Split(*prop, ",")
	}
	if len(ids) == 0 || ids[0] == "" {
		fmt.Fprintln(os.Stderr, "no property given")
		os.Exit(2)
	}
	for _, id := range ids {
		if registry[id] == nil {
			fmt.Fprintf(os.Stderr, "unknown property %s\n", id)
			os.Exit(2)
		}
	}
	exit := 0
	func() {
		defer func() {
			if e := recover(); e != nil {
				if ie, ok := e.(infraError); ok {
					fmt.Printf("CHECKER-FAILURE %s\n", ie.msg)
				} else {
					fmt.Printf("CHECKER-PANIC %v\n%s\n", e, debug.Stack())
				}
				exit = 2
			}
		}()
		t0 := time.Now()
		p := Load(*repo, *mod, 13, "", "", false)
		ctx := &Ctx{P: p, CG: p.BuildCG(), Tier: *tier}
		if *controls != "" {
			ctx.Ctl = Load(*controls, "controls", 1, "", "", false)
			ctx.CtlG = ctx.Ctl.BuildCG()
		}
		loadS := time.Since(t0).Seconds()
		kf := loadKnown(*known)
		for _, id := range ids {
			spec := registry[id]
			t1 := time.Now()
			r := NewReport(p, id)
			spec.Run(ctx, r)
			if *tier == "thorough" {
				thoroughExtra(ctx, spec, r, *repo, *mod)
			}
			extra := map[string]interface{}{"load_s": loadS, "build_configurations": r.Tables["build_configurations"]}
			if extra["build_configurations"] == nil {
				extra["build_configurations"] = []string{"default (GOOS/GOARCH of the host, no tags, no test files)"}
			}
			out := r.Finish(*tier, seed, spec.Level, kf, fmt.Sprintf("%s/%s.json", *evdir, id), t1,
				extra, append(append([]string{}, commonAssumptions...), spec.Assumptions...),
				append(append([]string{}, commonTrusted...), spec.Trusted...), spec.Explanation)
			for _, l := range out.Lines {
				fmt.Println(l)
			}
			nh := 0
			for _, o := range r.Obs {
				if o.Status == "holds" {
					nh++
				}
			}
			fmt.Printf("%s %s: %d obligations, %d hold, %d violations, %d known findings (%.1fs)\n", id, *tier, len(r.Obs), nh, out.Violations, out.Known, time.Since(t1).Seconds())
			if out.Violations > 0 {
				exit = 1
			}
			if *explain != "" {
				explainOne(r, *explain)
			}
		}
	}()
	os.Exit(exit)
}

func isFlagSet(name string) bool {
	set := false
	flag.Visit(func(f *flag.Flag) {
		if f.Name == name {
			set = true
		}
	})
	return set
}
