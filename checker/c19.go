package main

// c19.go — the ordering functions are lawful orders (exhaustive over the finite domain of order patterns).

import (
	"fmt"
	"go/token"
	"go/types"

	"golang.org/x/tools/go/ssa"
)

func init() {
	register(&PropSpec{ID: "C19", Level: "proof", Run: runC19,
		Explanation: "The comparators touch a pair of entries only through three three-way comparisons (clock time, clock id, hash string), so their behaviour on all inputs is a function of the sign triple (s_t,s_i,s_h) ∈ {−,0,+}³. An abstract interpreter executes the current SSA of SortByEntryHash, LastWriteWins, FirstWriteWins, NoZeroes(·), Compare, LamportClock.Compare and Sort's less closures under every triple (27 patterns; every branch is definite; any instruction outside the vocabulary makes the run undecided = failure) and then checks the order axioms by finite enumeration: totality/irreflexivity, antisymmetry on 27 pair patterns, transitivity on all 2197 = 13³ consistent triple-of-pairs patterns (each component a weak order on three elements), causality (s_t ≠ 0 ⇒ sign = s_t), default = hash-tiebreak wherever (s_t,s_i) ≠ (0,0), NoZeroes errs exactly on ties, first-write-wins = −last-write-wins, clock comparison antisymmetric/transitive on 9/169 patterns, and Sort's less = (f<0 | f>0 when reversed) with errors mapped to false. Time subtraction is executed with an overflow fork (mathematical sign or wrapped opposite sign); a result that differs between the two is reported.",
		Assumptions: []string{"*entry.Entry and *entry.LamportClock are the only first-party implementers of the entry/clock interfaces (asserted)", "distinct entries have distinct hashes; equal hashes imply equal clock (same entry)", "sort.SliceStable sorts stably by the given less function (standard library contract): permutation and determinism follow from less being a strict weak order"},
		Trusted:     []string{"bytes.Compare, strings.Compare, sort.SliceStable contracts", "the abstract interpreter checker/cmp.go"},
	})
}

var signs = []int{-1, 0, 1}

// weakOrders3: all 13 total preorders on {0,1,2} as rank vectors.
func weakOrders3() [][3]int {
	seen := map[[3]int]bool{}
	var out [][3]int
	for a := 0; a < 3; a++ {
		for b := 0; b < 3; b++ {
			for c := 0; c < 3; c++ {
				// normalise ranks to dense
				r := [3]int{a, b, c}
				used := map[int]bool{a: true, b: true, c: true}
				m := map[int]int{}
				k := 0
				for v := 0; v < 3; v++ {
					if used[v] {
						m[v] = k
						k++
					}
				}
				n := [3]int{m[r[0]], m[r[1]], m[r[2]]}
				if !seen[n] {
					seen[n] = true
					out = append(out, n)
				}
			}
		}
	}
	return out
}

func sgn(x int) int {
	switch {
	case x < 0:
		return -1
	case x > 0:
		return 1
	}
	return 0
}

type cmpTable map[[3]int]cmpResult

// c19Abort ends the run of C19 after a comparator or Sort turned out to be outside the interpreter's vocabulary:
// that is reported as a violation of R-C19.0 (nothing is proved about code that cannot be interpreted), together
// with whatever the structural rules had already found.
type c19Abort struct{}

func runC19(c *Ctx, r *Report) {
	p := c.P
	defer func() {
		if e := recover(); e != nil {
			if _, ok := e.(c19Abort); ok {
				return
			}
			panic(e)
		}
	}()
	r.Doc("R-C19.0", "every comparator is inside the interpreter's vocabulary under every sign triple (no undecided run)")
	r.Doc("R-C19.1", "hash-tiebreak ordering is a strict total order on distinct entries: no error, non-zero on distinct hashes, zero on the identical entry, antisymmetric, transitive, and ordered by clock time first")
	r.Doc("R-C19.2", "default ordering equals hash-tiebreak whenever (clock id, time) pairs differ; NoZeroes keeps the sign and errs exactly on ties")
	r.Doc("R-C19.3", "first-write-wins is the exact reverse of last-write-wins")
	r.Doc("R-C19.4", "clock comparison is antisymmetric and transitive and ordered by time first")
	r.Doc("R-C19.5", "Sort's less is f<0 (f>0 when reversed) of the given comparator on (values[i], values[j]); errors map to false")
	r.Doc("R-C19.6", "no comparator result depends on whether the integer subtraction of clock times overflowed or produced the most negative integer")
	r.Doc("R-C19.7", "the comparators' nil guard is a nil guard: (*Entry).Defined depends on nothing but the entry existing")
	r.Doc("R-C19.10", "the closures Sort hands to the sorting routine keep no state between comparisons: no variable that one comparison sets is tested by another (the sorted output would depend on which pairs were compared first)")
	comparisonsAreStateless(c, r, "R-C19.10")
	r.Doc("R-C19.9", "the orderings respect causality only for entries stamped above their predecessors with a clock of their own: Append takes the maximum over the heads exactly, adds one, and stores a fresh clock object (adopted from C04: a rounded maximum stamps a successor below its predecessor; a clock object shared with the log is re-stamped by the next Tick and the comparators change their answer for a stored entry)")
	importRules(c, r, "C04", []string{"R-C04.1", "R-C04.2"}, "R-C19.9")
	r.Doc("R-C19.8", "both sides of a comparison see the same numbers: the clock's getters return their field, its constructor and copy keep their arguments")

	definedReadsNothing(c, r, "R-C19.7")
	clockValueObject(c, r, "R-C19.8")
	// implementers
	cg := c.CG
	entryImp := p.Named("entry", "Entry")
	clockImp := p.Named("entry", "LamportClock")
	ifEntry := p.Named("iface", "IPFSLogEntry")
	ifClock := p.Named("iface", "IPFSLogLamportClock")
	countImpl := func(iface *types.Named) int {
		n := 0
		for _, nt := range cg.named {
			if types.Implements(types.NewPointer(nt), iface.Underlying().(*types.Interface)) {
				n++
			}
		}
		return n
	}
	r.Check(countImpl(ifEntry) == 1 && countImpl(ifClock) == 1, "R-C19.0", r.Key("R-C19.0", nil, "implementers", ""), token.NoPos,
		"exactly one first-party implementer of the entry and of the clock interface", fmt.Sprintf("expected one implementer each, found %d entry / %d clock implementers", countImpl(ifEntry), countImpl(ifClock)))

	fnOf := func(name string) aFn {
		o := p.FuncObj("entry/sorting", "", name)
		if o == nil {
			infra("unresolved anchor: sorting.%s", name)
		}
		sf := p.SSA.FuncValue(o)
		if sf == nil {
			infra("no SSA for sorting.%s", name)
		}
		return aFn{fn: sf}
	}
	table := func(name string, f aFn, less bool) cmpTable {
		t := cmpTable{}
		und := ""
		for _, st := range signs {
			for _, si := range signs {
				for _, sh := range signs {
					res := runCmp(p, f, [3]int{st, si, sh}, entryImp, clockImp, less)
					t[[3]int{st, si, sh}] = res
					if res.Undecided != "" && und == "" {
						und = fmt.Sprintf("(%d,%d,%d): %s", st, si, sh, res.Undecided)
					}
				}
			}
		}
		r.Check(und == "", "R-C19.0", r.Key("R-C19.0", nil, "interpretable", name), f.fn.Pos(),
			name+" interpreted on all 27 sign triples", name+" is outside the interpreter's vocabulary: "+und)
		// evidence table
		var rows []string
		for _, st := range signs {
			for _, si := range signs {
				for _, sh := range signs {
					x := t[[3]int{st, si, sh}]
					e := ""
					if x.Err {
						e = " err"
					}
					rows = append(rows, fmt.Sprintf("(%+d,%+d,%+d)->%+d%s", st, si, sh, x.Sign, e))
				}
			}
		}
		r.Tables["table:"+name] = rows
		return t
	}
	// closure produced by NoZeroes(f)
	noZeroes := func(f aFn) aFn {
		ci := &cmpInterp{p: p, entryImp: entryImp, clockImp: clockImp}
		var out aFn
		func() {
			defer func() {
				if e := recover(); e != nil {
					if u, ok := e.(cmpUndecided); ok {
						r.Violate("R-C19.0", r.Key("R-C19.0", nil, "interpretable", "NoZeroes"), 0, "NoZeroes is outside the interpreter's vocabulary ("+u.msg+"): nothing is proved about the orderings built with it")
						panic(c19Abort{})
					}
					panic(e)
				}
			}()
			v := ci.eval(fnOf("NoZeroes"), []aval{f})
			o, ok := v.(aFn)
			if !ok {
				infra("NoZeroes did not return a closure")
			}
			out = o
		}()
		return out
	}
	lessOf := func(f aFn, reverse bool) aFn {
		ci := &cmpInterp{p: p, entryImp: entryImp, clockImp: clockImp}
		func() {
			defer func() {
				if e := recover(); e != nil {
					if u, ok := e.(cmpUndecided); ok {
						r.Violate("R-C19.0", r.Key("R-C19.0", nil, "interpretable", "Sort"), 0, "Sort is outside the interpreter's vocabulary ("+u.msg+"): nothing is proved about the order of its output")
						panic(c19Abort{})
					}
					panic(e)
				}
			}()
			ci.eval(fnOf("Sort"), []aval{f, aSliceV{}, aBool{reverse}})
		}()
		if ci.lessFn == nil {
			infra("Sort does not reach sort.SliceStable with a less closure")
		}
		// bind the sorted slice inside the closure: its free variable holding `values`
		lf := *ci.lessFn
		return lf
	}

	H := table("SortByEntryHash", fnOf("SortByEntryHash"), false)
	L := table("LastWriteWins", fnOf("LastWriteWins"), false)
	F := table("FirstWriteWins", fnOf("FirstWriteWins"), false)
	C := table("Compare", fnOf("Compare"), false)
	NH := table("NoZeroes(SortByEntryHash)", noZeroes(fnOf("SortByEntryHash")), false)
	NL := table("NoZeroes(LastWriteWins)", noZeroes(fnOf("LastWriteWins")), false)
	// direct clock comparison through the reference implementation
	clockCmp := func() cmpTable {
		m := p.FuncObj("entry", "LamportClock", "Compare")
		if m == nil {
			infra("unresolved anchor: (*LamportClock).Compare")
		}
		sf := p.SSA.FuncValue(m)
		// wrap: evaluate with receiver clock of A and argument clock of B
		t := cmpTable{}
		for _, st := range signs {
			for _, si := range signs {
				var first *cmpResult
				for mask := 0; mask < 4; mask++ {
					ci := &cmpInterp{p: p, sig: [3]int{st, si, 0}, choices: []bool{mask&1 != 0, mask&2 != 0}, entryImp: entryImp, clockImp: clockImp}
					var res cmpResult
					func() {
						defer func() {
							if e := recover(); e != nil {
								if u, ok := e.(cmpUndecided); ok {
									res.Undecided = u.msg
									return
								}
								panic(e)
							}
						}()
						v := ci.eval(aFn{fn: sf}, []aval{aClock{0}, aClock{1}})
						s, ok := signOf(v)
						if !ok {
							res.Undecided = fmt.Sprintf("result %T", v)
						}
						res.Sign = s
					}()
					if first == nil {
						x := res
						first = &x
					} else if res.Sign != first.Sign {
						first.OvfDiffer = true
					}
					if ci.nChoice == 0 {
						break
					}
				}
				for _, sh := range signs {
					t[[3]int{st, si, sh}] = *first
				}
			}
		}
		return t
	}()
	{
		und := ""
		for k, v := range clockCmp {
			if v.Undecided != "" {
				und = fmt.Sprintf("%v: %s", k, v.Undecided)
			}
		}
		r.Check(und == "", "R-C19.0", r.Key("R-C19.0", nil, "interpretable", "LamportClock.Compare"), token.NoPos, "LamportClock.Compare interpreted on all 9 (s_t,s_i) patterns", "LamportClock.Compare outside the vocabulary: "+und)
	}

	neg := func(k [3]int) [3]int { return [3]int{-k[0], -k[1], -k[2]} }
	consistent := func(k [3]int) bool { return k[2] != 0 || (k[0] == 0 && k[1] == 0) }
	each27 := func(f func(k [3]int)) {
		for _, st := range signs {
			for _, si := range signs {
				for _, sh := range signs {
					f([3]int{st, si, sh})
				}
			}
		}
	}
	ob := func(rule, name string, ok bool, okMsg, badMsg string) {
		r.Check(ok, rule, r.Key(rule, nil, "axiom", name), token.NoPos, okMsg, badMsg)
	}
	strict := func(t cmpTable, name, rule string) {
		bad := ""
		each27(func(k [3]int) {
			if t[k].Err {
				bad = fmt.Sprintf("error on pattern %v", k)
			}
			if k[2] != 0 && t[k].Sign == 0 {
				bad = fmt.Sprintf("distinct entries compare equal on pattern %v (not total)", k)
			}
			if k == ([3]int{0, 0, 0}) && t[k].Sign != 0 {
				bad = "an entry is ordered before/after itself (not irreflexive)"
			}
		})
		ob(rule, name+":total-irreflexive", bad == "", name+" is non-zero on all 18 patterns with distinct hashes, zero on the identical entry, never errs", name+": "+bad)
		bad = ""
		each27(func(k [3]int) {
			if t[neg(k)].Sign != -t[k].Sign {
				bad = fmt.Sprintf("f%v=%+d but f%v=%+d", k, t[k].Sign, neg(k), t[neg(k)].Sign)
			}
		})
		ob(rule, name+":antisymmetric", bad == "", name+" antisymmetric on all 27 pair patterns", name+" not antisymmetric: "+bad)
		bad = ""
		each27(func(k [3]int) {
			if k[0] != 0 && t[k].Sign != k[0] {
				bad = fmt.Sprintf("pattern %v ordered %+d against the clock time", k, t[k].Sign)
			}
		})
		ob(rule, name+":causal", bad == "", name+" orders an entry after every entry with a smaller clock time (18 patterns)", name+": "+bad)
	}
	transitive := func(t cmpTable, name, rule string, distinctHashOnly bool) {
		wo := weakOrders3()
		n, bad := 0, ""
		for _, tt := range wo {
			for _, ii := range wo {
				for _, hh := range wo {
					if distinctHashOnly && !(hh[0] != hh[1] && hh[1] != hh[2] && hh[0] != hh[2]) {
						continue
					}
					pat := func(x, y int) [3]int {
						return [3]int{sgn(tt[x] - tt[y]), sgn(ii[x] - ii[y]), sgn(hh[x] - hh[y])}
					}
					ab, bc, ac := pat(0, 1), pat(1, 2), pat(0, 2)
					if !consistent(ab) || !consistent(bc) || !consistent(ac) {
						continue
					}
					n++
					if t[ab].Sign < 0 && t[bc].Sign < 0 && !(t[ac].Sign < 0) {
						bad = fmt.Sprintf("a<b %v, b<c %v but not a<c %v", ab, bc, ac)
					}
					if t[ab].Sign > 0 && t[bc].Sign > 0 && !(t[ac].Sign > 0) {
						bad = fmt.Sprintf("a>b %v, b>c %v but not a>c %v", ab, bc, ac)
					}
				}
			}
		}
		ob(rule, name+":transitive", bad == "" && n > 0, fmt.Sprintf("%s transitive on all %d consistent triple patterns (of %d enumerated)", name, n, len(wo)*len(wo)*len(wo)), name+" not transitive: "+bad)
	}
	strict(H, "SortByEntryHash", "R-C19.1")
	transitive(H, "SortByEntryHash", "R-C19.1", false)

	// default vs hash-tiebreak
	bad := ""
	each27(func(k [3]int) {
		if (k[0] != 0 || k[1] != 0) && (L[k].Sign != H[k].Sign || L[k].Err) {
			bad = fmt.Sprintf("pattern %v: default %+d, hash-tiebreak %+d", k, L[k].Sign, H[k].Sign)
		}
	})
	ob("R-C19.2", "LastWriteWins==SortByEntryHash-when-clocks-differ", bad == "", "default ordering equals the hash-tiebreak ordering on all 24 patterns with distinct (time,id)", "default ordering disagrees: "+bad)
	transitive(L, "LastWriteWins", "R-C19.2", false)
	for _, pr := range []struct {
		n    string
		base cmpTable
		nz   cmpTable
	}{{"SortByEntryHash", H, NH}, {"LastWriteWins", L, NL}} {
		bad = ""
		each27(func(k [3]int) {
			b, z := pr.base[k], pr.nz[k]
			if b.Sign != 0 && !b.Err {
				if z.Sign != b.Sign || z.Err {
					bad = fmt.Sprintf("pattern %v: f=%+d, NoZeroes(f)=%+d err=%v", k, b.Sign, z.Sign, z.Err)
				}
			} else if !z.Err {
				bad = fmt.Sprintf("pattern %v: f=0/err but NoZeroes(f) does not err", k)
			}
		})
		ob("R-C19.2", "NoZeroes("+pr.n+")", bad == "", "NoZeroes("+pr.n+") keeps the sign and errs exactly where the comparator ties or errs", "NoZeroes("+pr.n+"): "+bad)
	}
	// first = -last
	bad = ""
	each27(func(k [3]int) {
		if F[k].Sign != -L[k].Sign || F[k].Err != L[k].Err {
			bad = fmt.Sprintf("pattern %v: first %+d, last %+d", k, F[k].Sign, L[k].Sign)
		}
	})
	ob("R-C19.3", "FirstWriteWins==-LastWriteWins", bad == "", "first-write-wins is the exact reverse of last-write-wins on all 27 patterns", "first-write-wins is not the reverse: "+bad)

	// clock comparison: antisymmetric, transitive over (st,si); and sorting.Compare agrees with it
	for _, pr := range []struct {
		n string
		t cmpTable
	}{{"LamportClock.Compare", clockCmp}, {"sorting.Compare", C}} {
		bad = ""
		each27(func(k [3]int) {
			if pr.t[neg(k)].Sign != -pr.t[k].Sign {
				bad = fmt.Sprintf("f%v=%+d, f%v=%+d", k, pr.t[k].Sign, neg(k), pr.t[neg(k)].Sign)
			}
			if k[0] != 0 && pr.t[k].Sign != k[0] {
				bad = fmt.Sprintf("pattern %v ordered %+d against the clock time", k, pr.t[k].Sign)
			}
			if pr.t[k].Err {
				bad = fmt.Sprintf("error on defined entries, pattern %v", k)
			}
		})
		ob("R-C19.4", pr.n+":antisymmetric-causal", bad == "", pr.n+" antisymmetric and time-first on all 9 (s_t,s_i) patterns", pr.n+": "+bad)
		// transitivity over weak orders of (t,i) only
		wo := weakOrders3()
		n := 0
		bad = ""
		for _, tt := range wo {
			for _, ii := range wo {
				pat := func(x, y int) [3]int { return [3]int{sgn(tt[x] - tt[y]), sgn(ii[x] - ii[y]), 0} }
				ab, bc, ac := pat(0, 1), pat(1, 2), pat(0, 2)
				n++
				if pr.t[ab].Sign < 0 && pr.t[bc].Sign < 0 && !(pr.t[ac].Sign < 0) {
					bad = fmt.Sprintf("a<b %v, b<c %v, not a<c %v", ab, bc, ac)
				}
				if pr.t[ab].Sign == 0 && pr.t[bc].Sign == 0 && pr.t[ac].Sign != 0 {
					bad = fmt.Sprintf("a=b %v, b=c %v, a≠c %v", ab, bc, ac)
				}
			}
		}
		ob("R-C19.4", pr.n+":transitive", bad == "" && n == 169, fmt.Sprintf("%s transitive on all %d (time,id) triple patterns", pr.n, n), pr.n+" not transitive: "+bad)
	}

	// Sort's less
	for _, cf := range []struct {
		n string
		f aFn
		t cmpTable
	}{{"SortByEntryHash", fnOf("SortByEntryHash"), H}, {"NoZeroes(LastWriteWins)", noZeroes(fnOf("LastWriteWins")), NL}, {"NoZeroes(SortByEntryHash)", noZeroes(fnOf("SortByEntryHash")), NH}} {
		for _, rev := range []bool{false, true} {
			lt := table(fmt.Sprintf("Sort.less[%s,reverse=%v]", cf.n, rev), lessOf(cf.f, rev), true)
			bad = ""
			each27(func(k [3]int) {
				want := 0
				if !cf.t[k].Err {
					if (!rev && cf.t[k].Sign < 0) || (rev && cf.t[k].Sign > 0) {
						want = 1
					}
				}
				if lt[k].Sign != want {
					bad = fmt.Sprintf("pattern %v: less=%v, comparator %+d err=%v", k, lt[k].Sign == 1, cf.t[k].Sign, cf.t[k].Err)
				}
			})
			ob("R-C19.5", fmt.Sprintf("Sort.less[%s,reverse=%v]", cf.n, rev), bad == "",
				"Sort's less is exactly (f<0), resp. (f>0) when reversed, with errors mapped to false, on all 27 patterns", "Sort's less disagrees with the comparator: "+bad)
		}
	}

	// overflow independence
	for _, pr := range []struct {
		n string
		t cmpTable
	}{{"SortByEntryHash", H}, {"LastWriteWins", L}, {"FirstWriteWins", F}, {"sorting.Compare", C}, {"LamportClock.Compare", clockCmp}} {
		bad = ""
		used := false
		each27(func(k [3]int) {
			if pr.t[k].OvfDiffer {
				bad = fmt.Sprintf("pattern %v", k)
			}
			if pr.t[k].UsedSub {
				used = true
			}
		})
		msg := pr.n + " gives the same answer whether or not the time subtraction wraps or lands on the most negative integer"
		if !used {
			msg = pr.n + " compares clock times without overflow-prone subtraction (or guards it)"
		}
		ob("R-C19.6", pr.n+":overflow-independent", bad == "", msg,
			pr.n+" decides by the sign of an integer subtraction of clock times whose machine result can differ from the mathematical one: it can wrap (e.g. MaxInt vs a negative time from a decoded block) or be exactly the most negative integer, which negation maps to itself (times −2^62 and 2^62). The comparison then reports the same direction both ways — not antisymmetric / not the exact reverse ("+bad+")")
	}
	r.Tables["exhaustive"] = true
	_ = ssa.Value(nil)
}
