package main

// c20.go — key material and identities: cache-aside coherence, store-before-cache, create only after a
// failed get, what is signed is what is published.

import (
	"fmt"
	"go/ast"
	"go/constant"
	"go/token"
	"go/types"
	"sort"
	"strings"

	"golang.org/x/tools/go/ssa"
)

func init() {
	register(&PropSpec{ID: "C20", Level: "other", Run: runC20,
		Explanation: "Decides on every path of the keystore and identity creation code: (R-C20.1) in every Keystore method that consults the LRU and then the datastore, every success return reachable after the datastore lookup is data-dependent on the datastore's answer (or is the constant true) — never only on the (missed) cache value; (R-C20.2) in CreateKey the cache insertion and the success return are dominated by the nil edge of the datastore Put's error; (R-C20.3) every CreateKey call of the identity code is control-dependent on the failure of a GetKey for the same id (otherwise creating an identity twice rotates the key); (R-C20.4) the bytes passed to SignIdentity are exactly the public key and id signature stored in the returned identity, and the stored public-key signature is that call's result. Not covered: everything cryptographic, LRU behaviour, persistence across restarts.",
	})
}

func ssaReaches(from, to *ssa.BasicBlock) bool {
	seen := map[*ssa.BasicBlock]bool{}
	work := []*ssa.BasicBlock{from}
	for len(work) > 0 {
		b := work[len(work)-1]
		work = work[:len(work)-1]
		if b == to {
			return true
		}
		if seen[b] {
			continue
		}
		seen[b] = true
		work = append(work, b.Succs...)
	}
	return false
}

func isMethodOn(f *types.Func, pkgSuffix, recv string, names ...string) bool {
	if f == nil || f.Pkg() == nil {
		return false
	}
	sig := f.Type().(*types.Signature)
	if sig.Recv() == nil {
		return false
	}
	nt := namedOf(sig.Recv().Type())
	if nt == nil || nt.Obj().Name() != recv || nt.Obj().Pkg() == nil {
		return false
	}
	pp := nt.Obj().Pkg().Path()
	if len(pp) < len(pkgSuffix) || pp[len(pp)-len(pkgSuffix):] != pkgSuffix {
		return false
	}
	for _, n := range names {
		if f.Name() == n {
			return true
		}
	}
	return false
}

func runC20(c *Ctx, r *Report) {
	p := c.P
	r.Doc("R-C20.1", "cache-aside coherence: after a datastore lookup, a success return depends on the datastore's answer")
	r.Doc("R-C20.2", "CreateKey: cache.Add and the success return are dominated by the nil edge of store.Put's error")
	r.Doc("R-C20.3", "CreateKey is called only on the failure edge of GetKey for the same id")
	r.Doc("R-C20.4", "SignIdentity signs exactly the published public key and id signature; its result is the published public-key signature")
	r.Doc("control", "engine positive/negative controls analysed on every run")
	c208(c, r)
	r.Doc("R-C20.10", "the keystore's signature check succeeds only on the true result of the public-key verification of that call")
	sigCheckDominates(c, r, "R-C20.10", p.FuncI("keystore", "Keystore", "Verify"))
	hasKeyPolarity(c, r)
	keystoreAddressing(c, r)
	r.Doc("R-C20.9", "the keystore and the identity code examine every error result before going on: a failed datastore write, key decode or signature is never followed by a cached key or a returned identity")
	r.Doc("R-C20.14", "the keystore writes to the datastore it was given, directly (a write-behind wrapper keeps keys where no other keystore over the same datastore sees them)")
	constructorKeepsArgument(c, r, "R-C20.14", "keystore", "NewKeystore", "Keystore", "store", "keys created through this keystore are not in the datastore when another keystore over it (or this one after a restart) looks for them: the key is reported absent and a second, different identity is created for the same id")
	r.Doc("R-C20.15", "every setter of the clock stores its argument in the field its getter returns (adopted from C08: a SetID that writes into the previous id's storage overwrites the identity's published key, which every clock of the log shares)")
	importRules(c, r, "C08", []string{"R-C08.8"}, "R-C20.15")
	r.Doc("R-C20.16", "bytes handed out by the datastore are only read: the serialized key the keystore gets from the store is the store's own buffer for the in-memory stores — wiping or editing it in place destroys the stored key for every other keystore over that datastore")
	sharedSlicesReadOnlyIn(c, r, "R-C20.16", func(f *types.Func) bool {
		return f.Pkg() != nil && strings.Contains(f.Pkg().Path(), "go-datastore") && f.Name() == "Get"
	}, func(fn *Fn) bool { return inPkgs(c.P, fn, "keystore") }, 0, 1)
	errDiscipline(c, r, "R-C20.9", func(fn *Fn) bool { return inPkgs(c.P, fn, "keystore", "identityprovider") },
		"a key or identity is handed out although creating, storing, decoding or signing it failed — another keystore over the same datastore then sees a different (or no) key for the id", deliberateDiscards)

	ks := p.Named("keystore", "Keystore")
	nMeth := 0
	for i := 0; i < ks.NumMethods(); i++ {
		fn := p.ByObj[ks.Method(i)]
		if fn == nil {
			continue
		}
		sf := p.SSAFunc(fn)
		var cacheCalls, storeCalls []*ssa.Call
		var extracts = map[*ssa.Call][]ssa.Value{}
		allInstrs(sf, false, func(ins ssa.Instruction) {
			call, ok := ins.(*ssa.Call)
			if !ok {
				return
			}
			cf := calleeOf(call)
			if isMethodOn(cf, "hashicorp/golang-lru", "Cache", "Peek", "Get") {
				cacheCalls = append(cacheCalls, call)
			}
			if cf != nil && cf.Pkg() != nil && cf.Pkg().Path() == "github.com/ipfs/go-datastore" && (cf.Name() == "Get" || cf.Name() == "Has") {
				storeCalls = append(storeCalls, call)
			}
		})
		if len(cacheCalls) == 0 || len(storeCalls) == 0 {
			continue
		}
		nMeth++
		_ = extracts
		for _, b := range sf.Blocks {
			ret, ok := b.Instrs[len(b.Instrs)-1].(*ssa.Return)
			if !ok || len(ret.Results) != 2 {
				continue
			}
			if cst, ok := ret.Results[1].(*ssa.Const); !ok || !cst.IsNil() {
				continue // error return
			}
			for _, sc := range storeCalls {
				if !ssaReaches(sc.Block(), b) {
					continue
				}
				key := r.Key("R-C20.1", fn, "return-after-store-lookup", "")
				res := ret.Results[0]
				if cst, ok := res.(*ssa.Const); ok && cst.Value != nil && cst.Value.Kind() == constant.Bool && constant.BoolVal(cst.Value) {
					r.Hold("R-C20.1", key, ret.Pos(), true, "returns the constant true after a successful datastore lookup")
					continue
				}
				bs := backSliceOpt(res, nil, true)
				dep := bs[sc]
				if !dep {
					// a constant answer (e.g. `return false, nil` under `if value == nil`) depends on the store
					// through the branch that selects it
					for _, cnd := range controlConds(b) {
						if backSliceOpt(cnd, nil, true)[sc] {
							dep = true
						}
					}
				}
				r.Check(dep, "R-C20.1", key, ret.Pos(),
					"the value returned after the datastore lookup depends on the datastore's answer",
					"on the cache-miss path the method consults the datastore but the returned value depends only on the (missed) cache lookup: a key present in the datastore but not in this keystore's cache (new keystore over the same store, or after eviction) is reported absent")
			}
		}
	}
	r.Floor("R-C20.1", "Keystore methods with cache+store lookups", nMeth, 2)

	// R-C20.5 / R-C20.6 / R-C20.7
	r.Doc("R-C20.5", "everything put in the key cache derives from key bytes (a datastore read or the freshly generated key) — no 'not found' markers")
	r.Doc("R-C20.6", "absence is only ever concluded from the datastore: a return not preceded by a datastore lookup is a positive answer (or an error about the cached value itself)")
	r.Doc("R-C20.7", "key bytes are immutable: the cache never holds a mutable byte slice that the package also writes into")
	nAddAll, mutableCached, byteWrites := 0, "", ""
	for i := 0; i < ks.NumMethods(); i++ {
		fn := p.ByObj[ks.Method(i)]
		if fn == nil {
			continue
		}
		for _, f := range AllFnsUnder(fn) {
			sf := p.SSAFunc(f)
			allInstrs(sf, false, func(ins ssa.Instruction) {
				switch x := ins.(type) {
				case *ssa.Call:
					cf := calleeOf(x)
					if isMethodOn(cf, "hashicorp/golang-lru", "Cache", "Add") && len(x.Call.Args) == 3 {
						nAddAll++
						v := x.Call.Args[2]
						var keyDerived func(v ssa.Value, in *ssa.Function, depth int) bool
						keyDerived = func(v ssa.Value, in *ssa.Function, depth int) bool {
							var pars []*ssa.Parameter
							for y := range backSlice(v, nil) {
								if c2, ok := y.(*ssa.Call); ok {
									if f2 := calleeOf(c2); f2 != nil {
										if (f2.Pkg() != nil && f2.Pkg().Path() == "github.com/ipfs/go-datastore" && f2.Name() == "Get") || f2.Name() == "Raw" {
											return true
										}
									}
								}
								if par, ok := y.(*ssa.Parameter); ok && par.Parent() == in {
									if _, isSlice := par.Type().Underlying().(*types.Slice); isSlice {
										pars = append(pars, par)
									}
								}
							}
							// a caching helper: what it caches is what every caller hands it
							if depth > 2 || len(pars) == 0 {
								return false
							}
							for _, par := range pars {
								idx := -1
								for i, pp := range in.Params {
									if pp == par {
										idx = i
									}
								}
								sites, good := 0, 0
								for _, g := range p.Fns {
									if g.Pkg.PkgPath != p.pkgPath("keystore") || g.Orig != nil {
										continue
									}
									sg := p.SSAFunc(g)
									if sg == nil {
										continue
									}
									allInstrs(sg, false, func(ins ssa.Instruction) {
										if c3, ok := ins.(*ssa.Call); ok && c3.Call.StaticCallee() == in && idx < len(c3.Call.Args) {
											sites++
											nAddAll++
											if keyDerived(c3.Call.Args[idx], sg, depth+1) {
												good++
											}
										}
									})
								}
								if sites > 0 && good == sites {
									return true
								}
							}
							return false
						}
						fromKey := keyDerived(v, sf, 0)
						r.Check(fromKey, "R-C20.5", r.Key("R-C20.5", f, "cache.Add", ""), x.Pos(),
							"the cached value is an encoding of key bytes read from the datastore or just generated",
							"a value that is not key material (e.g. a nil 'not found' marker) is put in the cache: another keystore instance over the same datastore can create the key meanwhile, and this instance keeps answering from its marker — then re-creates the key, so the same id yields a different identity")
						// mutability of what is cached
						if mi, ok := v.(*ssa.MakeInterface); ok {
							if _, isSlice := mi.X.Type().Underlying().(*types.Slice); isSlice {
								mutableCached = p.Pos(x.Pos())
							}
						}
					}
					if b, ok := x.Call.Value.(*ssa.Builtin); ok && (b.Name() == "copy" || b.Name() == "clear") && len(x.Call.Args) > 0 {
						if sl, ok := x.Call.Args[0].Type().Underlying().(*types.Slice); ok {
							if bt, ok := sl.Elem().Underlying().(*types.Basic); ok && bt.Kind() == types.Byte {
								byteWrites = p.Pos(x.Pos())
							}
						}
					}
				case *ssa.Store:
					if ia, ok := x.Addr.(*ssa.IndexAddr); ok {
						if sl, ok := ia.X.Type().Underlying().(*types.Slice); ok {
							if bt, ok := sl.Elem().Underlying().(*types.Basic); ok && bt.Kind() == types.Byte {
								byteWrites = p.Pos(x.Pos())
							}
						}
					}
				}
			})
		}
	}
	// package-level functions and literals of the keystore package too (constructor callbacks)
	for _, f := range p.Fns {
		if f.Pkg.PkgPath != p.pkgPath("keystore") {
			continue
		}
		sf := p.SSAFunc(f)
		if sf == nil {
			continue
		}
		allInstrs(sf, false, func(ins ssa.Instruction) {
			if x, ok := ins.(*ssa.Store); ok {
				if ia, ok := x.Addr.(*ssa.IndexAddr); ok {
					if sl, ok := ia.X.Type().Underlying().(*types.Slice); ok {
						if bt, ok := sl.Elem().Underlying().(*types.Basic); ok && bt.Kind() == types.Byte {
							byteWrites = p.Pos(x.Pos())
						}
					}
				}
			}
		})
	}
	// what is handed to the datastore is not written afterwards (or before the store copies it): datastores
	// may keep the caller's slice
	nput := 0
	for i := 0; i < ks.NumMethods(); i++ {
		fn := p.ByObj[ks.Method(i)]
		if fn == nil {
			continue
		}
		sf := p.SSAFunc(fn)
		allInstrs(sf, true, func(ins ssa.Instruction) {
			call, ok := ins.(*ssa.Call)
			if !ok || !call.Call.IsInvoke() || call.Call.Method.Name() != "Put" || len(call.Call.Args) < 3 {
				return
			}
			v := call.Call.Args[2]
			if _, isSlice := v.Type().Underlying().(*types.Slice); !isSlice {
				return
			}
			nput++
			w := writerOf(p, v, sf)
			r.Check(w == "", "R-C20.7", r.Key("R-C20.7", fn, "stored-bytes-untouched", ""), call.Pos(),
				"the byte slice handed to the datastore is never written by the keystore",
				"the key bytes handed to the datastore are also written "+w+": a datastore that keeps the caller's slice (the in-memory map datastore does) then holds different bytes than the key that was created — a second keystore, or this one after eviction, reads another key for the same id")
		})
	}
	r.Floor("R-C20.7", "datastore writes of key bytes", nput, 1)
	r.Floor("R-C20.5", "cache insertions in the keystore", nAddAll, 2)
	r.Check(mutableCached == "" || byteWrites == "", "R-C20.7", r.Key("R-C20.7", nil, "immutable-key-bytes", ""), token.NoPos,
		"the cache holds immutable encodings (strings) and/or nothing in the package writes into byte slices",
		fmt.Sprintf("the cache holds a mutable []byte (at %s) and the package writes into byte slices (at %s): a slice shared with the datastore (non-copying stores return and keep the caller's slice) is modified in place, so the persisted key changes", mutableCached, byteWrites))
	for i := 0; i < ks.NumMethods(); i++ {
		fn := p.ByObj[ks.Method(i)]
		if fn == nil {
			continue
		}
		sf := p.SSAFunc(fn)
		var cacheCalls, storeCalls []*ssa.Call
		allInstrs(sf, false, func(ins ssa.Instruction) {
			if call, ok := ins.(*ssa.Call); ok {
				cf := calleeOf(call)
				if isMethodOn(cf, "hashicorp/golang-lru", "Cache", "Peek", "Get") {
					cacheCalls = append(cacheCalls, call)
				}
				if cf != nil && cf.Pkg() != nil && cf.Pkg().Path() == "github.com/ipfs/go-datastore" && (cf.Name() == "Get" || cf.Name() == "Has") {
					storeCalls = append(storeCalls, call)
				}
			}
		})
		if len(cacheCalls) == 0 || len(storeCalls) == 0 {
			continue
		}
		for _, b := range sf.Blocks {
			ret, ok := b.Instrs[len(b.Instrs)-1].(*ssa.Return)
			if !ok || len(ret.Results) != 2 {
				continue
			}
			after := false
			for _, sc := range storeCalls {
				if ssaReaches(sc.Block(), b) {
					after = true
				}
			}
			if after {
				continue
			}
			key := r.Key("R-C20.6", fn, "cache-only-return", "")
			errV := ret.Results[1]
			if cst, isC := errV.(*ssa.Const); isC && cst.IsNil() {
				// success from the cache alone: must be a positive answer
				if bc, isB := ret.Results[0].(*ssa.Const); isB && bc.Value != nil && bc.Value.Kind() == constant.Bool && !constant.BoolVal(bc.Value) {
					r.Violate("R-C20.6", key, ret.Pos(), "the keystore answers 'absent' from its cache without consulting the datastore: a key created meanwhile through another keystore over the same datastore is reported absent")
				} else {
					r.Hold("R-C20.6", key, ret.Pos(), true, "a return without datastore lookup is a positive cache hit")
				}
				continue
			}
			// error without datastore lookup: must be about the cached value (its slice contains the cache lookup)
			about := false
			bs := backSlice(errV, nil)
			for _, cc := range cacheCalls {
				if bs[cc] {
					about = true
				}
			}
			r.Check(about, "R-C20.6", key, ret.Pos(), "an error returned without datastore lookup is about the cached value itself (decoding it failed)",
				"the keystore reports a key as missing from its cache alone, without consulting the datastore: another keystore instance may have created it")
		}
	}

	// R-C20.2
	ck := p.FuncI("keystore", "Keystore", "CreateKey")
	putErr := map[types.Object]bool{}
	walkNoLit(ck.Body, func(n ast.Node) bool {
		as, ok := n.(*ast.AssignStmt)
		if !ok || len(as.Rhs) != 1 {
			return true
		}
		if call, ok := ast.Unparen(as.Rhs[0]).(*ast.CallExpr); ok {
			if cf := p.Callee(ck, call); cf != nil && cf.Name() == "Put" && cf.Pkg() != nil && cf.Pkg().Path() == "github.com/ipfs/go-datastore" {
				if id, ok := as.Lhs[len(as.Lhs)-1].(*ast.Ident); ok {
					putErr[p.ObjOf(ck, id)] = true
				}
			}
		}
		return true
	})
	r.Floor("R-C20.2", "datastore Put with checked error in CreateKey", len(putErr), 1)
	fl := &Flow{P: p, Fn: ck, Entry: Facts{}}
	fl.Edge = func(cond ast.Expr, taken bool, f Facts) {
		for _, a := range splitCond(cond, taken) {
			if x, isNil, ok := nilTest(a); ok && isNil {
				if id, ok := ast.Unparen(x).(*ast.Ident); ok && putErr[p.ObjOf(ck, id)] {
					f["putOK"] = true
				}
			}
		}
	}
	fl.Run()
	nAdd := 0
	fl.Visit(func(_ *cfgBlk, n ast.Node, before Facts) {
		walkNoLit(n, func(nd ast.Node) bool {
			if call, ok := nd.(*ast.CallExpr); ok {
				if cf := p.Callee(ck, call); isMethodOn(cf, "hashicorp/golang-lru", "Cache", "Add") {
					nAdd++
					r.Check(before["putOK"], "R-C20.2", r.Key("R-C20.2", ck, "cache.Add", ""), call.Pos(),
						"the key is cached only after the datastore accepted it",
						"the new key is put in the cache before (or regardless of) a successful datastore Put: after a failed Put the keystore hands out a key that no other keystore over the same store will ever see")
				}
			}
			return true
		})
	})
	fl.Exits(func(_ *cfgBlk, ret *ast.ReturnStmt, at Facts) {
		if ret == nil {
			return
		}
		if isNil, hasErr := errResultIsNil(p, ck, ret); hasErr && isNil {
			r.Check(at["putOK"], "R-C20.2", r.Key("R-C20.2", ck, "success-return", ""), ret.Pos(),
				"CreateKey reports success only after the datastore Put succeeded",
				"CreateKey can return success without a successful datastore Put: the key is lost on restart and invisible to other keystores")
		}
	})
	r.Floor("R-C20.2", "cache insertions in CreateKey", nAdd, 1)

	// R-C20.3
	nCreate := 0
	for _, fn := range p.Fns {
		if fn.Pkg.PkgPath != p.pkgPath("identityprovider") {
			continue
		}
		// GetKey results: v, err := X.GetKey(ctx, id)
		type getRec struct {
			errObj, valObj types.Object
			idKey          string
		}
		var gets []getRec
		walkNoLit(fn.Body, func(n ast.Node) bool {
			as, ok := n.(*ast.AssignStmt)
			if !ok || len(as.Rhs) != 1 || len(as.Lhs) != 2 {
				return true
			}
			if call, ok := ast.Unparen(as.Rhs[0]).(*ast.CallExpr); ok {
				if cf := p.Callee(fn, call); cf != nil && cf.Name() == "GetKey" && len(call.Args) == 2 {
					g := getRec{idKey: types.ExprString(call.Args[1])}
					if id, ok := as.Lhs[0].(*ast.Ident); ok {
						g.valObj = p.ObjOf(fn, id)
					}
					if id, ok := as.Lhs[1].(*ast.Ident); ok {
						g.errObj = p.ObjOf(fn, id)
					}
					gets = append(gets, g)
				}
			}
			return true
		})
		hasCreate := false
		walkNoLit(fn.Body, func(n ast.Node) bool {
			if call, ok := n.(*ast.CallExpr); ok {
				if cf := p.Callee(fn, call); cf != nil && cf.Name() == "CreateKey" {
					hasCreate = true
				}
			}
			return true
		})
		if !hasCreate {
			continue
		}
		gf := &Flow{P: p, Fn: fn, Entry: Facts{}}
		indicator := func(a condAtom) string {
			// err != nil (true) or val == nil (true) for some GetKey
			if x, isNil, ok := nilTest(a); ok {
				if id, ok := ast.Unparen(x).(*ast.Ident); ok {
					o := p.ObjOf(fn, id)
					for _, g := range gets {
						if o == g.errObj && !isNil {
							return g.idKey
						}
						if o == g.valObj && isNil {
							return g.idKey
						}
					}
				}
			}
			return ""
		}
		gf.Edge = func(cond ast.Expr, taken bool, f Facts) {
			// however the condition is spelled (`a || b`, `!(c && d)`, nested): every alternative under which
			// this edge is taken must contain a failure indicator for the same id
			alts := dnfCond(cond, taken)
			count := map[string]int{}
			for _, alt := range alts {
				seen := map[string]bool{}
				for _, a := range alt {
					if k := indicator(a); k != "" && !seen[k] {
						seen[k] = true
						count[k]++
					}
				}
			}
			for k, n := range count {
				if n == len(alts) {
					f["getFailed|"+k] = true
				}
			}
		}
		gf.Run()
		gf.Visit(func(_ *cfgBlk, n ast.Node, before Facts) {
			walkNoLit(n, func(nd ast.Node) bool {
				if call, ok := nd.(*ast.CallExpr); ok {
					if cf := p.Callee(fn, call); cf != nil && cf.Name() == "CreateKey" && len(call.Args) == 2 {
						nCreate++
						idk := types.ExprString(call.Args[1])
						r.Check(before["getFailed|"+idk], "R-C20.3", r.Key("R-C20.3", fn, "CreateKey", idk), call.Pos(),
							"a key is created only after GetKey for the same id failed",
							"CreateKey("+idk+") is not guarded by a failed GetKey for the same id: creating an identity for an existing id replaces its key, so the same id yields a different identity")
					}
				}
				return true
			})
		})
	}
	r.Floor("R-C20.3", "CreateKey call sites in identityprovider", nCreate, 1)

	// R-C20.4
	ci := p.FuncI("identityprovider", "Identities", "CreateIdentity")
	var signCall *ast.CallExpr
	var sigObj types.Object
	walkNoLit(ci.Body, func(n ast.Node) bool {
		as, ok := n.(*ast.AssignStmt)
		if !ok || len(as.Rhs) != 1 {
			return true
		}
		if call, ok := ast.Unparen(as.Rhs[0]).(*ast.CallExpr); ok {
			if cf := p.Callee(ci, call); cf != nil && cf.Name() == "SignIdentity" {
				signCall = call
				if id, ok := as.Lhs[0].(*ast.Ident); ok {
					sigObj = p.ObjOf(ci, id)
				}
			}
		}
		return true
	})
	key := r.Key("R-C20.4", ci, "sign-identity", "")
	if signCall == nil || len(signCall.Args) < 2 {
		r.Undecided("R-C20.4", key, ci.Body.Pos(), "no SignIdentity call found in CreateIdentity")
		return
	}
	// data argument: append(A, B...) with identifiers A, B
	// (the two named values are places: a local, or a field of a local result struct; a single-definition
	// temporary holding the concatenation stands for it)
	var aObj, bObj types.Object
	aKey, bKey := "", ""
	dataArg := ast.Unparen(signCall.Args[1])
	if id, ok := dataArg.(*ast.Ident); ok {
		if d := p.SoleDef(ci, p.ObjOf(ci, id)); d != nil {
			dataArg = ast.Unparen(d)
		}
	}
	if app, ok := dataArg.(*ast.CallExpr); ok && p.Builtin(ci, app) == "append" && len(app.Args) == 2 && app.Ellipsis.IsValid() {
		if root, k, ok := p.PathKey(ci, app.Args[0]); ok {
			aObj, aKey = root, k
		}
		if root, k, ok := p.PathKey(ci, app.Args[1]); ok {
			bObj, bKey = root, k
		}
	}
	if aObj == nil || bObj == nil {
		r.Violate("R-C20.4", key, signCall.Pos(), "the bytes signed by SignIdentity are not the concatenation publicKey ++ idSignature of two named values")
		return
	}
	// the returned identity literal
	idT := p.Named("identityprovider", "Identity")
	sf2 := &Flow{P: p, Fn: ci, Entry: Facts{}}
	sf2.Node = func(n ast.Node, f Facts) {
		for _, id := range assignedIdents(n) {
			o := p.ObjOf(ci, id)
			if o == aObj || o == bObj || o == sigObj {
				delete(f, "signed")
			}
		}
		walkNoLit(n, func(nd ast.Node) bool {
			if nd == ast.Node(signCall) {
				f["signed"] = true
			}
			return true
		})
	}
	sf2.Run()
	found := false
	sf2.Visit(func(_ *cfgBlk, n ast.Node, before Facts) {
		walkNoLit(n, func(nd ast.Node) bool {
			cl, ok := nd.(*ast.CompositeLit)
			if !ok || namedOf(p.TypeOf(ci, cl)) != idT {
				return true
			}
			found = true
			var spk types.Object
			pkKey, sidKey := "", ""
			for _, el := range cl.Elts {
				kv, ok := el.(*ast.KeyValueExpr)
				if !ok {
					continue
				}
				kn := kv.Key.(*ast.Ident).Name
				val := ast.Unparen(kv.Value)
				if kn == "PublicKey" {
					if _, k, ok := p.PathKey(ci, val); ok {
						pkKey = k
					}
				}
				if kn == "Signatures" {
					if id, ok := val.(*ast.Ident); ok {
						if d := p.SoleDef(ci, p.ObjOf(ci, id)); d != nil {
							val = ast.Unparen(d)
						}
					}
					if u, ok := val.(*ast.UnaryExpr); ok && u.Op == token.AND {
						val = u.X
					}
					if inner, ok := val.(*ast.CompositeLit); ok {
						for _, e2 := range inner.Elts {
							if kv2, ok := e2.(*ast.KeyValueExpr); ok {
								switch kv2.Key.(*ast.Ident).Name {
								case "ID":
									if _, k, ok := p.PathKey(ci, kv2.Value); ok {
										sidKey = k
									}
								case "PublicKey":
									if id, ok := ast.Unparen(kv2.Value).(*ast.Ident); ok {
										spk = p.ObjOf(ci, id)
									}
								}
							}
						}
					}
				}
			}
			ok2 := before["signed"] && pkKey == aKey && sidKey == bKey && aKey != "" && bKey != "" && spk == sigObj && sigObj != nil
			r.Check(ok2, "R-C20.4", key, cl.Pos(),
				"the identity publishes exactly the public key and id signature that were signed, and the signature SignIdentity returned",
				fmt.Sprintf("published identity and signed bytes disagree: signed-before-publish=%v publicKey-matches=%v idSignature-matches=%v pubKeySignature-is-result=%v — the public-key signature then does not verify", before["signed"], pkKey == aKey, sidKey == bKey, spk == sigObj))
			return true
		})
	})
	if !found {
		// the literal lives in a helper: the same agreement on SSA — what is stored in the published fields derives
		// (helper parameters replaced by the arguments of the call) from the very values that were signed
		sci := p.SSAFunc(ci)
		var sign ssa.CallInstruction
		var aV, bV ssa.Value
		allInstrs(sci, false, func(ins ssa.Instruction) {
			call, ok := ins.(*ssa.Call)
			if !ok || !call.Call.IsInvoke() || call.Call.Method.Name() != "SignIdentity" || len(call.Call.Args) < 2 {
				return
			}
			if app, ok := call.Call.Args[1].(*ssa.Call); ok {
				if b, isB := app.Call.Value.(*ssa.Builtin); isB && b.Name() == "append" && len(app.Call.Args) == 2 {
					sign, aV, bV = call, app.Call.Args[0], app.Call.Args[1]
				}
			}
		})
		idSigT := p.Named("identityprovider", "IdentitySignature")
		got := map[string]bool{}
		if sign != nil {
			fns := []*ssa.Function{sci}
			allInstrs(sci, false, func(ins ssa.Instruction) {
				if call, ok := ins.(*ssa.Call); ok {
					if cal := call.Call.StaticCallee(); cal != nil && cal.Blocks != nil && p.firstParty(calleePkg(cal)) {
						fns = append(fns, cal)
					}
				}
			})
			for _, f := range fns {
				allInstrs(f, false, func(ins ssa.Instruction) {
					st, ok := ins.(*ssa.Store)
					if !ok {
						return
					}
					fv, fa := fieldOf(st.Addr)
					if fv == nil {
						return
					}
					sl := sliceWithArgs(st.Val, sci, false)
					owner := namedOf(fa.X.Type())
					switch {
					case owner == idT && fv.Name() == "PublicKey":
						got["publicKey"] = sl[aV]
					case owner == idSigT && fv.Name() == "ID":
						got["idSignature"] = sl[bV]
					case owner == idSigT && fv.Name() == "PublicKey":
						got["pubKeySignature"] = sl[sign.(*ssa.Call)]
					}
				})
			}
		}
		if sign == nil || len(got) < 3 {
			r.Undecided("R-C20.4", key, ci.Body.Pos(), "neither an Identity literal in CreateIdentity nor stores of the published fields in its helpers were found")
		} else {
			r.Check(got["publicKey"] && got["idSignature"] && got["pubKeySignature"], "R-C20.4", key, sign.Pos(),
				"the identity (built in a helper) publishes exactly the public key and id signature that were signed, and the signature SignIdentity returned",
				fmt.Sprintf("published identity and signed bytes disagree: publicKey-matches=%v idSignature-matches=%v pubKeySignature-is-result=%v — the public-key signature then does not verify", got["publicKey"], got["idSignature"], got["pubKeySignature"]))
		}
		return
	}
	if false {
		r.Undecided("R-C20.4", key, ci.Body.Pos(), "no Identity literal found in CreateIdentity")
	}
}

func orDisjuncts(e ast.Expr) []ast.Expr {
	e = ast.Unparen(e)
	if be, ok := e.(*ast.BinaryExpr); ok && be.Op == token.LOR {
		return append(orDisjuncts(be.X), orDisjuncts(be.Y)...)
	}
	return []ast.Expr{e}
}

// varLenBigInt: uses of (*big.Int).Bytes in fn whose result is not merely measured (len) or right-aligned into
// a buffer (copy): concatenating it produces a shorter key whenever the number has a leading zero byte.
func varLenBigInt(p *Prog, sf *ssa.Function) []ssa.Instruction {
	var out []ssa.Instruction
	allInstrs(sf, true, func(ins ssa.Instruction) {
		call, ok := ins.(*ssa.Call)
		if !ok {
			return
		}
		cal := call.Call.StaticCallee()
		if cal == nil || cal.String() != "(*math/big.Int).Bytes" {
			return
		}
		bad := false
		var walk func(v ssa.Value, depth int)
		walk = func(v ssa.Value, depth int) {
			refs := v.Referrers()
			if refs == nil || depth > 4 {
				return
			}
			for _, ref := range *refs {
				switch u := ref.(type) {
				case *ssa.Call:
					if b, ok := u.Call.Value.(*ssa.Builtin); ok && (b.Name() == "len" || b.Name() == "copy") {
						continue
					}
					bad = true
				case *ssa.Slice:
					walk(u, depth+1)
				case *ssa.DebugRef:
				case *ssa.Phi:
					walk(u, depth+1)
				case *ssa.Store:
					// into a local cell: follow the loads
					if a, ok := u.Addr.(*ssa.Alloc); ok {
						if rr := a.Referrers(); rr != nil {
							for _, x := range *rr {
								if ld, ok := x.(*ssa.UnOp); ok && ld.Op == token.MUL {
									walk(ld, depth+1)
								}
							}
						}
						continue
					}
					bad = true
				default:
					bad = true
				}
			}
		}
		walk(call, 0)
		if bad {
			out = append(out, call)
		}
	})
	return out
}

func c208(c *Ctx, r *Report) {
	p := c.P
	r.Doc("R-C20.8", "key and identity bytes are fixed-width: no variable-length big-integer encoding ((*big.Int).Bytes) is concatenated into them (a coordinate with a leading zero byte would yield a shorter, different key for the same identity)")
	n, nf := 0, 0
	for _, fn := range p.Fns {
		pk := fn.Pkg.PkgPath
		if pk != p.pkgPath("identityprovider") && pk != p.pkgPath("keystore") || fn.Orig != nil || fn.Lit != nil {
			continue
		}
		sf := p.SSAFunc(fn)
		if sf == nil {
			continue
		}
		nf++
		for _, ins := range varLenBigInt(p, sf) {
			n++
			r.Violate("R-C20.8", r.Key("R-C20.8", fn, "variable-length", "big.Int.Bytes"), ins.Pos(), "the variable-length encoding (*big.Int).Bytes() is appended/returned as key material: for the one key in 128 whose coordinate starts with a zero byte the published public key is shorter than the fixed 65 bytes, does not parse, and no signature of that identity verifies")
		}
	}
	if n == 0 {
		r.Hold("R-C20.8", r.Key("R-C20.8", nil, "no-variable-length-encoding", ""), token.NoPos, true, fmt.Sprintf("no (*big.Int).Bytes() result flows into key material in %d identity/keystore functions", nf))
	}
	r.Floor("R-C20.8", "identity/keystore functions scanned", nf, 10)
	// engine control: the rule fires on the concatenating example and stays quiet on the padded ones
	if c.Ctl != nil {
		got := map[string]bool{}
		for _, name := range []string{"BadAppendBytes", "GoodCopyPadded", "GoodFillBytes"} {
			fn := c.Ctl.Func("", "", name)
			if len(varLenBigInt(c.Ctl, c.Ctl.SSAFunc(fn))) > 0 {
				got[name] = true
			}
		}
		ok := got["BadAppendBytes"] && !got["GoodCopyPadded"] && !got["GoodFillBytes"]
		r.Check(ok, "control", r.Key("control", nil, "engine-control", "variable-length-encoding"), token.NoPos, "the variable-length rule fires on exactly the concatenating control", fmt.Sprintf("variable-length control mismatch (checker defect): %v", got))
	}
}

// writesIntoParam: the function stores into the elements of its i-th parameter (directly, through copy/clear, or
// by passing it on to a first-party function that does).
func writesIntoParam(p *Prog, g *ssa.Function, i int, depth int) bool {
	if g == nil || len(g.Blocks) == 0 || i >= len(g.Params) || depth > 3 {
		return false
	}
	return writerOf2(p, g.Params[i], g, depth+1) != ""
}

func writerOf(p *Prog, v ssa.Value, sf *ssa.Function) string { return writerOf2(p, v, sf, 0) }

// writerOf2 describes a write into the elements of slice value v within sf ("" when there is none).
func writerOf2(p *Prog, v ssa.Value, sf *ssa.Function, depth int) string {
	same := func(x ssa.Value) bool {
		for k := 0; k < 4 && x != nil; k++ {
			if x == v {
				return true
			}
			switch y := x.(type) {
			case *ssa.Slice:
				x = y.X
			case *ssa.ChangeType:
				x = y.X
			default:
				return false
			}
		}
		return false
	}
	out := ""
	allInstrs(sf, true, func(ins ssa.Instruction) {
		switch x := ins.(type) {
		case *ssa.Store:
			if ia, ok := x.Addr.(*ssa.IndexAddr); ok && same(ia.X) {
				out = "element by element at " + p.Pos(x.Pos())
			}
		case ssa.CallInstruction:
			cc := x.Common()
			if b, ok := cc.Value.(*ssa.Builtin); ok {
				if (b.Name() == "copy" || b.Name() == "clear") && len(cc.Args) > 0 && same(cc.Args[0]) {
					out = "by " + b.Name() + " at " + p.Pos(x.Pos())
				}
				return
			}
			g := cc.StaticCallee()
			if g == nil || !p.firstParty(calleePkg(g)) {
				return
			}
			for ai, a := range cc.Args {
				if same(a) && writesIntoParam(p, g, ai, depth) {
					kind := "by the call"
					if _, isDefer := x.(*ssa.Defer); isDefer {
						kind = "by the deferred call"
					}
					out = kind + " of " + g.Name() + " at " + p.Pos(x.Pos())
				}
			}
		}
	})
	return out
}

// hasKeyPolarity: HasKey answers true only after a positive finding (a cache hit, a non-nil value from the
// datastore), false only after a negative one (the datastore's lookup failed, the value is nil), or returns the
// finding itself (`value != nil`).
func hasKeyPolarity(c *Ctx, r *Report) {
	p := c.P
	r.Doc("R-C20.11", "HasKey answers 'present' only on a positive finding and 'absent' only on a negative one")
	hk := p.FuncI("keystore", "Keystore", "HasKey")
	// lookup flags and values: `v, ok := cache.Peek/Get(id)`, `value, err := store.Get(...)`
	flag, val, errv := map[types.Object]bool{}, map[types.Object]bool{}, map[types.Object]bool{}
	walkNoLit(hk.Body, func(n ast.Node) bool {
		as, ok := n.(*ast.AssignStmt)
		if !ok || len(as.Rhs) != 1 || len(as.Lhs) != 2 {
			return true
		}
		call, ok := ast.Unparen(as.Rhs[0]).(*ast.CallExpr)
		if !ok {
			return true
		}
		se, ok := ast.Unparen(call.Fun).(*ast.SelectorExpr)
		if !ok {
			return true
		}
		id0, _ := as.Lhs[0].(*ast.Ident)
		id1, _ := as.Lhs[1].(*ast.Ident)
		if id0 == nil || id1 == nil {
			return true
		}
		switch se.Sel.Name {
		case "Peek", "Get", "Has":
			o1 := p.ObjOf(hk, id1)
			if o1 != nil && isErrorType(o1.Type()) {
				errv[o1] = true
				val[p.ObjOf(hk, id0)] = true
			} else {
				flag[o1] = true
				val[p.ObjOf(hk, id0)] = true
			}
		}
		return true
	})
	// boolean locals that carry the answer (`found := false … found = true … return found`)
	answer := map[types.Object]bool{}
	walkNoLit(hk.Body, func(n ast.Node) bool {
		if as, ok := n.(*ast.AssignStmt); ok && len(as.Lhs) == 1 && len(as.Rhs) == 1 {
			if id, ok := as.Lhs[0].(*ast.Ident); ok {
				if rid, ok := ast.Unparen(as.Rhs[0]).(*ast.Ident); ok && (rid.Name == "true" || rid.Name == "false") {
					if o := p.ObjOf(hk, id); o != nil && !flag[o] {
						answer[o] = true
					}
				}
			}
		}
		return true
	})
	hf := &Flow{P: p, Fn: hk, Entry: Facts{}}
	hf.Node = func(n ast.Node, f Facts) {
		for _, id := range assignedIdents(n) {
			if o := p.ObjOf(hk, id); flag[o] || val[o] || errv[o] {
				delete(f, "found")
				delete(f, "notfound")
			}
		}
		walkNoLit(n, func(nd ast.Node) bool {
			as, ok := nd.(*ast.AssignStmt)
			if !ok || len(as.Lhs) != 1 || len(as.Rhs) != 1 {
				return true
			}
			id, ok := as.Lhs[0].(*ast.Ident)
			if !ok || !answer[p.ObjOf(hk, id)] {
				return true
			}
			k := "fine|" + p.ID(p.ObjOf(hk, id))
			rid, _ := ast.Unparen(as.Rhs[0]).(*ast.Ident)
			switch {
			case rid != nil && rid.Name == "true":
				// one path fact: the variable says "present" and a positive finding was made
				f["true|"+p.ID(p.ObjOf(hk, id))] = true
				if f["found"] {
					f[k] = true
				} else {
					delete(f, k)
				}
			case rid != nil && rid.Name == "false":
				delete(f, "true|"+p.ID(p.ObjOf(hk, id)))
				if f["notfound"] {
					f[k] = true
				} else {
					delete(f, k)
				}
			default:
				delete(f, k)
			}
			return true
		})
	}
	hf.Edge = func(cond ast.Expr, taken bool, f Facts) {
		for _, a := range splitCond(cond, taken) {
			// a boolean local assigned once (`found := value != nil`) stands for its defining expression
			if id, ok := ast.Unparen(a.E).(*ast.Ident); ok && !flag[p.ObjOf(hk, id)] && !answer[p.ObjOf(hk, id)] {
				if def := p.SoleDef(hk, p.ObjOf(hk, id)); def != nil {
					a = condAtom{E: def, Truth: a.Truth}
				}
			}
			if id, ok := ast.Unparen(a.E).(*ast.Ident); ok && flag[p.ObjOf(hk, id)] {
				if a.Truth {
					f["found"] = true
				}
				continue
			}
			if x, isNil, ok := nilTest(a); ok {
				if id, ok := ast.Unparen(x).(*ast.Ident); ok {
					o := p.ObjOf(hk, id)
					switch {
					case val[o] && !isNil:
						f["found"] = true
					case val[o] && isNil:
						f["notfound"] = true
					case errv[o] && !isNil:
						f["notfound"] = true
					}
					// an answer variable still saying "absent" is right on a path with a negative finding
					if f["notfound"] {
						for a := range answer {
							if !f["true|"+p.ID(a)] {
								f["fine|"+p.ID(a)] = true
							}
						}
					}
				}
			}
		}
	}
	hf.Run()
	nret := 0
	hf.Exits(func(_ *cfgBlk, ret *ast.ReturnStmt, at Facts) {
		if ret == nil || len(ret.Results) != 2 {
			return
		}
		nret++
		res := ast.Unparen(ret.Results[0])
		if id, isID := res.(*ast.Ident); isID && !flag[p.ObjOf(hk, id)] && !answer[p.ObjOf(hk, id)] {
			if def := p.SoleDef(hk, p.ObjOf(hk, id)); def != nil {
				res = ast.Unparen(def)
			}
		}
		ok, why := false, ""
		switch x := res.(type) {
		case *ast.Ident:
			switch x.Name {
			case "true":
				ok, why = at["found"], "'present' is answered without a positive finding on this path"
			case "false":
				ok, why = at["notfound"], "'absent' is answered without a negative finding on this path"
			default:
				o := p.ObjOf(hk, x)
				if answer[o] {
					ok = at["fine|"+p.ID(o)]
					why = "the answer variable " + x.Name + " is not backed by a finding on every path (set to true without a positive finding, or left false without a negative one)"
				} else {
					ok = flag[o]
					why = "the answer is a variable that is not the found-flag of a lookup"
				}
			}
		case *ast.BinaryExpr:
			// the finding itself: value != nil
			if isNilIdent(x.Y) || isNilIdent(x.X) {
				side := x.X
				if isNilIdent(x.X) {
					side = x.Y
				}
				if id, isID := ast.Unparen(side).(*ast.Ident); isID && val[p.ObjOf(hk, id)] {
					ok = x.Op == token.NEQ
					why = "the answer is `" + types.ExprString(x) + "`: present and absent are swapped"
				}
			}
		default:
			why = "the answer is an expression the rule cannot relate to a lookup"
		}
		r.Check(ok, "R-C20.11", r.Key("R-C20.11", hk, "answer", ""), ret.Pos(), "the answer follows the finding", "HasKey: "+why+": a key that was created is reported absent, or an id that was never created is reported present")
	})
	r.Floor("R-C20.11", "answers of HasKey", nret, 2)
}

// keystoreAddressing: the cache is addressed by the id the datastore is addressed by (the id itself, or exactly the
// datastore key's string), and every base64 conversion of key bytes uses one and the same alphabet.
func keystoreAddressing(c *Ctx, r *Report) {
	p := c.P
	r.Doc("R-C20.12", "the key cache is addressed by the same id as the datastore: the id parameter itself or the datastore key's full string")
	r.Doc("R-C20.13", "every base64 conversion of key bytes in the keystore uses one alphabet (what one method caches another decodes)")
	ks := p.Named("keystore", "Keystore")
	ncache := 0
	encs := map[string]string{}
	for i := 0; i < ks.NumMethods(); i++ {
		fn := p.ByObj[ks.Method(i)]
		if fn == nil {
			continue
		}
		for _, f := range AllFnsUnder(fn) {
			walkNoLit(f.Body, func(n ast.Node) bool {
				switch x := n.(type) {
				case *ast.CallExpr:
					cf := p.Callee(f, x)
					if cf != nil && cf.Pkg() != nil && strings.Contains(cf.Pkg().Path(), "golang-lru") && len(x.Args) >= 1 {
						switch cf.Name() {
						case "Peek", "Get", "Add", "Contains", "Remove", "ContainsOrAdd":
							ncache++
							okKey := false
							switch k := ast.Unparen(x.Args[0]).(type) {
							case *ast.Ident:
								if v, isVar := p.ObjOf(f, k).(*types.Var); isVar && paramOf(p, f.Root(), v) {
									okKey = true
								}
							case *ast.CallExpr:
								// datastore.NewKey(id).String()
								if se, ok := ast.Unparen(k.Fun).(*ast.SelectorExpr); ok && se.Sel.Name == "String" {
									if inner, ok := ast.Unparen(se.X).(*ast.CallExpr); ok {
										if icf := p.Callee(f, inner); icf != nil && icf.Name() == "NewKey" {
											okKey = true
										}
									}
								}
							}
							r.Check(okKey, "R-C20.12", r.Key("R-C20.12", f, "cache-key", cf.Name()), x.Pos(), "the cache is addressed by the id",
								"the key cache is addressed by "+types.ExprString(x.Args[0])+", which is neither the id parameter nor the datastore key's full string: two ids that differ for the datastore can share a cache slot, so one id is answered with another id's key")
						}
					}
				case *ast.SelectorExpr:
					// base64.<Encoding>
					if id, ok := ast.Unparen(x.X).(*ast.Ident); ok {
						if pn, ok := p.ObjOf(f, id).(*types.PkgName); ok && pn.Imported().Path() == "encoding/base64" && strings.HasSuffix(x.Sel.Name, "Encoding") {
							encs[x.Sel.Name] = p.Pos(x.Pos())
						}
					}
				}
				return true
			})
		}
	}
	r.Floor("R-C20.12", "cache accesses in the keystore", ncache, 3)
	var names []string
	for n := range encs {
		names = append(names, n+" at "+encs[n])
	}
	sort.Strings(names)
	r.Check(len(encs) <= 1, "R-C20.13", r.Key("R-C20.13", nil, "one-alphabet", ""), token.NoPos, "one base64 alphabet throughout the keystore",
		"the keystore mixes base64 alphabets ("+strings.Join(names, "; ")+"): what one method puts in the cache another cannot decode — a key that is present is then reported unreadable and re-created, so the id gets a different identity")
	r.Floor("R-C20.13", "base64 alphabets referenced in the keystore", len(encs), 1)
}
