package main

// c10.go — a length-limited load: the bound reaches the constructor (R-C10.1), sort before trim with a
// tail-selecting trim (R-C10.2), slice helpers stay in range (R-C10.3).

import (
	"fmt"
	"go/ast"
	"go/constant"
	"go/token"
	"go/types"
	"strings"

	"golang.org/x/tools/go/ssa"
)

func init() {
	register(&PropSpec{ID: "C10", Level: "other", Run: runC10,
		Explanation: "Decides for all values of the caller's Length and every fetch result: (R-C10.1) in the loaders fromMultihash, fromJSON (k=0) and fromEntryHash (k=1), on every path on which Length is known non-negative, the list handed on has length ≤ max(*Length, k) — proved from path facts plus summaries of the slice helpers (the fetcher is documented to over-deliver, so a loader without an effective trim cannot meet it); (R-C10.2) the trimmed list is the one that was sorted ascending by the loader's comparator, the sort dominates the trim, and the trim helper can only return a suffix of its argument (or nothing); (R-C10.3) every slice in the integer-taking slice helpers is in range for all (len, index). fromEntry's recombination (Difference + range slice) is listed, not armed (beyond the linear prover). (R-C10.13) on every path class the list handed on is at least as long as min(max(*Length, k), what the fetcher delivered): a path that has looked at the limit and does not know it negative is a limited path, whatever the test is spelled like; (R-C10.12) wherever the fetcher compares a clock time with a bound it tracks before admitting an entry or queueing its links, an equal time passes where a later one does; further rules in the evidence (option forwarding, put-back by membership, loop completeness, sorting owned slices only). Not covered: which entries the fetcher admits beyond the tie condition, schedule independence of the kept set, the put-back arithmetic of fromEntry (values, no stable shape).",
		Assumptions: []string{"loads of the caller's option struct through one access path denote one value (the loaders never store through it — checked)", "machine-integer overflow ignored"},
	})
}

func runC10(c *Ctx, r *Report) {
	p := c.P
	r.Doc("R-C10.1", "len(list handed on) ≤ max(*Length, k) on every path with Length ≥ 0")
	r.Doc("R-C10.13", "len(list handed on) ≥ min(max(*Length, k), len(fetched list)) on every path: the trim never cuts more than the limit requires")
	r.Doc("R-C10.2", "ascending sort with the loader's comparator dominates the trim; the trim returns only suffixes of the sorted list")
	r.Doc("R-C10.3", "slice helpers with integer parameters are in range for all inputs")
	r.Doc("control", "engine positive/negative controls analysed on every run")
	lenControls(c, r, "control")
	snapValues := p.Field("iface", "Snapshot", "Values")
	sortFn := p.FuncObj("entry/sorting", "", "Sort")
	loaders := []struct {
		name string
		k    int64
	}{{"fromMultihash", 0}, {"fromJSON", 0}, {"fromEntryHash", 1}}
	for _, ld := range loaders {
		fn := p.FuncI("", "", ld.name)
		sf := p.SSAFunc(fn)
		lp := NewLenProver(p, sf)
		// the caller's limit: a load of *<param>.Length
		var nTerm *lin
		allInstrs(sf, false, func(ins ssa.Instruction) {
			u, ok := ins.(*ssa.UnOp)
			if !ok || u.Op != token.MUL || !isIntType(u.Type()) {
				return
			}
			inner, ok := u.X.(*ssa.UnOp)
			if !ok || inner.Op != token.MUL {
				return
			}
			if f, _ := fieldOf(inner.X); f != nil && f.Name() == "Length" && lp.canonLoad(u) != "" {
				t := lp.term(u)
				nTerm = &t
			}
		})
		if nTerm == nil {
			// the pointer is handed to a first-party helper that reads it (`fetchLength(options.Length, k)`): the
			// value behind it is the same canonical load the helper's summary is expressed in
			allInstrs(sf, false, func(ins ssa.Instruction) {
				ld, ok := ins.(*ssa.UnOp)
				if !ok || ld.Op != token.MUL || nTerm != nil {
					return
				}
				if f, _ := fieldOf(ld.X); f == nil || f.Name() != "Length" {
					return
				}
				path := lp.canonAddr(ld)
				if path == "" || ld.Referrers() == nil {
					return
				}
				for _, ref := range *ld.Referrers() {
					if call, ok := ref.(*ssa.Call); ok {
						if cal := call.Call.StaticCallee(); cal != nil && p.firstParty(calleePkg(cal)) {
							t := linAtom(fmt.Sprintf("*%s@%s", path, shortSSAFn(sf)))
							nTerm = &t
						}
					}
				}
			})
		}
		key := r.Key("R-C10.1", fn, "limit", "Length")
		if nTerm == nil {
			r.Violate("R-C10.1", key, fn.Body.Pos(), "the loader never reads the value of the caller's Length: nothing bounds the list it hands on although the fetcher may over-deliver")
			continue
		}
		// sinks: stores to Snapshot.Values and slice-typed results
		type sink struct {
			v   ssa.Value
			ins ssa.Instruction
		}
		var sinks []sink
		allInstrs(sf, false, func(ins ssa.Instruction) {
			switch x := ins.(type) {
			case *ssa.Store:
				if f, _ := fieldOf(x.Addr); f == snapValues {
					sinks = append(sinks, sink{x.Val, x})
				}
			case *ssa.Return:
				for _, res := range x.Results {
					if _, ok := res.Type().Underlying().(*types.Slice); ok {
						if cst, isC := res.(*ssa.Const); isC && cst.IsNil() {
							continue
						}
						sinks = append(sinks, sink{res, x})
					}
				}
			}
		})
		if len(sinks) == 0 {
			r.Undecided("R-C10.1", key, fn.Body.Pos(), "no result sink (Snapshot.Values store or slice result) found in loader")
			continue
		}
		for _, sk := range sinks {
			k2 := r.Key("R-C10.1", fn, "result", "")
			lt := lp.lenTerm(sk.v)
			goals := []lin{lt.add(*nTerm, -1), lt.add(linConst(ld.k), -1)} // len <= n  or  len <= k
			paths := splitByLimitSummaries(lp, lp.pathFacts(sk.ins.Block()), *nTerm)
			nBound, okAll := 0, true
			var failed string
			for i, d0 := range paths {
				// the limit is in force on this path: the path looked at its value (the pointer was not nil) and does
				// not know it to be negative; whatever the test of the sign looks like, the values >= 0 are limits
				d, limited := limitedVariant(lp, d0, *nTerm)
				if !limited {
					continue
				}
				nBound++
				if !lp.ProveAnyOnPath(d, goals) {
					okAll = false
					var ds []string
					for _, f := range d {
						ds = append(ds, f.String())
					}
					failed = fmt.Sprintf("path %d [%s]", i, strings.Join(ds, " ∧ "))
					break
				}
			}
			pos := sk.ins.Pos()
			if !pos.IsValid() {
				pos = nearestPos(sk.ins)
			}
			switch {
			case nBound == 0:
				r.Violate("R-C10.1", k2, pos, "no path to this result on which the caller's Length is tested non-negative: the limit does not constrain what is handed on")
			case okAll:
				r.Hold("R-C10.1", k2, pos, true, fmt.Sprintf("len(result) ≤ max(*Length, %d) proved on all %d paths with Length ≥ 0 (of %d path classes)", ld.k, nBound, len(paths)))
			default:
				r.Violate("R-C10.1", k2, pos, fmt.Sprintf("cannot show len(result) ≤ max(*Length, %d) on %s: for some Length (e.g. 0) or some over-delivery of the fetcher the loaded log holds more entries than the limit allows", ld.k, failed))
			}
		}

		// R-C10.13: nothing more than necessary is cut — on every path the list handed on is as long as what the
		// fetcher delivered, or (limit tested non-negative) at least as long as the limit and as the supplied count
		{
			var fetched *ssa.Call
			allInstrs(sf, false, func(ins ssa.Instruction) {
				call, ok := ins.(*ssa.Call)
				if !ok {
					return
				}
				cal := call.Call.StaticCallee()
				if cal == nil || cal.Pkg == nil || cal.Pkg.Pkg.Path() != p.pkgPath("entry") {
					return
				}
				if sl, ok := call.Type().Underlying().(*types.Slice); ok && isNamed(sl.Elem(), p.pkgPath("iface"), "IPFSLogEntry") {
					fetched = call
				}
			})
			k4 := r.Key("R-C10.13", fn, "keeps-enough", "")
			if fetched == nil {
				r.Undecided("R-C10.13", k4, fn.Body.Pos(), "no call into the fetcher that returns the fetched list found in the loader")
			} else {
				ft := lp.lenTerm(fetched)
				for _, sk := range sinks {
					lt := lp.lenTerm(sk.v)
					geFetched := ft.add(lt, -1)       // F - len <= 0
					geLimit := nTerm.add(lt, -1)      // n - len <= 0
					geK := linConst(ld.k).add(lt, -1) // k - len <= 0
					okAll, failed := true, ""
					paths := splitByLimitSummaries(lp, lp.pathFacts(sk.ins.Block()), *nTerm)
					np := 0
					for i, d0 := range paths {
						if infeasibleFacts(append(append([]lfact{}, d0...), lp.defs...)) {
							continue
						}
						np++
						// the values >= 0 of the limit (when the path looked at it) may cut down to max(limit, k);
						// everything else (no limit given, a negative one) keeps what was fetched
						d := d0
						okPath := true
						if dl, limited := limitedVariant(lp, d0, *nTerm); limited {
							d = dl
							okPath = lp.ProveDNFOnPath(dl, [][]lin{{geFetched}, {geLimit, geK}})
							if dn, neg := negativeVariant(lp, d0, *nTerm); okPath && neg {
								d = dn
								okPath = lp.ProveDNFOnPath(dn, [][]lin{{geFetched}})
							}
						} else {
							okPath = lp.ProveDNFOnPath(d0, [][]lin{{geFetched}})
						}
						if okPath {
							continue
						}
						okAll = false
						var ds []string
						for _, f := range d {
							ds = append(ds, f.String())
						}
						failed = fmt.Sprintf("path %d [%s]", i, strings.Join(ds, " ∧ "))
						break
					}
					pos := sk.ins.Pos()
					if !pos.IsValid() {
						pos = nearestPos(sk.ins)
					}
					r.Check(okAll && np > 0, "R-C10.13", k4, pos,
						fmt.Sprintf("len(result) ≥ min(max(*Length, %d), len(fetched)) proved on all %d path classes", ld.k, np),
						fmt.Sprintf("cannot show that the loader hands on at least min(max(*Length, %d), what the fetcher delivered) entries (%s): for some limit (1, or one equal to the number of entries) the loaded log holds fewer entries than the limit asks for", ld.k, failed))
				}
			}
		}

		// R-C10.2
		var sortCall, trimCall *ssa.Call
		allInstrs(sf, false, func(ins ssa.Instruction) {
			call, ok := ins.(*ssa.Call)
			if !ok {
				return
			}
			if calleeOf(call) == sortFn {
				sortCall = call
			}
		})
		// trim: a first-party call (same package) with a slice argument whose result reaches a sink
		for _, sk := range sinks {
			for v := range backSlice(sk.v, nil) {
				if call, ok := v.(*ssa.Call); ok && call.Parent() == sf {
					if cal := call.Call.StaticCallee(); cal != nil && cal.Pkg != nil && cal.Pkg.Pkg.Path() == p.Mod {
						if _, isSlice := call.Type().Underlying().(*types.Slice); isSlice && calleeOf(call) != sortFn {
							trimCall = call
						}
					}
				}
			}
		}
		k3 := r.Key("R-C10.2", fn, "sort-then-trim", "")
		switch {
		case trimCall == nil:
			r.Violate("R-C10.2", k3, fn.Body.Pos(), "no trim of the fetched list found on the way to the result")
		case sortCall == nil:
			r.Violate("R-C10.2", k3, trimCall.Pos(), "the fetched list is trimmed without being sorted first: which entries survive depends on block arrival order")
		default:
			var problems []string
			// ascending
			if cst, ok := sortCall.Call.Args[2].(*ssa.Const); !ok || cst.Value == nil || cst.Value.Kind() != constant.Bool || constant.BoolVal(cst.Value) {
				problems = append(problems, "sort is not the constant ascending order (reverse=false)")
			}
			if !instrDominates(sortCall, trimCall) {
				problems = append(problems, "the sort does not dominate the trim")
			}
			// same list
			argIdx := -1
			for i, a := range trimCall.Call.Args {
				if a == sortCall.Call.Args[1] {
					argIdx = i
				}
			}
			if argIdx < 0 {
				problems = append(problems, "the trimmed list is not the SSA value that was sorted")
			} else if ok, why := suffixOnly(p, trimCall.Call.StaticCallee(), argIdx, 0); !ok {
				problems = append(problems, "trim helper can return something other than a suffix of its argument: "+why)
			}
			r.Check(len(problems) == 0, "R-C10.2", k3, trimCall.Pos(),
				"ascending sort of the fetched list dominates the trim; the trim keeps a suffix (the most recent entries in the loader's order)",
				strings.Join(problems, "; "))
		}
	}
	// R-C10.4: Fetch always runs the queue (supplied entries are fetched whatever the limit)
	r.Doc("R-C10.4", "Fetcher.Fetch reaches processQueue on every path (the supplied starting entries are fetched for every limit, including 0)")
	r.Doc("R-C10.5", "fromEntry trims to at least the number of supplied entries")
	r.Doc("R-C10.6", "the fetch admission state (clock window, task cache) is only touched under the process mutex — the kept set does not depend on worker interleaving through torn updates")
	r.Doc("R-C10.7", "the caller's length limit and exclusions reach the fetcher through every loader and constructor")
	optionForwarding(c, r, "R-C10.7", append(loaderFetchSpecs(), constructorLoaderSpecs()...), "Length", "Exclude", "ShouldExclude")
	r.Doc("R-C10.8", "the outcome does not depend on the fetch concurrency: no configuration of slots and queued hashes stalls the dispatcher (slot release before the mutex, worker accounting on every path)")
	importRules(c, r, "C11", []string{"R-C11.1", "R-C11.6"}, "R-C10.8")
	importRules(c, r, "C18", []string{"R-C18.7"}, "R-C10.8", 0) // the codec objects the fetch workers share are concurrency-safe
	r.Doc("R-C10.16", "which entries a load returns does not depend on what the process did before: nothing on the decode path reads package-level state the process can change (adopted from C09: an entry that stops decoding is dropped silently, together with the branch behind it)")
	importRules(c, r, "C09", []string{"R-C09.14"}, "R-C10.16", 0)
	r.Doc("R-C10.17", "the constructors hand the caller's start entries / hashes to their loader as given: k, the number of entries the caller supplied, is what the loader counts and puts back")
	startArgumentsReachLoaders(c, r, "R-C10.17")
	r.Doc("R-C10.18", "the head scan over what a limited load kept is exact (adopted from C02: a supplied entry counted as referenced through a skip reference is in the entries and missing from the values)")
	importRules(c, r, "C02", []string{"R-C02.1"}, "R-C10.18")
	r.Doc("R-C10.19", "the fetch's deadline belongs to the fetch as a whole and the workers' shared state is touched under the fetcher's mutex (adopted from C11: a per-block deadline assigned to the context all workers share cancels the rest of the load after the first block — a limited load with any timeout returns one entry)")
	importRules(c, r, "C11", []string{"R-C11.4", "R-C11.5", "R-C11.12"}, "R-C10.19")
	r.Doc("R-C10.20", "the readers refuse a block only when reading or decoding it failed (adopted from C09: an acceptance test on the decoded entry — an empty payload is appendable — makes a limited load return too few entries, or an older one in the dropped entry's place)")
	importRules(c, r, "C09", []string{"R-C09.8"}, "R-C10.20")
	r.Doc("R-C10.21", "no fetch option handed to a loader is computed from the log's options (the log's sort function as the order in which a limited load is cut keeps other entries than the most recent ones)")
	fetchOptionsFromFetchOptions(c, r, "R-C10.21")
	r.Doc("R-C10.22", "the latest clock time the fetcher has seen only orders its queue: no branch outside its own bookkeeping depends on it (pruning what lies 'too far behind' presumes an entry per clock tick)")
	latestClockOnlyOrdersTheQueue(c, r, "R-C10.22")
	r.Doc("R-C10.23", "the length a loader hands to the fetcher is never the result of a subtraction (the requested length less the entries the caller holds comes back short when one of them lies in the past of another)")
	fetchLengthIsNotReduced(c, r, "R-C10.23")
	r.Doc("R-C10.15", "nothing is allocated for the length limit itself: every sized allocation is bounded by a collection that exists (adopted from C15: a limit above the log's size returns the whole log)")
	importRules(c, r, "C15", []string{"R-C15.15"}, "R-C10.15")
	r.Doc("R-C10.12", "a fetched entry is never refused, and its predecessors never left unqueued, on a clock tie: wherever the fetcher compares an entry's clock time with a bound it tracks before admitting the entry or queueing its links, the condition is as true for an equal time as for a later one (the log's order breaks equal times by writer id, so a tied entry can still belong to the kept tail; treating it as older makes the outcome depend on block arrival order)")
	clockTieAdmission(c, r, "R-C10.12")
	r.Doc("R-C10.14", "the caller's limit is read, never written: no store through the Length pointer of any options value")
	callersLimitReadOnly(c, r, "R-C10.14")
	r.Doc("R-C10.11", "the loops that trim, put back and select entries process every element")
	loopsComplete(c, r, "R-C10.11", func(fn *Fn) bool {
		return rootNamed(fn, "fromMultihash", "fromEntryHash", "fromJSON", "fromEntry", "lastEntries", "entrySlice", "dropOldestOthers", "Difference")
	}, "entries after the point where the loop stops are not considered: the kept set is not the most recent one, or supplied entries are dropped")
	r.Doc("R-C10.9", "the loaders only sort slices they own: a list that may share its backing array with a caller-supplied slice (append(param, …)) is never sorted in place — the caller's supplied entries would be overwritten and the wrong entries put back")
	{
		nsort := 0
		for _, name := range []string{"fromMultihash", "fromEntryHash", "fromJSON", "fromEntry"} {
			fn := p.FuncI("", "", name)
			sf := p.SSAFunc(fn)
			allInstrs(sf, true, func(ins ssa.Instruction) {
				call, ok := ins.(*ssa.Call)
				if !ok {
					return
				}
				cal := calleeOf(call)
				if cal == nil || cal.Name() != "Sort" || cal.Pkg() == nil || !strings.HasSuffix(cal.Pkg().Path(), "/sorting") || len(call.Call.Args) < 2 {
					return
				}
				nsort++
				par := mayAliasParam(call.Call.Args[1], sf)
				r.Check(par == "", "R-C10.9", r.Key("R-C10.9", fn, "sort-owned", ""), call.Pos(), "the sorted list is a fresh slice",
					"the list sorted in place may share its backing array with the caller's "+par+" (it was built by appending to it): with spare capacity in the caller's slice the sort moves other entries into the caller's elements, and the step that puts the supplied entries back restores the wrong ones")
			})
		}
		r.Floor("R-C10.9", "in-place sorts in the loaders", nsort, 3)
	}
	fetch := p.FuncI("entry", "Fetcher", "Fetch")
	ff := &Flow{P: p, Fn: fetch, Entry: Facts{}}
	ff.Node = func(n ast.Node, f Facts) {
		walkNoLit(n, func(nd ast.Node) bool {
			if call, ok := nd.(*ast.CallExpr); ok {
				if cf := p.Callee(fetch, call); cf != nil && cf.Name() == "processQueue" {
					f["fetched"] = true
				}
			}
			return true
		})
	}
	ff.Run()
	ff.Exits(func(_ *cfgBlk, ret *ast.ReturnStmt, at Facts) {
		pos := fetch.Body.Rbrace
		ok := at["fetched"]
		if ret != nil {
			pos = ret.Pos()
			walkNoLit(ret, func(nd ast.Node) bool {
				if call, isCall := nd.(*ast.CallExpr); isCall {
					if cf := p.Callee(fetch, call); cf != nil && cf.Name() == "processQueue" {
						ok = true
					}
				}
				return true
			})
		}
		r.Check(ok, "R-C10.4", r.Key("R-C10.4", fetch, "exit", ""), pos, "the fetch loop runs before Fetch returns", "Fetch can return without running the fetch loop (e.g. for a limit of 0): loaders that rely on the fetcher to deliver the supplied entries (NewFromEntryHash keeps max(n,1)) then return fewer entries than min(max(n,k),size)")
	})
	// R-C10.5
	fe := p.FuncI("", "", "fromEntry")
	sfe := p.SSAFunc(fe)
	lpe := NewLenProver(p, sfe)
	srcPar := sfe.Params[2]
	ntrim := 0
	allInstrs(sfe, false, func(ins ssa.Instruction) {
		call, ok := ins.(*ssa.Call)
		if !ok {
			return
		}
		cal := call.Call.StaticCallee()
		if cal == nil || cal.Pkg == nil || cal.Pkg.Pkg.Path() != p.Mod || len(call.Call.Args) != 2 || !isIntType(call.Call.Args[1].Type()) {
			return
		}
		if _, isSlice := call.Type().Underlying().(*types.Slice); !isSlice {
			return
		}
		if ok2, _ := suffixOnly(p, cal, 0, 0); !ok2 {
			return
		}
		// trim by -length (tail): length = -arg
		ntrim++
		keep := lpe.term(call.Call.Args[1]).scale(-1)
		goal := lpe.lenTerm(srcPar).add(keep, -1) // len(source) - keep <= 0
		okp, facts, failed := lpe.ProveAt(call.Block(), call, []lin{goal})
		r.Check(okp, "R-C10.5", r.Key("R-C10.5", fe, "trim", ""), call.Pos(), "the number of entries kept is proved ≥ the number of supplied entries", "cannot show that fromEntry keeps at least as many entries as were supplied ("+failed+"): with fewer kept than supplied, putting the supplied entries back drops some of them (a head is lost)", facts...)
	})
	r.Floor("R-C10.5", "tail trims in fromEntry", ntrim, 1)
	// R-C10.10: putting the cut-off supplied entries back never removes another supplied entry
	r.Doc("R-C10.10", "when supplied entries that fell outside the kept tail are put back, room is made only by dropping entries that were not supplied: no cut of the kept list by position whose size is the number of entries put back")
	{
		snapT := p.Named("iface", "Snapshot")
		var vals ssa.Value
		allInstrs(sfe, false, func(ins ssa.Instruction) {
			if st, ok := ins.(*ssa.Store); ok {
				if f, fa := fieldOf(st.Addr); f != nil && f.Name() == "Values" && namedOf(fa.X.Type()) == snapT {
					vals = st.Val
				}
			}
		})
		var diffCall *ssa.Call
		positional := ""
		if vals != nil {
			sl := backSlice(vals, nil)
			for x := range sl {
				if call, ok := x.(*ssa.Call); ok {
					if f := calleeOf(call); f != nil && f.Name() == "Difference" {
						diffCall = call
					}
				}
			}
			isLenOfDiff := func(v ssa.Value) bool {
				for y := range backSlice(v, nil) {
					if call, ok := y.(*ssa.Call); ok {
						if b, ok := call.Call.Value.(*ssa.Builtin); ok && b.Name() == "len" && len(call.Call.Args) == 1 {
							for z := range backSlice(call.Call.Args[0], nil) {
								if z == ssa.Value(diffCall) && diffCall != nil {
									return true
								}
							}
						}
					}
				}
				return false
			}
			for x := range sl {
				switch y := x.(type) {
				case *ssa.Slice:
					if y.Parent() == sfe && ((y.Low != nil && isLenOfDiff(y.Low)) || (y.High != nil && isLenOfDiff(y.High))) {
						positional = "slice expression at " + p.Pos(y.Pos())
					}
				case *ssa.Call:
					if y.Parent() != sfe {
						continue
					}
					if cal := y.Call.StaticCallee(); cal != nil && p.firstParty(calleePkg(cal)) {
						if _, isSlice := y.Type().Underlying().(*types.Slice); isSlice {
							for ai, a := range y.Call.Args {
								if isIntType(a.Type()) && isLenOfDiff(a) && paramCutsByPosition(p, cal, ai, 0) {
									positional = cal.Name() + "(…) at " + p.Pos(y.Pos())
								}
							}
						}
					}
				}
			}
			// the entries that must not be dropped are the supplied ones — not the ones that were just found missing
			if diffCall != nil {
				for x := range backSlice(vals, nil) {
					call, ok := x.(*ssa.Call)
					if !ok || call.Parent() != sfe || call == diffCall {
						continue
					}
					cal := call.Call.StaticCallee()
					if cal == nil || !p.firstParty(calleePkg(cal)) {
						continue
					}
					countArg := false
					for _, a := range call.Call.Args {
						if isIntType(a.Type()) && isLenOfDiff(a) {
							countArg = true
						}
					}
					if !countArg {
						continue
					}
					nSlices, keepOK, keepFromDiff := 0, false, false
					for _, a := range call.Call.Args {
						if _, isSl := a.Type().Underlying().(*types.Slice); !isSl {
							continue
						}
						nSlices++
						sl := backSlice(a, nil)
						if sl[ssa.Value(diffCall)] {
							keepFromDiff = true
						} else if sl[ssa.Value(srcPar)] && mayAliasParam(a, sfe) != "" {
							keepOK = true
						}
					}
					if nSlices >= 2 {
						r.Check(keepOK && !keepFromDiff, "R-C10.10", r.Key("R-C10.10", fe, "keep-set", cal.Name()), call.Pos(),
							"the entries protected from being dropped are the supplied entries",
							"the helper that makes room ("+cal.Name()+") is not given the supplied entries as the set to protect (it is given a list derived from the entries found missing, or another list): supplied entries that are still in the kept list are dropped to make room")
					}
				}
			}
		}
		key := r.Key("R-C10.10", fe, "put-back", "")
		if vals == nil || diffCall == nil {
			r.Violate("R-C10.10", key, fe.Body.Pos(), "fromEntry no longer puts the supplied entries that fell outside the kept tail back into the result (no Difference(kept, supplied) in the snapshot's values)")
		} else {
			r.Check(positional == "", "R-C10.10", key, diffCall.Pos(), "room for the entries put back is made by membership, not by position",
				"fromEntry makes room for the supplied entries it puts back by cutting the kept list by position ("+positional+", by the number of entries put back): the entries cut are the oldest kept ones whether or not they were supplied themselves — a supplied entry that sorts among the oldest kept entries is dropped (sources [A1,B7,A10], limit 4: result [A1,A8,A9,A10], B7 lost)")
		}
	}
	// R-C10.6
	cnt := map[string]int{}
	guardObligations(c, r, repoLockEngine(c), "R-C10.6", map[string]bool{"Fetcher": true}, cnt)
	r.Floor("R-C10.6", "Fetcher guarded field accesses", cnt["Fetcher.tasksCache"]+cnt["Fetcher.maxClock"]+cnt["Fetcher.minClock"], 6)

	// R-C10.3
	n := 0
	for _, fn := range p.Fns {
		if fn.Pkg.PkgPath != p.Mod || fn.Decl == nil || !strings.HasSuffix(p.Fset.Position(fn.Decl.Pos()).Filename, "log_io.go") {
			continue
		}
		// helper = has an integer parameter and a slice parameter
		hasInt, hasSlice := false, false
		sig := fn.Obj.Type().(*types.Signature)
		for i := 0; i < sig.Params().Len(); i++ {
			if isIntType(sig.Params().At(i).Type()) {
				hasInt = true
			}
			if _, ok := sig.Params().At(i).Type().Underlying().(*types.Slice); ok {
				hasSlice = true
			}
		}
		if !hasInt || !hasSlice {
			continue
		}
		a, _ := sinkObligations(c, r, "R-C10.3", fn, false)
		n += a
	}
	r.Floor("R-C10.3", "integer-tainted sinks in the slice helpers", n, 2)
}

func infeasibleFacts(fs []lfact) bool {
	// facts ⊨ (0 <= -1)
	return entails(fs, linConst(1))
}

// suffixOnly: every result of fn is param #idx itself, empty/nil, or a suffix slice of (a suffix of) it.
func suffixOnly(p *Prog, fn *ssa.Function, idx int, depth int) (bool, string) {
	if fn == nil || len(fn.Blocks) == 0 || depth > 3 || idx >= len(fn.Params) {
		return false, "helper body not available"
	}
	par := fn.Params[idx]
	var isSuffix func(v ssa.Value, d int) bool
	isSuffix = func(v ssa.Value, d int) bool {
		if d > 6 {
			return false
		}
		switch x := v.(type) {
		case *ssa.Parameter:
			return x == par
		case *ssa.Const:
			return x.IsNil()
		case *ssa.Slice:
			if a, ok := x.X.(*ssa.Alloc); ok { // fresh array literal: []T{} — must be empty
				if pt, ok := a.Type().Underlying().(*types.Pointer); ok {
					if at, ok := pt.Elem().Underlying().(*types.Array); ok && at.Len() == 0 {
						return true
					}
				}
				return false
			}
			return x.High == nil && x.Max == nil && isSuffix(x.X, d+1)
		case *ssa.Phi:
			for _, e := range x.Edges {
				if !isSuffix(e, d+1) {
					return false
				}
			}
			return true
		case *ssa.MakeSlice:
			if cst, ok := x.Len.(*ssa.Const); ok && cst.Value != nil {
				if i, ok := constant.Int64Val(cst.Value); ok && i == 0 {
					return true
				}
			}
			return false
		case *ssa.Call:
			cal := x.Call.StaticCallee()
			if cal == nil || !p.firstParty(calleePkg(cal)) {
				return false
			}
			for i, a := range x.Call.Args {
				if _, ok := a.Type().Underlying().(*types.Slice); ok && isSuffix(a, d+1) {
					ok2, _ := suffixOnly(p, cal, i, depth+1)
					return ok2
				}
			}
			return false
		}
		return false
	}
	for _, b := range fn.Blocks {
		if ret, ok := b.Instrs[len(b.Instrs)-1].(*ssa.Return); ok {
			if len(ret.Results) != 1 || !isSuffix(ret.Results[0], 0) {
				return false, fmt.Sprintf("%s returns a value at %s that is not a suffix of its list argument", fn.Name(), p.Pos(ret.Pos()))
			}
		}
	}
	return true, ""
}

// mayAliasParam: the slice value may share its backing array with a slice parameter of sf: it is the parameter,
// a re-slice of it, or the result of appending to it (append reuses spare capacity). Returns the parameter name.
func mayAliasParam(v ssa.Value, sf *ssa.Function) string {
	seen := map[ssa.Value]bool{}
	var walk func(x ssa.Value) string
	walk = func(x ssa.Value) string {
		if x == nil || seen[x] {
			return ""
		}
		seen[x] = true
		switch y := x.(type) {
		case *ssa.Parameter:
			if _, isSlice := y.Type().Underlying().(*types.Slice); isSlice && y.Parent() == sf {
				return "parameter " + y.Name()
			}
		case *ssa.Slice:
			return walk(y.X)
		case *ssa.ChangeType:
			return walk(y.X)
		case *ssa.Phi:
			for _, e := range y.Edges {
				if w := walk(e); w != "" {
					return w
				}
			}
		case *ssa.Call:
			if b, ok := y.Call.Value.(*ssa.Builtin); ok && b.Name() == "append" && len(y.Call.Args) > 0 {
				return walk(y.Call.Args[0])
			}
		case *ssa.UnOp:
			if y.Op == token.MUL {
				if a, ok := y.X.(*ssa.Alloc); ok {
					for _, st := range cellStores(a) {
						if w := walk(st.Val); w != "" {
							return w
						}
					}
				}
			}
		}
		return ""
	}
	return walk(v)
}

// paramCutsByPosition: the integer parameter i of g ends up as a bound of a slice expression (in g or in a
// first-party callee): g removes elements by position. A parameter that is only compared and counted does not.
func paramCutsByPosition(p *Prog, g *ssa.Function, i int, depth int) bool {
	if g == nil || len(g.Blocks) == 0 || i >= len(g.Params) || depth > 3 {
		return false
	}
	derived := map[ssa.Value]bool{g.Params[i]: true}
	for changed := true; changed; {
		changed = false
		allInstrs(g, true, func(ins ssa.Instruction) {
			mark := func(v ssa.Value) {
				if !derived[v] {
					derived[v] = true
					changed = true
				}
			}
			switch x := ins.(type) {
			case *ssa.BinOp:
				if (derived[x.X] || derived[x.Y]) && isIntType(x.Type()) {
					mark(x)
				}
			case *ssa.UnOp:
				if derived[x.X] {
					mark(x)
				}
			case *ssa.Phi:
				for _, e := range x.Edges {
					if derived[e] {
						mark(x)
					}
				}
			case *ssa.Convert:
				if derived[x.X] {
					mark(x)
				}
			case *ssa.Store:
				if derived[x.Val] {
					if a, ok := x.Addr.(*ssa.Alloc); ok {
						mark(a)
					}
				}
			}
		})
	}
	cut := false
	allInstrs(g, true, func(ins ssa.Instruction) {
		switch x := ins.(type) {
		case *ssa.Slice:
			if (x.Low != nil && derived[x.Low]) || (x.High != nil && derived[x.High]) {
				cut = true
			}
		case *ssa.Call:
			if cal := x.Call.StaticCallee(); cal != nil && p.firstParty(calleePkg(cal)) {
				for ai, a := range x.Call.Args {
					if derived[a] && paramCutsByPosition(p, cal, ai, depth+1) {
						cut = true
					}
				}
			}
		}
	})
	return cut
}

// clockTieAdmission (R-C10.12). Sinks: `results = append(results, entry)` and calls of addHashToQueue in the
// methods of Fetcher. The condition a sink sits under (enclosing ifs, else branches, and leading
// `if c { return/continue }` guards of the enclosing blocks) is expanded to alternatives; boolean locals assigned
// once stand for their definition. An atom comparing a clock time with a Fetcher field is evaluated for "later"
// and for "equal". Every alternative that lets a later entry through must have a counterpart that lets an equal
// one through under no more side conditions.
func clockTieAdmission(c *Ctx, r *Report, rule string) {
	p := c.P
	fetcherT := p.Named("entry", "Fetcher")
	ninst := 0
	for _, fn := range p.Fns {
		if fn.Orig != nil || !inPkgs(p, fn, "entry") {
			continue
		}
		root := fn.Root()
		if root.Obj == nil {
			continue
		}
		if rv := root.Obj.Type().(*types.Signature).Recv(); rv == nil || namedOf(rv.Type()) != fetcherT {
			continue
		}
		expand := func(e ast.Expr) ast.Expr {
			for depth := 0; depth < 4; depth++ {
				id, ok := ast.Unparen(e).(*ast.Ident)
				if !ok {
					break
				}
				v, isVar := p.ObjOf(fn, id).(*types.Var)
				if !isVar {
					break
				}
				d := p.SoleDef(fn, v)
				if d == nil {
					break
				}
				e = d
			}
			return ast.Unparen(e)
		}
		var atomsOf func(cond ast.Expr, taken bool, depth int) [][]condAtom
		atomsOf = func(cond ast.Expr, taken bool, depth int) [][]condAtom {
			var out [][]condAtom
			for _, alt := range dnfCond(cond, taken) {
				alts := [][]condAtom{{}}
				for _, a := range alt {
					sub := [][]condAtom{{a}}
					if x := expand(a.E); x != ast.Unparen(a.E) && depth < 3 && isBoolType(p.TypeOf(fn, a.E)) {
						sub = atomsOf(x, a.Truth, depth+1)
					}
					var nx [][]condAtom
					for _, pre := range alts {
						for _, sfx := range sub {
							nx = append(nx, append(append([]condAtom{}, pre...), sfx...))
						}
					}
					alts = nx
				}
				out = append(out, alts...)
			}
			if len(out) > 64 {
				return [][]condAtom{{}}
			}
			return out
		}
		isClockTime := func(e ast.Expr) bool {
			found := false
			ast.Inspect(expand(e), func(m ast.Node) bool {
				if call, ok := m.(*ast.CallExpr); ok {
					if cal := p.Callee(fn, call); cal != nil && cal.Name() == "GetTime" {
						found = true
					}
				}
				return !found
			})
			return found
		}
		isFetcherField := func(e ast.Expr) bool {
			sel, ok := ast.Unparen(e).(*ast.SelectorExpr)
			if !ok {
				return false
			}
			v, ok := p.ObjOf(fn, sel.Sel).(*types.Var)
			return ok && v.IsField() && namedOf(p.TypeOf(fn, sel.X)) == fetcherT
		}
		// clockAtom: (is a clock comparison, holds for a later time, holds for an equal time)
		clockAtom := func(a condAtom) (bool, bool, bool) {
			e := ast.Unparen(a.E)
			truth := a.Truth
			for {
				u, ok := e.(*ast.UnaryExpr)
				if !ok || u.Op != token.NOT {
					break
				}
				e, truth = ast.Unparen(u.X), !truth
			}
			be, ok := e.(*ast.BinaryExpr)
			if !ok || negOp(be.Op) == token.ILLEGAL {
				return false, false, false
			}
			op := be.Op
			switch {
			case isClockTime(be.X) && isFetcherField(be.Y):
			case isClockTime(be.Y) && isFetcherField(be.X):
				op = flipOp(op)
			default:
				return false, false, false
			}
			if !truth {
				op = negOp(op)
			}
			later := op == token.GTR || op == token.GEQ || op == token.NEQ
			equal := op == token.GEQ || op == token.LEQ || op == token.EQL
			return true, later, equal
		}
		terminates := func(b *ast.BlockStmt) bool {
			if b == nil || len(b.List) == 0 {
				return false
			}
			switch l := b.List[len(b.List)-1].(type) {
			case *ast.ReturnStmt:
				return true
			case *ast.BranchStmt:
				return l.Tok == token.CONTINUE || l.Tok == token.BREAK
			}
			return false
		}
		walkNoLit(fn.Body, func(n ast.Node) bool {
			var sink ast.Node
			what := ""
			switch x := n.(type) {
			case *ast.AssignStmt:
				if len(x.Rhs) == 1 {
					if call, ok := ast.Unparen(x.Rhs[0]).(*ast.CallExpr); ok && p.Builtin(fn, call) == "append" && len(call.Args) >= 2 {
						if et := p.TypeOf(fn, call.Args[1]); et != nil && isNamed(et, p.pkgPath("iface"), "IPFSLogEntry") {
							sink, what = x, "admit"
						}
					}
				}
			case *ast.CallExpr:
				if cal := p.Callee(fn, x); cal != nil && cal.Name() == "addHashToQueue" {
					sink, what = x, "queue"
				}
			}
			if sink == nil {
				return true
			}
			// the condition the sink sits under, as one conjunction
			var conj ast.Expr
			and := func(e ast.Expr) {
				if conj == nil {
					conj = e
				} else {
					conj = &ast.BinaryExpr{X: e, Op: token.LAND, Y: conj}
				}
			}
			for cur, par := sink, p.ParentIn(fn, sink); par != nil; cur, par = par, p.ParentIn(fn, par) {
				switch x := par.(type) {
				case *ast.IfStmt:
					if cur == ast.Node(x.Body) {
						and(x.Cond)
					} else if cur == x.Else {
						and(&ast.UnaryExpr{Op: token.NOT, X: x.Cond})
					}
				case *ast.BlockStmt:
					for _, st := range x.List {
						if st == cur {
							break
						}
						if ifs, ok := st.(*ast.IfStmt); ok && ifs.Else == nil && ifs.Init == nil && terminates(ifs.Body) {
							and(&ast.UnaryExpr{Op: token.NOT, X: ifs.Cond})
						}
					}
				}
				if par == ast.Node(fn.Body) {
					break
				}
			}
			if conj == nil {
				return true
			}
			type altInfo struct {
				later, equal bool
				side         map[string]bool
				hasClock     bool
			}
			var infos []altInfo
			anyClock := false
			for _, alt := range atomsOf(conj, true, 0) {
				ai := altInfo{later: true, equal: true, side: map[string]bool{}}
				for _, a := range alt {
					if isC, l, e := clockAtom(a); isC {
						ai.hasClock, anyClock = true, true
						ai.later = ai.later && l
						ai.equal = ai.equal && e
					} else {
						ai.side[fmt.Sprintf("%v|%s", a.Truth, types.ExprString(a.E))] = true
					}
				}
				infos = append(infos, ai)
			}
			if !anyClock {
				return true
			}
			ninst++
			bad := ""
			for _, a := range infos {
				if !a.hasClock || !a.later {
					continue
				}
				covered := false
				for _, b := range infos {
					if !b.equal {
						continue
					}
					sub := true
					for k := range b.side {
						if !a.side[k] {
							sub = false
						}
					}
					if sub {
						covered = true
					}
				}
				if !covered {
					bad = "a later entry passes under side conditions under which an entry with an equal time does not"
				}
			}
			desc := map[string]string{"admit": "the admission of a fetched entry", "queue": "the queueing of a fetched entry's links"}[what]
			r.Check(bad == "", rule, r.Key(rule, fn, "clock-tie", what), sink.Pos(),
				desc+" treats an equal clock time like a later one",
				desc+" compares the entry's clock time with a bound the fetcher tracks and lets a later entry through where it stops an equal one ("+bad+"): an entry that ties with the oldest kept one is treated as older although the log's order may place it in the kept tail, so which of two concurrent entries is kept depends on the order their blocks arrive")
			return true
		})
	}
	if ninst == 0 {
		r.Hold(rule, r.Key(rule, nil, "no-clock-refusal", ""), token.NoPos, true, "no admission or queueing in the fetcher compares a clock time with a tracked bound (nothing is refused by clock)")
	}
}

// mentionsTerm: some fact of the path constrains an atom of t (the path has looked at the value).
func mentionsTerm(d []lfact, t lin) bool {
	for _, f := range d {
		for a := range t.c {
			if f.l.c[a] != 0 {
				return true
			}
		}
	}
	return false
}

// splitByLimitSummaries: a path that tests the result of a helper whose summary is expressed in the limit n
// (`length := fetchLength(options.Length, k)`) is split into one path per alternative of that summary, each
// carrying the alternative's facts: the alternative in which the helper looked at the limit mentions it, the
// one in which the pointer was nil does not — exactly as if the helper's tests were written in place.
func splitByLimitSummaries(lp *LenProver, paths [][]lfact, n lin) [][]lfact {
	var out [][]lfact
	for _, d := range paths {
		var atom string
		for _, f := range d {
			for a := range f.l.c {
				for _, alt := range lp.alts[a] {
					if mentionsTerm(alt, n) && (atom == "" || a < atom) {
						atom = a
					}
				}
			}
		}
		if atom == "" || mentionsTerm(d, n) {
			out = append(out, d)
			continue
		}
		for _, alt := range lp.alts[atom] {
			nd := append(append([]lfact{}, d...), alt...)
			if infeasibleFacts(append(append([]lfact{}, nd...), lp.defs...)) {
				continue
			}
			out = append(out, nd)
		}
	}
	return out
}

// limitedVariant: the path restricted to the values n >= 0 of the limit, when the path has looked at the limit
// and those values are possible on it.
func limitedVariant(lp *LenProver, d []lfact, n lin) ([]lfact, bool) {
	if !mentionsTerm(d, n) {
		return nil, false
	}
	v := append(append([]lfact{}, d...), lfact{n.scale(-1), "le"})
	if infeasibleFacts(append(append([]lfact{}, v...), lp.defs...)) {
		return nil, false
	}
	return v, true
}

// negativeVariant: the path restricted to the values n <= -1.
func negativeVariant(lp *LenProver, d []lfact, n lin) ([]lfact, bool) {
	v := append(append([]lfact{}, d...), lfact{n.add(linConst(1), 1), "le"})
	if infeasibleFacts(append(append([]lfact{}, v...), lp.defs...)) {
		return nil, false
	}
	return v, true
}
