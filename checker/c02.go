package main

// c02.go — heads are exactly the unreferenced entries: the structural pieces that are specific to head
// maintenance (the unreferenced-entry scan, the single new head of Append, the inputs of the merged head
// set, derivation of heads on construction, heads never edited in place).

import (
	"go/ast"
	"go/token"
	"go/types"

	"golang.org/x/tools/go/ssa"
)

func init() {
	register(&PropSpec{ID: "C02", Level: "other", Run: runC02,
		Explanation: "Exactness of the head set over all histories is set algebra and is not decided. Decided, on every path of the current source, are the structural necessary conditions of head maintenance: (R-C02.1) FindHeads builds its reverse index from every predecessor link of every entry of the map, unconditionally, and returns an entry only on the negative-lookup edge of that index for the entry's own key, ranging over the same key list; (R-C02.2) Append makes the created entry the only head, inserts that same entry, and gives it predecessors derived from the heads read in the same critical section; (R-C02.3) the head set stored by a merge depends on the destination's heads, the source's heads, the new items' predecessor links and the destination's predecessor index, and the apply phase indexes every link unconditionally; (R-C02.4) a log constructed without explicit heads derives them with FindHeads from the very entry map it stores; (R-C02.5) no code applies an in-place mutator (Set, Reverse) to a map loaded from the heads field — heads are only replaced; (R-C02.6) a bounded merge recomputes heads with FindHeads over the truncated entry list. Not covered: that these pieces compose to 'exactly the unreferenced entries' for every DAG.",
	})
}

func runC02(c *Ctx, r *Report) {
	p := c.P
	r.Doc("R-C02.1", "FindHeads: complete reverse index, result only on the negative lookup of the entry's own key")
	r.Doc("R-C02.2", "Append: created entry is the only head, is the inserted entry, names the heads read in the same section")
	r.Doc("R-C02.3", "merge: heads depend on both head sets, new items' links and the destination's predecessor index")
	r.Doc("R-C02.4", "construction without heads derives them from the stored entries")
	r.Doc("R-C02.5", "heads are replaced, never edited in place")
	r.Doc("R-C02.6", "bounded merge recomputes heads over the truncated list")
	r.Doc("R-C02.7", "a refused append or merge leaves the entry index, the predecessor index and the heads untouched (a phantom link or entry makes a later merge drop a true head or resurrect a stale one)")
	refusedOperationsLeaveNoTrace(c, r, "R-C02.7")
	r.Doc("R-C02.8", "the loops that maintain heads and the predecessor index (Append, Join, FindHeads, NewLog) process every element")
	loopsComplete(c, r, "R-C02.8", func(fn *Fn) bool { return rootNamed(fn, "Append", "Join", "FindHeads", "NewLog") }, "a predecessor link is not indexed or a candidate head is not examined: referenced entries stay heads, or heads are missed")
	r.Doc("R-C02.10", "what a merge takes from the other log is collected by walking from the heads it read: every key filed in the candidate set derives from the heads handed in or from the predecessor links of a candidate (a plain set difference of the two indexes also takes entries the read heads do not cover, and the merged heads then miss them)")
	candidatesWalkFromHeads(c, r, "R-C02.10")
	r.Doc("R-C02.11", "the head set is built through a constructor that files every entry that exists (nothing is left out for its payload, version or any other content)")
	collectionKeepsAll(c, r, "R-C02.11")
	r.Doc("R-C02.12", "a log's index is its own: OrderedMap.Copy returns a newly built map on every path and NewLog stores a copy of the entries it is given")
	orderedMapCopyFresh(c, r, "R-C02.12")
	r.Doc("R-C02.13", "the merge files every new item under every one of its predecessor links (adopted from C01: a hole in the predecessor index makes a later merge from a lagging replica turn a referenced entry into a head)")
	importRules(c, r, "C01", []string{"R-C01.4"}, "R-C02.13")
	r.Doc("R-C02.14", "the keys of a head set are only read: nobody filters, sorts or appends onto the key slice an entry map hands out (adopted from C05: the merging log would edit the head set of the log it merges from, which loses a head nothing references)")
	importRules(c, r, "C05", []string{"R-C05.13"}, "R-C02.14")
	r.Doc("R-C02.15", "a loader that takes the heads from the manifest hands on only entries its walk from those heads returned (an entry added from a list the caller holds is referenced by nothing and is no head)")
	snapshotEntriesComeFromTheWalk(c, r, "R-C02.15")
	r.Doc("R-C02.16", "the constructor derives the heads for the log it builds, not for the caller's options: no field of an options struct handed in is filled with a value computed from another of its fields (a reused options value with other entries would otherwise yield a log whose heads are the previous log's)")
	optionsHoldNoDerivedData(c, r, "R-C02.16")
	r.Doc("R-C02.17", "a view is taken in one critical section (adopted from C13: a snapshot whose values are newer than its heads lists as heads entries that one of its own values references)")
	importRules(c, r, "C13", []string{"R-C13.12"}, "R-C02.17", 0)
	r.Doc("R-C02.18", "between the first index update of a merge and the store of the merged heads nothing runs that the caller supplied (a panicking sort function would leave merged, unreferenced entries that are no heads)")
	noCallerCodeMidUpdate(c, r, "R-C02.18")
	r.Doc("R-C02.19", "within one key space — the entry maps of the logs, or any one Go map — every key derived from an identifier is derived by the same method (a predecessor index filed under one form of a CID and asked under another finds nothing: referenced entries stay heads)")
	oneSpellingOfAHash(c, r, "R-C02.19")
	r.Doc("R-C02.20", "the heads a view publishes (snapshot, JSON form, Heads, RawHeads) are the head set itself, possibly sorted — never the first entries of a walk (with branches of unequal length those are a head and its predecessors)")
	publishedHeadsAreTheHeadSet(c, r, "R-C02.20")
	r.Doc("R-C02.9", "the predecessor index that decides which entries are referenced is keyed by predecessor links of the filed entry (not by its references, not by another list)")
	indexKeys(c, r, "R-C02.9")

	findHeadsShape(c, r, "R-C02.1")

	// ---- R-C02.2
	app := p.FuncI("", "IPFSLog", "Append")
	headsF := p.Field("", "IPFSLog", "heads")
	var created types.Object
	walkNoLit(app.Body, func(n ast.Node) bool {
		if as, ok := n.(*ast.AssignStmt); ok && len(as.Rhs) == 1 && len(as.Lhs) == 2 {
			if call, ok := ast.Unparen(as.Rhs[0]).(*ast.CallExpr); ok {
				if cf := p.Callee(app, call); cf != nil && len(cf.Name()) >= 11 && cf.Name()[:11] == "CreateEntry" {
					if id, ok := as.Lhs[0].(*ast.Ident); ok {
						created = p.ObjOf(app, id)
					}
				}
			}
		}
		return true
	})
	nh := 0
	walkNoLit(app.Body, func(n ast.Node) bool {
		if as, ok := n.(*ast.AssignStmt); ok {
			for i, l := range as.Lhs {
				if v, _ := p.FieldSel(app, l); v == headsF && i < len(as.Rhs) {
					nh++
					only := false
					if call, ok := ast.Unparen(as.Rhs[i]).(*ast.CallExpr); ok && len(call.Args) == 1 {
						if cl, ok := ast.Unparen(call.Args[0]).(*ast.CompositeLit); ok && len(cl.Elts) == 1 {
							if id, ok := ast.Unparen(cl.Elts[0]).(*ast.Ident); ok && created != nil && p.ObjOf(app, id) == created {
								only = true
							}
						}
					}
					r.Check(only, "R-C02.2", r.Key("R-C02.2", app, "heads-store", ""), as.Pos(), "after an append the head set is exactly the new entry", "Append stores a head set other than exactly the created entry: an entry that the new one points to stays a head, or the new entry is not a head")
				}
			}
		}
		return true
	})
	r.Floor("R-C02.2", "heads stores in Append", nh, 1)
	sfa := p.SSAFunc(app)
	entryT := p.Named("entry", "Entry")
	nextFromHeads := false
	allInstrs(sfa, false, func(ins ssa.Instruction) {
		if st, ok := ins.(*ssa.Store); ok {
			if f, fa := fieldOf(st.Addr); f != nil && f.Name() == "Next" && namedOf(fa.X.Type()) == entryT && derivesFromField(st.Val, headsF) {
				nextFromHeads = true
			}
		}
	})
	r.Check(nextFromHeads, "R-C02.2", r.Key("R-C02.2", app, "next-from-heads", ""), app.Body.Pos(), "the new entry's predecessors derive from the log's heads", "the new entry's predecessor list does not derive from the log's heads: the old heads stay unreferenced although they are no longer heads")
	appendSingleSection(c, r, "R-C02.2", "the heads named by the new entry are no longer the log's heads when it is installed, so an entry stays a head although the new head does not point to it (or a referenced entry stays a head)")

	// ---- R-C02.3: shared with C01 (computed here again on the current tree)
	join := p.FuncI("", "IPFSLog", "Join")
	mergedHeadsDeps(c, r, "R-C02.3", join)

	// ---- R-C02.4
	newLog := p.FuncI("", "", "NewLog")
	sfn := p.SSAFunc(newLog)
	logT := p.Named("", "IPFSLog")
	findHeads := p.FuncObj("entry", "", "FindHeads")
	var headsInit, entriesInit ssa.Value
	allInstrs(sfn, false, func(ins ssa.Instruction) {
		if st, ok := ins.(*ssa.Store); ok {
			if f, fa := fieldOf(st.Addr); f != nil && namedOf(fa.X.Type()) == logT {
				switch f.Name() {
				case "heads":
					headsInit = st.Val
				case "Entries":
					entriesInit = st.Val
				}
			}
		}
	})
	okDerive := false
	if headsInit != nil {
		for v := range backSlice(headsInit, nil) {
			if call, ok := v.(*ssa.Call); ok && calleeOf(call) == findHeads {
				// FindHeads' argument and the stored entries come from the same option field
				if entriesInit != nil {
					af, ef := (*types.Var)(nil), (*types.Var)(nil)
					for x := range backSlice(call.Call.Args[0], nil) {
						if u, ok := x.(*ssa.UnOp); ok && u.Op == token.MUL {
							if f, _ := fieldOf(u.X); f != nil && f.Name() == "Entries" {
								af = f
							}
						}
					}
					for x := range backSlice(entriesInit, nil) {
						if u, ok := x.(*ssa.UnOp); ok && u.Op == token.MUL {
							if f, _ := fieldOf(u.X); f != nil && f.Name() == "Entries" {
								ef = f
							}
						}
					}
					okDerive = af != nil && af == ef
				}
			}
		}
	}
	r.Check(okDerive, "R-C02.4", r.Key("R-C02.4", newLog, "derive-heads", ""), newLog.Body.Pos(), "heads of a log built without explicit heads are FindHeads of the entries it stores", "NewLog does not derive missing heads with FindHeads from the entry map it stores: a log loaded from entries has no heads, or heads of another entry set")

	// the predecessor index a new log starts with: every link of every given entry, whatever else was supplied
	{
		var nextObj types.Object
		walkNoLit(newLog.Body, func(n ast.Node) bool {
			if kv, ok := n.(*ast.KeyValueExpr); ok {
				if k, ok := kv.Key.(*ast.Ident); ok && k.Name == "Next" {
					if cl, ok := p.parent[kv].(*ast.CompositeLit); ok && namedOf(p.TypeOf(newLog, cl)) == logT {
						if id, ok := ast.Unparen(kv.Value).(*ast.Ident); ok {
							nextObj = p.ObjOf(newLog, id)
						}
					}
				}
			}
			return true
		})
		key := r.Key("R-C02.4", newLog, "initial-index", "")
		nset := 0
		// the map may be built under another local name and handed over by plain copies (a helper's result)
		nextAliases := map[types.Object]bool{nextObj: true}
		for changed := nextObj != nil; changed; {
			changed = false
			walkNoLit(newLog.Body, func(n ast.Node) bool {
				as, ok := n.(*ast.AssignStmt)
				if !ok || len(as.Lhs) != len(as.Rhs) {
					return true
				}
				for i, l := range as.Lhs {
					lid, ok1 := ast.Unparen(l).(*ast.Ident)
					rid, ok2 := ast.Unparen(as.Rhs[i]).(*ast.Ident)
					if !ok1 || !ok2 {
						continue
					}
					lo, ro := p.CanonObj(newLog, lid), p.CanonObj(newLog, rid)
					if lo == nil || ro == nil {
						continue
					}
					if nextAliases[lo] != nextAliases[ro] {
						nextAliases[lo], nextAliases[ro] = true, true
						changed = true
					}
				}
				return true
			})
		}
		if nextObj != nil {
			walkNoLit(newLog.Body, func(n ast.Node) bool {
				call, ok := n.(*ast.CallExpr)
				if !ok {
					return true
				}
				se, ok := ast.Unparen(call.Fun).(*ast.SelectorExpr)
				if !ok || se.Sel.Name != "Set" {
					return true
				}
				if id, ok := ast.Unparen(se.X).(*ast.Ident); !ok || !nextAliases[p.CanonObj(newLog, id)] {
					return true
				}
				nset++
				okc, why := loopComplete(p, newLog, call, 2, false, false)
				if okc {
					ls := enclosingLoops(p, newLog, call)
					for cur := p.ParentIn(newLog, ast.Node(ls[1])); cur != nil && cur != ast.Node(newLog.Body); cur = p.ParentIn(newLog, cur) {
						switch cur.(type) {
						case *ast.IfStmt, *ast.SwitchStmt, *ast.CaseClause:
							okc, why = false, "the indexing loops only run under the condition at "+p.Pos(cur.Pos())
						}
					}
					if okc && (!fullRange(ls[0]) || !fullRange(ls[1])) {
						okc, why = false, "the loops range over a part of the entries or links"
					}
				}
				r.Check(okc, "R-C02.4", key, call.Pos(), "a new log indexes every predecessor link of every given entry, whatever options were supplied",
					"NewLog does not index every predecessor link of every given entry ("+why+"): a later merge treats referenced entries as unreferenced and brings stale heads back")
				return true
			})
		}
		if nset == 0 {
			r.Violate("R-C02.4", key, newLog.Body.Pos(), "NewLog builds no predecessor index for the entries it is given")
		}
	}

	// ---- R-C02.5
	nmut := 0
	for _, fn := range p.Fns {
		if fn.Pkg.PkgPath != p.Mod {
			continue
		}
		alias := map[types.Object]bool{}
		walkNoLit(fn.Body, func(n ast.Node) bool {
			if as, ok := n.(*ast.AssignStmt); ok && len(as.Lhs) == len(as.Rhs) {
				for i, l := range as.Lhs {
					if id, ok := l.(*ast.Ident); ok {
						if v, _ := p.FieldSel(fn, as.Rhs[i]); v == headsF {
							alias[p.ObjOf(fn, id)] = true
						}
					}
				}
			}
			return true
		})
		walkNoLit(fn.Body, func(n ast.Node) bool {
			call, ok := n.(*ast.CallExpr)
			if !ok {
				return true
			}
			se, ok := ast.Unparen(call.Fun).(*ast.SelectorExpr)
			if !ok || (se.Sel.Name != "Set" && se.Sel.Name != "Reverse") {
				return true
			}
			onHeads := false
			if v, _ := p.FieldSel(fn, se.X); v == headsF {
				onHeads = true
			}
			if id, ok := ast.Unparen(se.X).(*ast.Ident); ok && alias[p.ObjOf(fn, id)] {
				onHeads = true
			}
			if onHeads {
				nmut++
				r.Violate("R-C02.5", r.Key("R-C02.5", fn, "in-place", se.Sel.Name), call.Pos(), "the heads map is edited in place ("+se.Sel.Name+"): head snapshots handed out by RawHeads/Heads and the manifest change under their holders, and a stale head can survive")
			}
			return true
		})
	}
	if nmut == 0 {
		r.Hold("R-C02.5", r.Key("R-C02.5", nil, "replace-only", ""), token.NoPos, true, "no Set/Reverse is applied to a map loaded from the heads field")
	}

	// ---- R-C02.6
	sfj := p.SSAFunc(join)
	hs := p.fieldStoresGroup(sfj, headsF)
	nb := 0
	for _, st := range hs {
		hasSlice, hasFind, fromValues := false, false, false
		valuesFn := p.FuncObj("", "IPFSLog", "values")
		for v := range backSlice(st.Val, nil) {
			switch x := v.(type) {
			case *ssa.Slice:
				hasSlice = true
			case *ssa.Call:
				if calleeOf(x) == findHeads {
					hasFind = true
				}
				if calleeOf(x) == valuesFn {
					fromValues = true
				}
				if cal := x.Call.StaticCallee(); cal != nil && p.firstParty(calleePkg(cal)) {
					for i, a := range x.Call.Args {
						if _, isSl := a.Type().Underlying().(*types.Slice); isSl {
							if ok, _ := suffixOnly(p, cal, i, 0); ok {
								if _, retSl := x.Type().Underlying().(*types.Slice); retSl {
									hasSlice = true
								}
							}
						}
					}
				}
			}
		}
		if hasSlice && fromValues {
			nb++
			r.Check(hasFind, "R-C02.6", r.Key("R-C02.6", join, "bounded-heads", ""), st.Pos(), "heads of the truncated log are FindHeads of the truncated list", "the bounded merge stores heads that are not recomputed by FindHeads over the truncated list")
			// … on every path: no alternative keeps the heads computed before the cut
			stale := ""
			var leaves func(v ssa.Value, depth int)
			leaves = func(v ssa.Value, depth int) {
				if phi, ok := v.(*ssa.Phi); ok && depth < 6 {
					for _, e := range phi.Edges {
						leaves(e, depth+1)
					}
					return
				}
				found := false
				// (the heads field itself is not looked through: what it held before the cut is the stale value)
				for x := range backSliceOpt(v, func(y ssa.Value) bool {
					if u, ok := y.(*ssa.UnOp); ok && u.Op == token.MUL {
						if f, _ := fieldOf(u.X); f == headsF {
							return false
						}
					}
					return true
				}, false) {
					if call, ok := x.(*ssa.Call); ok && calleeOf(call) == findHeads {
						found = true
					}
				}
				if !found {
					stale = p.Pos(v.Pos())
					if stale == "?" || stale == "-" {
						stale = v.String()
					}
				}
			}
			leaves(st.Val, 0)
			r.Check(stale == "", "R-C02.6", r.Key("R-C02.6", join, "bounded-heads-every-path", ""), st.Pos(), "on every path the heads of the truncated log are recomputed over the truncated list",
				"on some path the bounded merge keeps a head set that was not recomputed over the truncated list ("+stale+"): a head with a small clock sorts before the cut, stays a head, and is no longer an entry of the log")
		}
	}
	r.Floor("R-C02.6", "heads stores of the bounded merge", nb, 1)
}

func boolS(b bool) string {
	if b {
		return "yes"
	}
	return "no"
}

// findHeadsShape: FindHeads records every predecessor link (and only predecessor links) of every entry and
// reports an entry exactly on the negative lookup of its own key. Shared by the properties that rely on the head
// scan being exact (C02 itself, C03 completeness of the linearisation, C05 nothing vanishes in a merge).
func findHeadsShape(c *Ctx, r *Report, rule string) {
	p := c.P
	// ---- R-C02.1
	fh := p.FuncI("entry", "", "FindHeads")
	param := paramObj(fh, 0)
	// the reverse index: a map[string]… local written under loops
	var idx types.Object
	var idxWrites []*ast.AssignStmt
	walkNoLit(fh.Body, func(n ast.Node) bool {
		if as, ok := n.(*ast.AssignStmt); ok {
			for _, l := range as.Lhs {
				if ix, ok := ast.Unparen(l).(*ast.IndexExpr); ok {
					if id, ok := ast.Unparen(ix.X).(*ast.Ident); ok {
						if _, isMap := p.TypeOf(fh, id).Underlying().(*types.Map); isMap {
							idx = p.ObjOf(fh, id)
							idxWrites = append(idxWrites, as)
						}
					}
				}
			}
		}
		return true
	})
	if idx == nil {
		r.Violate(rule, r.Key(rule, fh, "reverse-index", ""), fh.Body.Pos(), "FindHeads builds no reverse index of predecessor links")
	}
	nGood := 0
	for _, idxWrite := range idxWrites {
		// enclosing statements of the write: only range loops, the outer over <param>.Keys(), the inner over GetNext()
		overKeys, overNext, conditional, other := false, false, "", ""
		for cur := p.parent[ast.Node(idxWrite)]; cur != nil && cur != ast.Node(fh.Body); cur = p.parent[cur] {
			// what the loop runs over: the ranged expression, or — for a counted loop — the list the write
			// indexes with the loop's counter; a single-definition local stands for its definition
			var over ast.Expr
			switch x := cur.(type) {
			case *ast.RangeStmt:
				over = x.X
			case *ast.ForStmt:
				var ctr types.Object
				if as, ok := x.Init.(*ast.AssignStmt); ok && len(as.Lhs) == 1 {
					if id, ok := as.Lhs[0].(*ast.Ident); ok {
						ctr = p.ObjOf(fh, id)
					}
				}
				ast.Inspect(idxWrite, func(m ast.Node) bool {
					if ie, ok := m.(*ast.IndexExpr); ok && over == nil && ctr != nil {
						if id, ok := ast.Unparen(ie.Index).(*ast.Ident); ok && p.ObjOf(fh, id) == ctr {
							if _, isSl := p.TypeOf(fh, ie.X).Underlying().(*types.Slice); isSl {
								over = ie.X
							}
						}
					}
					return true
				})
			}
			if id, ok := ast.Unparen(over).(*ast.Ident); ok && over != nil {
				if d := p.SoleDef(fh, p.ObjOf(fh, id)); d != nil {
					over = d
				}
			}
			switch cur.(type) {
			case *ast.RangeStmt, *ast.ForStmt:
				if over == nil {
					break
				}
				if call, ok := ast.Unparen(over).(*ast.CallExpr); ok {
					if se, ok := ast.Unparen(call.Fun).(*ast.SelectorExpr); ok {
						switch se.Sel.Name {
						case "Keys", "Slice":
							if id, ok := ast.Unparen(se.X).(*ast.Ident); ok && p.ObjOf(fh, id) == param {
								overKeys = true
							}
						case "GetNext":
							overNext = true
						default:
							other = se.Sel.Name
						}
					}
				}
			case *ast.IfStmt, *ast.SwitchStmt:
				conditional = "condition at " + p.Pos(cur.Pos())
			}
		}
		if other != "" && !overNext {
			// a second kind of link poured into the index: entries named there stop being heads
			r.Violate(rule, r.Key(rule, fh, "reverse-index-extra", other), idxWrite.Pos(), "FindHeads also records the result of "+other+"() in its reverse index: only predecessor links (GetNext) decide whether an entry is a head; an entry that is merely named there is dropped from the heads although nothing in the log points to it")
			continue
		}
		if conditional == "" {
			if ok, why := loopComplete(p, fh, idxWrite, 2, false, false); !ok {
				conditional = why
			}
		}
		nGood++
		r.Check(overKeys && overNext && conditional == "", rule, r.Key(rule, fh, "reverse-index", ""), idxWrite.Pos(),
			"every predecessor link of every entry of the map is recorded unconditionally",
			"the reverse index in FindHeads does not record every predecessor link of every entry (all entries="+boolS(overKeys)+", all links="+boolS(overNext)+", "+conditional+"): referenced entries are reported as heads")
	}
	if idx != nil && nGood == 0 {
		r.Violate(rule, r.Key(rule, fh, "reverse-index", ""), fh.Body.Pos(), "FindHeads records no predecessor links in its reverse index")
	}
	// result appends dominated by the negative lookup of the loop key
	lookups := map[types.Object][2]types.Object{} // ok var / value var -> (keyObj, _)
	walkNoLit(fh.Body, func(n ast.Node) bool {
		if as, ok := n.(*ast.AssignStmt); ok && len(as.Lhs) == 2 && len(as.Rhs) == 1 {
			if ix, ok := ast.Unparen(as.Rhs[0]).(*ast.IndexExpr); ok {
				if id, ok := ast.Unparen(ix.X).(*ast.Ident); ok && p.ObjOf(fh, id) == idx {
					if kid, ok := ast.Unparen(ix.Index).(*ast.Ident); ok {
						if okid, ok := as.Lhs[1].(*ast.Ident); ok {
							lookups[p.ObjOf(fh, okid)] = [2]types.Object{p.ObjOf(fh, kid), nil}
						}
					}
				}
			}
		}
		return true
	})
	ff := &Flow{P: p, Fn: fh, Entry: Facts{}}
	ff.Edge = func(cond ast.Expr, taken bool, f Facts) {
		for _, a := range splitCond(cond, taken) {
			if id, ok := ast.Unparen(a.E).(*ast.Ident); ok && !a.Truth {
				if kv, ok := lookups[p.ObjOf(fh, id)]; ok {
					f["unref|"+p.ID(kv[0])] = true
				}
			}
		}
	}
	ff.Node = func(n ast.Node, f Facts) {
		// a new iteration rebinds the key: facts about it are re-established by the lookup in the body
	}
	ff.Run()
	napp := 0
	ff.Visit(func(_ *cfgBlk, n ast.Node, before Facts) {
		walkNoLit(n, func(nd ast.Node) bool {
			call, ok := nd.(*ast.CallExpr)
			if !ok || p.Builtin(fh, call) != "append" || len(call.Args) < 2 {
				return true
			}
			// appended value: <param>.UnsafeGet(k) / Get(k)
			inner, ok := ast.Unparen(call.Args[1]).(*ast.CallExpr)
			if !ok || len(inner.Args) != 1 {
				return true
			}
			kid, ok := ast.Unparen(inner.Args[0]).(*ast.Ident)
			if !ok {
				return true
			}
			napp++
			okScan, whyScan := loopComplete(p, fh, call, 1, true, false)
			if okScan {
				if ls := enclosingLoops(p, fh, call); len(ls) == 0 || !fullRange(ls[0]) {
					okScan, whyScan = false, "the scan ranges over a part of the key list"
				}
			}
			r.Check(okScan, rule, r.Key(rule, fh, "result-scan", ""), call.Pos(),
				"every key of the map is examined by the head scan",
				"the head scan in FindHeads does not examine every entry ("+whyScan+"): some unreferenced entries are never reported as heads")
			r.Check(before["unref|"+p.ID(p.ObjOf(fh, kid))], rule, r.Key(rule, fh, "result", ""), call.Pos(),
				"an entry is returned only when its own key is absent from the reverse index",
				"FindHeads returns an entry without a dominating negative lookup of that entry's key in the reverse index: entries that others point to are reported as heads (or the test is on another key)")
			return true
		})
	})
	r.Floor(rule, "result appends in FindHeads", napp, 1)

}

// candidatesWalkFromHeads (R-C02.10, adopted by C14): in `difference`, the keys filed in the returned collection
// derive — by data flow only — from the heads parameter.
func candidatesWalkFromHeads(c *Ctx, r *Report, rule string) {
	p := c.P
	diff := p.Func("", "", "difference")
	sdf := p.SSAFunc(diff)
	var headsP *ssa.Parameter
	for _, par := range sdf.Params {
		if sl, ok := par.Type().Underlying().(*types.Slice); ok && isNamed(sl.Elem(), p.pkgPath("iface"), "IPFSLogEntry") {
			headsP = par
		}
	}
	key := r.Key(rule, diff, "walk-from-heads", "")
	if headsP == nil {
		r.Violate(rule, key, diff.Body.Pos(), "the candidate collection of Join takes no list of heads: it cannot restrict itself to what the read heads cover")
		return
	}
	// the returned collections
	returned := map[ssa.Value]bool{}
	allInstrs(sdf, false, func(ins ssa.Instruction) {
		if ret, ok := ins.(*ssa.Return); ok {
			for _, res := range ret.Results {
				for v := range backSliceOpt(res, nil, false) {
					returned[v] = true
				}
			}
		}
	})
	nset := 0
	for _, g := range p.ssaGroup(sdf) {
		allInstrs(g, false, func(ins ssa.Instruction) {
			call, ok := ins.(ssa.CallInstruction)
			if !ok {
				return
			}
			com := call.Common()
			name := ""
			var recv ssa.Value
			var args []ssa.Value
			if com.IsInvoke() {
				name, recv, args = com.Method.Name(), com.Value, com.Args
			} else if cal := com.StaticCallee(); cal != nil && cal.Signature.Recv() != nil && len(com.Args) > 0 {
				name, recv, args = cal.Name(), com.Args[0], com.Args[1:]
			}
			if name != "Set" || len(args) != 2 || recv == nil {
				return
			}
			if !returned[recv] && g == sdf {
				// a store into a scratch map (the visited set is a Go map, not Set) — not the result
				found := false
				for v := range backSliceOpt(recv, nil, false) {
					if returned[v] {
						found = true
					}
				}
				if !found {
					return
				}
			}
			nset++
			fromHeads := false
			for v := range backSliceOpt(args[0], nil, false) {
				if v == ssa.Value(headsP) {
					fromHeads = true
				}
			}
			pos := ins.Pos()
			if !pos.IsValid() {
				pos = nearestPos(ins)
			}
			r.Check(fromHeads, rule, key, pos, "the key filed in the candidate set derives from the heads handed in",
				"the key under which difference files a candidate does not derive from the heads Join read (it comes from the other log's whole index): entries the read heads do not cover are merged, and the merged heads miss them")
		})
	}
	if nset == 0 {
		r.Violate(rule, key, diff.Body.Pos(), "difference files nothing in the collection it returns")
	}
}
