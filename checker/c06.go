package main

// c06.go — merge admits only verified, authorised entries and is all-or-nothing.

import (
	"fmt"
	"go/ast"
	"go/token"
	"go/types"
	"sort"
	"strings"

	"golang.org/x/tools/go/ssa"
)

func init() {
	register(&PropSpec{ID: "C06", Level: "other", Run: runC06,
		Explanation: "Decides on every path of Join, Append, difference, CreateEntryWithIO and Entry.Verify: (R-C06.1) every state change of Join (mutators on Entries/Next, stores to heads/Entries/Clock) is dominated by the nil edge of the aggregated validation error, itself tested after WaitGroup.Wait; (R-C06.2) once application has started no error return is reachable and every success return has stored heads and clock; (R-C06.3) the applied collection is the validated collection (same range expression), each validator obtains its item from it, and on every path that accepts an item both CanAppend and Verify were called on it with their errors recorded into the aggregated error; (R-C06.4) in Append the stores to Entries/Next/heads are dominated by the nil edges of entry creation and of CanAppend; (R-C06.5) the transformation chain feeding Sign equals the chain feeding PubKey.Verify, no signed field is set after the hashable view is taken, and verification uses the entry's own Key and Sig; (R-C06.6) the entry handed to ToHashable in Verify is assigned on every path (every codec); (R-C06.7) difference admits an entry only on the equal-log-id edge. Not covered: the signature scheme itself, policy semantics.",
	})
}

// stateChange: node-level detection of guarded IPFSLog state changes. Returns descriptions "store:heads", "mutate:Entries".
func logStateChanges(p *Prog, fn *Fn, n ast.Node, fields map[*types.Var]bool) []struct {
	What string
	Pos  token.Pos
} {
	var out []struct {
		What string
		Pos  token.Pos
	}
	walkNoLit(n, func(nd ast.Node) bool {
		switch x := nd.(type) {
		case *ast.AssignStmt:
			for _, l := range x.Lhs {
				if v, _ := p.FieldSel(fn, stripIndexStar(l)); v != nil && fields[v] {
					if nilInit(p, fn, x, l) {
						continue // initialisation of an absent (nil) index: not an observable change
					}
					out = append(out, struct {
						What string
						Pos  token.Pos
					}{"store:" + v.Name(), x.Pos()})
				}
			}
		case *ast.CallExpr:
			if se, ok := ast.Unparen(x.Fun).(*ast.SelectorExpr); ok && (se.Sel.Name == "Set" || se.Sel.Name == "Reverse") {
				if v, _ := p.FieldSel(fn, se.X); v != nil && fields[v] {
					out = append(out, struct {
						What string
						Pos  token.Pos
					}{"mutate:" + v.Name(), x.Pos()})
				}
			}
		}
		return true
	})
	return out
}

// capturedErrVars: error-typed locals of fn assigned inside one of its literals.
// errRecorderFns: per analysed function, the declared functions and methods that store into an aggregated-error
// field of an aggregate the function's literals hand them (filled by capturedErrVars).
var errRecorderFns = map[*Fn]map[*Fn]bool{}

// errPlaceOf: the aggregated-error place an expression denotes — a variable, or an error-typed field.
func errPlaceOf(p *Prog, fn *Fn, e ast.Expr, canon bool) types.Object {
	switch x := ast.Unparen(e).(type) {
	case *ast.Ident:
		if canon {
			return p.CanonObj(fn, x)
		}
		return p.ObjOf(fn, x)
	case *ast.SelectorExpr:
		if v, _ := p.FieldSel(fn, x); v != nil && isErrorType(v.Type()) {
			return v
		}
	}
	return nil
}

// recorderCall: the recorder a call in fn invokes — a local closure, or a declared recorder of root.
func recorderCall(p *Prog, fn, root *Fn, call *ast.CallExpr, recorders map[*Fn]bool) *Fn {
	if t := p.localClosure(fn, call); t != nil && recorders[t] {
		return t
	}
	if cf := p.Callee(fn, call); cf != nil {
		if t := p.ByObj[cf]; t != nil && errRecorderFns[orig(root)][t] {
			return t
		}
	}
	return nil
}

func capturedErrVars(p *Prog, fn *Fn) map[types.Object]bool {
	out := map[types.Object]bool{}
	for _, lit := range AllFnsUnder(fn)[1:] {
		ast.Inspect(lit.Body, func(n ast.Node) bool {
			if as, ok := n.(*ast.AssignStmt); ok && as.Tok == token.ASSIGN {
				for _, l := range as.Lhs {
					if id, ok := ast.Unparen(l).(*ast.Ident); ok {
						if v, ok := p.ObjOf(lit, id).(*types.Var); ok && isErrorType(v.Type()) && declaredIn(v, fn) && !declaredIn(v, lit) {
							out[v] = true
						}
					}
				}
			}
			return true
		})
	}
	// an error-typed field of an aggregate declared in fn, written by the literals directly (`failure.err = e`) or
	// through a first-party function or method they hand the aggregate to (`failure.set(e)`): the field is the
	// place, the callee a recorder
	outer := func(lit *Fn, e ast.Expr) bool {
		root, _, ok := p.PathKey(lit, e)
		v, isVar := root.(*types.Var)
		return ok && isVar && !v.IsField() && declaredIn(v, fn) && !declaredIn(v, lit)
	}
	recs := map[*Fn]bool{}
	for _, lit := range AllFnsUnder(fn)[1:] {
		lit := lit
		ast.Inspect(lit.Body, func(n ast.Node) bool {
			switch x := n.(type) {
			case *ast.AssignStmt:
				for _, l := range x.Lhs {
					if fv, base := p.FieldSel(lit, l); fv != nil && isErrorType(fv.Type()) && outer(lit, base) {
						out[fv] = true
					}
				}
			case *ast.CallExpr:
				cf := p.Callee(lit, x)
				if cf == nil {
					return true
				}
				callee := p.ByObj[cf]
				if callee == nil || callee.Body == nil || callee.Decl == nil {
					return true
				}
				var params []types.Object
				if se, ok := ast.Unparen(x.Fun).(*ast.SelectorExpr); ok && callee.Decl.Recv != nil && len(callee.Decl.Recv.List) == 1 && len(callee.Decl.Recv.List[0].Names) == 1 && outer(lit, se.X) {
					params = append(params, callee.Pkg.TypesInfo.Defs[callee.Decl.Recv.List[0].Names[0]])
				}
				for i, a := range x.Args {
					if outer(lit, a) {
						if po := paramObjAny(callee, i); po != nil {
							params = append(params, po)
						}
					}
				}
				if len(params) == 0 {
					return true
				}
				walkNoLit(callee.Body, func(m ast.Node) bool {
					as, ok := m.(*ast.AssignStmt)
					if !ok {
						return true
					}
					for _, l := range as.Lhs {
						fv, base := p.FieldSel(callee, l)
						if fv == nil || !isErrorType(fv.Type()) {
							continue
						}
						root, _, ok := p.PathKey(callee, base)
						for _, po := range params {
							if ok && root == po {
								out[fv] = true
								recs[callee] = true
							}
						}
					}
					return true
				})
			}
			return true
		})
	}
	errRecorderFns[orig(fn)] = recs
	// a copy of such a variable (the helper's `return err` spliced into `err := …`) is the same verdict
	for changed := true; changed; {
		changed = false
		walkNoLit(fn.Body, func(n ast.Node) bool {
			as, ok := n.(*ast.AssignStmt)
			if !ok || len(as.Lhs) != len(as.Rhs) {
				return true
			}
			for i, l := range as.Lhs {
				lid, ok1 := ast.Unparen(l).(*ast.Ident)
				rid, ok2 := ast.Unparen(as.Rhs[i]).(*ast.Ident)
				if ok1 && ok2 {
					lo, ro := p.ObjOf(fn, lid), p.ObjOf(fn, rid)
					if lo != nil && ro != nil && out[ro] && !out[lo] && isErrorType(lo.Type()) {
						out[lo] = true
						changed = true
					}
				}
			}
			return true
		})
	}
	return out
}

func runC06(c *Ctx, r *Report) {
	p := c.P
	for k, v := range map[string]string{
		"R-C06.1":  "validate-all-then-apply: state changes of Join dominated by the nil edge of the aggregated error tested after Wait",
		"R-C06.2":  "infallible apply phase: no error return after the first state change; success returns have stored heads and clock",
		"R-C06.3":  "everything inserted was checked: same collection validated and applied; CanAppend and Verify called and their errors recorded on every accepting path",
		"R-C06.4":  "denied append stores nothing: Entries/Next/heads stores dominated by nil edges of creation and CanAppend",
		"R-C06.5":  "sign and verify agree on the transformation chain, on field-setting order and on the key/signature used",
		"R-C06.6":  "Verify is total for every codec: the entry handed to ToHashable is assigned on every path",
		"R-C06.7":  "difference admits an entry only on the equal-log-id edge",
		"R-C06.10": "a log reopened through any loader keeps the access controller it was configured with",
		"R-C06.13": "the loops that start and apply validation process every candidate",
		"R-C06.14": "what Verify checks is what was signed: every signed part of the entry reaches the signed bytes from its own getter (adopted from C07), and the link-encrypting codec restores exactly the fields it sealed (adopted from C18) — otherwise genuine entries stop verifying or altered ones keep verifying",
		"R-C06.12": "validation examines every error result before the next step overwrites it",
		"R-C06.11": "the entry objects a merge installs as heads are the log's own validated objects, never the objects handed in by the other log",
		"control":  "engine positive/negative controls analysed on every run",
	} {
		r.Doc(k, v)
	}
	nilControls(c, r, "control")
	optionForwarding(c, r, "R-C06.10", constructorLogSpecs(), "AccessController")
	mergedHeadObjects(c, r, "R-C06.11")
	importRules(c, r, "C07", []string{"R-C07.1", "R-C07.2"}, "R-C06.14")
	r.Doc("R-C06.16", "signing never creates a key: no key-creating call is reachable from the provider's Sign (an entry signed with a key made up on the spot carries a signature its published key does not verify)")
	{
		nsign := 0
		for _, fn := range p.Fns {
			if fn.Orig != nil || fn.Obj == nil || fn.Obj.Name() != "Sign" || !inPkgs(p, fn, "identityprovider") {
				continue
			}
			nsign++
			path := ""
			for t, pth := range c.CG.Reach([]*Fn{fn}, false) {
				if t.Obj != nil && t.Obj.Name() == "CreateKey" && p.firstParty(t.Obj.Pkg()) {
					path = strings.Join(pth, " → ")
				}
			}
			r.Check(path == "", "R-C06.16", r.Key("R-C06.16", fn, "no-key-creation", ""), fn.Body.Pos(), "no key-creating call is reachable from this signer",
				"a key-creating call is reachable from the signer ("+path+"): when the identity's key is missing from the keystore the entry is signed with a fresh key, and neither Verify nor any other log accepts it")
		}
		r.Floor("R-C06.16", "signers in the identity provider", nsign, 1)
	}
	importRules(c, r, "C18", []string{"R-C18.2"}, "R-C06.14")
	r.Doc("R-C06.18", "the codec objects that the merge's concurrent verifications share are concurrency-safe (adopted from C18: under a link key Verify re-seals the links through the codec's marshaller, and a stateful marshaller shared by the workers makes entries written by Append fail verification)")
	importRules(c, r, "C18", []string{"R-C18.7"}, "R-C06.18", 0)
	r.Doc("R-C06.19", "the merge validation refuses a candidate only on what Append fixes for every entry (presence, hash, log id, version, key, signature, identity, clock), through the access controller or through the signature check: no condition of the validation reads the payload, the links or the additional data (an entry with an empty payload or no links is produced by Append and must stay mergeable)")
	validatorRefusesOnlyOnFixedAttributes(c, r, "R-C06.19")
	r.Doc("R-C06.20", "the block carries every field exactly as the entry holds it (adopted from C08: a payload rewritten on its way into the block no longer matches what was signed — an entry produced by Append stops verifying for every replica that reads it from the store)")
	importRules(c, r, "C08", []string{"R-C08.2"}, "R-C06.20")
	r.Doc("R-C06.17", "what is validated is what is merged, and nothing is merged unvalidated: a log never shares its index with another log (adopted from C02: entries would appear without CanAppend/Verify), and verifying under a link key never writes into the candidate (adopted from C05: Copy shares nothing with the original)")
	importRules(c, r, "C02", []string{"R-C02.12"}, "R-C06.17")
	importRules(c, r, "C05", []string{"R-C05.11"}, "R-C06.17")
	loopsComplete(c, r, "R-C06.13", func(fn *Fn) bool { return rootNamed(fn, "Join", "Verify", "difference") }, "candidates after the point where the loop stops are merged without having been validated")
	errDiscipline(c, r, "R-C06.12", func(fn *Fn) bool {
		return rootNamed(fn, "Verify", "Join", "Append", "CanAppend", "VerifyIdentity")
	}, "validation goes on as if the failed step had succeeded: an entry whose key, signature or identity could not be checked is treated as checked", deliberateDiscards)
	join := p.FuncI("", "IPFSLog", "Join")
	app := p.FuncI("", "IPFSLog", "Append")
	all := map[*types.Var]bool{}
	for _, f := range []string{"Entries", "Next", "heads", "Clock"} {
		all[p.Field("", "IPFSLog", f)] = true
	}
	entriesHeads := map[*types.Var]bool{p.Field("", "IPFSLog", "Entries"): true, p.Field("", "IPFSLog", "Next"): true, p.Field("", "IPFSLog", "heads"): true}

	// ---- R-C06.1 / R-C06.2 in Join
	errVars := capturedErrVars(p, join)
	r.Floor("R-C06.1", "aggregated validation error variables in Join", len(errVars), 1)
	jf := &Flow{P: p, Fn: join, Entry: Facts{}}
	jf.Node = func(n ast.Node, f Facts) {
		walkNoLit(n, func(nd ast.Node) bool {
			if call, ok := nd.(*ast.CallExpr); ok {
				if cf := p.Callee(join, call); cf != nil && isFunc(cf, "sync", "WaitGroup", "Wait") {
					f["waited"] = true
				}
			}
			return true
		})
		for _, id := range assignedIdents(n) {
			if errVars[p.ObjOf(join, id)] {
				if _, isSpec := n.(*ast.ValueSpec); !isSpec {
					delete(f, "validated")
				}
			}
		}
		for _, sc := range logStateChanges(p, join, n, all) {
			f["applied"] = true
			f["stored|"+strings.TrimPrefix(strings.TrimPrefix(sc.What, "store:"), "mutate:")] = true
		}
	}
	jf.Edge = func(cond ast.Expr, taken bool, f Facts) {
		for _, a := range splitCond(cond, taken) {
			if x, isNil, ok := nilTest(a); ok && isNil {
				if o := errPlaceOf(p, join, x, false); o != nil && errVars[o] && f["waited"] {
					f["validated"] = true
				}
			}
		}
	}
	jf.Run()
	joinAllOrNothing(c, r, "R-C06.1", jf, all)
	// may-flow for error returns after apply started
	mf := &Flow{P: p, Fn: join, May: true, Entry: Facts{}}
	mf.Node = func(n ast.Node, f Facts) {
		if len(logStateChanges(p, join, n, all)) > 0 {
			f["applied"] = true
		}
	}
	mf.Run()
	mf.Exits(func(_ *cfgBlk, ret *ast.ReturnStmt, at Facts) {
		if ret == nil || !at["applied"] {
			return
		}
		isNil, hasErr := errResultIsNil(p, join, ret)
		if hasErr && !isNil {
			r.Violate("R-C06.2", r.Key("R-C06.2", join, "error-return-after-apply", ""), ret.Pos(), "an error return is reachable after Join has started changing the log: the caller sees a failed merge but the log is already modified")
		}
	})
	nsucc := 0
	jf.Exits(func(_ *cfgBlk, ret *ast.ReturnStmt, at Facts) {
		if ret == nil || !at["validated"] {
			return
		}
		if isNil, hasErr := errResultIsNil(p, join, ret); hasErr && isNil {
			nsucc++
			ok := at["stored|heads"] && at["stored|Clock"]
			r.Check(ok, "R-C06.2", r.Key("R-C06.2", join, "success-return", ""), ret.Pos(),
				"the merge completes (heads and clock stored) before every success return of the apply phase",
				fmt.Sprintf("a success return after validation is reachable without the heads store (%v) or the clock store (%v): entries are inserted but the log's heads/clock are stale", at["stored|heads"], at["stored|Clock"]))
		}
	})
	r.Floor("R-C06.2", "success returns of Join's apply phase", nsucc, 1)

	// ---- R-C06.3
	c063(c, r, join, errVars)

	// ---- R-C06.4 in Append
	af, _ := appendAdmissionFlow(c)
	appendDeniedStoresNothing(c, r, "R-C06.4", af, entriesHeads)
	// no error return after the first such change in Append
	am := &Flow{P: p, Fn: app, May: true, Entry: Facts{}}
	am.Node = func(n ast.Node, f Facts) {
		if len(logStateChanges(p, app, n, entriesHeads)) > 0 {
			f["applied"] = true
		}
	}
	am.Run()
	am.Exits(func(_ *cfgBlk, ret *ast.ReturnStmt, at Facts) {
		if ret == nil || !at["applied"] {
			return
		}
		if isNil, hasErr := errResultIsNil(p, app, ret); hasErr && !isNil {
			r.Violate("R-C06.2", r.Key("R-C06.2", app, "error-return-after-apply", ""), ret.Pos(), "Append can return an error after it has inserted the entry or changed the heads")
		}
	})

	// ---- R-C06.5
	c065(c, r)

	r.Doc("R-C06.9", "Entry.Verify accepts an entry only through the signature check of that call")
	verifySigDominates(c, r, "R-C06.9")

	// ---- R-C06.6
	verify := p.FuncI("entry", "Entry", "Verify")
	ne := NewNilEngine(p, c.CG)
	uses := ne.ZeroVarUses(verify)
	for _, u := range uses {
		r.Check(u.OK, "R-C06.6", r.Key("R-C06.6", verify, "maybe-nil", u.Path), u.Pos,
			u.Path+" is assigned on every path before it is used ("+u.What+")",
			fmt.Sprintf("%s is still the nil interface on the path where the codec does not implement the pre-sign hook, and it is %s: Verify panics for entries read with the legacy codec", u.Path, u.What))
	}
	// the hashable view in Verify is built from a value that is never the zero interface
	nHash := 0
	walkNoLit(verify.Body, func(n ast.Node) bool {
		if call, ok := n.(*ast.CallExpr); ok {
			if c.CallReaches(verify, call, func(f2 *types.Func) bool { return f2.Name() == "ToHashable" && p.firstParty(f2.Pkg()) }) {
				nHash++
			}
		}
		return true
	})
	r.Floor("R-C06.6", "ToHashable calls in Verify", nHash, 1)
	if len(uses) == 0 {
		r.Hold("R-C06.6", r.Key("R-C06.6", verify, "maybe-nil", "none"), verify.Body.Pos(), true, "Verify declares no interface variable that can reach ToHashable unassigned")
	}

	// ---- R-C06.7
	diff := p.FuncI("", "", "difference")
	idF := p.Field("", "IPFSLog", "ID")
	df := &Flow{P: p, Fn: diff, Entry: Facts{}}
	df.Edge = func(cond ast.Expr, taken bool, f Facts) {
		for _, a := range splitCond(cond, taken) {
			// a predicate helper `func belongsTo(e, l) bool { return e.GetLogID() == l.ID }` on its true edge
			if hc, ok := ast.Unparen(a.E).(*ast.CallExpr); ok && a.Truth {
				if cf := p.Callee(diff, hc); cf != nil && p.firstParty(cf.Pkg()) {
					if h := p.ByObj[cf]; h != nil && h.Body != nil && len(h.Body.List) == 1 {
						if ret, ok := h.Body.List[0].(*ast.ReturnStmt); ok && len(ret.Results) == 1 {
							if hb, ok := ast.Unparen(ret.Results[0]).(*ast.BinaryExpr); ok && hb.Op == token.EQL {
								for _, pair := range [][2]ast.Expr{{hb.X, hb.Y}, {hb.Y, hb.X}} {
									gc, ok := ast.Unparen(pair[0]).(*ast.CallExpr)
									if !ok {
										continue
									}
									gs, ok := ast.Unparen(gc.Fun).(*ast.SelectorExpr)
									if !ok || gs.Sel.Name != "GetLogID" {
										continue
									}
									if v, _ := p.FieldSel(h, pair[1]); v != idF {
										continue
									}
									if pid, ok := ast.Unparen(gs.X).(*ast.Ident); ok {
										for i := 0; i < len(hc.Args); i++ {
											if paramObjAny(h, i) == p.ObjOf(h, pid) {
												if _, key, ok := p.PathKey(diff, hc.Args[i]); ok {
													f["sameID|"+key] = true
												}
											}
										}
									}
								}
							}
						}
					}
				}
			}
			be, ok := ast.Unparen(a.E).(*ast.BinaryExpr)
			if !ok || !((be.Op == token.EQL && a.Truth) || (be.Op == token.NEQ && !a.Truth)) {
				continue
			}
			for _, pair := range [][2]ast.Expr{{be.X, be.Y}, {be.Y, be.X}} {
				call, ok := ast.Unparen(pair[0]).(*ast.CallExpr)
				if !ok {
					continue
				}
				se, ok := ast.Unparen(call.Fun).(*ast.SelectorExpr)
				if !ok || se.Sel.Name != "GetLogID" {
					continue
				}
				if v, _ := p.FieldSel(diff, pair[1]); v == idF {
					if _, key, ok := p.PathKey(diff, se.X); ok {
						f["sameID|"+key] = true
					}
				}
			}
		}
	}
	df.Node = func(n ast.Node, f Facts) {
		for _, id := range assignedIdents(n) {
			if o := p.ObjOf(diff, id); o != nil {
				delete(f, "sameID|"+p.ID(o))
			}
		}
	}
	df.Run()
	nset := 0
	df.Visit(func(_ *cfgBlk, n ast.Node, before Facts) {
		walkNoLit(n, func(nd ast.Node) bool {
			call, ok := nd.(*ast.CallExpr)
			if !ok || len(call.Args) != 2 {
				return true
			}
			se, ok := ast.Unparen(call.Fun).(*ast.SelectorExpr)
			if !ok || se.Sel.Name != "Set" {
				return true
			}
			if cf := p.Callee(diff, call); cf == nil || cf.Name() != "Set" {
				return true
			}
			nset++
			_, key, ok := p.PathKey(diff, call.Args[1])
			r.Check(ok && before["sameID|"+key], "R-C06.7", r.Key("R-C06.7", diff, "admit", ""), call.Pos(),
				"a candidate is admitted only on the equal-log-id edge",
				"difference admits a candidate entry without comparing its log id with the destination's: entries of a foreign log can be merged")
			return true
		})
	})
	r.Floor("R-C06.7", "admission sites in difference", nset, 1)
	// what difference hands back is the filtered collection (or nothing): never one of the collections it was given
	walkNoLit(diff.Body, func(n ast.Node) bool {
		ret, ok := n.(*ast.ReturnStmt)
		if !ok {
			return true
		}
		for _, res := range ret.Results {
			bad := ""
			ast.Inspect(res, func(m ast.Node) bool {
				if id, ok := m.(*ast.Ident); ok {
					if v, isVar := p.ObjOf(diff, id).(*types.Var); isVar && paramOf(p, diff.Root(), v) {
						bad = id.Name
					}
				}
				return bad == ""
			})
			r.Check(bad == "", "R-C06.7", r.Key("R-C06.7", diff, "return", ""), ret.Pos(), "difference returns the collection it filtered (or an empty one)",
				"difference returns "+bad+", a collection it was handed, without filtering it: entries of a foreign log (and entries the heads do not cover) are merged on this path")
		}
		return true
	})
}

// c063: the applied collection is the validated one; validators call CanAppend and Verify and record errors.
func c063(c *Ctx, r *Report, join *Fn, errVars map[types.Object]bool) {
	p := c.P
	entriesF := p.Field("", "IPFSLog", "Entries")
	// the validator: go literal in Join
	var goStmt *ast.GoStmt
	var val *Fn
	var valRange, applyRange *ast.RangeStmt
	walkNoLit(join.Body, func(n ast.Node) bool {
		if g, ok := n.(*ast.GoStmt); ok {
			if lit, ok := ast.Unparen(g.Call.Fun).(*ast.FuncLit); ok {
				goStmt, val = g, p.ByLit[lit]
				for cur := p.parent[ast.Node(g)]; cur != nil && cur != ast.Node(join.Body); cur = p.parent[cur] {
					if rs, ok := cur.(*ast.RangeStmt); ok {
						valRange = rs
						break
					}
				}
			}
		}
		return true
	})
	key := r.Key("R-C06.3", join, "validated-collection", "")
	if val == nil || valRange == nil {
		r.Violate("R-C06.3", key, join.Body.Pos(), "no per-item validation (go literal inside a range loop) found in Join")
		return
	}
	// the apply loop: range statement containing l.Entries.Set(...)
	var setCall *ast.CallExpr
	walkNoLit(join.Body, func(n ast.Node) bool {
		if call, ok := n.(*ast.CallExpr); ok {
			if se, ok := ast.Unparen(call.Fun).(*ast.SelectorExpr); ok && se.Sel.Name == "Set" {
				if v, _ := p.FieldSel(join, se.X); v == entriesF {
					setCall = call
					for cur := p.parent[ast.Node(call)]; cur != nil && cur != ast.Node(join.Body); cur = p.parent[cur] {
						if rs, ok := cur.(*ast.RangeStmt); ok {
							applyRange = rs
						}
					}
				}
			}
		}
		return true
	})
	if setCall == nil || applyRange == nil {
		r.Violate("R-C06.3", key, join.Body.Pos(), "entries are not inserted by a loop over the validated collection")
		return
	}
	vx, ax := types.ExprString(valRange.X), types.ExprString(applyRange.X)
	collOK := true
	// both must be <coll>.Keys() (or a copy of it) on the same variable
	collVar := func(e ast.Expr) types.Object {
		// the key list, a temporary holding it, or a copy of it (sorted or not) stand for <coll>.Keys()
		return keysCollection(p, join, e, 0)
	}
	cv, ca := collVar(valRange.X), collVar(applyRange.X)
	collOK = collOK && cv != nil && cv == ca
	// the collection variable is not reassigned between the loops
	if cv != nil {
		// no assignment to the collection between the validation loop and the end of the apply loop
		walkNoLit(join.Body, func(nd ast.Node) bool {
			for _, id := range assignedIdentsShallow(nd) {
				if p.CanonObj(join, id) == cv && id.Pos() > valRange.Pos() && id.Pos() < applyRange.End() {
					collOK = false
				}
			}
			return true
		})
	}
	r.Check(collOK, "R-C06.3", key, applyRange.Pos(),
		fmt.Sprintf("validation and application iterate the same collection (%s)", vx),
		fmt.Sprintf("the validators range over %q but the apply loop ranges over %q: some inserted entries were never validated", vx, ax))
	// inserted value and validated value both come from the collection by the loop key
	fromColl := func(fn *Fn, e ast.Expr) bool {
		id, ok := ast.Unparen(e).(*ast.Ident)
		if !ok {
			return false
		}
		o := p.CanonObj(fn, id)
		found := false
		ast.Inspect(fn.Body, func(nd ast.Node) bool {
			if as, ok := nd.(*ast.AssignStmt); ok {
				for i, l := range as.Lhs {
					if lid, ok := l.(*ast.Ident); ok && p.CanonObj(fn, lid) == o && i < len(as.Rhs) || (ok && p.CanonObj(fn, lid) == o && len(as.Rhs) == 1) {
						if call, ok := ast.Unparen(as.Rhs[0]).(*ast.CallExpr); ok {
							if se, ok := ast.Unparen(call.Fun).(*ast.SelectorExpr); ok && (se.Sel.Name == "UnsafeGet" || se.Sel.Name == "Get") {
								if cid, ok := ast.Unparen(se.X).(*ast.Ident); ok && p.CanonObj(fn, cid) == cv {
									found = true
								}
							}
						}
					}
				}
			}
			return true
		})
		return found
	}
	r.Check(fromColl(join, setCall.Args[1]), "R-C06.3", r.Key("R-C06.3", join, "inserted-item", ""), setCall.Pos(),
		"the inserted entry is the collection's item for the loop key", "the entry inserted into Entries is not taken from the validated collection")

	// validator body: calls and error recording
	recorders := map[*Fn]bool{} // local closures that assign the aggregated error
	for _, lit := range AllFnsUnder(join)[1:] {
		if lit == val {
			continue
		}
		ast.Inspect(lit.Body, func(nd ast.Node) bool {
			for _, id := range assignedIdentsShallow(nd) {
				if errVars[p.CanonObj(lit, id)] {
					recorders[lit] = true
				}
			}
			return true
		})
	}
	// item variable inside the validator
	var item types.Object
	walkNoLit(val.Body, func(nd ast.Node) bool {
		if as, ok := nd.(*ast.AssignStmt); ok && len(as.Rhs) == 1 {
			if call, ok := ast.Unparen(as.Rhs[0]).(*ast.CallExpr); ok {
				if se, ok := ast.Unparen(call.Fun).(*ast.SelectorExpr); ok && (se.Sel.Name == "UnsafeGet" || se.Sel.Name == "Get") {
					if cid, ok := ast.Unparen(se.X).(*ast.Ident); ok && p.CanonObj(val, cid) == cv {
						if id, ok := as.Lhs[0].(*ast.Ident); ok && item == nil {
							item = p.CanonObj(val, id)
						}
					}
				}
			}
		}
		return true
	})
	// or the lookup expression is handed straight to a helper
	var itemSource *ast.CallExpr
	if item == nil {
		walkNoLit(val.Body, func(nd ast.Node) bool {
			if call, ok := nd.(*ast.CallExpr); ok {
				if se, ok := ast.Unparen(call.Fun).(*ast.SelectorExpr); ok && (se.Sel.Name == "UnsafeGet" || se.Sel.Name == "Get") {
					if cid, ok := ast.Unparen(se.X).(*ast.Ident); ok && p.CanonObj(val, cid) == cv {
						if _, isArg := p.parent[call].(*ast.CallExpr); isArg {
							itemSource = call
						}
					}
				}
			}
			return true
		})
	}
	if item == nil && itemSource == nil {
		r.Violate("R-C06.3", r.Key("R-C06.3", val, "validated-item", ""), val.Body.Pos(), "the validator does not obtain its item from the validated collection")
		return
	}
	// check variables: v := <CanAppend|Verify>(... item ...)
	checkVar := map[types.Object]string{}
	isRecord := func(nd ast.Node) bool {
		rec := false
		walkNoLit(nd, func(x ast.Node) bool {
			for _, id := range assignedIdentsShallow(x) {
				if errVars[p.CanonObj(val, id)] {
					rec = true
				}
			}
			if as, ok := x.(*ast.AssignStmt); ok {
				for _, l := range as.Lhs {
					if o := errPlaceOf(p, val, l, true); o != nil && errVars[o] {
						rec = true
					}
				}
			}
			if call, ok := x.(*ast.CallExpr); ok {
				if t := recorderCall(p, val, join, call, recorders); t != nil {
					rec = true
				}
			}
			return true
		})
		return rec
	}
	vf := &Flow{P: p, Fn: val, Entry: Facts{}}
	vf.Node = func(n ast.Node, f Facts) {
		walkNoLit(n, func(nd ast.Node) bool {
			if call, ok := nd.(*ast.CallExpr); ok {
				// a first-party helper that performs both checks on its argument and returns nil only if both passed
				if cf := p.Callee(val, call); cf != nil {
					if h := p.ByObj[cf]; h != nil {
						for ai, a := range call.Args {
							isItem := false
							if id, ok := ast.Unparen(a).(*ast.Ident); ok && p.CanonObj(val, id) == item {
								isItem = true
							}
							if !isItem {
								if c2, ok := ast.Unparen(a).(*ast.CallExpr); ok && itemSource != nil && types.ExprString(c2) == types.ExprString(itemSource) {
									isItem = true
								}
							}
							if isItem && fullCheckHelper(p, h, ai) {
								f["called|CanAppend"], f["called|Verify"] = true, true
								if as, ok := p.parent[call].(*ast.AssignStmt); ok && len(as.Lhs) == 1 {
									if id, ok := as.Lhs[0].(*ast.Ident); ok && id.Name != "_" {
										checkVar[p.CanonObj(val, id)] = "both"
									}
								}
							}
						}
					}
				}
				if cf := p.Callee(val, call); cf != nil {
					onItem := false
					switch cf.Name() {
					case "CanAppend":
						if len(call.Args) > 0 {
							if id, ok := ast.Unparen(call.Args[0]).(*ast.Ident); ok && p.CanonObj(val, id) == item {
								onItem = true
							}
						}
					case "Verify":
						if se, ok := ast.Unparen(call.Fun).(*ast.SelectorExpr); ok {
							if id, ok := ast.Unparen(se.X).(*ast.Ident); ok && p.CanonObj(val, id) == item {
								onItem = true
							}
						}
					}
					if onItem {
						f["called|"+cf.Name()] = true
						// result variable
						if as, ok := p.parent[call].(*ast.AssignStmt); ok && len(as.Lhs) == 1 {
							if id, ok := as.Lhs[0].(*ast.Ident); ok && id.Name != "_" {
								checkVar[p.CanonObj(val, id)] = cf.Name()
								f["tested-pending|"+cf.Name()] = true
							}
						}
					}
				}
			}
			return true
		})
		if isRecord(n) {
			f["recorded"] = true
		}
		if f["recorded"] || (f["passed|CanAppend"] && f["passed|Verify"]) {
			f["resolved"] = true
		}
	}
	vf.Edge = func(cond ast.Expr, taken bool, f Facts) {
		defer func() {
			if f["recorded"] || (f["passed|CanAppend"] && f["passed|Verify"]) {
				f["resolved"] = true
			}
		}()
		for _, a := range splitCond(cond, taken) {
			if x, isNil, ok := nilTest(a); ok {
				if id, ok := ast.Unparen(x).(*ast.Ident); ok {
					if name := checkVar[p.CanonObj(val, id)]; name != "" {
						names := []string{name}
						if name == "both" {
							names = []string{"CanAppend", "Verify"}
						}
						for _, nm := range names {
							if isNil {
								f["passed|"+nm] = true
							} else {
								f["failed|"+nm] = true
							}
						}
					}
				}
			}
		}
	}
	vf.Run()
	// a second run is needed because checkVar is filled during the first
	vf.Run()
	nexits := 0
	vf.Exits(func(_ *cfgBlk, ret *ast.ReturnStmt, at Facts) {
		nexits++
		pos := val.Body.Rbrace
		if ret != nil {
			pos = ret.Pos()
		}
		k := r.Key("R-C06.3", val, "validator-exit", "")
		if at["recorded"] {
			r.Hold("R-C06.3", k, pos, true, "rejecting exit: the aggregated error is set")
			return
		}
		if at["resolved"] && !at.HasPrefix("failed|") {
			r.Hold("R-C06.3", k, pos, true, "every path to this exit either recorded an error or passed both CanAppend and Verify")
			return
		}
		// accepting exit
		ok := at["passed|CanAppend"] && at["passed|Verify"]
		var miss []string
		for _, n := range []string{"CanAppend", "Verify"} {
			if !at["called|"+n] {
				miss = append(miss, n+" not called on the item")
			} else if !at["passed|"+n] {
				miss = append(miss, "result of "+n+" not tested nil")
			}
		}
		if at.HasPrefix("failed|") {
			miss = append(miss, "a failed check reaches this exit without recording the error")
			ok = false
		}
		r.Check(ok, "R-C06.3", k, pos,
			"accepting exit: CanAppend and Verify were both called on the item and returned nil",
			"an item is accepted on a path where "+strings.Join(miss, "; ")+": an unauthorised or mis-signed entry can enter the log")
	})
	r.Floor("R-C06.3", "validator exits", nexits, 1)
	// R-C06.8: a recorded failure is never overwritten by nil
	r.Doc("R-C06.8", "what is recorded into the aggregated validation error is never nil (a later successful check cannot erase an earlier failure)")
	nnFlow := NewNilEngine(p, c.CG).nilFlow(val)
	nrec := 0
	nilSafeRecorder := func(rec *Fn) bool {
		// the assignment to the aggregated error inside the recorder is dominated by param != nil
		par := paramObjAny(rec, 0)
		if par == nil {
			return false
		}
		fl := NewNilEngine(p, c.CG).nilFlow(rec)
		ok := true
		fl.Visit(func(_ *cfgBlk, n ast.Node, before Facts) {
			walkNoLit(n, func(nd ast.Node) bool {
				if as, isAs := nd.(*ast.AssignStmt); isAs {
					for _, l := range as.Lhs {
						if o := errPlaceOf(p, rec, l, true); o != nil && errVars[o] {
							if !before["nn|"+p.ID(par)] {
								ok = false
							}
						}
					}
				}
				return true
			})
		})
		return ok
	}
	knownNonNil := func(e ast.Expr, before Facts) bool {
		e = ast.Unparen(e)
		switch x := e.(type) {
		case *ast.Ident:
			if o := p.CanonObj(val, x); o != nil && before["nn|"+p.ID(o)] {
				return true
			}
		case *ast.SelectorExpr:
			// a package-level error value
			if v, ok := p.CanonObj(val, x.Sel).(*types.Var); ok && !v.IsField() && v.Parent() == v.Pkg().Scope() {
				return true
			}
			if _, ok := p.CanonObj(val, x.Sel).(*types.Const); ok {
				return true // a typed constant converted to error is never nil
			}
		case *ast.CallExpr:
			if se, ok := ast.Unparen(x.Fun).(*ast.SelectorExpr); ok && (se.Sel.Name == "Wrap" || se.Sel.Name == "Errorf" || se.Sel.Name == "New") {
				return true
			}
		}
		return false
	}
	nnFlow.Visit(func(_ *cfgBlk, n ast.Node, before Facts) {
		walkNoLit(n, func(nd ast.Node) bool {
			switch x := nd.(type) {
			case *ast.CallExpr:
				if t := recorderCall(p, val, join, x, recorders); t != nil && len(x.Args) == 1 {
					nrec++
					ok := nilSafeRecorder(t) || knownNonNil(x.Args[0], before)
					r.Check(ok, "R-C06.8", r.Key("R-C06.8", val, "record", types.ExprString(x.Args[0])), x.Pos(),
						"the recorded value is known non-nil (or the recorder ignores nil)",
						"the validator records "+types.ExprString(x.Args[0])+", which is nil when this item is valid: a worker finishing after a failing one resets the aggregated error and the whole batch — bad entry included — is applied")
				}
			case *ast.AssignStmt:
				for i, l := range x.Lhs {
					if o := errPlaceOf(p, val, l, true); o != nil && errVars[o] && i < len(x.Rhs) {
						nrec++
						r.Check(knownNonNil(x.Rhs[i], before), "R-C06.8", r.Key("R-C06.8", val, "record", types.ExprString(x.Rhs[i])), x.Pos(),
							"the recorded value is known non-nil", "the validator stores a possibly nil value into the aggregated error: a later success erases an earlier failure")
					}
				}
			}
			return true
		})
	})
	r.Floor("R-C06.8", "error recordings in the validator", nrec, 1)
	_ = goStmt
	_ = sort.Strings
}

// c065: sign/verify pipelines agree.
func c065(c *Ctx, r *Report) {
	p := c.P
	create := p.FuncI("entry", "", "CreateEntryWithIO")
	verify := p.FuncI("entry", "Entry", "Verify")
	chainOf := func(fn *Fn, isSink func(*ssa.Call) (ssa.Value, bool)) (map[string]bool, bool) {
		sf := p.SSAFunc(fn)
		var start ssa.Value
		allInstrs(sf, false, func(ins ssa.Instruction) {
			if call, ok := ins.(*ssa.Call); ok {
				if v, ok := isSink(call); ok {
					start = v
				}
			}
		})
		if start == nil {
			return nil, false
		}
		out := map[string]bool{}
		pipelineStage := map[string]bool{"toBuffer": true, "ToHashable": true, "PreSign": true, "Copy": true, "Normalize": true}
		inWrapper := map[*ssa.Function]bool{}
		bound := map[*ssa.Parameter]ssa.Value{}
		var walk func(v ssa.Value, acc []string, depth int)
		walk = func(v ssa.Value, acc []string, depth int) {
			if depth > 40 {
				return
			}
			switch x := v.(type) {
			case *ssa.Extract:
				walk(x.Tuple, acc, depth+1)
			case *ssa.Call:
				cf := calleeOf(x)
				name := "?"
				if cf != nil {
					name = cf.Name()
				}
				if cf == nil || !p.firstParty(cf.Pkg()) {
					out[strings.Join(append(acc, "<"+name+">"), " <- ")] = true
					return
				}
				// a first-party wrapper that is not one of the pipeline's own stages (`e.signedBytes()` wrapping
				// PreSign → ToHashable → toBuffer) is looked through: its result is followed inside it, its
				// parameters stand for the arguments of this call
				if sc := x.Call.StaticCallee(); sc != nil && len(sc.Blocks) > 0 && len(sc.Blocks) <= 40 && depth < 30 && !pipelineStage[name] && !inWrapper[sc] {
					inWrapper[sc] = true
					for i, prm := range sc.Params {
						if i < len(x.Call.Args) {
							bound[prm] = x.Call.Args[i]
						}
					}
					for _, b := range sc.Blocks {
						if ret, ok := b.Instrs[len(b.Instrs)-1].(*ssa.Return); ok && len(ret.Results) > 0 {
							if k, isC := ret.Results[0].(*ssa.Const); isC && k.IsNil() {
								continue
							}
							walk(ret.Results[0], acc, depth+1)
						}
					}
					delete(inWrapper, sc)
					return
				}
				var next ssa.Value
				if x.Call.IsInvoke() {
					if name == "Copy" { // identity for the purpose of the pipeline
						walk(x.Call.Value, acc, depth+1)
						return
					}
					if len(x.Call.Args) > 0 {
						next = x.Call.Args[0]
					} else {
						next = x.Call.Value
					}
				} else {
					for _, a := range x.Call.Args {
						switch a.Type().Underlying().(type) {
						case *types.Pointer, *types.Interface, *types.Slice:
							if !isNamed(a.Type(), "context", "Context") && next == nil {
								next = a
							}
						}
					}
				}
				if next == nil {
					out[strings.Join(append(acc, name), " <- ")] = true
					return
				}
				walk(next, append(append([]string{}, acc...), name), depth+1)
			case *ssa.Parameter:
				if a, ok := bound[x]; ok {
					walk(a, acc, depth+1)
					return
				}
				out[strings.Join(append(acc, "entry"), " <- ")] = true
			case *ssa.Phi:
				for _, e := range x.Edges {
					walk(e, acc, depth+1)
				}
			case *ssa.UnOp:
				if x.Op == token.MUL {
					sts := cellStores(x.X)
					if len(sts) == 0 {
						out[strings.Join(append(acc, "entry"), " <- ")] = true
						return
					}
					for _, st := range sts {
						walk(st.Val, acc, depth+1)
					}
					return
				}
				walk(x.X, acc, depth+1)
			case *ssa.MakeInterface:
				walk(x.X, acc, depth+1)
			case *ssa.ChangeInterface:
				walk(x.X, acc, depth+1)
			case *ssa.TypeAssert:
				walk(x.X, acc, depth+1)
			case *ssa.Const:
				if x.IsNil() {
					out[strings.Join(append(acc, "<nil>"), " <- ")] = true
				}
			default:
				out[strings.Join(append(acc, "entry"), " <- ")] = true
			}
		}
		walk(start, nil, 0)
		return out, true
	}
	signChain, ok1 := chainOf(create, func(call *ssa.Call) (ssa.Value, bool) {
		if cf := calleeOf(call); cf != nil && cf.Name() == "Sign" && call.Call.IsInvoke() && len(call.Call.Args) == 3 {
			return call.Call.Args[2], true
		}
		return nil, false
	})
	verChain, ok2 := chainOf(verify, func(call *ssa.Call) (ssa.Value, bool) {
		if cf := calleeOf(call); cf != nil && cf.Name() == "Verify" && call.Call.IsInvoke() && len(call.Call.Args) == 2 {
			return call.Call.Args[0], true
		}
		return nil, false
	})
	key := r.Key("R-C06.5", verify, "pipeline", "")
	if !ok1 || !ok2 {
		r.Undecided("R-C06.5", key, verify.Body.Pos(), fmt.Sprintf("signing sink found=%v, verification sink found=%v", ok1, ok2))
		return
	}
	lst := func(m map[string]bool) []string {
		var o []string
		for k := range m {
			o = append(o, k)
		}
		sort.Strings(o)
		return o
	}
	same := strings.Join(lst(signChain), "|") == strings.Join(lst(verChain), "|")
	r.Tables["sign_pipeline"] = lst(signChain)
	r.Tables["verify_pipeline"] = lst(verChain)
	r.Check(same, "R-C06.5", key, verify.Body.Pos(),
		fmt.Sprintf("the bytes signed and the bytes verified are produced by the same transformation chains %v", lst(signChain)),
		fmt.Sprintf("sign and verify disagree on how the signed bytes are derived: signing uses %v, verification uses %v — entries written by one codec configuration do not verify", lst(signChain), lst(verChain)))

	// no signed-field setter after the hashable view is taken
	signedSetters := map[string]bool{"SetV": true, "SetClock": true, "SetPayload": true, "SetLogID": true, "SetNext": true, "SetRefs": true, "SetAdditionalDataValue": true}
	cf := &Flow{P: p, Fn: create, Entry: Facts{}}
	cf.Node = func(n ast.Node, f Facts) {
		walkNoLit(n, func(nd ast.Node) bool {
			if call, ok := nd.(*ast.CallExpr); ok {
				if c.CallReaches(create, call, func(f2 *types.Func) bool { return f2.Name() == "ToHashable" && p.firstParty(f2.Pkg()) }) {
					f["hashed"] = true
				}
			}
			return true
		})
	}
	cf.Run()
	nset := 0
	cf.Visit(func(_ *cfgBlk, n ast.Node, before Facts) {
		walkNoLit(n, func(nd ast.Node) bool {
			if call, ok := nd.(*ast.CallExpr); ok {
				if se, ok := ast.Unparen(call.Fun).(*ast.SelectorExpr); ok && signedSetters[se.Sel.Name] {
					if fo := p.Callee(create, call); fo != nil && isNamed(fo.Type().(*types.Signature).Recv().Type(), p.pkgPath("iface"), "IPFSLogEntry") {
						nset++
						r.Check(!before["hashed"], "R-C06.5", r.Key("R-C06.5", create, "setter-before-hash", se.Sel.Name), call.Pos(),
							se.Sel.Name+" precedes the hashable view", se.Sel.Name+" is applied after the signed bytes were computed: the stored entry differs from what was signed and never verifies")
					}
				}
			}
			return true
		})
	})
	r.Floor("R-C06.5", "signed-field setters in CreateEntryWithIO", nset, 1)

	preSignInputsFinal(c, r, "R-C06.5")

	// key and signature used by Verify are the receiver's own
	recv := verify.Pkg.TypesInfo.Defs[verify.Decl.Recv.List[0].Names[0]]
	keyF, sigF := p.Field("entry", "Entry", "Key"), p.Field("entry", "Entry", "Sig")
	ownField := func(e ast.Expr, want *types.Var, getter string) bool {
		e = ast.Unparen(e)
		if v, b := p.FieldSel(verify, e); v == want {
			if id, ok := ast.Unparen(b).(*ast.Ident); ok && p.ObjOf(verify, id) == recv {
				return true
			}
		}
		if call, ok := e.(*ast.CallExpr); ok {
			if se, ok := ast.Unparen(call.Fun).(*ast.SelectorExpr); ok && se.Sel.Name == getter {
				if id, ok := ast.Unparen(se.X).(*ast.Ident); ok && p.ObjOf(verify, id) == recv {
					return true
				}
			}
		}
		return false
	}
	okKey, okSig := false, false
	walkNoLit(verify.Body, func(n ast.Node) bool {
		if call, ok := n.(*ast.CallExpr); ok {
			if fo := p.Callee(verify, call); fo != nil {
				if fo.Name() == "UnmarshalPublicKey" && len(call.Args) == 1 && ownField(call.Args[0], keyF, "GetKey") {
					okKey = true
				}
				if fo.Name() == "Verify" && len(call.Args) == 2 && ownField(call.Args[1], sigF, "GetSig") {
					okSig = true
				}
			}
		}
		return true
	})
	r.Check(okKey && okSig, "R-C06.5", r.Key("R-C06.5", verify, "own-key-and-sig", ""), verify.Body.Pos(),
		"verification uses the entry's own Key and Sig fields", fmt.Sprintf("verification does not use the entry's own key (%v) and signature (%v)", okKey, okSig))
}

// preSignInputsFinal: every entry field the pre-sign transformation reads (through any first-party callee)
// must already have its final value when PreSign runs at creation time — Verify re-runs PreSign on the
// finished entry, so a field set after PreSign makes the two runs disagree and the entry never verifies.
func preSignInputsFinal(c *Ctx, r *Report, rule string) {
	p := c.P
	create := p.FuncI("entry", "", "CreateEntryWithIO")
	ps := p.Named("iface", "IOPreSign").Underlying().(*types.Interface)
	var psM *types.Func
	for i := 0; i < ps.NumMethods(); i++ {
		if ps.Method(i).Name() == "PreSign" {
			psM = ps.Method(i)
		}
	}
	if psM == nil {
		infra("unresolved anchor: iface.IOPreSign.PreSign")
	}
	impls := c.CG.Implementers(psM)
	reads := map[string]string{}
	for fn := range c.CG.Reach(impls, false) {
		walkNoLit(fn.Body, func(n ast.Node) bool {
			if call, ok := n.(*ast.CallExpr); ok {
				if se, ok := ast.Unparen(call.Fun).(*ast.SelectorExpr); ok && strings.HasPrefix(se.Sel.Name, "Get") {
					if isNamed(p.TypeOf(fn, se.X), p.pkgPath("iface"), "IPFSLogEntry") {
						reads[strings.TrimPrefix(se.Sel.Name, "Get")] = fn.Name
					}
				}
			}
			return true
		})
	}
	var rl []string
	for k := range reads {
		rl = append(rl, k)
	}
	sort.Strings(rl)
	r.Tables["fields_read_by_presign"] = rl
	r.Floor(rule, "entry fields read by the pre-sign transformation", len(reads), 2)
	fl := &Flow{P: p, Fn: create, May: true, Entry: Facts{}}
	fl.Node = func(n ast.Node, f Facts) {
		walkNoLit(n, func(nd ast.Node) bool {
			if call, ok := nd.(*ast.CallExpr); ok {
				if c.CallReaches(create, call, func(f2 *types.Func) bool { return f2 == psM }) {
					f["presigned"] = true
				}
			}
			return true
		})
	}
	fl.Run()
	n := 0
	fl.Visit(func(_ *cfgBlk, nd ast.Node, before Facts) {
		walkNoLit(nd, func(x ast.Node) bool {
			call, ok := x.(*ast.CallExpr)
			if !ok {
				return true
			}
			se, ok := ast.Unparen(call.Fun).(*ast.SelectorExpr)
			if !ok || !strings.HasPrefix(se.Sel.Name, "Set") || !isNamed(p.TypeOf(create, se.X), p.pkgPath("iface"), "IPFSLogEntry") {
				return true
			}
			field := strings.TrimPrefix(strings.TrimSuffix(se.Sel.Name, "Value"), "Set")
			if !before["presigned"] {
				return true
			}
			n++
			where, isRead := reads[field]
			r.Check(!isRead, rule, r.Key(rule, create, "setter-after-presign", se.Sel.Name), call.Pos(),
				se.Sel.Name+" after PreSign touches a field the pre-sign transformation does not read",
				fmt.Sprintf("%s is called after PreSign, but the pre-sign transformation reads that field (Get%s in %s): at creation PreSign sees the old value, at verification the final one, so the sealed data and the signed bytes differ and entries written with a link key never verify", se.Sel.Name, field, where))
			return true
		})
	})
	r.Floor(rule, "entry setters after PreSign in CreateEntryWithIO", n, 1)
}

// fullCheckHelper: h returns nil only on paths where both CanAppend and Verify were called on its idx-th
// parameter and returned nil.
func fullCheckHelper(p *Prog, h *Fn, idx int) bool {
	par := paramObjAny(h, idx)
	if par == nil || h.Type.Results == nil {
		return false
	}
	checkVar := map[types.Object]string{}
	fl := &Flow{P: p, Fn: h, Entry: Facts{}}
	fl.Node = func(n ast.Node, f Facts) {
		walkNoLit(n, func(nd ast.Node) bool {
			call, ok := nd.(*ast.CallExpr)
			if !ok {
				return true
			}
			cf := p.Callee(h, call)
			if cf == nil {
				return true
			}
			on := false
			switch cf.Name() {
			case "CanAppend":
				if len(call.Args) > 0 {
					if id, ok := ast.Unparen(call.Args[0]).(*ast.Ident); ok && p.ObjOf(h, id) == par {
						on = true
					}
				}
			case "Verify":
				if se, ok := ast.Unparen(call.Fun).(*ast.SelectorExpr); ok {
					if id, ok := ast.Unparen(se.X).(*ast.Ident); ok && p.ObjOf(h, id) == par {
						on = true
					}
				}
			}
			if on {
				if as, ok := p.parent[call].(*ast.AssignStmt); ok && len(as.Lhs) == 1 {
					if id, ok := as.Lhs[0].(*ast.Ident); ok && id.Name != "_" {
						checkVar[p.ObjOf(h, id)] = cf.Name()
					}
				}
			}
			return true
		})
	}
	fl.Edge = func(cond ast.Expr, taken bool, f Facts) {
		for _, a := range splitCond(cond, taken) {
			if x, isNil, ok := nilTest(a); ok && isNil {
				if id, ok := ast.Unparen(x).(*ast.Ident); ok {
					if nm := checkVar[p.ObjOf(h, id)]; nm != "" {
						f["passed|"+nm] = true
					}
				}
			}
		}
	}
	fl.Run()
	fl.Run()
	ok, any := true, false
	fl.Exits(func(_ *cfgBlk, ret *ast.ReturnStmt, at Facts) {
		if ret == nil {
			return
		}
		if isNil, hasErr := errResultIsNil(p, h, ret); hasErr && isNil {
			any = true
			if !at["passed|CanAppend"] || !at["passed|Verify"] {
				ok = false
			}
		}
	})
	return ok && any
}

// nilInit: the assignment sits directly under `if <same field> == nil`.
func nilInit(p *Prog, fn *Fn, as *ast.AssignStmt, lhs ast.Expr) bool {
	for cur := p.parent[ast.Node(as)]; cur != nil; cur = p.parent[cur] {
		if ifs, ok := cur.(*ast.IfStmt); ok {
			for _, a := range splitCond(ifs.Cond, true) {
				if x, isNil, ok := nilTest(a); ok && isNil && types.ExprString(ast.Unparen(x)) == types.ExprString(ast.Unparen(lhs)) {
					return true
				}
			}
			return false
		}
		if _, ok := cur.(*ast.FuncDecl); ok {
			return false
		}
	}
	return false
}

// joinValidationFlow builds the must-flow of Join with the fact "validated" (aggregated error tested nil after Wait).
func joinValidationFlow(c *Ctx) (*Flow, map[*types.Var]bool) {
	p := c.P
	join := p.FuncI("", "IPFSLog", "Join")
	all := map[*types.Var]bool{}
	for _, f := range []string{"Entries", "Next", "heads", "Clock"} {
		all[p.Field("", "IPFSLog", f)] = true
	}
	errVars := capturedErrVars(p, join)
	jf := &Flow{P: p, Fn: join, Entry: Facts{}}
	jf.Node = func(n ast.Node, f Facts) {
		walkNoLit(n, func(nd ast.Node) bool {
			if call, ok := nd.(*ast.CallExpr); ok {
				if cf := p.Callee(join, call); cf != nil && isFunc(cf, "sync", "WaitGroup", "Wait") {
					f["waited"] = true
				}
			}
			return true
		})
		for _, id := range assignedIdents(n) {
			if errVars[p.ObjOf(join, id)] {
				if _, isSpec := n.(*ast.ValueSpec); !isSpec {
					delete(f, "validated")
				}
			}
		}
	}
	jf.Edge = func(cond ast.Expr, taken bool, f Facts) {
		for _, a := range splitCond(cond, taken) {
			if x, isNil, ok := nilTest(a); ok && isNil {
				if o := errPlaceOf(p, join, x, false); o != nil && errVars[o] && f["waited"] {
					f["validated"] = true
				}
			}
		}
	}
	jf.Run()
	return jf, all
}

// joinAllOrNothing: every change of the log's indexes, heads and clock in Join — in its body or in any function
// literal it contains — happens only after the whole batch was validated. Shared by the properties for which a
// refused merge that leaves partial state is fatal (C06 all-or-nothing, C02 head exactness, C03 completeness,
// C05 append-only views).
func joinAllOrNothing(c *Ctx, r *Report, rule string, jf *Flow, all map[*types.Var]bool) {
	p := c.P
	join := jf.Fn
	nsc := 0
	jf.Visit(func(_ *cfgBlk, n ast.Node, before Facts) {
		for _, sc := range logStateChanges(p, join, n, all) {
			nsc++
			r.Check(before["validated"], rule, r.Key(rule, join, sc.What, ""), sc.Pos,
				"state change happens only after all candidates were validated (error tested nil after Wait)",
				fmt.Sprintf("%s in Join is not dominated by the nil edge of the aggregated validation error tested after wg.Wait(): an invalid entry elsewhere in the batch leaves this change applied (merge is not all-or-nothing)", sc.What),
				before.List()...)
		}
		// literals started or defined here that change the log themselves
		walkNoLit(n, func(nd ast.Node) bool {
			lit, ok := nd.(*ast.FuncLit)
			if !ok {
				return true
			}
			lf := p.ByLit[lit]
			if lf == nil {
				return false
			}
			for _, sub := range AllFnsUnder(lf) {
				walkNoLit(sub.Body, func(m ast.Node) bool {
					st, ok := m.(ast.Stmt)
					switch m.(type) {
					case *ast.ExprStmt, *ast.AssignStmt, *ast.IncDecStmt:
					default:
						ok = false
					}
					if ok {
						for _, sc := range logStateChanges(p, sub, st, all) {
							nsc++
							r.Check(before["validated"], rule, r.Key(rule, join, "closure-"+sc.What, ""), sc.Pos,
								"closures that change the log are only created after validation",
								fmt.Sprintf("%s happens inside a function literal of Join that is created before the batch was validated (a validation worker or an early helper): a refused merge has already changed the log", sc.What))
						}
					}
					return true
				})
			}
			return false
		})
	})
	r.Floor(rule, "state changes in Join", nsc, 3)
}

// appendDeniedStoresNothing: Entries/Next/heads change in Append only after the entry was created and allowed.
func appendDeniedStoresNothing(c *Ctx, r *Report, rule string, af *Flow, fields map[*types.Var]bool) {
	p := c.P
	app := af.Fn
	nst := 0
	af.Visit(func(_ *cfgBlk, n ast.Node, before Facts) {
		for _, sc := range logStateChanges(p, app, n, fields) {
			nst++
			r.Check(before["created"] && before["allowed"], rule, r.Key(rule, app, sc.What, ""), sc.Pos,
				"the entry enters the log only after it was created and the access controller allowed it",
				fmt.Sprintf("%s in Append is not dominated by the success of entry creation (%v) and of CanAppend (%v): a denied append leaves the entry, a predecessor link or a head in the log", sc.What, before["created"], before["allowed"]))
		}
	})
	r.Floor(rule, "Entries/Next/heads changes in Append", nst, 2)
}

// appendAdmissionFlow builds the must-flow of Append with the facts "created" and "allowed".
func appendAdmissionFlow(c *Ctx) (*Flow, map[*types.Var]bool) {
	p := c.P
	app := p.FuncI("", "IPFSLog", "Append")
	g := &resultGate{p: p, fn: app, producer: func(call *ast.CallExpr) string {
		if cf := p.Callee(app, call); cf != nil {
			switch cf.Name() {
			case "CreateEntryWithIO", "CreateEntry":
				return "created"
			case "CanAppend":
				return "allowed"
			}
		}
		return ""
	}}
	af := &Flow{P: p, Fn: app, Entry: Facts{}, Node: g.Node}
	af.Edge = func(cond ast.Expr, taken bool, f Facts) {
		g.Edge(cond, taken, f)
		if f["ok|created"] {
			f["created"] = true
		}
		if f["ok|allowed"] {
			f["allowed"] = true
		}
	}
	af.Run()
	return af, map[*types.Var]bool{p.Field("", "IPFSLog", "Entries"): true, p.Field("", "IPFSLog", "Next"): true, p.Field("", "IPFSLog", "heads"): true}
}

// refusedOperationsLeaveNoTrace registers the two shared atomicity obligations under a property's own rule id.
func refusedOperationsLeaveNoTrace(c *Ctx, r *Report, rule string) {
	jf, all := joinValidationFlow(c)
	joinAllOrNothing(c, r, rule, jf, all)
	af, fields := appendAdmissionFlow(c)
	appendDeniedStoresNothing(c, r, rule, af, fields)
}

// entryCarrying: values through which entry objects travel (an entry, a list or map of entries).
func entryCarrying(t types.Type) bool {
	switch u := t.Underlying().(type) {
	case *types.Slice:
		return entryCarrying(u.Elem())
	case *types.Pointer:
		return entryCarrying(u.Elem())
	case *types.Tuple:
		for i := 0; i < u.Len(); i++ {
			if entryCarrying(u.At(i).Type()) {
				return true
			}
		}
		return false
	}
	if n := namedOf(t); n != nil {
		switch n.Obj().Name() {
		case "IPFSLogEntry", "IPFSLogOrderedEntries", "OrderedMap", "Entry":
			return true
		}
	}
	return false
}

// mergedHeadObjects: the entry objects a merge installs as heads are the log's own (validated) objects, never the
// objects handed in by the other log. Identifiers (hash strings) of the source's heads may decide which heads
// are kept; the objects themselves must come from the log's own index, its own heads, or the validated items.
func mergedHeadObjects(c *Ctx, r *Report, rule string) {
	p := c.P
	join := p.FuncI("", "IPFSLog", "Join")
	sf := p.SSAFunc(join)
	logT := p.Named("", "IPFSLog")
	// the unvalidated source: what RawHeads()/Heads() of the other log returned (or the first result of a
	// one-shot accessor on it)
	other := sf.Params[1]
	isSourceHeads := func(v ssa.Value) bool {
		call, ok := v.(*ssa.Call)
		if !ok {
			return false
		}
		name := ""
		var recv ssa.Value
		if call.Call.IsInvoke() {
			name, recv = call.Call.Method.Name(), call.Call.Value
		} else if cal := call.Call.StaticCallee(); cal != nil && len(call.Call.Args) > 0 && cal.Signature.Recv() != nil {
			name, recv = cal.Name(), call.Call.Args[0]
		}
		if recv == nil {
			return false
		}
		fromOther := false
		for x := range backSlice(recv, nil) {
			if x == ssa.Value(other) {
				fromOther = true
			}
		}
		if !fromOther {
			return false
		}
		switch name {
		case "RawHeads", "Heads", "headsAndEntries", "snapshot", "ToSnapshot":
			return true
		}
		return false
	}
	ownIndexLookup := func(v ssa.Value) bool {
		call, ok := v.(*ssa.Call)
		if !ok {
			return false
		}
		name := ""
		var recv ssa.Value
		if call.Call.IsInvoke() {
			name, recv = call.Call.Method.Name(), call.Call.Value
		} else if cal := call.Call.StaticCallee(); cal != nil && len(call.Call.Args) > 0 && cal.Signature.Recv() != nil {
			name, recv = cal.Name(), call.Call.Args[0]
		}
		if name != "Get" && name != "UnsafeGet" {
			return false
		}
		if u, ok := recv.(*ssa.UnOp); ok && u.Op == token.MUL {
			if f, fa := fieldOf(u.X); f != nil && f.Name() == "Entries" && namedOf(fa.X.Type()) == logT {
				if _, isParam := fa.X.(*ssa.Parameter); isParam {
					return fa.X == ssa.Value(sf.Params[0])
				}
			}
		}
		return false
	}
	n := 0
	for _, st := range fieldStores(sf, p.Field("", "IPFSLog", "heads"), true) {
		n++
		src := ""
		sl := backSliceOpt(st.Val, func(x ssa.Value) bool {
			if ownIndexLookup(x) {
				return false // objects looked up in the log's own index are the validated ones
			}
			if ex, ok := x.(*ssa.Extract); ok {
				return entryCarrying(ex.Type()) || entryCarrying(ex.Tuple.Type())
			}
			return entryCarrying(x.Type())
		}, false)
		for x := range sl {
			if isSourceHeads(x) && entryCarrying(x.Type()) {
				// reached as an object (the filter stops at identifiers)
				src = p.Pos(x.Pos())
			}
		}
		r.Check(src == "", rule, r.Key(rule, join, "head-objects", ""), st.Pos(),
			"the entry objects stored as heads come from the log's own index, its own heads or the validated items",
			"the heads stored by the merge can hold entry objects handed in by the other log (read at "+src+") that were never validated: for a head both logs share, the other log's object replaces the log's own one, so a forged object with a genuine hash shows up in Heads() and Values() without ever passing CanAppend or Verify")
	}
	r.Floor(rule, "heads stores in Join", n, 1)
	// the head scan itself only reads validated objects: what it decides depends on the predecessor lists of the
	// objects it is given, so an unvalidated object (a forged copy of an entry the log already holds, with another
	// Next list) must not be among them
	objFlow := func(x ssa.Value) bool {
		if ownIndexLookup(x) {
			return false
		}
		if ex, ok := x.(*ssa.Extract); ok {
			return entryCarrying(ex.Type()) || entryCarrying(ex.Tuple.Type())
		}
		return entryCarrying(x.Type())
	}
	nscan := 0
	allInstrs(sf, false, func(ins ssa.Instruction) {
		call, ok := ins.(*ssa.Call)
		if !ok {
			return
		}
		if f := calleeOf(call); f == nil || f.Name() != "FindHeads" || len(call.Call.Args) != 1 {
			return
		}
		nscan++
		src := ""
		for x := range backSliceOpt(call.Call.Args[0], objFlow, false) {
			if isSourceHeads(x) && entryCarrying(x.Type()) {
				src = p.Pos(x.Pos())
			}
		}
		r.Check(src == "", rule, r.Key(rule, join, "head-scan-objects", ""), call.Pos(),
			"the head scan only reads the log's own entries and the validated items",
			"the head scan is handed entry objects that came from the other log (read at "+src+") without validation: which heads are kept depends on their predecessor lists, so a forged copy of an entry the log already holds, naming the log's head as its predecessor, removes that head — entries vanish from Values() although nothing was merged")
	})
	r.Floor(rule, "head scans in Join", nscan, 1)
}
