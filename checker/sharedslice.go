package main

// sharedslice.go — slices handed out by getters of shared objects are read-only for the caller.
//
// Getters (found in the tree): first-party methods that return a slice-typed field of their receiver as it
// is (OrderedMap.Keys, Entry.GetNext, Entry.GetRefs, Entry.GetPayload, …). A value obtained from such a call —
// directly, through a local, a field of a local, a reslice, a conversion or an append onto it — shares its
// backing array with the object. Writing through it (element store, append onto it, in-place sort, copy into
// it, a helper that does one of these to its parameter) edits the object behind its lock and its owner's back.
// May-dataflow over the CFG: a later assignment of a fresh value to the same place ends the sharing.

import (
	"fmt"
	"go/ast"
	"go/token"
	"go/types"
	"sort"
	"strings"
)

type sharedSlices struct {
	p       *Prog
	getters map[string]bool // method names returning a receiver's slice field unchanged
	table   []string
	memo    map[string]int // helper summaries: fnName|param -> 0 unknown(in progress) 1 writes 2 clean
	// what is shared at some point of a function: the entry facts of the literals it contains (a captured
	// variable that shares a backing array somewhere in the parent may share it when the literal runs)
	anywhere map[*Fn]Facts
	// ext: calls outside the tree whose slice result is the callee's own storage (a datastore's Get)
	ext func(*types.Func) bool
}

func newSharedSlices(p *Prog) *sharedSlices {
	ss := &sharedSlices{p: p, getters: map[string]bool{}, memo: map[string]int{}, anywhere: map[*Fn]Facts{}}
	for _, fn := range p.Fns {
		if fn.Obj == nil || fn.Orig != nil || fn.Body == nil || fn.Decl == nil || fn.Decl.Recv == nil || strings.HasSuffix(fn.Pkg.PkgPath, "/test") {
			continue
		}
		sig := fn.Obj.Type().(*types.Signature)
		if sig.Results().Len() != 1 {
			continue
		}
		if _, isSlice := sig.Results().At(0).Type().Underlying().(*types.Slice); !isSlice {
			continue
		}
		recv := sig.Recv()
		hands := false
		walkNoLit(fn.Body, func(n ast.Node) bool {
			rs, ok := n.(*ast.ReturnStmt)
			if !ok || len(rs.Results) != 1 {
				return true
			}
			res := ast.Unparen(rs.Results[0])
			if v, base := p.FieldSel(fn, res); v != nil {
				if root, _, ok := p.PathKey(fn, base); ok && root == types.Object(recv) {
					hands = true
				}
			}
			return true
		})
		if hands {
			ss.getters[fn.Obj.Name()] = true
			ss.table = append(ss.table, fn.Name)
		}
	}
	sort.Strings(ss.table)
	return ss
}

// getterCall: call of a first-party method (concrete or through a first-party interface) named like a getter.
func (ss *sharedSlices) getterCall(fn *Fn, call *ast.CallExpr) bool {
	cf := ss.p.Callee(fn, call)
	if cf != nil && ss.ext != nil && ss.ext(cf) {
		if sig, ok := cf.Type().(*types.Signature); ok && sig.Results().Len() >= 1 {
			if _, isSlice := sig.Results().At(0).Type().Underlying().(*types.Slice); isSlice {
				return true
			}
		}
	}
	if cf == nil || !ss.getters[cf.Name()] || !ss.p.firstParty(cf.Pkg()) {
		return false
	}
	sig, ok := cf.Type().(*types.Signature)
	if !ok || sig.Recv() == nil || sig.Results().Len() != 1 {
		return false
	}
	_, isSlice := sig.Results().At(0).Type().Underlying().(*types.Slice)
	return isSlice
}

func (ss *sharedSlices) shared(fn *Fn, e ast.Expr, f Facts) bool {
	p := ss.p
	e = ast.Unparen(e)
	switch x := e.(type) {
	case *ast.SliceExpr:
		return ss.shared(fn, x.X, f)
	case *ast.CallExpr:
		if tv, ok := fn.Pkg.TypesInfo.Types[x.Fun]; ok && tv.IsType() && len(x.Args) == 1 {
			return ss.shared(fn, x.Args[0], f) // conversion
		}
		if p.Builtin(fn, x) == "append" && len(x.Args) > 0 {
			return ss.appendShares(fn, x, f)
		}
		return ss.getterCall(fn, x)
	case *ast.Ident, *ast.SelectorExpr:
		if _, key, ok := p.PathKey(fn, e); ok {
			return f["shared|"+key]
		}
	}
	return false
}

// appendShares: append(base, …) may write into (and return) base's backing array, unless base is capped (x[:n:n]).
func (ss *sharedSlices) appendShares(fn *Fn, call *ast.CallExpr, f Facts) bool {
	base := ast.Unparen(call.Args[0])
	if se, ok := base.(*ast.SliceExpr); ok && se.Slice3 && se.Max != nil && se.High != nil &&
		types.ExprString(se.Max) == types.ExprString(se.High) {
		return false
	}
	return ss.shared(fn, base, f)
}

type sharedWrite struct {
	Pos  token.Pos
	What string
	Expr string
}

var inPlaceFuncs = map[string]map[string]bool{
	"sort":   {"Sort": true, "Stable": true, "Slice": true, "SliceStable": true, "Strings": true, "Ints": true, "Float64s": true},
	"slices": {"Sort": true, "SortFunc": true, "SortStableFunc": true, "Reverse": true},
}

// writes lists the in-place writes through shared slices in fn, with `entry` facts holding at entry.
func (ss *sharedSlices) writes(fn *Fn, entry Facts, depth int) []sharedWrite {
	p := ss.p
	fl := &Flow{P: p, Fn: fn, May: true, Entry: entry}
	assign := func(lhs ast.Expr, sharedRhs bool, f Facts) {
		if _, key, ok := p.PathKey(fn, lhs); ok {
			if _, isSlice := p.TypeOf(fn, lhs).Underlying().(*types.Slice); !isSlice {
				return
			}
			if sharedRhs {
				f["shared|"+key] = true
			} else {
				delete(f, "shared|"+key)
			}
		}
	}
	// x := T{F: shared} / &T{F: shared}: the field of the new value shares
	literal := func(lhs, rhs ast.Expr, f Facts) {
		rhs = ast.Unparen(rhs)
		if u, ok := rhs.(*ast.UnaryExpr); ok && u.Op == token.AND {
			rhs = ast.Unparen(u.X)
		}
		cl, ok := rhs.(*ast.CompositeLit)
		if !ok {
			return
		}
		_, key, ok := p.PathKey(fn, lhs)
		if !ok {
			return
		}
		for _, el := range cl.Elts {
			kv, ok := el.(*ast.KeyValueExpr)
			if !ok {
				continue
			}
			if id, ok := kv.Key.(*ast.Ident); ok && ss.shared(fn, kv.Value, f) {
				f["shared|"+key+"."+id.Name] = true
			}
		}
	}
	fl.Node = func(n ast.Node, f Facts) {
		switch x := n.(type) {
		case *ast.AssignStmt:
			if len(x.Lhs) == len(x.Rhs) {
				vals := make([]bool, len(x.Rhs))
				for i, rh := range x.Rhs {
					vals[i] = ss.shared(fn, rh, f)
				}
				for i, lh := range x.Lhs {
					if p.TypeOf(fn, lh) != nil {
						assign(lh, vals[i], f)
						literal(lh, x.Rhs[i], f)
					}
				}
			} else {
				for i, lh := range x.Lhs {
					if p.TypeOf(fn, lh) != nil {
						// v, err := store.Get(key): the first result is the slice
						sh := false
						if i == 0 && len(x.Rhs) == 1 {
							if call, ok := ast.Unparen(x.Rhs[0]).(*ast.CallExpr); ok {
								sh = ss.getterCall(fn, call)
							}
						}
						assign(lh, sh, f)
					}
				}
			}
		case *ast.DeclStmt:
			if gd, ok := x.Decl.(*ast.GenDecl); ok {
				for _, sp := range gd.Specs {
					if vs, ok := sp.(*ast.ValueSpec); ok && len(vs.Values) == len(vs.Names) {
						for i, nm := range vs.Names {
							assign(nm, ss.shared(fn, vs.Values[i], f), f)
							literal(nm, vs.Values[i], f)
						}
					}
				}
			}
		}
	}
	fl.Run()
	if ss.anywhere != nil && depth == 0 {
		u := Facts{}
		for _, fs := range fl.In {
			for k := range fs {
				u[k] = true
			}
		}
		for _, fs := range fl.Out {
			for k := range fs {
				u[k] = true
			}
		}
		ss.anywhere[fn] = u
	}
	var out []sharedWrite
	seen := map[token.Pos]bool{}
	add := func(pos token.Pos, what string, e ast.Expr) {
		if !seen[pos] {
			seen[pos] = true
			out = append(out, sharedWrite{pos, what, types.ExprString(e)})
		}
	}
	fl.Visit(func(_ *cfgBlk, n ast.Node, before Facts) {
		// element stores
		switch x := n.(type) {
		case *ast.AssignStmt:
			for _, lh := range x.Lhs {
				if ie, ok := ast.Unparen(lh).(*ast.IndexExpr); ok && ss.shared(fn, ie.X, before) {
					add(ie.Pos(), "an element is stored", ie.X)
				}
			}
		case *ast.IncDecStmt:
			if ie, ok := ast.Unparen(x.X).(*ast.IndexExpr); ok && ss.shared(fn, ie.X, before) {
				add(ie.Pos(), "an element is stored", ie.X)
			}
		}
		walkNoLit(n, func(m ast.Node) bool {
			call, ok := m.(*ast.CallExpr)
			if !ok {
				return true
			}
			switch p.Builtin(fn, call) {
			case "append":
				if len(call.Args) > 0 && ss.appendShares(fn, call, before) {
					add(call.Pos(), "elements are appended onto it (they land in the shared backing array whenever it has room, and a reslice from the start always has)", call.Args[0])
				}
				return true
			case "copy":
				if len(call.Args) == 2 && ss.shared(fn, call.Args[0], before) {
					add(call.Pos(), "it is the destination of a copy", call.Args[0])
				}
				return true
			}
			cf := p.Callee(fn, call)
			if cf == nil || cf.Pkg() == nil {
				return true
			}
			if names := inPlaceFuncs[cf.Pkg().Path()]; names != nil && names[cf.Name()] && len(call.Args) > 0 {
				if ss.shared(fn, call.Args[0], before) {
					add(call.Pos(), "it is sorted in place by "+cf.Pkg().Name()+"."+cf.Name(), call.Args[0])
				}
				return true
			}
			if callee := p.ByObj[cf]; callee != nil && callee.Body != nil && depth < 3 {
				for i, a := range call.Args {
					if !ss.shared(fn, a, before) {
						continue
					}
					if ss.helperWrites(callee, i, depth+1) {
						add(call.Pos(), "it is handed to "+callee.Name+", which writes into its argument", a)
					}
				}
			}
			return true
		})
	})
	sort.Slice(out, func(i, j int) bool { return out[i].Pos < out[j].Pos })
	return out
}

func (ss *sharedSlices) helperWrites(callee *Fn, param int, depth int) bool {
	k := fmt.Sprintf("%s|%d", callee.Name, param)
	switch ss.memo[k] {
	case 1:
		return true
	case 2:
		return false
	case 3:
		return false // recursion: assume clean on the cycle
	}
	ss.memo[k] = 3
	po := paramObjAny(callee, param)
	res := false
	if po != nil {
		if _, isSlice := po.Type().Underlying().(*types.Slice); isSlice {
			res = len(ss.writes(callee, Facts{"shared|" + ss.p.ID(po): true}, depth)) > 0
		}
	}
	if res {
		ss.memo[k] = 1
	} else {
		ss.memo[k] = 2
	}
	return res
}

// sharedSlicesReadOnly: the rule over every first-party function.
func sharedSlicesReadOnly(c *Ctx, r *Report, rule string) {
	sharedSlicesReadOnlyIn(c, r, rule, nil, nil, 4, 20)
}

// sharedSlicesReadOnlyIn: the same rule with, in addition, slices obtained from calls outside the tree that hand
// out their own storage (ext), over the functions scope selects.
func sharedSlicesReadOnlyIn(c *Ctx, r *Report, rule string, ext func(*types.Func) bool, scope func(*Fn) bool, floorGetters, floorCalls int) {
	p := c.P
	ss := newSharedSlices(p)
	ss.ext = ext
	r.Tables["getters_handing_out_internal_slices"] = ss.table
	r.Floor(rule, "getters that hand out an internal slice", len(ss.table), floorGetters)
	ncall := 0
	// parents before the literals they contain (p.Fns lists a declaration before its literals)
	for _, fn := range p.Fns {
		if fn.Orig != nil || fn.Body == nil || strings.HasSuffix(fn.Pkg.PkgPath, "/test") || (scope != nil && !scope(fn)) {
			continue
		}
		n := 0
		walkNoLit(fn.Body, func(m ast.Node) bool {
			if call, ok := m.(*ast.CallExpr); ok && ss.getterCall(fn, call) {
				n++
			}
			return true
		})
		var entry Facts
		if fn.Parent != nil {
			if u := ss.anywhere[fn.Parent]; len(u) > 0 {
				entry = u.Clone()
			}
		}
		if n == 0 && len(entry) == 0 {
			continue
		}
		ncall += n
		ws := ss.writes(fn, entry, 0)
		r.Check(len(ws) == 0, rule, r.Key(rule, fn, "reads-only", ""), fn.Body.Pos(),
			fmt.Sprintf("%d slice(s) obtained from getters are only read", n),
			"a slice obtained from a getter is written in place (see the write sites reported for this function)")
		for _, w := range ws {
			r.Violate(rule, r.Key(rule, fn, "in-place-write", w.Expr), w.Pos,
				fmt.Sprintf("`%s` shares its backing array with the object whose getter handed it out, and %s: the object (a head set, an entry's link list, a payload) changes behind its lock and for every log that holds it", w.Expr, w.What))
		}
	}
	r.Floor(rule, "calls of slice getters examined", ncall, floorCalls)
}
