package main

// thorough.go — thorough tier: re-run the property's rules under the other build configurations
// (-tags goleak, GOARCH=386) and fold any non-holding obligation into the report.

import (
	"encoding/json"
	"fmt"
	"os"
	"os/exec"
	"path/filepath"
	"sort"
	"strings"
)

func thoroughExtra(c *Ctx, spec *PropSpec, r *Report, repo, mod string) {
	cfgs := []struct{ name, tags, arch string }{
		{"tags=goleak", "goleak", ""},
		{"GOARCH=386", "", "386"},
	}
	done := []string{"default (GOOS/GOARCH of the host, no tags, no test files)"}
	for _, cf := range cfgs {
		p2 := Load(repo, mod, 13, cf.tags, cf.arch, false)
		c2 := &Ctx{P: p2, CG: p2.BuildCG(), Tier: c.Tier}
		r2 := NewReport(p2, spec.ID)
		spec.Run(c2, r2)
		bad := 0
		for _, o := range r2.Obs {
			if o.Status != "holds" {
				bad++
				o.Key = "[" + cf.name + "]" + o.Key
				// only add if the default configuration does not already report the same construct
				dup := false
				for _, o1 := range r.Obs {
					if o1.Rule == o.Rule && "["+cf.name+"]"+o1.Key == o.Key && o1.Status != "holds" {
						dup = true
					}
				}
				if !dup {
					r.Obs = append(r.Obs, o)
				}
			}
		}
		done = append(done, fmt.Sprintf("%s: %d obligations, %d not holding", cf.name, len(r2.Obs), bad))
	}
	r.Tables["build_configurations"] = done
	if os.Getenv("VERIF_NO_SELFTEST") == "" {
		r.Tables["selftest"] = selftest(spec, repo)
	}
}

func explainOne(r *Report, path string) {
	b, err := os.ReadFile(path)
	if err != nil {
		fmt.Printf("explain: %v\n", err)
		return
	}
	var v struct{ Rule, Construct string }
	json.Unmarshal(b, &v)
	for _, o := range r.Obs {
		if o.Rule == v.Rule && o.Key == v.Construct {
			fmt.Printf("explain: %s %s is now %s at %s: %s\n", o.Rule, o.Key, o.Status, o.Pos, o.Detail)
			return
		}
	}
	fmt.Printf("explain: %s %s no longer exists in the current tree\n", v.Rule, v.Construct)
}

// selftest (thorough tier, informational): runs this property's check, in a separate process per variant,
// on scratch copies of the tree with (a) each seeded/mutant patch that is recorded as breaking this property
// — expected to be reported — and (b) each behaviour-preserving patch — expected to stay silent. The result
// is written into the evidence; it never changes the verdict on the tree under analysis (a patch that does
// not apply to the current tree is skipped).
func selftest(spec *PropSpec, repo string) map[string]interface{} {
	type variant struct{ name, patch, kind string }
	var vs []variant
	if ents, err := os.ReadDir("/verif/seeded"); err == nil {
		for _, e := range ents {
			if e.IsDir() && strings.HasPrefix(e.Name(), spec.ID+"-") {
				vs = append(vs, variant{e.Name(), filepath.Join("/verif/seeded", e.Name(), "patch.diff"), "breaking"})
			}
		}
	}
	if ents, err := os.ReadDir("/verif/mutants"); err == nil {
		for _, e := range ents {
			switch {
			case strings.HasPrefix(e.Name(), spec.ID+"-"):
				vs = append(vs, variant{e.Name(), filepath.Join("/verif/mutants", e.Name()), "breaking"})
			case strings.HasPrefix(e.Name(), "neutral-"):
				vs = append(vs, variant{e.Name(), filepath.Join("/verif/mutants", e.Name()), "neutral"})
			}
		}
	}
	res := map[string]interface{}{}
	var rows []string
	det, ndet, sil, nsil, skipped := 0, 0, 0, 0, 0
	for _, v := range vs {
		dir, err := os.MkdirTemp("", "verif-selftest-")
		if err != nil {
			continue
		}
		ok := exec.Command("rsync", "-a", "--exclude", ".git", repo+"/", dir+"/").Run() == nil
		if ok {
			cmd := exec.Command("patch", "-p1", "-s", "-i", v.patch)
			cmd.Dir = dir
			ok = cmd.Run() == nil
		}
		if !ok {
			skipped++
			rows = append(rows, v.name+": skipped (patch does not apply to the current tree)")
			os.RemoveAll(dir)
			continue
		}
		cmd := exec.Command(os.Args[0], "-repo", dir, "-property", spec.ID, "-tier", "quick", "-evidence-dir", filepath.Join(dir, ".ev"), "-known", "/verif/known-findings.json", "-controls", "")
		out, _ := cmd.CombinedOutput()
		reported := strings.Contains(string(out), "\n  violated [") || strings.Contains(string(out), "\n  undecided [") || strings.HasPrefix(string(out), "  violated [") || strings.Contains(string(out), "CHECKER-")
		switch v.kind {
		case "breaking":
			ndet++
			if reported {
				det++
				rows = append(rows, v.name+": reported (expected)")
			} else {
				rows = append(rows, v.name+": NOT reported (a recorded breaking change is missed)")
			}
		case "neutral":
			nsil++
			if !reported {
				sil++
				rows = append(rows, v.name+": silent (expected)")
			} else {
				rows = append(rows, v.name+": ALARM on a behaviour-preserving change")
			}
		}
		os.RemoveAll(dir)
	}
	sort.Strings(rows)
	res["breaking_reported"] = fmt.Sprintf("%d/%d", det, ndet)
	res["neutral_silent"] = fmt.Sprintf("%d/%d", sil, nsil)
	res["skipped"] = skipped
	res["variants"] = rows
	return res
}
