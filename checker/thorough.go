package main

// thorough.go — thorough tier: re-run the property's rules under the other build configurations
// (-tags goleak, GOARCH=386) and fold any non-holding obligation into the report.

import (
	"encoding/json"
	"fmt"
	"os"
	"os/exec"
	"path/filepath"
	"sort"
	"strings"
	"sync"
)

func thoroughExtra(c *Ctx, spec *PropSpec, r *Report, repo, mod string) {
	cfgs := []struct{ name, tags, arch string }{
		{"tags=goleak", "goleak", ""},
		{"GOARCH=386", "", "386"},
	}
	done := []string{"default (GOOS/GOARCH of the host, no tags, no test files)"}
	for _, cf := range cfgs {
		p2 := Load(repo, mod, 13, cf.tags, cf.arch, false)
		c2 := &Ctx{P: p2, CG: p2.BuildCG(), Tier: c.Tier}
		r2 := NewReport(p2, spec.ID)
		spec.Run(c2, r2)
		bad := 0
		for _, o := range r2.Obs {
			if o.Status != "holds" {
				bad++
				o.Key = "[" + cf.name + "]" + o.Key
				// only add if the default configuration does not already report the same construct
				dup := false
				for _, o1 := range r.Obs {
					if o1.Rule == o.Rule && "["+cf.name+"]"+o1.Key == o.Key && o1.Status != "holds" {
						dup = true
					}
				}
				if !dup {
					r.Obs = append(r.Obs, o)
				}
			}
		}
		done = append(done, fmt.Sprintf("%s: %d obligations, %d not holding", cf.name, len(r2.Obs), bad))
	}
	r.Tables["build_configurations"] = done
	if os.Getenv("VERIF_NO_SELFTEST") == "" {
		r.Tables["selftest"] = selftest(spec, repo)
	}
}

func explainOne(r *Report, path string) {
	b, err := os.ReadFile(path)
	if err != nil {
		fmt.Printf("explain: %v\n", err)
		return
	}
	var v struct{ Rule, Construct string }
	json.Unmarshal(b, &v)
	for _, o := range r.Obs {
		if o.Rule == v.Rule && o.Key == v.Construct {
			fmt.Printf("explain: %s %s is now %s at %s: %s\n", o.Rule, o.Key, o.Status, o.Pos, o.Detail)
			return
		}
	}
	fmt.Printf("explain: %s %s no longer exists in the current tree\n", v.Rule, v.Construct)
}

// selftest (thorough tier, informational): runs this property's check, in a separate process per variant,
// on scratch copies of the tree with (a) each seeded/mutant patch that is recorded as breaking this property
// — expected to be reported — and (b) each behaviour-preserving patch — expected to stay silent. The result
// is written into the evidence; it never changes the verdict on the tree under analysis (a patch that does
// not apply to the current tree is skipped).
func selftest(spec *PropSpec, repo string) map[string]interface{} {
	type variant struct{ name, patch, kind string }
	var vs []variant
	if ents, err := os.ReadDir("/verif/seeded"); err == nil {
		for _, e := range ents {
			if e.IsDir() && strings.HasPrefix(e.Name(), spec.ID+"-") {
				vs = append(vs, variant{e.Name(), filepath.Join("/verif/seeded", e.Name(), "patch.diff"), "breaking"})
			}
		}
	}
	if ents, err := os.ReadDir("/verif/mutants"); err == nil {
		for _, e := range ents {
			switch {
			case strings.HasPrefix(e.Name(), spec.ID+"-"):
				vs = append(vs, variant{e.Name(), filepath.Join("/verif/mutants", e.Name()), "breaking"})
			case strings.HasPrefix(e.Name(), "neutral-"):
				vs = append(vs, variant{e.Name(), filepath.Join("/verif/mutants", e.Name()), "neutral"})
			}
		}
	}
	res := map[string]interface{}{}
	var rows []string
	det, ndet, sil, nsil, skipped := 0, 0, 0, 0, 0
	var mu sync.Mutex
	var wg sync.WaitGroup
	sem := make(chan struct{}, 8)
	for _, v := range vs {
		v := v
		wg.Add(1)
		sem <- struct{}{}
		go func() {
			defer func() { <-sem; wg.Done() }()
			runVariant(spec, repo, v.name, v.patch, v.kind, &mu, &rows, &det, &ndet, &sil, &nsil, &skipped)
		}()
	}
	wg.Wait()
	sort.Strings(rows)
	res["breaking_reported"] = fmt.Sprintf("%d/%d", det, ndet)
	res["neutral_silent"] = fmt.Sprintf("%d/%d", sil, nsil)
	res["skipped"] = skipped
	res["variants"] = rows
	return res
}

func runVariant(spec *PropSpec, repo, name, patch, kind string, mu *sync.Mutex, rowsP *[]string, det, ndet, sil, nsil, skipped *int) {
	add := func(row string, f func()) {
		mu.Lock()
		*rowsP = append(*rowsP, row)
		if f != nil {
			f()
		}
		mu.Unlock()
	}
	v := struct{ name, patch, kind string }{name, patch, kind}
	{
		dir, err := os.MkdirTemp("", "verif-selftest-")
		if err != nil {
			return
		}
		ok := exec.Command("rsync", "-a", "--exclude", ".git", repo+"/", dir+"/").Run() == nil
		if ok {
			cmd := exec.Command("patch", "-p1", "-s", "-i", v.patch)
			cmd.Dir = dir
			ok = cmd.Run() == nil
		}
		if !ok {
			add(v.name+": skipped (patch does not apply to the current tree)", func() { *skipped++ })
			os.RemoveAll(dir)
			return
		}
		cmd := exec.Command(os.Args[0], "-repo", dir, "-property", spec.ID, "-tier", "quick", "-evidence-dir", filepath.Join(dir, ".ev"), "-known", "/verif/known-findings.json", "-controls", "")
		out, _ := cmd.CombinedOutput()
		reported := strings.Contains(string(out), "\n  violated [") || strings.Contains(string(out), "\n  undecided [") || strings.HasPrefix(string(out), "  violated [") || strings.Contains(string(out), "CHECKER-")
		switch v.kind {
		case "breaking":
			if reported {
				add(v.name+": reported (expected)", func() { *ndet++; *det++ })
			} else {
				add(v.name+": NOT reported (a recorded breaking change is missed)", func() { *ndet++ })
			}
		case "neutral":
			if !reported {
				add(v.name+": silent (expected)", func() { *nsil++; *sil++ })
			} else {
				add(v.name+": ALARM on a behaviour-preserving change", func() { *nsil++ })
			}
		}
		os.RemoveAll(dir)
	}
}
