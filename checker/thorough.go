package main

// thorough.go — thorough tier: re-run the property's rules under the other build configurations
// (-tags goleak, GOARCH=386) and fold any non-holding obligation into the report.

import (
	"encoding/json"
	"fmt"
	"os"
)

func thoroughExtra(c *Ctx, spec *PropSpec, r *Report, repo, mod string) {
	cfgs := []struct{ name, tags, arch string }{
		{"tags=goleak", "goleak", ""},
		{"GOARCH=386", "", "386"},
	}
	done := []string{"default (GOOS/GOARCH of the host, no tags, no test files)"}
	for _, cf := range cfgs {
		p2 := Load(repo, mod, 13, cf.tags, cf.arch, false)
		c2 := &Ctx{P: p2, CG: p2.BuildCG(), Tier: c.Tier}
		r2 := NewReport(p2, spec.ID)
		spec.Run(c2, r2)
		bad := 0
		for _, o := range r2.Obs {
			if o.Status != "holds" {
				bad++
				o.Key = "[" + cf.name + "]" + o.Key
				// only add if the default configuration does not already report the same construct
				dup := false
				for _, o1 := range r.Obs {
					if o1.Rule == o.Rule && "["+cf.name+"]"+o1.Key == o.Key && o1.Status != "holds" {
						dup = true
					}
				}
				if !dup {
					r.Obs = append(r.Obs, o)
				}
			}
		}
		done = append(done, fmt.Sprintf("%s: %d obligations, %d not holding", cf.name, len(r2.Obs), bad))
	}
	r.Tables["build_configurations"] = done
}

func explainOne(r *Report, path string) {
	b, err := os.ReadFile(path)
	if err != nil {
		fmt.Printf("explain: %v\n", err)
		return
	}
	var v struct{ Rule, Construct string }
	json.Unmarshal(b, &v)
	for _, o := range r.Obs {
		if o.Rule == v.Rule && o.Key == v.Construct {
			fmt.Printf("explain: %s %s is now %s at %s: %s\n", o.Rule, o.Key, o.Status, o.Pos, o.Detail)
			return
		}
	}
	fmt.Printf("explain: %s %s no longer exists in the current tree\n", v.Rule, v.Construct)
}
