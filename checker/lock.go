package main

// lock.go — E2: lockset + lock-order + fork/join analysis on go/cfg with types.Object identity.
//
// Lock classes are (struct type, mutex field) pairs or mutex-typed variables. A lock instance inside a
// function is the canonical access path of the expression the mutex is reached from (PathKey), so a
// variable captured by a closure is the same instance in parent and literal.

import (
	"fmt"
	"go/ast"
	"go/token"
	"go/types"
	"sort"
	"strings"

	"golang.org/x/tools/go/cfg"
)

type lockReq struct {
	Class string
	Rel   string // "recv", "recv.f", "param:i", ... relative to the declaring function
	Mode  string // R | W
	Why   string // access description (for reports)
	Pos   token.Pos
	Fn    *Fn    // where the access is
	Kind  string // load | store | mutate
	Field string
	Path  []string
}

func (q lockReq) id() string { return q.Class + "|" + q.Rel + "|" + q.Mode + "|" + q.Why }

type lockAcq struct {
	Class string
	Rel   string
	Mode  string
	Via   string
}

type LockEngine struct {
	p  *Prog
	cg *CG
	// configuration
	Guards     map[*types.Var]string // guarded field -> lock field name in the same struct
	Mutators   map[string]bool       // method names mutating the value loaded from a guarded field
	Pkgs       map[string]bool       // package paths whose functions are analysed
	SkipFn     func(*Fn) bool
	ArmedBlock map[string]bool // lock classes under which channel operations are violations
	// CtxLits: struct types whose composite literals capture an object whose lock must be held while the
	// value exists (type -> field holding the object, lock class)
	CtxLits map[*types.Named][2]string
	// results
	needs     map[*Fn]map[string]lockReq
	acqs      map[*Fn]map[string]lockAcq
	litEntry  map[*Fn]Facts
	litRole   map[*Fn]string // go | goJoined | inline
	flows     map[*Fn]*Flow
	condLock  map[*types.Var]*types.Var // *sync.Cond field -> its Locker field
	Accesses  []lockAccess
	LockOps   []lockOpRec
	Edges     []lockEdge
	Blocking  []blockRec
	CondWaits []condRec
	Exits     []exitRec
	GoLits    []goRec
	SibWrites []sibWrite
	SibReads  []sibRead
	Splits    []splitRec
	Problems  []string
	reporting bool
}

type lockAccess struct {
	Fn      *Fn
	Pos     token.Pos
	Field   *types.Var
	Kind    string // load | store | mutate
	Base    string
	Class   string
	Mode    string
	Held    bool
	Lifted  bool   // requirement passed up to callers
	Via     string // how it is held
	Expr    string
	Unknown bool // base not resolvable
}

type lockOpRec struct {
	Fn    *Fn
	Pos   token.Pos
	Op    string
	Class string
	Base  string
	Defer bool
	Bad   string
}

type lockEdge struct {
	Fn        *Fn
	Pos       token.Pos
	HeldClass string
	HeldBase  string
	HeldMode  string
	AcqClass  string
	AcqBase   string
	AcqMode   string
	Via       string
}

type blockRec struct {
	Fn   *Fn
	Pos  token.Pos
	What string
	Held []string
}

type condRec struct {
	Fn     *Fn
	Pos    token.Pos
	Held   bool
	InLoop bool
	Cond   string
}

type exitRec struct {
	Fn   *Fn
	Pos  token.Pos
	Held []string
}

type goRec struct {
	Fn        *Fn // the literal
	Parent    *Fn
	Pos       token.Pos
	Joined    bool
	InLoop    bool
	Inherited []string
}

type sibWrite struct {
	Lit  *Fn
	Pos  token.Pos
	Obj  types.Object
	Var  string
	Held []string // own locks held
	OK   bool
}

type splitRec struct {
	Fn    *Fn
	Pos   token.Pos
	Field string
	Base  string
}

func mutexKind(t types.Type) string {
	t = deref(t)
	if isNamed(t, "sync", "RWMutex") {
		return "RW"
	}
	if isNamed(t, "sync", "Mutex") {
		return "M"
	}
	return ""
}

// lockOf: if e denotes a mutex (struct field or variable), return its class, instance base key and ok.
func (le *LockEngine) lockOf(fn *Fn, e ast.Expr) (class, base string, ok bool) {
	e = ast.Unparen(e)
	if u, isU := e.(*ast.UnaryExpr); isU && u.Op == token.AND {
		e = ast.Unparen(u.X)
	}
	t := le.p.TypeOf(fn, e)
	if t == nil || mutexKind(t) == "" {
		return "", "", false
	}
	if v, b := le.p.FieldSel(fn, e); v != nil {
		owner := "?"
		if nt := namedOf(le.p.TypeOf(fn, b)); nt != nil {
			owner = nt.Obj().Name()
		}
		_, key, ok := le.p.PathKey(fn, b)
		if !ok {
			return owner + "." + v.Name(), "?" + types.ExprString(b), true
		}
		return owner + "." + v.Name(), key, true
	}
	if root, key, ok2 := le.p.PathKey(fn, e); ok2 {
		return "var:" + root.Name(), key, true
	}
	return "", "", false
}

func heldFact(base, class, mode string) string  { return "H|" + base + "|" + class + "|" + mode }
func deferFact(base, class, mode string) string { return "D|" + base + "|" + class + "|" + mode }

func (le *LockEngine) hasLock(f Facts, base, class, mode string) bool {
	if f[heldFact(base, class, "W")] {
		return true
	}
	return mode == "R" && f[heldFact(base, class, "R")]
}

func heldList(f Facts) []string {
	var out []string
	for k := range f {
		if strings.HasPrefix(k, "H|") {
			out = append(out, k[2:])
		}
	}
	sort.Strings(out)
	return out
}

// rel converts a path key rooted at an object of the root declaration into recv/param-relative form.
func (le *LockEngine) rel(fn *Fn, root types.Object, key string) string {
	rootFn := fn.Root()
	if rootFn.Decl == nil || root == nil {
		return ""
	}
	suffix := key[len(le.p.ID(root)):]
	info := rootFn.Pkg.TypesInfo
	if rootFn.Decl.Recv != nil {
		for _, f := range rootFn.Decl.Recv.List {
			for _, n := range f.Names {
				if info.Defs[n] == root {
					return "recv" + suffix
				}
			}
		}
	}
	i := 0
	for _, f := range rootFn.Decl.Type.Params.List {
		if len(f.Names) == 0 {
			i++
			continue
		}
		for _, n := range f.Names {
			if info.Defs[n] == root {
				return fmt.Sprintf("param:%d%s", i, suffix)
			}
			i++
		}
	}
	return ""
}

// bind maps a callee-relative base to an instance base at a call site.
func (le *LockEngine) bind(fn *Fn, call *ast.CallExpr, rel string) (base string, root types.Object, ok bool) {
	head, suffix := rel, ""
	if i := strings.Index(rel, "."); i >= 0 {
		head, suffix = rel[:i], rel[i:]
	}
	var e ast.Expr
	if head == "recv" {
		se, isSel := ast.Unparen(call.Fun).(*ast.SelectorExpr)
		if !isSel {
			return "", nil, false
		}
		e = se.X
	} else if strings.HasPrefix(head, "param:") {
		var i int
		fmt.Sscanf(head, "param:%d", &i)
		if i >= len(call.Args) {
			return "", nil, false
		}
		e = call.Args[i]
	} else {
		return "", nil, false
	}
	r, key, ok2 := le.p.PathKey(fn, e)
	if !ok2 {
		return "?" + types.ExprString(e) + suffix, nil, false
	}
	return key + suffix, r, true
}

func (le *LockEngine) inScope(fn *Fn) bool {
	if !le.Pkgs[fn.Pkg.PkgPath] {
		return false
	}
	if le.SkipFn != nil && le.SkipFn(fn) {
		return false
	}
	return true
}

// Run computes summaries to a fixpoint, then replays once with recording enabled.
func (le *LockEngine) Run() {
	le.needs = map[*Fn]map[string]lockReq{}
	le.acqs = map[*Fn]map[string]lockAcq{}
	le.litEntry = map[*Fn]Facts{}
	le.litRole = map[*Fn]string{}
	le.flows = map[*Fn]*Flow{}
	le.discoverConds()
	var roots []*Fn
	for _, fn := range le.p.Fns {
		if fn.Parent == nil && le.inScope(fn) {
			roots = append(roots, fn)
		}
	}
	for round := 0; ; round++ {
		if round > 20 {
			infra("lock summaries did not converge")
		}
		before := le.summarySize()
		for _, fn := range roots {
			le.analyse(fn, Facts{})
		}
		if le.summarySize() == before {
			break
		}
	}
	le.reporting = true
	for _, fn := range roots {
		le.analyse(fn, Facts{})
	}
	le.siblingMethodWrites()
}

// siblingMethodWrites: a goroutine spawned in a loop that calls a first-party function or method on an aggregate
// captured from outside the loop (`failure.set(err)`) writes shared state inside that callee: every store the
// callee makes through that receiver/parameter must be under a lock the callee itself holds at the store.
func (le *LockEngine) siblingMethodWrites() {
	p := le.p
	for _, g := range le.GoLits {
		goLit := g.Fn
		loop := le.loopAncestor(goLit.Parent, goLit.Lit)
		if loop == nil {
			continue
		}
		for _, fn := range AllFnsUnder(goLit) {
			fn := fn
			walkNoLit(fn.Body, func(n ast.Node) bool {
				call, ok := n.(*ast.CallExpr)
				if !ok {
					return true
				}
				cf := p.Callee(fn, call)
				if cf == nil {
					return true
				}
				callee := p.ByObj[cf]
				if callee == nil || callee.Body == nil || le.flows[callee] == nil {
					return true
				}
				// arguments (and the receiver) rooted at a variable captured from outside the loop
				type bind struct {
					param types.Object
					root  *types.Var
				}
				var binds []bind
				captured := func(e ast.Expr) *types.Var {
					root, _, ok := p.PathKey(fn, e)
					v, isVar := root.(*types.Var)
					if !ok || !isVar || v.IsField() {
						return nil
					}
					if v.Pos() >= goLit.Lit.Pos() && v.Pos() <= goLit.Lit.End() {
						return nil
					}
					if v.Pos() >= loop.Pos() && v.Pos() <= loop.End() {
						return nil
					}
					if _, isPtr := v.Type().Underlying().(*types.Pointer); !isPtr {
						if _, isAddr := ast.Unparen(e).(*ast.UnaryExpr); !isAddr {
							if se, isSel := ast.Unparen(call.Fun).(*ast.SelectorExpr); !isSel || ast.Unparen(se.X) != ast.Unparen(e) {
								return nil // passed by value: the callee writes a copy
							}
						}
					}
					return v
				}
				sig := cf.Type().(*types.Signature)
				if se, ok := ast.Unparen(call.Fun).(*ast.SelectorExpr); ok && sig.Recv() != nil {
					if v := captured(se.X); v != nil && callee.Decl != nil && callee.Decl.Recv != nil && len(callee.Decl.Recv.List) == 1 && len(callee.Decl.Recv.List[0].Names) == 1 {
						if _, isPtr := sig.Recv().Type().Underlying().(*types.Pointer); isPtr {
							binds = append(binds, bind{callee.Pkg.TypesInfo.Defs[callee.Decl.Recv.List[0].Names[0]], v})
						}
					}
				}
				for i, a := range call.Args {
					if v := captured(a); v != nil {
						if po := paramObjAny(callee, i); po != nil {
							if _, isPtr := po.Type().Underlying().(*types.Pointer); isPtr {
								binds = append(binds, bind{po, v})
							}
						}
					}
				}
				if len(binds) == 0 {
					return true
				}
				le.flows[callee].Visit(func(_ *cfg.Block, nd ast.Node, before Facts) {
					var lhs []ast.Expr
					switch x := nd.(type) {
					case *ast.AssignStmt:
						lhs = x.Lhs
					case *ast.IncDecStmt:
						lhs = []ast.Expr{x.X}
					}
					for _, l := range lhs {
						fv, _ := p.FieldSel(callee, l)
						root, _, ok := p.PathKey(callee, l)
						if fv == nil || !ok {
							continue
						}
						for _, b := range binds {
							if root != b.param {
								continue
							}
							var own []string
							for k := range before {
								if strings.HasPrefix(k, "H|") {
									own = append(own, k[2:])
								}
							}
							sort.Strings(own)
							le.SibWrites = append(le.SibWrites, sibWrite{Lit: goLit, Pos: l.Pos(), Obj: fv, Var: b.root.Name() + "." + fv.Name() + " (in " + callee.Name + ")", Held: own, OK: len(own) > 0})
						}
					}
				})
				return true
			})
		}
	}
}

func (le *LockEngine) summarySize() int {
	n := 0
	for _, m := range le.needs {
		n += len(m)
	}
	for _, m := range le.acqs {
		n += len(m)
	}
	return n
}

func (le *LockEngine) discoverConds() {
	le.condLock = map[*types.Var]*types.Var{}
	for _, fn := range le.p.Fns {
		ast.Inspect(fn.Body, func(n ast.Node) bool {
			cl, ok := n.(*ast.CompositeLit)
			if !ok {
				return true
			}
			var condF *types.Var
			var condArg string
			fields := map[string]*types.Var{}
			for _, el := range cl.Elts {
				kv, ok := el.(*ast.KeyValueExpr)
				if !ok {
					continue
				}
				kid, ok := kv.Key.(*ast.Ident)
				if !ok {
					continue
				}
				fv, _ := fn.Pkg.TypesInfo.ObjectOf(kid).(*types.Var)
				if fv == nil {
					continue
				}
				if c, ok := ast.Unparen(kv.Value).(*ast.CallExpr); ok {
					if f := le.p.Callee(fn, c); f != nil && isFunc(f, "sync", "", "NewCond") && len(c.Args) == 1 {
						condF = fv
						condArg = types.ExprString(ast.Unparen(c.Args[0]))
						continue
					}
				}
				if mutexKind(fv.Type()) != "" {
					fields[types.ExprString(ast.Unparen(kv.Value))] = fv
				}
			}
			if condF != nil {
				if lf := fields[condArg]; lf != nil {
					le.condLock[condF] = lf
				}
			}
			return true
		})
	}
}

func (le *LockEngine) addNeed(fn *Fn, q lockReq) {
	root := fn.Root()
	if le.needs[root] == nil {
		le.needs[root] = map[string]lockReq{}
	}
	if _, ok := le.needs[root][q.id()]; !ok {
		le.needs[root][q.id()] = q
	}
}

func (le *LockEngine) addAcq(fn *Fn, a lockAcq) {
	root := fn.Root()
	if le.acqs[root] == nil {
		le.acqs[root] = map[string]lockAcq{}
	}
	k := a.Class + "|" + a.Rel + "|" + a.Mode
	if _, ok := le.acqs[root][k]; !ok {
		le.acqs[root][k] = a
	}
}

// insideGo reports whether fn is (nested in) a go-spawned literal.
func (le *LockEngine) insideGo(fn *Fn) bool {
	for f := fn; f != nil; f = f.Parent {
		if r := le.litRole[f]; r == "go" || r == "goJoined" {
			return true
		}
	}
	return false
}

// insideUnjoinedGo: fn runs in a goroutine that is not joined before its enclosing function returns. A joined
// goroutine ends inside its enclosing function, so what it needs can be asked of that function's callers.
func (le *LockEngine) insideUnjoinedGo(fn *Fn) bool {
	for f := fn; f != nil; f = f.Parent {
		if le.litRole[f] == "go" {
			return true
		}
	}
	return false
}

func (le *LockEngine) analyse(fn *Fn, entry Facts) {
	fl := &Flow{P: le.p, Fn: fn, Entry: entry, InlineDefers: true}
	fl.Node = func(n ast.Node, f Facts) { le.node(fn, n, f, false) }
	fl.Run()
	le.flows[fn] = fl
	// record literal entry facts and (when reporting) the obligations, in one replay
	fl.Visit(func(_ *cfg.Block, n ast.Node, before Facts) {
		le.node(fn, n, before.Clone(), true)
	})
	if le.reporting {
		fl.Exits(func(_ *cfg.Block, ret *ast.ReturnStmt, at Facts) {
			var held []string
			for k := range at {
				if strings.HasPrefix(k, "H|") {
					parts := strings.Split(k, "|")
					if at[deferFact(parts[1], parts[2], parts[3])] || (parts[3] == "R" && at[deferFact(parts[1], parts[2], "W")]) {
						continue
					}
					// inherited locks of a literal are released by the parent
					if entry[k] {
						continue
					}
					held = append(held, k[2:])
				}
			}
			sort.Strings(held)
			pos := fn.Body.Rbrace
			if ret != nil {
				pos = ret.Pos()
			}
			le.Exits = append(le.Exits, exitRec{fn, pos, held})
		})
	}
	for _, lit := range fn.Lits {
		e := le.litEntry[lit]
		if e == nil {
			e = Facts{}
		}
		// deferred-unlock facts do not carry into literals
		ee := Facts{}
		for k := range e {
			if strings.HasPrefix(k, "H|") {
				ee[k] = true
			}
		}
		le.analyse(lit, ee)
	}
}

func (le *LockEngine) loopAncestor(fn *Fn, n ast.Node) ast.Node {
	for cur := le.p.parent[n]; cur != nil && cur != ast.Node(fn.Body); cur = le.p.parent[cur] {
		switch cur.(type) {
		case *ast.ForStmt, *ast.RangeStmt:
			return cur
		case *ast.FuncLit:
			return nil
		}
	}
	return nil
}

// node is the transfer function; with visit=true it also records literal entries and, in the reporting
// pass, every obligation-relevant event.
func (le *LockEngine) node(fn *Fn, n ast.Node, f Facts, visit bool) {
	rec := visit && le.reporting
	handled := map[ast.Node]bool{}
	deferCall := map[*ast.CallExpr]bool{}
	goCall := map[*ast.CallExpr]bool{}
	walkNoLit(n, func(nd ast.Node) bool {
		switch x := nd.(type) {
		case *ast.DeferStmt:
			deferCall[x.Call] = true
		case *ast.GoStmt:
			goCall[x.Call] = true
		case *ast.FuncLit:
			if !visit {
				return false
			}
			lit := le.p.ByLit[x]
			if lit == nil {
				return false
			}
			role := "inline"
			if c, ok := le.p.parent[x].(*ast.CallExpr); ok && ast.Unparen(c.Fun) == ast.Expr(x) && goCall[c] {
				role = "go"
				if le.joined(fn, c, x) {
					role = "goJoined"
				}
				if rec {
					var inh []string
					if role == "goJoined" {
						inh = heldList(f)
					}
					le.GoLits = append(le.GoLits, goRec{Fn: lit, Parent: fn, Pos: x.Pos(), Joined: role == "goJoined", InLoop: le.loopAncestor(fn, x) != nil, Inherited: inh})
				}
			}
			le.litRole[lit] = role
			if role == "go" {
				le.litEntry[lit] = Facts{}
			} else {
				le.litEntry[lit] = f.Clone()
				// handed to a lock wrapper (`l.withLock(func() { … })`): the literal runs under the lock the wrapper
				// takes on its receiver before it calls its function parameter
				if c, ok := le.p.parent[x].(*ast.CallExpr); ok && ast.Unparen(c.Fun) != ast.Expr(x) {
					for k, a := range c.Args {
						if ast.Unparen(a) != ast.Expr(x) {
							continue
						}
						cf := le.p.Callee(fn, c)
						if cf == nil || le.p.ByObj[cf] == nil {
							continue
						}
						se, isSel := ast.Unparen(c.Fun).(*ast.SelectorExpr)
						if !isSel {
							continue
						}
						_, rkey, okk := le.p.PathKey(fn, se.X)
						if !okk {
							continue
						}
						for _, h := range le.wrapperHeld(le.p.ByObj[cf])[k] {
							if strings.HasPrefix(h.Rel, "recv") {
								base := rkey + strings.TrimPrefix(h.Rel, "recv")
								le.litEntry[lit][heldFact(base, h.Class, "R")] = true
								if h.Mode == "W" {
									le.litEntry[lit][heldFact(base, h.Class, "W")] = true
								}
							}
						}
					}
				}
			}
			return false
		case *ast.SendStmt:
			le.blocking(fn, x.Pos(), "channel send "+types.ExprString(x.Chan)+" <- …", f, rec)
		case *ast.UnaryExpr:
			if x.Op == token.ARROW {
				le.blocking(fn, x.Pos(), "channel receive <-"+types.ExprString(x.X), f, rec)
			}
		case *ast.SelectStmt:
			le.blocking(fn, x.Pos(), "select", f, rec)
		case *ast.AssignStmt:
			for _, l := range x.Lhs {
				le.markStore(fn, l, handled, f, rec)
			}
			if rec {
				le.sibling(fn, x.Pos(), x.Lhs, f)
			}
		case *ast.IncDecStmt:
			le.markStore(fn, x.X, handled, f, rec)
			if rec {
				le.sibling(fn, x.Pos(), []ast.Expr{x.X}, f)
			}
		case *ast.CallExpr:
			le.call(fn, x, f, deferCall[x], goCall[x], handled, rec)
		case *ast.CompositeLit:
			if nt := namedOf(le.p.TypeOf(fn, x)); nt != nil {
				if spec, ok := le.CtxLits[nt]; ok {
					for _, el := range x.Elts {
						if kv, ok := el.(*ast.KeyValueExpr); ok {
							if id, ok := kv.Key.(*ast.Ident); ok && id.Name == spec[0] {
								le.ctxAccess(fn, x, kv.Value, spec[1], f, rec)
							}
						}
					}
				}
			}
		case *ast.Ident:
			if rec {
				le.sibIdent(fn, x, f)
			}
		case *ast.SelectorExpr:
			if handled[x] {
				return true
			}
			if v, b := le.p.FieldSel(fn, x); v != nil {
				if lockField, ok := le.Guards[v]; ok {
					le.access(fn, x, v, b, lockField, "load", "R", f, rec)
				}
			}
		}
		return true
	})
}

func (le *LockEngine) markStore(fn *Fn, lhs ast.Expr, handled map[ast.Node]bool, f Facts, rec bool) {
	// find the guarded selector the store goes through: x.F = …, x.F[k] = …, *x.F = …
	e := ast.Unparen(lhs)
	for {
		switch y := e.(type) {
		case *ast.IndexExpr:
			e = ast.Unparen(y.X)
			continue
		case *ast.StarExpr:
			e = ast.Unparen(y.X)
			continue
		}
		break
	}
	se, ok := e.(*ast.SelectorExpr)
	if !ok {
		return
	}
	if v, b := le.p.FieldSel(fn, se); v != nil {
		if lockField, ok := le.Guards[v]; ok {
			handled[se] = true
			le.access(fn, se, v, b, lockField, "store", "W", f, rec)
		}
	}
}

func (le *LockEngine) access(fn *Fn, se *ast.SelectorExpr, v *types.Var, b ast.Expr, lockField, kind, mode string, f Facts, rec bool) {
	owner := "?"
	if nt := namedOf(le.p.TypeOf(fn, b)); nt != nil {
		owner = nt.Obj().Name()
	}
	class := owner + "." + lockField
	root, key, ok := le.p.PathKey(fn, b)
	a := lockAccess{Fn: fn, Pos: se.Pos(), Field: v, Kind: kind, Class: class, Mode: mode, Expr: types.ExprString(se)}
	if !ok {
		a.Unknown = true
		a.Base = "?" + types.ExprString(b)
		if rec {
			le.Accesses = append(le.Accesses, a)
		}
		return
	}
	a.Base = key
	if le.hasLock(f, key, class, mode) {
		a.Held = true
		a.Via = "held in " + fn.Name
		if kind != "load" && f["S|"+key+"|"+class] && rec {
			le.Splits = append(le.Splits, splitRec{Fn: fn, Pos: se.Pos(), Field: v.Name(), Base: key})
		}
		f["T|"+key+"|"+class] = true
	} else if le.freshLocal(fn, root) {
		a.Held = true
		a.Via = "fresh local object (not yet shared)"
	} else if rel := le.rel(fn, root, key); rel != "" && !le.insideUnjoinedGo(fn) {
		a.Lifted = true
		le.addNeed(fn, lockReq{Class: class, Rel: rel, Mode: mode, Why: fmt.Sprintf("%s of %s in %s", kind, types.ExprString(se), fn.Name), Pos: se.Pos(), Fn: fn, Kind: kind, Field: v.Name()})
	}
	if rec {
		le.Accesses = append(le.Accesses, a)
	}
}

// freshLocal: root is a local variable of the root function initialised from a composite literal / new.
func (le *LockEngine) freshLocal(fn *Fn, root types.Object) bool {
	v, ok := root.(*types.Var)
	if !ok || v.IsField() {
		return false
	}
	rootFn := fn.Root()
	if le.rel(fn, root, le.p.ID(root)) != "" {
		return false
	}
	fresh := false
	other := false
	ast.Inspect(rootFn.Body, func(n ast.Node) bool {
		as, ok := n.(*ast.AssignStmt)
		if !ok {
			return true
		}
		for i, l := range as.Lhs {
			id, ok := l.(*ast.Ident)
			if !ok || le.p.ObjOf(rootFn, id) != root || i >= len(as.Rhs) {
				continue
			}
			r := ast.Unparen(as.Rhs[i])
			if u, ok := r.(*ast.UnaryExpr); ok && u.Op == token.AND {
				r = ast.Unparen(u.X)
			}
			if _, ok := r.(*ast.CompositeLit); ok {
				fresh = true
			} else {
				other = true
			}
		}
		return true
	})
	return fresh && !other
}

func (le *LockEngine) blocking(fn *Fn, pos token.Pos, what string, f Facts, rec bool) {
	if !rec {
		return
	}
	h := heldList(f)
	if len(h) > 0 {
		le.Blocking = append(le.Blocking, blockRec{fn, pos, what, h})
	}
}

func (le *LockEngine) call(fn *Fn, c *ast.CallExpr, f Facts, isDefer, isGo bool, handled map[ast.Node]bool, rec bool) {
	callee := le.p.Callee(fn, c)
	// --- mutex operations
	if callee != nil && callee.Pkg() != nil && callee.Pkg().Path() == "sync" {
		recvT := ""
		if r := callee.Type().(*types.Signature).Recv(); r != nil {
			if nt := namedOf(r.Type()); nt != nil {
				recvT = nt.Obj().Name()
			}
		}
		if se, ok := ast.Unparen(c.Fun).(*ast.SelectorExpr); ok && (recvT == "RWMutex" || recvT == "Mutex") {
			class, base, ok := le.lockOf(fn, se.X)
			op := callee.Name()
			r := lockOpRec{Fn: fn, Pos: c.Pos(), Op: op, Class: class, Base: base, Defer: isDefer}
			if !ok {
				r.Bad = "lock expression not resolvable to a field or variable: " + types.ExprString(se.X)
				if rec {
					le.LockOps = append(le.LockOps, r)
				}
				return
			}
			mode := "W"
			if op == "RLock" || op == "RUnlock" {
				mode = "R"
			}
			switch op {
			case "Lock", "RLock":
				if isDefer {
					r.Bad = "deferred acquisition"
				} else {
					// order / recursion
					le.acquire(fn, c.Pos(), class, base, mode, "direct "+op, f, rec)
					if root, key, okk := le.p.PathKey(fn, lockBaseExpr(se.X)); okk {
						if rel := le.rel(fn, root, key); rel != "" && !le.insideUnjoinedGo(fn) {
							le.addAcq(fn, lockAcq{Class: class, Rel: rel, Mode: mode, Via: fn.Name})
						} else {
							le.addAcq(fn, lockAcq{Class: class, Rel: "", Mode: mode, Via: fn.Name})
						}
					}
					f[heldFact(base, class, "R")] = true
					if mode == "W" {
						f[heldFact(base, class, "W")] = true
					}
				}
			case "Unlock", "RUnlock":
				if isDefer {
					f[deferFact(base, class, mode)] = true
				} else {
					if !le.hasLock(f, base, class, "R") {
						r.Bad = "release of a lock that is not held on every path"
					} else if mode == "W" && !f[heldFact(base, class, "W")] {
						r.Bad = "Unlock of a lock held in read mode"
					}
					if f["T|"+base+"|"+class] {
						f["S|"+base+"|"+class] = true // a critical section that touched guarded state ends here
					}
					delete(f, heldFact(base, class, "W"))
					delete(f, heldFact(base, class, "R"))
				}
			}
			if rec {
				le.LockOps = append(le.LockOps, r)
			}
			return
		}
		if recvT == "Cond" && callee.Name() == "Wait" {
			if se, ok := ast.Unparen(c.Fun).(*ast.SelectorExpr); ok && rec {
				cr := condRec{Fn: fn, Pos: c.Pos(), Cond: types.ExprString(se.X)}
				if cv, b := le.p.FieldSel(fn, se.X); cv != nil {
					if lf := le.condLock[cv]; lf != nil {
						owner := "?"
						if nt := namedOf(le.p.TypeOf(fn, b)); nt != nil {
							owner = nt.Obj().Name()
						}
						if root, key, ok := le.p.PathKey(fn, b); ok {
							cr.Held = le.hasLock(f, key, owner+"."+lf.Name(), "W")
							if !cr.Held {
								// a helper that waits on behalf of its callers: the locker is theirs to hold
								if rel := le.rel(fn, root, key); rel != "" && !le.insideUnjoinedGo(fn) && fn.Decl != nil && !fn.Decl.Name.IsExported() {
									cr.Held = true
									le.addNeed(fn, lockReq{Class: owner + "." + lf.Name(), Rel: rel, Mode: "W", Why: fmt.Sprintf("wait on %s in %s", types.ExprString(se.X), fn.Name), Pos: c.Pos(), Fn: fn, Kind: "load", Field: lf.Name()})
								}
							}
						}
					}
				}
				// enclosing loop with a condition
				for cur := le.p.parent[ast.Node(c)]; cur != nil && cur != ast.Node(fn.Body); cur = le.p.parent[cur] {
					if fs, ok := cur.(*ast.ForStmt); ok && fs.Cond != nil {
						cr.InLoop = true
						break
					}
					if _, ok := cur.(*ast.FuncLit); ok {
						break
					}
				}
				le.CondWaits = append(le.CondWaits, cr)
			}
			return
		}
		if recvT == "WaitGroup" && callee.Name() == "Wait" {
			le.blocking(fn, c.Pos(), "WaitGroup.Wait", f, false) // listed only via Blocking when armed; not armed
		}
	}
	// --- mutator on a guarded field's value: x.F.Set(…)
	if se, ok := ast.Unparen(c.Fun).(*ast.SelectorExpr); ok && le.Mutators[se.Sel.Name] {
		if inner, ok := ast.Unparen(se.X).(*ast.SelectorExpr); ok {
			if v, b := le.p.FieldSel(fn, inner); v != nil {
				if lockField, ok := le.Guards[v]; ok {
					handled[inner] = true
					le.access(fn, inner, v, b, lockField, "mutate", "W", f, rec)
				}
			}
		}
	}
	if isGo || isDefer {
		return // the callee does not run here
	}
	// --- first-party callees: requirements and acquisitions
	var targets []*Fn
	for _, cs := range le.cg.Sites(fn) {
		if cs.Call == c {
			targets = cs.Targets
		}
	}
	for _, t := range targets {
		for _, q := range sortedNeeds(le.needs[t]) {
			base, root, ok := le.bind(fn, c, q.Rel)
			if !ok && root == nil && base == "" {
				continue
			}
			held := ok && le.hasLock(f, base, q.Class, q.Mode)
			if held {
				// the callee touches guarded state of this object inside the caller's critical section
				if q.Kind != "load" && f["S|"+base+"|"+q.Class] && rec {
					fieldName := q.Field
					if fieldName == "" {
						fieldName = q.Kind
					}
					le.Splits = append(le.Splits, splitRec{Fn: fn, Pos: c.Pos(), Field: fieldName, Base: base})
				}
				f["T|"+base+"|"+q.Class] = true
				if rec {
					le.Accesses = append(le.Accesses, lockAccess{Fn: q.Fn, Pos: q.Pos, Kind: q.Kind, Base: base, Class: q.Class, Mode: q.Mode, Held: true,
						Via: fmt.Sprintf("held by caller %s at %s", fn.Name, le.p.Pos(c.Pos())), Expr: q.Why, Field: nil})
				}
				continue
			}
			if ok && le.freshLocal(fn, root) {
				continue
			}
			if ok {
				if rel := le.rel(fn, root, base); rel != "" && !le.insideUnjoinedGo(fn) {
					nq := q
					nq.Rel = rel
					nq.Path = append(append([]string{}, q.Path...), fmt.Sprintf("%s (%s)", fn.Name, le.p.Pos(c.Pos())))
					le.addNeed(fn, nq)
					continue
				}
			}
			if rec {
				le.Accesses = append(le.Accesses, lockAccess{Fn: q.Fn, Pos: q.Pos, Kind: q.Kind, Base: base, Class: q.Class, Mode: q.Mode, Held: false,
					Via: fmt.Sprintf("NOT held by caller %s at %s", fn.Name, le.p.Pos(c.Pos())), Expr: q.Why, Unknown: !ok})
			}
		}
		for _, a := range sortedAcqs(le.acqs[t]) {
			base := "?" + t.Name
			if a.Rel != "" {
				if b, _, ok := le.bind(fn, c, a.Rel); ok || b != "" {
					base = b
					if ok {
						// propagate upward
						if root, key, okk := le.p.PathKey(fn, bindExpr(c, a.Rel)); okk {
							suffix := ""
							if i := strings.Index(a.Rel, "."); i >= 0 {
								suffix = a.Rel[i:]
							}
							if rel := le.rel(fn, root, key+suffix); rel != "" && !le.insideUnjoinedGo(fn) {
								le.addAcq(fn, lockAcq{Class: a.Class, Rel: rel, Mode: a.Mode, Via: t.Name})
							} else {
								le.addAcq(fn, lockAcq{Class: a.Class, Rel: "", Mode: a.Mode, Via: t.Name})
							}
						}
					} else {
						le.addAcq(fn, lockAcq{Class: a.Class, Rel: "", Mode: a.Mode, Via: t.Name})
					}
				}
			} else {
				le.addAcq(fn, lockAcq{Class: a.Class, Rel: "", Mode: a.Mode, Via: t.Name})
			}
			le.acquire(fn, c.Pos(), a.Class, base, a.Mode, "call "+t.Name, f, rec)
			// the callee opened and closed its own critical section on this object: a later guarded
			// write in this function happens in a second section
			if !strings.HasPrefix(base, "?") && !le.hasLock(f, base, a.Class, "R") {
				f["S|"+base+"|"+a.Class] = true
			}
		}
	}
}

func bindExpr(call *ast.CallExpr, rel string) ast.Expr {
	head := rel
	if i := strings.Index(rel, "."); i >= 0 {
		head = rel[:i]
	}
	if head == "recv" {
		if se, ok := ast.Unparen(call.Fun).(*ast.SelectorExpr); ok {
			return se.X
		}
		return nil
	}
	var i int
	fmt.Sscanf(head, "param:%d", &i)
	if i < len(call.Args) {
		return call.Args[i]
	}
	return nil
}

func lockBaseExpr(e ast.Expr) ast.Expr {
	e = ast.Unparen(e)
	if u, ok := e.(*ast.UnaryExpr); ok && u.Op == token.AND {
		e = ast.Unparen(u.X)
	}
	if se, ok := e.(*ast.SelectorExpr); ok {
		return se.X
	}
	return e
}

func sortedNeeds(m map[string]lockReq) []lockReq {
	var ks []string
	for k := range m {
		ks = append(ks, k)
	}
	sort.Strings(ks)
	var out []lockReq
	for _, k := range ks {
		out = append(out, m[k])
	}
	return out
}

func sortedAcqs(m map[string]lockAcq) []lockAcq {
	var ks []string
	for k := range m {
		ks = append(ks, k)
	}
	sort.Strings(ks)
	var out []lockAcq
	for _, k := range ks {
		out = append(out, m[k])
	}
	return out
}

// acquire records order edges from every held lock to the lock being acquired.
func (le *LockEngine) acquire(fn *Fn, pos token.Pos, class, base, mode, via string, f Facts, rec bool) {
	if !rec {
		return
	}
	seen := map[string]bool{}
	for k := range f {
		if !strings.HasPrefix(k, "H|") {
			continue
		}
		parts := strings.Split(k, "|")
		hb, hc := parts[1], parts[2]
		if seen[hb+"|"+hc] {
			continue
		}
		seen[hb+"|"+hc] = true
		hm := "R"
		if f[heldFact(hb, hc, "W")] {
			hm = "W"
		}
		le.Edges = append(le.Edges, lockEdge{Fn: fn, Pos: pos, HeldClass: hc, HeldBase: hb, HeldMode: hm, AcqClass: class, AcqBase: base, AcqMode: mode, Via: via})
	}
}

// joined: the go statement's literal signals a WaitGroup whose Wait is passed on every path from the go
// statement to any exit of the parent or explicit release (so locks held at the go statement stay held
// for the literal's whole lifetime).
func (le *LockEngine) joined(fn *Fn, goCall *ast.CallExpr, lit *ast.FuncLit) bool {
	// WaitGroup signalled by the literal
	var wgKey string
	ast.Inspect(lit.Body, func(n ast.Node) bool {
		c, ok := n.(*ast.CallExpr)
		if !ok {
			return true
		}
		if f := le.p.Callee(fn, c); f != nil && isFunc(f, "sync", "WaitGroup", "Done") {
			if se, ok := ast.Unparen(c.Fun).(*ast.SelectorExpr); ok {
				if _, key, ok := le.p.PathKey(fn, se.X); ok {
					wgKey = key
				}
			}
		}
		return true
	})
	if wgKey == "" {
		return false
	}
	fl := &Flow{P: le.p, Fn: fn, May: true, Entry: Facts{}, InlineDefers: true}
	escaped := false
	fl.Node = func(n ast.Node, f Facts) {
		walkNoLit(n, func(nd ast.Node) bool {
			switch x := nd.(type) {
			case *ast.GoStmt:
				if x.Call == goCall {
					f["pending"] = true
				}
			case *ast.CallExpr:
				if cf := le.p.Callee(fn, x); cf != nil {
					if isFunc(cf, "sync", "WaitGroup", "Wait") {
						if se, ok := ast.Unparen(x.Fun).(*ast.SelectorExpr); ok {
							if _, key, ok := le.p.PathKey(fn, se.X); ok && key == wgKey {
								delete(f, "pending")
							}
						}
					}
					if f["pending"] && (cf.Name() == "Unlock" || cf.Name() == "RUnlock") && cf.Pkg() != nil && cf.Pkg().Path() == "sync" {
						if _, isDefer := le.p.parent[x].(*ast.DeferStmt); !isDefer {
							escaped = true
						}
					}
				}
			}
			return true
		})
	}
	fl.Run()
	fl.Exits(func(_ *cfg.Block, _ *ast.ReturnStmt, at Facts) {
		if at["pending"] {
			escaped = true
		}
	})
	return !escaped
}

// sibling: inside a go-spawned literal started in a loop, a write to a variable captured from outside the
// loop must be under a lock acquired inside the literal.
func (le *LockEngine) sibling(fn *Fn, pos token.Pos, lhs []ast.Expr, f Facts) {
	goLit := le.goCtx(fn)
	if goLit == nil {
		return
	}
	loop := le.loopAncestor(goLit.Parent, goLit.Lit)
	if loop == nil {
		return
	}
	inherited := le.litEntry[goLit]
	for _, l := range lhs {
		e := ast.Unparen(l)
		var viaField *types.Var
		for {
			if ix, ok := e.(*ast.IndexExpr); ok {
				e = ast.Unparen(ix.X)
				continue
			}
			if st, ok := e.(*ast.StarExpr); ok {
				e = ast.Unparen(st.X)
				continue
			}
			// a field of a captured aggregate (`failure.err = …`) is a write to what the variable names
			if se, ok := e.(*ast.SelectorExpr); ok {
				if fv, _ := le.p.FieldSel(fn, se); fv != nil {
					viaField = fv
					e = ast.Unparen(se.X)
					continue
				}
			}
			break
		}
		id, ok := e.(*ast.Ident)
		if !ok {
			continue
		}
		v, ok := le.p.ObjOf(fn, id).(*types.Var)
		if !ok || v.IsField() {
			continue
		}
		// the receiver of a method of a lock-guarded structure is the structure itself: its fields are the guard
		// obligations' business (R-C13.1), not captured variables
		if fn.Lit == nil {
			continue
		}
		// declared inside the go literal → private
		if v.Pos() >= goLit.Lit.Pos() && v.Pos() <= goLit.Lit.End() {
			continue
		}
		// declared inside the loop body → one per iteration
		if v.Pos() >= loop.Pos() && v.Pos() <= loop.End() {
			continue
		}
		var own []string
		for k := range f {
			if strings.HasPrefix(k, "H|") && !inherited[k] {
				own = append(own, k[2:])
			}
		}
		sort.Strings(own)
		if viaField != nil {
			// what is written is the field of what the variable names; reading the variable itself races with nothing
			le.SibWrites = append(le.SibWrites, sibWrite{Lit: goLit, Pos: pos, Obj: viaField, Var: v.Name() + "." + viaField.Name(), Held: own, OK: len(own) > 0})
			continue
		}
		le.SibWrites = append(le.SibWrites, sibWrite{Lit: goLit, Pos: pos, Obj: v, Var: v.Name(), Held: own, OK: len(own) > 0})
	}
}

// goCtx: the go-spawned literal fn runs in — fn itself, an enclosing literal, or a go literal that calls
// this local closure.
func (le *LockEngine) goCtx(fn *Fn) *Fn {
	for x := fn; x != nil; x = x.Parent {
		if r := le.litRole[x]; r == "go" || r == "goJoined" {
			return x
		}
	}
	if fn.Lit != nil {
		for _, g := range AllFnsUnder(fn.Root()) {
			for _, cs := range le.cg.Sites(g) {
				for _, t := range cs.Targets {
					if t != fn {
						continue
					}
					for x := g; x != nil; x = x.Parent {
						if r := le.litRole[x]; r == "go" || r == "goJoined" {
							return x
						}
					}
				}
			}
		}
	}
	return nil
}

type sibRead struct {
	Lit  *Fn
	Pos  token.Pos
	Obj  types.Object
	Held []string
	OK   bool
}

// sibIdent records reads, inside sibling goroutines, of variables captured from outside the spawning loop.
func (le *LockEngine) sibIdent(fn *Fn, id *ast.Ident, f Facts) {
	goLit := le.goCtx(fn)
	if goLit == nil {
		return
	}
	loop := le.loopAncestor(goLit.Parent, goLit.Lit)
	if loop == nil {
		return
	}
	v, ok := le.p.ObjOf(fn, id).(*types.Var)
	if !ok || v.IsField() {
		return
	}
	if _, isDef := fn.Pkg.TypesInfo.Defs[id]; isDef {
		return
	}
	if v.Pos() >= goLit.Lit.Pos() && v.Pos() <= goLit.Lit.End() {
		return
	}
	if v.Pos() >= loop.Pos() && v.Pos() <= loop.End() {
		return
	}
	// assignment targets are writes, handled by sibling()
	if as, ok := le.p.parent[id].(*ast.AssignStmt); ok {
		for _, l := range as.Lhs {
			if l == ast.Expr(id) {
				return
			}
		}
	}
	inherited := le.litEntry[goLit]
	var own []string
	for k := range f {
		if strings.HasPrefix(k, "H|") && !inherited[k] {
			own = append(own, k[2:])
		}
	}
	sort.Strings(own)
	le.SibReads = append(le.SibReads, sibRead{Lit: goLit, Pos: id.Pos(), Obj: v, Held: own, OK: len(own) > 0})
}

// ctxAccess: building a context value that captures obj requires obj's lock (read mode) at that point —
// held here, or supplied by every caller (requirement lifted like a field access).
func (le *LockEngine) ctxAccess(fn *Fn, lit *ast.CompositeLit, obj ast.Expr, class string, f Facts, rec bool) {
	root, key, ok := le.p.PathKey(fn, obj)
	a := lockAccess{Fn: fn, Pos: lit.Pos(), Kind: "context", Class: class, Mode: "R", Expr: types.ExprString(lit)}
	if !ok {
		a.Unknown, a.Base = true, "?"+types.ExprString(obj)
		if rec {
			le.Accesses = append(le.Accesses, a)
		}
		return
	}
	a.Base = key
	if le.hasLock(f, key, class, "R") {
		a.Held, a.Via = true, "held in "+fn.Name
	} else if rel := le.rel(fn, root, key); rel != "" && !le.insideUnjoinedGo(fn) {
		a.Lifted = true
		le.addNeed(fn, lockReq{Class: class, Rel: rel, Mode: "R", Why: fmt.Sprintf("context literal %s in %s", types.ExprString(lit), fn.Name), Pos: lit.Pos(), Fn: fn, Kind: "context", Field: "ctx"})
	}
	if rec {
		le.Accesses = append(le.Accesses, a)
	}
}

// wrapperHeld: for a first-party function w, the locks (relative to w's receiver) that are held when w calls its
// k-th parameter, a function value — read off w's top-level statements: `recv.f.Lock()` / `RLock()`, an optional
// deferred release, then `param()`; a non-deferred release before the call ends the section.
func (le *LockEngine) wrapperHeld(w *Fn) map[int][]lockAcq {
	out := map[int][]lockAcq{}
	if w == nil || w.Decl == nil || w.Body == nil {
		return out
	}
	params := map[types.Object]int{}
	i := 0
	for _, f := range w.Decl.Type.Params.List {
		for _, n := range f.Names {
			if _, isFunc := w.Pkg.TypesInfo.Defs[n].Type().Underlying().(*types.Signature); isFunc {
				params[w.Pkg.TypesInfo.Defs[n]] = i
			}
			i++
		}
		if len(f.Names) == 0 {
			i++
		}
	}
	if len(params) == 0 {
		return out
	}
	var held []lockAcq
	for _, st := range w.Body.List {
		es, ok := st.(*ast.ExprStmt)
		if !ok {
			if _, isDefer := st.(*ast.DeferStmt); isDefer {
				continue
			}
			// anything else (a branch, a loop) and the simple shape is gone
			if _, isRet := st.(*ast.ReturnStmt); isRet {
				break
			}
			continue
		}
		call, ok := es.X.(*ast.CallExpr)
		if !ok {
			continue
		}
		if id, ok := ast.Unparen(call.Fun).(*ast.Ident); ok {
			if k, isParam := params[le.p.ObjOf(w, id)]; isParam {
				out[k] = append([]lockAcq{}, held...)
			}
			continue
		}
		cf := le.p.Callee(w, call)
		if cf == nil || cf.Pkg() == nil || cf.Pkg().Path() != "sync" {
			continue
		}
		se, ok := ast.Unparen(call.Fun).(*ast.SelectorExpr)
		if !ok {
			continue
		}
		class, _, okc := le.lockOf(w, se.X)
		root, key, okk := le.p.PathKey(w, lockBaseExpr(se.X))
		if !okc || !okk {
			continue
		}
		rel := le.rel(w, root, key)
		switch cf.Name() {
		case "Lock":
			held = append(held, lockAcq{Class: class, Rel: rel, Mode: "W"})
		case "RLock":
			held = append(held, lockAcq{Class: class, Rel: rel, Mode: "R"})
		case "Unlock", "RUnlock":
			var nh []lockAcq
			for _, h := range held {
				if !(h.Class == class && h.Rel == rel) {
					nh = append(nh, h)
				}
			}
			held = nh
		}
	}
	return out
}
