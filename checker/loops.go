package main

// loops.go — "for every element" obligations on the syntax tree: a statement inside range/for loops runs for
// every element only if nothing between it and the loops makes it conditional and nothing in the loops leaves
// them early (break, goto, return) or skips the rest of an iteration before the statement (continue).

import (
	"fmt"
	"go/ast"
	"go/token"
)

// enclosingLoops returns the for/range statements enclosing n inside fn (not crossing function literals),
// innermost first.
func enclosingLoops(p *Prog, fn *Fn, n ast.Node) []ast.Stmt {
	var out []ast.Stmt
	for cur := p.parent[n]; cur != nil && cur != ast.Node(fn.Body); cur = p.parent[cur] {
		switch x := cur.(type) {
		case *ast.ForStmt:
			out = append(out, x)
		case *ast.RangeStmt:
			out = append(out, x)
		case *ast.FuncLit:
			return out
		}
	}
	return out
}

func loopBody(s ast.Stmt) *ast.BlockStmt {
	switch x := s.(type) {
	case *ast.ForStmt:
		return x.Body
	case *ast.RangeStmt:
		return x.Body
	}
	return nil
}

// branchTarget: the statement an unlabelled/labelled break or continue leaves or continues.
func branchTarget(p *Prog, br *ast.BranchStmt) ast.Node {
	if br.Label != nil {
		// the labelled statement's inner statement
		for cur := p.parent[ast.Node(br)]; cur != nil; cur = p.parent[cur] {
			if ls, ok := cur.(*ast.LabeledStmt); ok && ls.Label.Name == br.Label.Name {
				return ls.Stmt
			}
		}
		return nil
	}
	for cur := p.parent[ast.Node(br)]; cur != nil; cur = p.parent[cur] {
		switch cur.(type) {
		case *ast.ForStmt, *ast.RangeStmt:
			return cur
		case *ast.SwitchStmt, *ast.TypeSwitchStmt, *ast.SelectStmt:
			if br.Tok == token.BREAK {
				return cur
			}
		case *ast.FuncLit:
			return nil
		}
	}
	return nil
}

// loopComplete decides whether stmt-level node n runs for every element of its `depth` innermost enclosing
// loops. With exitsOnly the statement itself may be conditional (a filter) and only early exits are looked for.
// allowErrReturn accepts `return …, <non-nil>` inside the loops (an aborted operation is not a truncated one).
func loopComplete(p *Prog, fn *Fn, n ast.Node, depth int, exitsOnly, allowErrReturn bool) (bool, string) {
	loops := enclosingLoops(p, fn, n)
	if len(loops) < depth {
		return false, fmt.Sprintf("not inside %d nested loop(s)", depth)
	}
	loops = loops[:depth]
	outer := loops[depth-1]
	considered := map[ast.Node]bool{}
	for _, l := range loops {
		considered[l] = true
	}
	if !exitsOnly {
		for cur := p.parent[n]; cur != nil && cur != ast.Node(outer); cur = p.parent[cur] {
			switch cur.(type) {
			case *ast.IfStmt, *ast.SwitchStmt, *ast.TypeSwitchStmt, *ast.SelectStmt, *ast.CaseClause, *ast.CommClause:
				return false, "guarded by a condition at " + p.Pos(cur.Pos())
			}
		}
	}
	why := ""
	walkNoLit(loopBody(outer), func(nd ast.Node) bool {
		switch x := nd.(type) {
		case *ast.BranchStmt:
			switch x.Tok {
			case token.GOTO:
				why = "goto at " + p.Pos(x.Pos())
			case token.BREAK:
				if t := branchTarget(p, x); t == nil || considered[t] || !insideNode(p, t, outer) {
					why = "break at " + p.Pos(x.Pos()) + " leaves the loop before every element was processed"
				}
			case token.CONTINUE:
				if exitsOnly {
					return true
				}
				if t := branchTarget(p, x); (t == nil || considered[t]) && x.Pos() < n.Pos() {
					why = "continue at " + p.Pos(x.Pos()) + " skips the statement for some elements"
				}
			}
		case *ast.ReturnStmt:
			if allowErrReturn && len(x.Results) > 0 {
				if id, ok := ast.Unparen(x.Results[len(x.Results)-1]).(*ast.Ident); !ok || id.Name != "nil" {
					return true
				}
			}
			why = "return at " + p.Pos(x.Pos()) + " leaves the loop before every element was processed"
		}
		return true
	})
	if why != "" {
		return false, why
	}
	return true, ""
}

// insideNode: n is (transitively) inside anc.
func insideNode(p *Prog, n, anc ast.Node) bool {
	for cur := n; cur != nil; cur = p.parent[cur] {
		if cur == anc {
			return true
		}
	}
	return false
}

// fullRange: the loop ranges over the complete value of a call/identifier (not a sub-slice or an index of it).
func fullRange(s ast.Stmt) bool {
	rs, ok := s.(*ast.RangeStmt)
	if !ok {
		return false
	}
	switch ast.Unparen(rs.X).(type) {
	case *ast.SliceExpr, *ast.IndexExpr:
		return false
	}
	return true
}
