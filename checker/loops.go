package main

// loops.go — "for every element" obligations on the syntax tree: a statement inside range/for loops runs for
// every element only if nothing between it and the loops makes it conditional and nothing in the loops leaves
// them early (break, goto, return) or skips the rest of an iteration before the statement (continue).

import (
	"fmt"
	"go/ast"
	"go/token"
	"go/types"
	"sort"
	"strings"
)

// enclosingLoops returns the for/range statements enclosing n inside fn (not crossing function literals),
// innermost first.
func enclosingLoops(p *Prog, fn *Fn, n ast.Node) []ast.Stmt {
	var out []ast.Stmt
	for cur := p.ParentIn(fn, n); cur != nil && cur != ast.Node(fn.Body); cur = p.ParentIn(fn, cur) {
		switch x := cur.(type) {
		case *ast.ForStmt:
			if lbl, ok := p.ParentIn(fn, x).(*ast.LabeledStmt); ok && strings.HasPrefix(lbl.Label.Name, "inl$") {
				continue // the synthetic one-shot loop that wraps a spliced-in helper body
			}
			out = append(out, x)
		case *ast.RangeStmt:
			out = append(out, x)
		case *ast.FuncLit:
			return out
		}
	}
	return out
}

func loopBody(s ast.Stmt) *ast.BlockStmt {
	switch x := s.(type) {
	case *ast.ForStmt:
		return x.Body
	case *ast.RangeStmt:
		return x.Body
	}
	return nil
}

// branchTarget: the statement an unlabelled/labelled break or continue leaves or continues.
func branchTarget(p *Prog, fn *Fn, br *ast.BranchStmt) ast.Node {
	if br.Label != nil {
		// the labelled statement's inner statement
		for cur := p.ParentIn(fn, ast.Node(br)); cur != nil; cur = p.ParentIn(fn, cur) {
			if ls, ok := cur.(*ast.LabeledStmt); ok && ls.Label.Name == br.Label.Name {
				return ls.Stmt
			}
		}
		return nil
	}
	for cur := p.ParentIn(fn, ast.Node(br)); cur != nil; cur = p.ParentIn(fn, cur) {
		switch cur.(type) {
		case *ast.ForStmt, *ast.RangeStmt:
			return cur
		case *ast.SwitchStmt, *ast.TypeSwitchStmt, *ast.SelectStmt:
			if br.Tok == token.BREAK {
				return cur
			}
		case *ast.FuncLit:
			return nil
		}
	}
	return nil
}

// loopComplete decides whether stmt-level node n runs for every element of its `depth` innermost enclosing
// loops. With exitsOnly the statement itself may be conditional (a filter) and only early exits are looked for.
// allowErrReturn accepts `return …, <non-nil>` inside the loops (an aborted operation is not a truncated one).
func loopComplete(p *Prog, fn *Fn, n ast.Node, depth int, exitsOnly, allowErrReturn bool) (bool, string) {
	loops := enclosingLoops(p, fn, n)
	if len(loops) < depth {
		return false, fmt.Sprintf("not inside %d nested loop(s)", depth)
	}
	loops = loops[:depth]
	outer := loops[depth-1]
	considered := map[ast.Node]bool{}
	for _, l := range loops {
		considered[l] = true
	}
	if !exitsOnly {
		for cur := p.ParentIn(fn, n); cur != nil && cur != ast.Node(outer); cur = p.ParentIn(fn, cur) {
			switch cur.(type) {
			case *ast.IfStmt, *ast.SwitchStmt, *ast.TypeSwitchStmt, *ast.SelectStmt, *ast.CaseClause, *ast.CommClause:
				return false, "guarded by a condition at " + p.Pos(cur.Pos())
			}
		}
	}
	why := ""
	walkNoLit(loopBody(outer), func(nd ast.Node) bool {
		switch x := nd.(type) {
		case *ast.BranchStmt:
			switch x.Tok {
			case token.GOTO:
				why = "goto at " + p.Pos(x.Pos())
			case token.BREAK:
				if t := branchTarget(p, fn, x); t == nil || considered[t] || !insideNode(p, fn, t, outer) {
					why = "break at " + p.Pos(x.Pos()) + " leaves the loop before every element was processed"
				}
			case token.CONTINUE:
				if exitsOnly {
					return true
				}
				if t := branchTarget(p, fn, x); (t == nil || considered[t]) && x.Pos() < n.Pos() {
					why = "continue at " + p.Pos(x.Pos()) + " skips the statement for some elements"
				}
			}
		case *ast.ReturnStmt:
			if allowErrReturn && len(x.Results) > 0 {
				if id, ok := ast.Unparen(x.Results[len(x.Results)-1]).(*ast.Ident); !ok || id.Name != "nil" {
					return true
				}
			}
			why = "return at " + p.Pos(x.Pos()) + " leaves the loop before every element was processed"
		}
		return true
	})
	if why != "" {
		return false, why
	}
	return true, ""
}

// insideNode: n is (transitively) inside anc.
func insideNode(p *Prog, fn *Fn, n, anc ast.Node) bool {
	for cur := n; cur != nil; cur = p.ParentIn(fn, cur) {
		if cur == anc {
			return true
		}
	}
	return false
}

// fullRange: the loop ranges over the complete value of a call/identifier (not a sub-slice or an index of it).
func fullRange(s ast.Stmt) bool {
	rs, ok := s.(*ast.RangeStmt)
	if !ok {
		return false
	}
	switch ast.Unparen(rs.X).(type) {
	case *ast.SliceExpr, *ast.IndexExpr:
		return false
	}
	return true
}

// ---- every loop runs to completion ---------------------------------------------------------------------------
// Of the 70 loops in the pinned first-party code 57 have no early exit at all; of the other 13, 6 only leave with
// an error, 4 are pure searches, 1 spells its loop condition as a leading `if … { break }`. The two that remain
// are listed below with their reason. A loop that acquires a new way out stops processing the rest of its
// elements: predecessor links that are not signed, indexed or written, heads that are not published, bounds that
// are not looked at.

var loopExitExemptions = map[string]string{
	"ipfslog.(*IPFSLog).traverse|for":   "the traversal stops at the requested end hash (decided by R-C03.4 / R-C15.5)",
	"entry.(*Fetcher).processQueue|for": "the dispatcher gives up when no slot can be acquired (context cancelled); the wait for running workers follows (R-C11.1)",
}

// searchLoop: the loop only looks for an element — its body is a sequence of `if` statements (no else) whose
// bodies assign locals and/or leave; nothing is accumulated or written on the way.
func searchLoop(p *Prog, fn *Fn, body *ast.BlockStmt) bool {
	for _, st := range body.List {
		ifs, ok := st.(*ast.IfStmt)
		if !ok || ifs.Else != nil {
			return false
		}
		for _, bs := range ifs.Body.List {
			switch x := bs.(type) {
			case *ast.BranchStmt, *ast.ReturnStmt:
			case *ast.AssignStmt:
				for _, l := range x.Lhs {
					if _, ok := ast.Unparen(l).(*ast.Ident); !ok {
						return false
					}
				}
				for _, rv := range x.Rhs {
					if call, ok := ast.Unparen(rv).(*ast.CallExpr); ok && p.Builtin(fn, call) == "append" {
						return false
					}
				}
			default:
				return false
			}
		}
	}
	return true
}

type loopExit struct {
	Fn   *Fn
	Loop ast.Stmt
	Desc string
	Exit ast.Node
	What string
}

// earlyLoopExits lists the ways out of the loops of fn that are neither error returns, nor part of a search,
// nor the loop's own condition written as a leading `if cond { break }`.
func earlyLoopExits(p *Prog, fn *Fn) (loops int, exits []loopExit) {
	walkNoLit(fn.Body, func(n ast.Node) bool {
		var body *ast.BlockStmt
		desc := ""
		switch x := n.(type) {
		case *ast.ForStmt:
			body, desc = x.Body, "for"
		case *ast.RangeStmt:
			body, desc = x.Body, "range "+types.ExprString(x.X)
		default:
			return true
		}
		loops++
		if searchLoop(p, fn, body) {
			return true
		}
		var leading ast.Node
		if fs, ok := n.(*ast.ForStmt); ok && fs.Cond == nil && len(body.List) > 0 {
			if ifs, ok := body.List[0].(*ast.IfStmt); ok && ifs.Else == nil && len(ifs.Body.List) == 1 {
				if br, ok := ifs.Body.List[0].(*ast.BranchStmt); ok && br.Tok == token.BREAK && br.Label == nil {
					leading = br
				}
			}
		}
		walkNoLit(body, func(m ast.Node) bool {
			switch y := m.(type) {
			case *ast.BranchStmt:
				if y == leading {
					return true
				}
				switch y.Tok {
				case token.GOTO:
					exits = append(exits, loopExit{fn, n.(ast.Stmt), desc, y, "goto"})
				case token.BREAK:
					if t := branchTarget(p, fn, y); t == nil || t == n || !insideNode(p, fn, t, n) {
						exits = append(exits, loopExit{fn, n.(ast.Stmt), desc, y, "break"})
					}
				}
			case *ast.ReturnStmt:
				// returning a failure aborts the operation, it does not truncate it
				if len(y.Results) > 0 {
					last := ast.Unparen(y.Results[len(y.Results)-1])
					if id, ok := last.(*ast.Ident); !ok || id.Name != "nil" {
						if fnReturnsError(p, fn) {
							return true
						}
					}
				}
				exits = append(exits, loopExit{fn, n.(ast.Stmt), desc, y, "return"})
			}
			return true
		})
		return true
	})
	return
}

// loopsComplete arms the rule over the functions selected by scope.
func loopsComplete(c *Ctx, r *Report, rule string, scope func(*Fn) bool, consequence string) {
	p := c.P
	nl, nbad := 0, 0
	for _, fn := range p.Fns {
		if fn.Orig != nil || !p.firstParty(fn.Pkg.Types) || !scope(fn) {
			continue
		}
		loops, exits := earlyLoopExits(p, fn)
		nl += loops
		for _, e := range exits {
			kind := "range"
			if _, ok := e.Loop.(*ast.ForStmt); ok {
				kind = "for"
			}
			if why, ok := loopExitExemptions[fn.Name+"|"+kind]; ok {
				r.List("loop in %s leaves early at %s: %s", fn.Name, p.Pos(e.Exit.Pos()), why)
				continue
			}
			nbad++
			r.Violate(rule, r.Key(rule, fn, "loop-exit", e.Desc), e.Exit.Pos(), fmt.Sprintf("the loop over %s in %s can be left by the %s at %s before every element was processed: %s", strings.TrimPrefix(e.Desc, "range "), fn.Name, e.What, p.Pos(e.Exit.Pos()), consequence))
		}
	}
	if nbad == 0 {
		r.Hold(rule, r.Key(rule, nil, "loops-complete", ""), token.NoPos, true, fmt.Sprintf("%d loops in scope process every element (error returns, searches and the two listed stops aside)", nl))
	}
	r.Floor(rule, "loops in scope", nl, 1)
}

// fnReturnsError: the last declared result of fn (or of the literal) is an error.
func fnReturnsError(p *Prog, fn *Fn) bool {
	if fn.Type == nil || fn.Type.Results == nil || len(fn.Type.Results.List) == 0 {
		return false
	}
	f := fn.Type.Results.List[len(fn.Type.Results.List)-1]
	return isErrorType(fn.Pkg.TypesInfo.TypeOf(f.Type))
}

// accReset is one reset of an accumulator inside the loop that fills it.
type accReset struct {
	Loop  ast.Stmt
	Var   types.Object
	Reset *ast.AssignStmt
}

// accumulatorResets lists, for every loop of fn, the variables declared outside the loop that the loop body
// extends with `x = append(x, …)`, that are read after the loop, and that the body also overwrites with a value
// not derived from x (what the earlier iterations collected is thrown away). An overwrite directly followed by
// leaving the loop (break/return in the same block) is the abandon-the-result idiom and is not listed.
func accumulatorResets(p *Prog, fn *Fn) (nacc int, out []accReset) {
	mentions := func(e ast.Expr, o types.Object) bool {
		found := false
		ast.Inspect(e, func(n ast.Node) bool {
			if id, ok := n.(*ast.Ident); ok && p.ObjOf(fn, id) == o {
				found = true
			}
			return !found
		})
		return found
	}
	walkNoLit(fn.Body, func(n ast.Node) bool {
		var body *ast.BlockStmt
		switch s := n.(type) {
		case *ast.RangeStmt:
			body = s.Body
		case *ast.ForStmt:
			body = s.Body
		default:
			return true
		}
		loop := n.(ast.Stmt)
		accs := map[types.Object]bool{}
		walkNoLit(body, func(m ast.Node) bool {
			as, ok := m.(*ast.AssignStmt)
			if !ok || as.Tok != token.ASSIGN || len(as.Lhs) != 1 || len(as.Rhs) != 1 {
				return true
			}
			id, ok := as.Lhs[0].(*ast.Ident)
			if !ok {
				return true
			}
			o := p.ObjOf(fn, id)
			if o == nil || (o.Pos() >= loop.Pos() && o.Pos() < loop.End()) {
				return true
			}
			if call, ok := ast.Unparen(as.Rhs[0]).(*ast.CallExpr); ok && p.Builtin(fn, call) == "append" && len(call.Args) > 0 && mentions(call.Args[0], o) {
				accs[o] = true
			}
			return true
		})
		for o := range accs {
			readAfter := false
			walkNoLit(fn.Body, func(m ast.Node) bool {
				if id, ok := m.(*ast.Ident); ok && id.Pos() >= loop.End() && p.ObjOf(fn, id) == o {
					readAfter = true
				}
				return !readAfter
			})
			if !readAfter {
				continue
			}
			nacc++
			var visit func(list []ast.Stmt)
			check := func(list []ast.Stmt) {
				leaves := false
				if len(list) > 0 {
					switch l := list[len(list)-1].(type) {
					case *ast.ReturnStmt:
						leaves = true
					case *ast.BranchStmt:
						leaves = l.Tok == token.BREAK || l.Tok == token.GOTO
					}
				}
				for _, st := range list {
					as, ok := st.(*ast.AssignStmt)
					if !ok || as.Tok != token.ASSIGN {
						continue
					}
					for i, l := range as.Lhs {
						id, ok := l.(*ast.Ident)
						if !ok || p.ObjOf(fn, id) != o {
							continue
						}
						var rhs ast.Expr
						if len(as.Rhs) == len(as.Lhs) {
							rhs = as.Rhs[i]
						}
						if rhs != nil && mentions(rhs, o) {
							continue
						}
						if leaves {
							continue
						}
						out = append(out, accReset{Loop: loop, Var: o, Reset: as})
					}
				}
			}
			visit = func(list []ast.Stmt) {
				check(list)
				for _, st := range list {
					walkNoLit(st, func(m ast.Node) bool {
						switch b := m.(type) {
						case *ast.BlockStmt:
							if m != st {
								visit(b.List)
								return false
							}
						case *ast.CaseClause:
							visit(b.Body)
							return false
						case *ast.CommClause:
							visit(b.Body)
							return false
						}
						return true
					})
				}
			}
			visit(body.List)
		}
		return true
	})
	sort.Slice(out, func(i, j int) bool { return out[i].Reset.Pos() < out[j].Reset.Pos() })
	return
}

// accumulatorsKept arms the rule over the functions selected by scope.
func accumulatorsKept(c *Ctx, r *Report, rule string, scope func(*Fn) bool, floor int, consequence string) {
	p := c.P
	n, nbad := 0, 0
	for _, fn := range p.Fns {
		if fn.Orig != nil || !p.firstParty(fn.Pkg.Types) || !scope(fn) {
			continue
		}
		k, resets := accumulatorResets(p, fn)
		n += k
		seen := map[token.Pos]bool{}
		for _, a := range resets {
			if seen[a.Reset.Pos()] {
				continue
			}
			seen[a.Reset.Pos()] = true
			nbad++
			r.Violate(rule, r.Key(rule, fn, "accumulator-reset", a.Var.Name()), a.Reset.Pos(), fmt.Sprintf("%s is filled by the loop at %s in %s and read after it, but the loop body overwrites it at %s with a value not derived from it: what the earlier iterations collected is dropped; %s", a.Var.Name(), p.Pos(a.Loop.Pos()), fn.Name, p.Pos(a.Reset.Pos()), consequence))
		}
	}
	if nbad == 0 {
		r.Hold(rule, r.Key(rule, nil, "accumulators-kept", ""), token.NoPos, true, fmt.Sprintf("%d accumulators in scope are only ever extended (or abandoned together with the loop) by the loops that fill them", n))
	}
	r.Floor(rule, "accumulators in scope", n, floor)
}

// appendCollects: the slice variable v of fn is an element-wise image of a source list built by appending:
// v starts empty (make with length 0, an empty literal, or a bare declaration), its only other definition is
// `v = append(v, x)` inside a range loop over the source, x is computed from that loop's element, the append
// runs for every element (only a failing return leaves the loop early), and v is handed to nothing else that
// could reorder it. isSrc recognises the source expression (after single-definition locals are resolved).
func appendCollects(p *Prog, fn *Fn, v types.Object, isSrc func(ast.Expr) bool) (bool, string) {
	if v == nil {
		return false, "no variable"
	}
	var appendStmt *ast.AssignStmt
	nEmpty, nOther := 0, 0
	bad := ""
	ast.Inspect(fn.Body, func(m ast.Node) bool {
		switch x := m.(type) {
		case *ast.AssignStmt:
			for i, l := range x.Lhs {
				if ie, ok := ast.Unparen(l).(*ast.IndexExpr); ok {
					if id, ok := ast.Unparen(ie.X).(*ast.Ident); ok && p.ObjOf(fn, id) == v {
						bad = "an element of the list is stored by position at " + p.Pos(x.Pos())
					}
				}
				id, ok := ast.Unparen(l).(*ast.Ident)
				if !ok || p.ObjOf(fn, id) != v {
					continue
				}
				if len(x.Lhs) != len(x.Rhs) {
					nOther++
					continue
				}
				rh := ast.Unparen(x.Rhs[i])
				if emptySliceExpr(p, fn, rh) {
					nEmpty++
					continue
				}
				if call, ok := rh.(*ast.CallExpr); ok && p.Builtin(fn, call) == "append" && len(call.Args) == 2 && !call.Ellipsis.IsValid() {
					if a0, ok := ast.Unparen(call.Args[0]).(*ast.Ident); ok && p.ObjOf(fn, a0) == v && appendStmt == nil {
						appendStmt = x
						continue
					}
				}
				nOther++
			}
		case *ast.ValueSpec:
			for i, nm := range x.Names {
				if p.ObjOf(fn, nm) == v {
					if len(x.Values) == 0 || (i < len(x.Values) && emptySliceExpr(p, fn, x.Values[i])) {
						nEmpty++
					} else {
						nOther++
					}
				}
			}
		case *ast.CallExpr:
			if b := p.Builtin(fn, x); b == "append" || b == "len" || b == "cap" {
				return true
			}
			for _, a := range x.Args {
				if id, ok := ast.Unparen(a).(*ast.Ident); ok && p.ObjOf(fn, id) == v {
					bad = "the list is handed to " + types.ExprString(x.Fun) + " at " + p.Pos(x.Pos())
				}
			}
		}
		return true
	})
	switch {
	case bad != "":
		return false, bad
	case appendStmt == nil || nEmpty != 1 || nOther != 0:
		return false, "the list is not built by one append onto an empty list"
	}
	loops := enclosingLoops(p, fn, appendStmt)
	if len(loops) == 0 {
		return false, "the append is not inside a loop"
	}
	rs, ok := loops[0].(*ast.RangeStmt)
	if !ok {
		return false, "the append is not inside a range loop"
	}
	over := ast.Unparen(rs.X)
	if id, ok := over.(*ast.Ident); ok {
		if d := p.SoleDef(fn, p.ObjOf(fn, id)); d != nil {
			over = ast.Unparen(d)
		}
	}
	if !isSrc(over) {
		return false, "the loop does not run over the source list (`" + types.ExprString(rs.X) + "`)"
	}
	elem, _ := rs.Value.(*ast.Ident)
	if elem == nil {
		return false, "the loop has no element variable"
	}
	eo := p.ObjOf(fn, elem)
	mentions := func(e ast.Expr) bool {
		found := false
		ast.Inspect(e, func(m ast.Node) bool {
			if id, ok := m.(*ast.Ident); ok && p.ObjOf(fn, id) == eo {
				found = true
			}
			return true
		})
		return found
	}
	x := appendStmt.Rhs[0].(*ast.CallExpr).Args[1]
	fromElem := mentions(x)
	if id, ok := ast.Unparen(x).(*ast.Ident); ok && !fromElem {
		xo := p.ObjOf(fn, id)
		ndef := 0
		walkNoLit(rs.Body, func(m ast.Node) bool {
			if as, ok := m.(*ast.AssignStmt); ok {
				for _, l := range as.Lhs {
					if lid, ok := ast.Unparen(l).(*ast.Ident); ok && p.ObjOf(fn, lid) == xo {
						ndef++
						for _, rh := range as.Rhs {
							if mentions(rh) {
								fromElem = true
							}
						}
					}
				}
			}
			return true
		})
		if ndef != 1 {
			fromElem = false
		}
	}
	if !fromElem {
		return false, "the appended value is not computed from the loop's element"
	}
	if ok, why := loopComplete(p, fn, appendStmt, 1, false, true); !ok {
		return false, why
	}
	return true, ""
}

// mayDropElements: fn builds a list in a loop and the step that adds an element does not run for every element
// of what the loop ranges over — it sits under a condition, or a conditional continue/break jumps past it. A
// filter or a de-duplication has this shape; an element-wise copy or conversion does not.
func mayDropElements(p *Prog, fn *Fn) (bool, string) {
	if fn == nil || fn.Body == nil {
		return false, ""
	}
	why := ""
	ast.Inspect(fn.Body, func(n ast.Node) bool {
		body := (*ast.BlockStmt)(nil)
		switch x := n.(type) {
		case *ast.RangeStmt:
			body = x.Body
		case *ast.ForStmt:
			body = x.Body
		}
		if body == nil || why != "" {
			return true
		}
		adds := func(m ast.Node) bool {
			found := false
			ast.Inspect(m, func(k ast.Node) bool {
				switch y := k.(type) {
				case *ast.CallExpr:
					if p.Builtin(fn, y) == "append" {
						found = true
					}
				case *ast.AssignStmt:
					for _, l := range y.Lhs {
						if ie, ok := ast.Unparen(l).(*ast.IndexExpr); ok {
							if t := p.TypeOf(fn, ie.X); t != nil {
								if _, isSl := t.Underlying().(*types.Slice); isSl {
									found = true
								}
							}
						}
					}
				}
				return true
			})
			return found
		}
		if !adds(body) {
			return true
		}
		ast.Inspect(body, func(m ast.Node) bool {
			switch y := m.(type) {
			case *ast.FuncLit:
				return false
			case *ast.IfStmt:
				jumps := false
				ast.Inspect(y, func(k ast.Node) bool {
					if br, ok := k.(*ast.BranchStmt); ok && (br.Tok == token.CONTINUE || br.Tok == token.BREAK) {
						jumps = true
					}
					return true
				})
				if jumps || adds(y.Body) || (y.Else != nil && adds(y.Else)) {
					why = "the loop at " + p.Pos(n.Pos()) + " adds an element only under the condition at " + p.Pos(y.Pos())
				}
			case *ast.SwitchStmt, *ast.TypeSwitchStmt:
				if adds(y) {
					why = "the loop at " + p.Pos(n.Pos()) + " adds an element only in some cases of the switch at " + p.Pos(y.Pos())
				}
			}
			return true
		})
		return true
	})
	return why != "", why
}
