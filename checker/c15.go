package main

// c15.go — iteration returns the requested range and always ends.

import (
	"fmt"
	"go/ast"
	"go/token"
	"go/types"
	"strings"

	"golang.org/x/tools/go/ssa"
)

func init() {
	register(&PropSpec{ID: "C15", Level: "other", Run: runC15,
		Explanation: "Decides, for all values of the caller-supplied amount and bounds, on every path of Iterator: (R-C15.1) every slice/index whose bound derives from IteratorOptions.Amount is proved in range from dominating checks (linear facts, Fourier–Motzkin); (R-C15.2) every success return (nil error) is preceded on all paths by close(output); (R-C15.3) every failed lookup of a bound hash leads only to non-nil error returns; (R-C15.4) no send on the output channel while the log lock is held. (R-C15.10) the loops that gather the start set never overwrite what earlier bounds contributed; (R-C15.11) the positional cut that removes an exclusive lower bound takes exactly one element off the end (E3: len(after) = len(before) − 1) and the length tests of Iterator separate the empty list from the others; (R-C15.12) success is returned without touching the log only with an amount known to be zero; (R-C15.13) the limit variables start from negative constants. Not covered: that the emitted set is the causal past between the bounds for every DAG, ordering beyond the traversal's sort discipline, 'nearest the lower bound'.",
		Assumptions: []string{"machine-integer overflow of the small bound expressions is ignored"},
	})
}

func runC15(c *Ctx, r *Report) {
	p := c.P
	it := p.FuncI("", "IPFSLog", "Iterator")
	r.Doc("R-C15.1", "amount-tainted slice/index bounds in Iterator proved in range for all values")
	r.Doc("R-C15.2", "close(output) on every path to a success return")
	r.Doc("R-C15.3", "a failed lookup of a bound hash only reaches error returns")
	r.Doc("R-C15.4", "no channel send while IPFSLog.lock is held")
	r.Doc("control", "engine positive/negative controls analysed on every run")
	lenControls(c, r, "control")

	armed, _ := sinkObligations(c, r, "R-C15.1", it, false)
	r.Floor("R-C15.1", "amount-tainted sinks in Iterator", armed, 1)

	// R-C15.2
	var out types.Object
	for i := 0; ; i++ {
		o := paramObj(it, i)
		if o == nil {
			break
		}
		if _, ok := o.Type().Underlying().(*types.Chan); ok {
			out = o
		}
	}
	if out == nil {
		infra("unresolved anchor: Iterator's output channel parameter")
	}
	fl := &Flow{P: p, Fn: it, Entry: Facts{}}
	fl.Node = func(n ast.Node, f Facts) {
		walkNoLit(n, func(nd ast.Node) bool {
			if call, ok := nd.(*ast.CallExpr); ok && p.Builtin(it, call) == "close" && len(call.Args) == 1 {
				if id, ok := ast.Unparen(call.Args[0]).(*ast.Ident); ok && p.ObjOf(it, id) == out {
					f["closed"] = true
				}
			}
			return true
		})
	}
	// argument-validation prefix: returns before the options were validated are misuse errors (non-nil) anyway
	fl.Run()
	nsucc := 0
	fl.Exits(func(_ *cfgBlk, ret *ast.ReturnStmt, at Facts) {
		if ret == nil {
			return
		}
		isNil, hasErr := errResultIsNil(p, it, ret)
		if !hasErr || !isNil {
			return
		}
		nsucc++
		r.Check(at["closed"], "R-C15.2", r.Key("R-C15.2", it, "success-return", ""), ret.Pos(),
			"success return reached only after close(output)",
			"Iterator returns nil without closing the output channel on this path: a consumer ranging over the channel blocks forever")
	})
	r.Floor("R-C15.2", "success returns of Iterator", nsucc, 1)

	// R-C15.3 (over Iterator and its literals: the locked part may live in a closure)
	nLookups := 0
	for _, fx := range p.AllViews(it) {
		okVars := map[types.Object]*ast.CallExpr{}
		walkNoLit(fx.Body, func(n ast.Node) bool {
			as, ok := n.(*ast.AssignStmt)
			if !ok || len(as.Lhs) != 2 || len(as.Rhs) != 1 {
				return true
			}
			call, ok := ast.Unparen(as.Rhs[0]).(*ast.CallExpr)
			if !ok {
				return true
			}
			cf := p.Callee(fx, call)
			if cf == nil || cf.Name() != "Get" {
				return true
			}
			if rv := cf.Type().(*types.Signature).Recv(); rv == nil || !isNamed(rv.Type(), p.pkgPath("iface"), "IPFSLogOrderedEntries") {
				return true
			}
			if id, ok := as.Lhs[1].(*ast.Ident); ok && id.Name != "_" {
				okVars[p.ObjOf(fx, id)] = call
			}
			return true
		})
		nLookups += len(okVars)
		if len(okVars) == 0 {
			continue
		}
		mf := &Flow{P: p, Fn: fx, May: true, Entry: Facts{}}
		mf.Edge = func(cond ast.Expr, taken bool, f Facts) {
			for _, a := range splitCond(cond, taken) {
				if id, ok := ast.Unparen(a.E).(*ast.Ident); ok && !a.Truth {
					if o := p.ObjOf(fx, id); okVars[o] != nil {
						f["failed|"+p.ID(o)] = true
					}
				}
			}
			errCorr{p, fx, "failed|"}.edge(cond, taken, f)
		}
		ec := errCorr{p, fx, "failed|"}
		mf.Node = func(n ast.Node, f Facts) {
			for _, id := range assignedIdents(n) {
				if o := p.ObjOf(fx, id); o != nil {
					delete(f, "failed|"+p.ID(o))
				}
			}
			ec.node(n, f)
		}
		mf.Run()
		bad := map[types.Object]string{}
		mf.Visit(func(_ *cfgBlk, n ast.Node, before Facts) {
			// continuing to the traversal (or any send) after a failed lookup
			walkNoLit(n, func(nd ast.Node) bool {
				if call, ok := nd.(*ast.CallExpr); ok {
					if cf := p.Callee(fx, call); cf != nil && cf.Name() == "traverse" {
						for o := range okVars {
							if before["failed|"+p.ID(o)] {
								bad[o] = "the traversal at " + p.Pos(call.Pos())
							}
						}
					}
				}
				return true
			})
		})
		mf.Exits(func(_ *cfgBlk, ret *ast.ReturnStmt, at Facts) {
			if ret == nil {
				return
			}
			if isNil, hasErr := errResultIsNil(p, fx, ret); hasErr && isNil {
				for o := range okVars {
					if at["failed|"+p.ID(o)] {
						bad[o] = "a success return at " + p.Pos(ret.Pos())
					}
				}
			}
		})
		for o, call := range okVars {
			r.Check(bad[o] == "", "R-C15.3", r.Key("R-C15.3", fx, "lookup", types.ExprString(call.Args[0])), call.Pos(),
				"a failed lookup leads only to error returns",
				fmt.Sprintf("after this lookup fails control can reach %s: an unknown bound is silently ignored instead of reported", bad[o]))
		}
	}
	r.Floor("R-C15.3", "bound-hash lookups in Iterator", nLookups, 1)

	// R-C15.6: with an upper bound option the start set never falls back to the heads
	r.Doc("R-C15.6", "on a path where an upper-bound option (LT/LTE) was seen, the start set handed to the traversal is never (re)assigned from the log's heads")
	r.Doc("R-C15.7", "entries are emitted newest first and counted once: the traversal sorts its start set, re-sorts after every growth before taking the next entry, and marks every taken entry visited before pushing its predecessors (causally related upper bounds are not counted twice against the amount)")
	r.Doc("R-C15.11", "an exclusive lower bound removes exactly the bound: the positional cut of the emitted list takes one element off its end, and the test on the list's length that guards it separates the empty list from the others")
	{
		ncut, ntest := 0, 0
		for _, f := range AllFnsUnder(it) {
			sf := p.SSAFunc(f)
			if sf == nil {
				continue
			}
			lp := NewLenProver(p, sf)
			allInstrs(sf, false, func(ins ssa.Instruction) {
				sl, ok := ins.(*ssa.Slice)
				if !ok || sl.High == nil || sl.Low != nil {
					return
				}
				st, ok := sl.X.Type().Underlying().(*types.Slice)
				if !ok || !isNamed(st.Elem(), p.pkgPath("iface"), "IPFSLogEntry") {
					return
				}
				ncut++
				res, x := lp.lenTerm(sl), lp.lenTerm(sl.X)
				up := res.add(x, -1).add(linConst(1), 1)    // len(res) - len(x) + 1 <= 0
				down := x.add(res, -1).add(linConst(1), -1) // len(x) - len(res) - 1 <= 0
				ok1, _, _ := lp.ProveAt(sl.Block(), sl, []lin{up})
				ok2, _, _ := lp.ProveAt(sl.Block(), sl, []lin{down})
				pos := sl.Pos()
				if !pos.IsValid() {
					pos = nearestPos(sl)
				}
				r.Check(ok1 && ok2, "R-C15.11", r.Key("R-C15.11", f, "cut-one", ""), pos, "len(after) = len(before) − 1 proved",
					"the cut that removes the exclusive lower bound from the emitted list does not take exactly one element off its end: the bound itself is emitted, or an entry above it is lost")
			})
		}
		// the guard: tests of len(<entry list>) against a constant in Iterator separate 0 from the rest
		for _, fn := range p.AllViews(it) {
			walkNoLit(fn.Body, func(n ast.Node) bool {
				ifs, ok := n.(*ast.IfStmt)
				if !ok {
					return true
				}
				isLenOfEntries := func(e ast.Expr) bool {
					call, ok := ast.Unparen(e).(*ast.CallExpr)
					if !ok || p.Builtin(fn, call) != "len" || len(call.Args) != 1 {
						return false
					}
					_, ok = p.TypeOf(fn, call.Args[0]).Underlying().(*types.Slice)
					return ok // the emitted list, and the lists of bounds the caller gave
				}
				for _, alt := range dnfCond(ifs.Cond, true) {
					for _, a := range alt {
						nc, ok := p.normalizeCmp(fn, a, isLenOfEntries)
						if !ok {
							continue
						}
						ntest++
						exact := (nc.Op == token.GTR && nc.C == 0) || (nc.Op == token.GEQ && nc.C == 1) || (nc.Op == token.NEQ && nc.C == 0) ||
							(nc.Op == token.LEQ && nc.C == 0) || (nc.Op == token.LSS && nc.C == 1) || (nc.Op == token.EQL && nc.C == 0)
						r.Check(exact, "R-C15.11", r.Key("R-C15.11", fn, "empty-test", ""), a.E.Pos(), "the test separates the empty list from the others",
							"Iterator tests the length of a list with `"+types.ExprString(a.E)+"`, which does not separate the empty list from the others: with exactly one element (the exclusive bound left in the emitted list, a single upper bound given) the wrong branch is taken — the bound is emitted, or the iteration starts from the heads instead of the bound")
					}
				}
				return true
			})
		}
		if ncut == 0 {
			r.Hold("R-C15.11", r.Key("R-C15.11", nil, "no-positional-cut", ""), token.NoPos, true, "Iterator removes nothing from the end of the emitted list by position")
		}
		_ = ntest
	}
	r.Doc("R-C15.12", "Iterator answers with an empty, closed channel without looking at the log only when the requested amount is zero")
	{
		// success returns that are reached without passing a send on the output channel and without the traversal
		ef := &Flow{P: p, Fn: it, Entry: Facts{}}
		mentionsAmount := func(e ast.Expr) bool {
			found := false
			ast.Inspect(e, func(m ast.Node) bool {
				if se, ok := m.(*ast.SelectorExpr); ok && se.Sel.Name == "Amount" {
					found = true
				}
				return !found
			})
			return found
		}
		amountVars := map[types.Object]bool{}
		walkNoLit(it.Body, func(n ast.Node) bool {
			if as, ok := n.(*ast.AssignStmt); ok && len(as.Lhs) == len(as.Rhs) {
				for i, l := range as.Lhs {
					if id, ok := ast.Unparen(l).(*ast.Ident); ok && mentionsAmount(as.Rhs[i]) {
						if o := p.ObjOf(it, id); o != nil {
							amountVars[o] = true
						}
					}
				}
			}
			return true
		})
		isAmount := func(e ast.Expr) bool {
			if !isIntType(p.TypeOf(it, e)) {
				return false
			}
			if mentionsAmount(e) {
				return true
			}
			id, ok := ast.Unparen(e).(*ast.Ident)
			return ok && amountVars[p.ObjOf(it, id)]
		}
		ef.Edge = func(cond ast.Expr, taken bool, f Facts) {
			for _, a := range splitCond(cond, taken) {
				if nc, ok := p.normalizeCmp(it, a, isAmount); ok && nc.impliesNonPositive() && nc.holdsAt(0) {
					f["zero-amount"] = true
				}
			}
		}
		ef.Run()
		// "untouched": no path fact but a may-fact — some path reaches here without having locked the log or
		// started the traversal (error paths of a spliced-in helper merge with its success path, so the
		// opposite must-fact would be lost there)
		touches := func(fn *Fn, call *ast.CallExpr) bool {
			if cf := p.Callee(fn, call); cf != nil && cf.Pkg() != nil && cf.Pkg().Path() == "sync" && (cf.Name() == "RLock" || cf.Name() == "Lock") {
				return true
			}
			return c.CallReaches(fn, call, func(f2 *types.Func) bool { return f2.Name() == "traverse" && p.firstParty(f2.Pkg()) })
		}
		uf := &Flow{P: p, Fn: it, May: true, Entry: Facts{"untouched": true}}
		uf.Node = func(n ast.Node, f Facts) {
			walkNoLit(n, func(nd ast.Node) bool {
				switch x := nd.(type) {
				case *ast.CallExpr:
					if touches(it, x) {
						delete(f, "untouched")
					}
				case *ast.FuncLit:
					if lf := p.ByLit[x]; lf != nil {
						ast.Inspect(x.Body, func(m ast.Node) bool {
							if c2, ok := m.(*ast.CallExpr); ok && touches(lf, c2) {
								delete(f, "untouched")
							}
							return true
						})
					}
				}
				return true
			})
		}
		uf.Run()
		untouchedAt := map[*ast.ReturnStmt]bool{}
		uf.Exits(func(_ *cfgBlk, ret *ast.ReturnStmt, at Facts) {
			if ret != nil && at["untouched"] {
				untouchedAt[ret] = true
			}
		})
		nearly := 0
		ef.Exits(func(_ *cfgBlk, ret *ast.ReturnStmt, at Facts) {
			if ret == nil || !untouchedAt[ret] {
				return
			}
			isNil, hasErr := errResultIsNil(p, it, ret)
			if !hasErr || !isNil {
				return
			}
			nearly++
			r.Check(at["zero-amount"], "R-C15.12", r.Key("R-C15.12", it, "early-success", ""), ret.Pos(), "the early success return is reached only with an amount known to be zero",
				"Iterator returns success without having looked at the log on a path where the requested amount is not known to be zero: a request for one (or more) entries is answered with none")
		})
		if nearly == 0 {
			r.Hold("R-C15.12", r.Key("R-C15.12", nil, "no-early-success", ""), token.NoPos, true, "every success return of Iterator follows the traversal")
		}
	}
	r.Doc("R-C15.13", "the constants Iterator's limit variables start from mean 'no limit': a local that is sign-tested as a limit, or handed to the traversal as its count, is only ever set to a negative constant or to the caller's amount")
	{
		limitVars := map[types.Object]bool{}
		for _, fn := range p.AllViews(it) {
			walkNoLit(fn.Body, func(n ast.Node) bool {
				switch x := n.(type) {
				case *ast.IfStmt:
					for _, alt := range dnfCond(x.Cond, true) {
						for _, a := range alt {
							var subj types.Object
							nc, ok := p.normalizeCmp(fn, a, func(e ast.Expr) bool {
								id, ok := ast.Unparen(e).(*ast.Ident)
								if !ok {
									return false
								}
								v, isVar := p.ObjOf(fn, id).(*types.Var)
								if !isVar || v.IsField() || !isIntType(v.Type()) {
									return false
								}
								subj = v
								return true
							})
							if ok && subj != nil && (nc.impliesNonNegative() && nc.C <= 0 || nc.impliesNegative()) {
								limitVars[subj] = true
							}
						}
					}
				case *ast.CallExpr:
					if cf := p.Callee(fn, x); cf != nil && cf.Name() == "traverse" {
						for _, a := range x.Args {
							if id, ok := ast.Unparen(a).(*ast.Ident); ok {
								if v, isVar := p.ObjOf(fn, id).(*types.Var); isVar && isIntType(v.Type()) {
									limitVars[v] = true
								}
							}
						}
					}
				}
				return true
			})
		}
		nconst := 0
		for _, fn := range p.AllViews(it) {
			walkNoLit(fn.Body, func(n ast.Node) bool {
				as, ok := n.(*ast.AssignStmt)
				if !ok || len(as.Lhs) != len(as.Rhs) {
					return true
				}
				for i, l := range as.Lhs {
					id, ok := ast.Unparen(l).(*ast.Ident)
					if !ok || !limitVars[p.ObjOf(fn, id)] {
						continue
					}
					v, isC := p.constInt(fn, as.Rhs[i])
					if !isC {
						continue
					}
					nconst++
					r.Check(v < 0, "R-C15.13", r.Key("R-C15.13", fn, "sentinel", id.Name), as.Pos(), fmt.Sprintf("%s starts from %d (no limit)", id.Name, v),
						fmt.Sprintf("%s is set to the constant %d, which the later tests read as a limit of %d entries rather than as 'no limit': an iteration without an amount emits nothing (or one entry)", id.Name, v, v))
				}
				return true
			})
		}
		if nconst == 0 {
			r.Hold("R-C15.13", r.Key("R-C15.13", nil, "no-sentinel", ""), token.NoPos, true, "no limit variable of Iterator is set from a constant")
		}
	}
	r.Doc("R-C15.10", "the starting set of an iteration collects something for every given bound: the loop that gathers it never overwrites what earlier bounds contributed")
	iterReach := c.CG.Reach([]*Fn{p.Func("", "IPFSLog", "Iterator")}, false)
	accumulatorsKept(c, r, "R-C15.10", func(fn *Fn) bool { _, ok := iterReach[fn.Root()]; return ok && inPkgs(p, fn, "", "entry") }, 2, "the entries below the earlier bounds are never emitted")
	importRules(c, r, "C03", []string{"R-C03.2", "R-C03.3"}, "R-C15.7")
	r.Doc("R-C15.14", "'newest first' rests on every appended entry carrying a time above its heads (adopted from C04)")
	importRules(c, r, "C04", []string{"R-C04.2"}, "R-C15.14")
	r.Doc("R-C15.16", "every bundled ordering orders by clock time first (adopted from C19: 'newest first' of a log configured with a bundled ordering that puts the clock id before the time lets an old entry of one writer outrank newer entries of another)")
	importRules(c, r, "C19", []string{"R-C19.1"}, "R-C15.16")
	r.Doc("R-C15.15", "every slice or map is allocated with a constant size or a size bounded by a collection that exists (len, cap, Len(), a minimum with one of them), through every call site of a sizing parameter: an amount that exceeds what is available must not size anything")
	allocationsBoundedByWhatExists(c, r, "R-C15.15")
	r.Doc("R-C15.8", "the loops that build the start set from the upper bounds process every bound")
	loopsComplete(c, r, "R-C15.8", func(fn *Fn) bool { return rootNamed(fn, "Iterator") }, "upper bounds after the point where the loop stops are ignored: their causal past is not emitted")
	r.Doc("R-C15.9", "the number of entries the traversal may take is either unlimited (−1, trimmed afterwards) or the requested amount itself — never a larger computed value")
	{
		it := p.FuncI("", "IPFSLog", "Iterator")
		ncount := 0
		visit := func(f func(ins ssa.Instruction)) {
			// Iterator, its closures, and the helpers that only it calls
			for _, g := range p.ssaGroup(p.SSAFunc(it)) {
				allInstrs(g, true, f)
			}
		}
		visit(func(ins ssa.Instruction) {
			call, ok := ins.(*ssa.Call)
			if !ok {
				return
			}
			if f := calleeOf(call); f == nil || f.Name() != "traverse" || len(call.Call.Args) < 3 {
				return
			}
			ncount++
			bad := ""
			var leaves func(v ssa.Value, depth int)
			leaves = func(v ssa.Value, depth int) {
				if depth > 8 {
					bad = "a value the rule cannot trace"
					return
				}
				switch x := v.(type) {
				case *ssa.Phi:
					for _, e := range x.Edges {
						leaves(e, depth+1)
					}
				case *ssa.Const:
					// any negative constant means "no limit"; a constant bound is not larger than itself (what the
					// limit variables start from is R-C15.13)
					if x.Value == nil {
						bad = "the constant " + x.String()
					}
				case *ssa.UnOp:
					if x.Op == token.MUL {
						// a load: of the Amount option (through its pointer) or of a local cell holding it
						switch a := x.X.(type) {
						case *ssa.Alloc, *ssa.FreeVar:
							for _, st := range cellStores(a) {
								leaves(st.Val, depth+1)
							}
							return
						}
						if f, _ := fieldOf(x.X); f != nil && f.Name() == "Amount" {
							return
						}
						if inner, ok := x.X.(*ssa.UnOp); ok && inner.Op == token.MUL {
							if f, _ := fieldOf(inner.X); f != nil && f.Name() == "Amount" {
								return
							}
						}
						bad = "a value loaded from " + x.X.String()
						return
					}
					bad = "a computed value"
				case *ssa.Parameter:
					// a helper of Iterator: the count is what its call sites hand in
					idx, found := -1, false
					if x.Parent() != nil {
						for i, pp := range x.Parent().Params {
							if pp == x {
								idx = i
							}
						}
					}
					for _, g := range p.ssaGroup(p.SSAFunc(it)) {
						allInstrs(g, true, func(ins ssa.Instruction) {
							if c2, ok := ins.(*ssa.Call); ok && c2.Call.StaticCallee() == x.Parent() && idx >= 0 && idx < len(c2.Call.Args) {
								found = true
								leaves(c2.Call.Args[idx], depth+1)
							}
						})
					}
					if !found {
						bad = "a parameter the rule cannot trace to the amount"
					}
				case *ssa.Call:
					name := "a call"
					if cal := x.Call.StaticCallee(); cal != nil {
						name = cal.Name() + "(…)"
					} else if b, ok := x.Call.Value.(*ssa.Builtin); ok {
						name = b.Name() + "(…)"
					}
					bad = "the result of " + name
				case *ssa.BinOp:
					bad = "the result of arithmetic (" + x.Op.String() + ")"
				default:
					bad = "a computed value"
				}
			}
			leaves(call.Call.Args[2], 0)
			r.Check(bad == "", "R-C15.9", r.Key("R-C15.9", it, "traverse-count", ""), call.Pos(), "the traversal count is −1 or the requested amount itself",
				"the count handed to the traversal can be "+bad+" instead of the requested amount (or −1): with several starting entries more entries than requested are emitted")
		})
		r.Floor("R-C15.9", "traversals started by Iterator", ncount, 1)
	}
	headsField := p.Field("", "IPFSLog", "heads")
	ltF, lteF := p.Field("iface", "IteratorOptions", "LT"), p.Field("iface", "IteratorOptions", "LTE")
	nhs := 0
	for _, fx := range p.AllViews(it) {
		bf := &Flow{P: p, Fn: fx, May: true, Entry: Facts{}}
		bf.Edge = func(cond ast.Expr, taken bool, f Facts) {
			for _, a := range splitCond(cond, taken) {
				if x, isNil, ok := nilTest(a); ok && !isNil {
					if v, _ := p.FieldSel(fx, x); v == ltF || v == lteF {
						f["boundGiven"] = true
					}
				}
			}
		}
		bf.Run()
		bf.Visit(func(_ *cfgBlk, n ast.Node, before Facts) {
			walkNoLit(n, func(nd ast.Node) bool {
				as, ok := nd.(*ast.AssignStmt)
				if !ok {
					return true
				}
				for i, l := range as.Lhs {
					id, ok := ast.Unparen(l).(*ast.Ident)
					if !ok || i >= len(as.Rhs) {
						continue
					}
					if sl, ok := p.TypeOf(fx, id).Underlying().(*types.Slice); !ok || !isNamed(sl.Elem(), p.pkgPath("iface"), "IPFSLogEntry") {
						continue
					}
					mentionsHeads := false
					ast.Inspect(as.Rhs[i], func(m ast.Node) bool {
						if e, ok := m.(ast.Expr); ok {
							if v, _ := p.FieldSel(fx, e); v == headsField {
								mentionsHeads = true
							}
						}
						return true
					})
					if !mentionsHeads {
						continue
					}
					nhs++
					r.Check(!before["boundGiven"], "R-C15.6", r.Key("R-C15.6", fx, "start-from-heads", id.Name), as.Pos(),
						"the start set is taken from the heads only before/without an upper-bound option", "the start set is (re)assigned from the log's heads on a path where an LT/LTE bound was given: a bound that selects nothing (exclusive bound at a root entry, empty list) silently iterates the whole log instead")
				}
				return true
			})
		})
	}
	r.Floor("R-C15.6", "assignments of the start set from the heads", nhs, 1)

	// R-C15.17: whether a bound replaces the default start set is decided by the option alone
	r.Doc("R-C15.17", "an assignment that replaces the start set (a variable that is also assigned from the heads) by something else is guarded only by tests of the LT/LTE option itself, never by what the lookups collected — unless the other arm replaces it too")
	nrep := 0
	for _, fx := range p.AllViews(it) {
		info := fx.Pkg.TypesInfo
		// the start variables: entry slices with an assignment that mentions the heads
		startVars := map[types.Object]bool{}
		mentions := func(e ast.Expr, want func(ast.Expr) bool) bool {
			hit := false
			ast.Inspect(e, func(m ast.Node) bool {
				if x, ok := m.(ast.Expr); ok && want(x) {
					hit = true
				}
				return !hit
			})
			return hit
		}
		isHeads := func(e ast.Expr) bool { v, _ := p.FieldSel(fx, e); return v != nil && v == headsField }
		walkNoLit(fx.Body, func(nd ast.Node) bool {
			if as, ok := nd.(*ast.AssignStmt); ok {
				for i, l := range as.Lhs {
					if id, ok := ast.Unparen(l).(*ast.Ident); ok && i < len(as.Rhs) && mentions(as.Rhs[i], isHeads) {
						if o := info.ObjectOf(id); o != nil {
							startVars[o] = true
						}
					}
				}
			}
			return true
		})
		if len(startVars) == 0 {
			continue
		}
		assignsStart := func(n ast.Node) bool {
			hit := false
			if n == nil {
				return false
			}
			walkNoLit(n, func(nd ast.Node) bool {
				if as, ok := nd.(*ast.AssignStmt); ok {
					for _, l := range as.Lhs {
						if id, ok := ast.Unparen(l).(*ast.Ident); ok && startVars[info.ObjectOf(id)] {
							hit = true
						}
					}
				}
				return !hit
			})
			return hit
		}
		// what a guard reads besides the option
		foreign := func(cond ast.Expr) string {
			out := ""
			var walk func(e ast.Expr)
			walk = func(e ast.Expr) {
				if out != "" || e == nil {
					return
				}
				switch x := ast.Unparen(e).(type) {
				case *ast.BinaryExpr:
					walk(x.X)
					walk(x.Y)
				case *ast.UnaryExpr:
					walk(x.X)
				case *ast.BasicLit:
				case *ast.CallExpr:
					if id, ok := ast.Unparen(x.Fun).(*ast.Ident); ok {
						if _, isB := info.ObjectOf(id).(*types.Builtin); isB && id.Name == "len" && len(x.Args) == 1 {
							walk(x.Args[0])
							return
						}
					}
					out = "the result of " + types.ExprString(x.Fun) + "(…)"
				case *ast.SelectorExpr:
					if v, _ := p.FieldSel(fx, x); v != nil && (v == ltF || v == lteF) {
						return
					}
					out = types.ExprString(x)
				case *ast.Ident:
					switch o := info.ObjectOf(x).(type) {
					case *types.Nil, *types.Const:
					case *types.Var:
						if d := p.SoleDef(fx, o); d != nil {
							walk(d)
							if out != "" {
								out = "the local " + x.Name + " (filled by the lookups)"
							}
							return
						}
						out = "the local " + x.Name
					default:
						out = x.Name
					}
				default:
					out = types.ExprString(e)
				}
			}
			walk(cond)
			return out
		}
		var stack []ast.Node
		ast.Inspect(fx.Body, func(nd ast.Node) bool {
			if nd == nil {
				stack = stack[:len(stack)-1]
				return true
			}
			if _, ok := nd.(*ast.FuncLit); ok {
				return false
			}
			stack = append(stack, nd)
			as, ok := nd.(*ast.AssignStmt)
			if !ok {
				return true
			}
			for i, l := range as.Lhs {
				id, ok := ast.Unparen(l).(*ast.Ident)
				if !ok || i >= len(as.Rhs) || !startVars[info.ObjectOf(id)] {
					continue
				}
				o := info.ObjectOf(id)
				if mentions(as.Rhs[i], isHeads) || mentions(as.Rhs[i], func(e ast.Expr) bool {
					x, ok := e.(*ast.Ident)
					return ok && info.ObjectOf(x) == o
				}) {
					continue // the default itself, or an accumulation onto the variable
				}
				nrep++
				bad := ""
				var badPos ast.Node
				for k := len(stack) - 2; k >= 0 && bad == ""; k-- {
					if _, ok := stack[k].(*ast.FuncLit); ok {
						break
					}
					ifs, ok := stack[k].(*ast.IfStmt)
					if !ok {
						continue
					}
					child := stack[k+1]
					other := ast.Node(ifs.Else)
					if child == ifs.Else {
						other = ifs.Body
					} else if child != ast.Node(ifs.Body) {
						continue // the assignment sits in the init or the condition
					}
					if other != nil && assignsStart(other) {
						continue
					}
					if f := foreign(ifs.Cond); f != "" {
						bad, badPos = f, ifs
					}
				}
				pos := as.Pos()
				if badPos != nil {
					pos = badPos.Pos()
				}
				r.Check(bad == "", "R-C15.17", r.Key("R-C15.17", fx, "start-replaced", id.Name), pos,
					"the bound replaces the default start set under tests of the option only",
					"whether the start set is replaced by the bound's entries depends on "+bad+": a bound that selects nothing (an exclusive upper bound at a root entry) leaves the heads in place and the whole log is emitted instead of nothing")
			}
			return true
		})
	}
	r.Floor("R-C15.17", "replacements of the default start set", nrep, 2)

	r.Doc("R-C15.5", "the traversal stops taking entries once it reached the lower-bound hash")
	endHashStops(c, r, "R-C15.5")

	// R-C15.4
	le := repoLockEngine(c)
	nsend := 0
	if lf := le.flows[orig(it)]; lf != nil {
		lf.Visit(func(_ *cfgBlk, n ast.Node, before Facts) {
			walkNoLit(n, func(nd ast.Node) bool {
				if s, ok := nd.(*ast.SendStmt); ok {
					nsend++
					held := false
					for k := range before {
						if strings.HasPrefix(k, "H|") && strings.Contains(k, "|IPFSLog.lock|") {
							held = true
						}
					}
					r.Check(!held, "R-C15.4", r.Key("R-C15.4", it, "send", ""), s.Pos(), "send on the output channel with no log lock held",
						"send on the output channel while the log's lock is held: a consumer that calls back into the log deadlocks against a waiting writer")
				}
				return true
			})
		})
	}
	r.Floor("R-C15.4", "channel sends in Iterator", nsend, 1)
}
