package main

// allocsize.go — allocation sizes. A slice or map is allocated with a size that is a constant or is bounded by
// the size of a collection that exists (len, cap, Len(), a minimum with one of those). A size that comes from a
// caller's request — an amount, a length limit, a size bound — is not bounded by anything: a request larger
// than what exists allocates for the request (out of memory, or a run-time panic for sizes beyond the limit),
// where the operation is specified to return what is available.

import (
	"fmt"
	"go/ast"
	"go/token"
	"go/types"
	"sort"
	"strings"
)

type allocSizes struct {
	p    *Prog
	busy map[types.Object]bool
}

// bounded: why == "" when the expression is bounded by what exists; otherwise what it depends on.
func (a *allocSizes) bounded(fn *Fn, e ast.Expr, depth int) string {
	p := a.p
	e = ast.Unparen(e)
	if tv, ok := fn.Pkg.TypesInfo.Types[e]; ok && tv.Value != nil {
		return "" // constant
	}
	switch x := e.(type) {
	case *ast.BasicLit:
		return ""
	case *ast.CallExpr:
		switch p.Builtin(fn, x) {
		case "len", "cap":
			return ""
		case "min":
			worst := ""
			for _, arg := range x.Args {
				w := a.bounded(fn, arg, depth)
				if w == "" {
					return ""
				}
				worst = w
			}
			return worst
		case "max":
			for _, arg := range x.Args {
				if w := a.bounded(fn, arg, depth); w != "" {
					return w
				}
			}
			return ""
		}
		if tv, ok := fn.Pkg.TypesInfo.Types[x.Fun]; ok && tv.IsType() && len(x.Args) == 1 {
			return a.bounded(fn, x.Args[0], depth)
		}
		if se, ok := ast.Unparen(x.Fun).(*ast.SelectorExpr); ok && (se.Sel.Name == "Len" || se.Sel.Name == "Size") && len(x.Args) == 0 {
			return ""
		}
		// a first-party helper that returns the smaller (larger) of its two arguments is a min (max)
		if cf := p.Callee(fn, x); cf != nil && p.firstParty(cf.Pkg()) && len(x.Args) == 2 {
			switch minMaxHelper(p, p.ByObj[cf]) {
			case "min":
				w1 := a.bounded(fn, x.Args[0], depth)
				if w1 == "" {
					return ""
				}
				return a.bounded(fn, x.Args[1], depth)
			case "max":
				if w := a.bounded(fn, x.Args[0], depth); w != "" {
					return w
				}
				return a.bounded(fn, x.Args[1], depth)
			}
		}
		// a function of bounded arguments (hex.EncodedLen(len(b)), a maximum of two lengths, …) is bounded
		if _, isMethod := ast.Unparen(x.Fun).(*ast.SelectorExpr); len(x.Args) > 0 || !isMethod || p.Callee(fn, x) == nil || p.Callee(fn, x).Type().(*types.Signature).Recv() == nil {
			for _, arg := range x.Args {
				if w := a.bounded(fn, arg, depth); w != "" {
					return "the result of " + types.ExprString(x.Fun) + " over " + w
				}
			}
			return ""
		}
		return "the result of " + types.ExprString(x.Fun)
	case *ast.BinaryExpr:
		switch x.Op {
		case token.ADD, token.SUB, token.MUL:
			if w := a.bounded(fn, x.X, depth); w != "" {
				return w
			}
			return a.bounded(fn, x.Y, depth)
		case token.QUO, token.REM, token.SHR, token.AND:
			return a.bounded(fn, x.X, depth)
		}
		return "`" + types.ExprString(e) + "`"
	case *ast.StarExpr:
		return "`" + types.ExprString(e) + "` (a value the caller supplies)"
	case *ast.SelectorExpr:
		return "`" + types.ExprString(e) + "` (a field, not the size of a collection)"
	case *ast.Ident:
		o := p.ObjOf(fn, x)
		v, ok := o.(*types.Var)
		if !ok {
			return "`" + x.Name + "`"
		}
		if d := p.SoleDef(p.EnclosingFn(x), v); d != nil {
			return a.bounded(p.EnclosingFn(x), d, depth)
		}
		// a parameter: bounded when every call site in the tree passes a bounded argument
		root := fn.Root()
		for f := fn; f != nil; f = f.Parent {
			for i := 0; ; i++ {
				po := paramObjAny(f, i)
				if po == nil {
					break
				}
				if po != o {
					continue
				}
				if f != root || f.Obj == nil || depth >= 4 || a.busy[o] {
					return "the parameter `" + x.Name + "`"
				}
				a.busy[o] = true
				defer delete(a.busy, o)
				for _, caller := range p.Fns {
					if caller.Orig != nil || caller.Body == nil || strings.HasSuffix(caller.Pkg.PkgPath, "/test") {
						continue
					}
					why := ""
					walkNoLit(caller.Body, func(n ast.Node) bool {
						call, ok := n.(*ast.CallExpr)
						if !ok || why != "" || i >= len(call.Args) {
							return true
						}
						if cf := p.Callee(caller, call); cf != nil && cf == f.Obj {
							if w := a.bounded(caller, call.Args[i], depth+1); w != "" {
								why = fmt.Sprintf("the parameter `%s`, which %s passes as `%s` — %s", x.Name, caller.Name, types.ExprString(call.Args[i]), w)
							}
						}
						return true
					})
					if why != "" {
						return why
					}
				}
				return ""
			}
		}
		return "`" + x.Name + "` (assigned more than once)"
	}
	return "`" + types.ExprString(e) + "`"
}

// allocationsBoundedByWhatExists: over every first-party make of a slice or map with a size.
func allocationsBoundedByWhatExists(c *Ctx, r *Report, rule string) {
	p := c.P
	a := &allocSizes{p: p, busy: map[types.Object]bool{}}
	n := 0
	var fns []*Fn
	for _, fn := range p.Fns {
		if fn.Orig == nil && fn.Body != nil && p.firstParty(fn.Pkg.Types) && !strings.HasSuffix(fn.Pkg.PkgPath, "/test") {
			fns = append(fns, fn)
		}
	}
	sort.Slice(fns, func(i, j int) bool { return fns[i].Name < fns[j].Name })
	for _, fn := range fns {
		walkNoLit(fn.Body, func(nd ast.Node) bool {
			call, ok := nd.(*ast.CallExpr)
			if !ok || p.Builtin(fn, call) != "make" || len(call.Args) < 2 {
				return true
			}
			switch p.TypeOf(fn, call.Args[0]).Underlying().(type) {
			case *types.Slice, *types.Map:
			default:
				return true // a channel's capacity is a configuration, not a size of data
			}
			for _, sz := range call.Args[1:] {
				n++
				why := a.bounded(fn, sz, 0)
				r.Check(why == "", rule, r.Key(rule, fn, "make-size", ""), sz.Pos(),
					"`"+types.ExprString(sz)+"` is a constant or bounded by the size of a collection that exists",
					fmt.Sprintf("the allocation `%s` is sized by %s: it is not bounded by what exists, so a request for more than is available (an amount, a length limit or a size bound far above the log's size) allocates for the request — out of memory, or a run-time panic beyond the slice limit — where the operation must return what there is", types.ExprString(call), why))
			}
			return true
		})
	}
	r.Floor(rule, "sized allocations of slices and maps", n, 6)
}

// minMaxHelper: "min" / "max" when the function takes two integers and returns the smaller / larger one for
// every ordering of them (its body — ifs comparing the two parameters, each returning one of them, and a final
// return — is evaluated on the three orderings); "" otherwise.
func minMaxHelper(p *Prog, fn *Fn) string {
	if fn == nil || fn.Body == nil || fn.Obj == nil {
		return ""
	}
	sig := fn.Obj.Type().(*types.Signature)
	if sig.Params().Len() != 2 || sig.Results().Len() != 1 {
		return ""
	}
	pa, pb := paramObjAny(fn, 0), paramObjAny(fn, 1)
	if pa == nil || pb == nil {
		return ""
	}
	val := func(e ast.Expr, a, b int) (int, bool) {
		id, ok := ast.Unparen(e).(*ast.Ident)
		if !ok {
			return 0, false
		}
		switch p.ObjOf(fn, id) {
		case pa:
			return a, true
		case pb:
			return b, true
		}
		return 0, false
	}
	cond := func(e ast.Expr, a, b int) (bool, bool) {
		be, ok := ast.Unparen(e).(*ast.BinaryExpr)
		if !ok {
			return false, false
		}
		x, ok1 := val(be.X, a, b)
		y, ok2 := val(be.Y, a, b)
		if !ok1 || !ok2 {
			return false, false
		}
		switch be.Op {
		case token.LSS:
			return x < y, true
		case token.LEQ:
			return x <= y, true
		case token.GTR:
			return x > y, true
		case token.GEQ:
			return x >= y, true
		}
		return false, false
	}
	var run func(stmts []ast.Stmt, a, b int) (int, bool)
	run = func(stmts []ast.Stmt, a, b int) (int, bool) {
		for _, st := range stmts {
			switch x := st.(type) {
			case *ast.ReturnStmt:
				if len(x.Results) != 1 {
					return 0, false
				}
				return val(x.Results[0], a, b)
			case *ast.IfStmt:
				if x.Init != nil {
					return 0, false
				}
				c, ok := cond(x.Cond, a, b)
				if !ok {
					return 0, false
				}
				if c {
					return run(x.Body.List, a, b)
				}
				if x.Else != nil {
					if blk, ok := x.Else.(*ast.BlockStmt); ok {
						return run(blk.List, a, b)
					}
					return 0, false
				}
			default:
				return 0, false
			}
		}
		return 0, false
	}
	isMin, isMax := true, true
	for _, pr := range [][2]int{{1, 2}, {2, 1}, {1, 1}} {
		v, ok := run(fn.Body.List, pr[0], pr[1])
		if !ok {
			return ""
		}
		lo, hi := pr[0], pr[1]
		if lo > hi {
			lo, hi = hi, lo
		}
		isMin = isMin && v == lo
		isMax = isMax && v == hi
	}
	switch {
	case isMin && !isMax:
		return "min"
	case isMax && !isMin:
		return "max"
	}
	return ""
}
