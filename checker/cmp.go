package main

// cmp.go — E10: abstract interpreter for the ordering functions. The comparators inspect a pair of
// entries only through three three-way comparisons (clock time, clock id, hash), so their behaviour on
// all inputs is determined by the sign triple (s_t, s_i, s_h) ∈ {−,0,+}³. The interpreter executes the SSA
// of the comparators under each triple; every branch condition is then definite. Integer subtraction of
// clock times is modelled with an explicit overflow fork: with s_t ≠ 0 the machine result has either the
// mathematical sign or (wrapped) the opposite sign, and both must lead to the same answer.

import (
	"fmt"
	"go/constant"
	"go/token"
	"go/types"
	"strings"

	"golang.org/x/tools/go/ssa"
)

type aval interface{}

type (
	aEntry   struct{ of int }
	aClock   struct{ of int }
	aTime    struct{ of int }
	aID      struct{ of int }
	aHash    struct{ of int }
	aHashStr struct{ of int }
	aSign    struct {
		s      int
		bySub  bool
		notMin bool // known not to be the most negative integer (that case was forked off when the value was made)
	}
	aInt    struct{ v int64 }
	aBool   struct{ b bool }
	aNil    struct{}
	aErr    struct{}
	aGlobal struct{ name string }
	aIdx    struct{ k int }
	aSliceV struct{} // the slice being sorted
	aFn     struct {
		fn       *ssa.Function
		bindings []aval
	}
	aTuple  []aval
	aCell   struct{ v *aval }
	aFieldP struct {
		base  aval
		field string
	}
	aElemP   struct{ k int }
	aUnknown struct{ why string }
)

type cmpUndecided struct{ msg string }

type cmpInterp struct {
	p        *Prog
	sig      [3]int
	choices  []bool
	nChoice  int
	depth    int
	steps    int
	lessFn   *aFn
	usedSub  bool
	entryImp *types.Named
	clockImp *types.Named
}

func (ci *cmpInterp) fail(format string, a ...interface{}) {
	panic(cmpUndecided{fmt.Sprintf(format, a...)})
}

func (ci *cmpInterp) rel(kind, x, y int) int {
	if x == y {
		return 0
	}
	if x == 0 && y == 1 {
		return ci.sig[kind]
	}
	return -ci.sig[kind]
}

// choose consumes one nondeterministic choice of the current run.
func (ci *cmpInterp) choose() bool {
	if ci.nChoice >= len(ci.choices) {
		ci.fail("more than %d overflow-sensitive steps in one comparator run", len(ci.choices))
	}
	c := ci.choices[ci.nChoice]
	ci.nChoice++
	return c
}

// minInt is the most negative value of int under the analysed build configuration.
func (ci *cmpInterp) minInt() int64 {
	if ci.p.Goarch == "386" || ci.p.Goarch == "arm" {
		return -1 << 31
	}
	return -1 << 63
}

// wrap reduces an exact result to the width of int.
func (ci *cmpInterp) wrap(v int64) int64 {
	if ci.minInt() == -1<<31 {
		return int64(int32(v))
	}
	return v
}

func signOf(v aval) (int, bool) {
	switch x := v.(type) {
	case aSign:
		return x.s, true
	case aInt:
		switch {
		case x.v < 0:
			return -1, true
		case x.v > 0:
			return 1, true
		}
		return 0, true
	}
	return 0, false
}

// eval runs fn on args and returns its result (a single value or an aTuple).
func (ci *cmpInterp) eval(f aFn, args []aval) aval {
	ci.depth++
	defer func() { ci.depth-- }()
	if ci.depth > 12 {
		ci.fail("call depth exceeded at %s", f.fn.Name())
	}
	fn := f.fn
	if len(fn.Blocks) == 0 {
		ci.fail("no body for %s", fn.String())
	}
	env := map[ssa.Value]aval{}
	for i, par := range fn.Params {
		if i < len(args) {
			env[par] = args[i]
		} else {
			env[par] = aUnknown{"missing argument"}
		}
	}
	for i, fv := range fn.FreeVars {
		if i < len(f.bindings) {
			env[fv] = f.bindings[i]
		}
	}
	var prev *ssa.BasicBlock
	b := fn.Blocks[0]
	for {
		var next *ssa.BasicBlock
		for _, ins := range b.Instrs {
			ci.steps++
			if ci.steps > 20000 {
				ci.fail("step budget exceeded in %s", fn.Name())
			}
			switch x := ins.(type) {
			case *ssa.Phi:
				for i, pr := range b.Preds {
					if pr == prev {
						env[x] = ci.val(env, x.Edges[i])
					}
				}
			case *ssa.If:
				c, ok := ci.val(env, x.Cond).(aBool)
				if !ok {
					ci.fail("branch on a value outside the comparator vocabulary in %s at %s: %T", fn.Name(), ci.p.Pos(x.Cond.Pos()), ci.val(env, x.Cond))
				}
				if c.b {
					next = b.Succs[0]
				} else {
					next = b.Succs[1]
				}
			case *ssa.Jump:
				next = b.Succs[0]
			case *ssa.Return:
				if len(x.Results) == 1 {
					return ci.val(env, x.Results[0])
				}
				var t aTuple
				for _, r := range x.Results {
					t = append(t, ci.val(env, r))
				}
				return t
			case *ssa.Store:
				addr := ci.val(env, x.Addr)
				if c, ok := addr.(aCell); ok {
					v := ci.val(env, x.Val)
					*c.v = v
				}
				// stores to anything else (variadic argument arrays of Printf) are irrelevant
			case *ssa.DebugRef, *ssa.RunDefers:
			case *ssa.Panic:
				ci.fail("panic reachable in comparator %s", fn.Name())
			case ssa.Value:
				env[x] = ci.instr(env, x)
			default:
				// Defer, Go, Send, MapUpdate … do not occur in comparators
				ci.fail("instruction %T outside the comparator vocabulary in %s", ins, fn.Name())
			}
		}
		if next == nil {
			ci.fail("fell off block in %s", fn.Name())
		}
		prev, b = b, next
	}
}

func (ci *cmpInterp) val(env map[ssa.Value]aval, v ssa.Value) aval {
	if r, ok := env[v]; ok {
		return r
	}
	switch x := v.(type) {
	case *ssa.Const:
		if x.IsNil() {
			return aNil{}
		}
		if x.Value != nil {
			switch x.Value.Kind() {
			case constant.Int:
				i, _ := constant.Int64Val(x.Value)
				return aInt{i}
			case constant.Bool:
				return aBool{constant.BoolVal(x.Value)}
			}
		}
		return aUnknown{"constant " + x.String()}
	case *ssa.Function:
		return aFn{fn: x}
	case *ssa.Global:
		return aGlobal{x.Name()}
	case *ssa.Builtin:
		return aUnknown{"builtin " + x.Name()}
	}
	return aUnknown{"unbound " + v.Name()}
}

func (ci *cmpInterp) instr(env map[ssa.Value]aval, v ssa.Value) aval {
	switch x := v.(type) {
	case *ssa.Alloc:
		var init aval = aUnknown{"uninitialised cell"}
		return aCell{&init}
	case *ssa.MakeClosure:
		f := aFn{fn: x.Fn.(*ssa.Function)}
		for _, b := range x.Bindings {
			f.bindings = append(f.bindings, ci.val(env, b))
		}
		return f
	case *ssa.MakeInterface:
		in := ci.val(env, x.X)
		if isErrorType(x.Type()) {
			switch in.(type) {
			case aNil:
				return aNil{}
			default:
				return aErr{}
			}
		}
		return in
	case *ssa.ChangeInterface:
		return ci.val(env, x.X)
	case *ssa.ChangeType:
		return ci.val(env, x.X)
	case *ssa.Convert:
		return ci.val(env, x.X)
	case *ssa.Extract:
		t, ok := ci.val(env, x.Tuple).(aTuple)
		if !ok || x.Index >= len(t) {
			return aUnknown{"extract from non-tuple"}
		}
		return t[x.Index]
	case *ssa.FieldAddr:
		base := ci.val(env, x.X)
		f, _ := fieldOf(x)
		name := "?"
		if f != nil {
			name = f.Name()
		}
		return aFieldP{base, name}
	case *ssa.IndexAddr:
		if _, ok := ci.val(env, x.X).(aSliceV); ok {
			if k, ok := ci.val(env, x.Index).(aIdx); ok {
				return aElemP{k.k}
			}
		}
		return aUnknown{"index address"}
	case *ssa.Slice:
		return aUnknown{"slice"}
	case *ssa.UnOp:
		in := ci.val(env, x.X)
		switch x.Op {
		case token.MUL: // load
			switch a := in.(type) {
			case aCell:
				return *a.v
			case aGlobal:
				return a
			case aElemP:
				return aEntry{a.k}
			case aFieldP:
				switch b := a.base.(type) {
				case aClock:
					switch a.field {
					case "Time":
						return aTime{b.of}
					case "ID":
						return aID{b.of}
					}
				case aEntry:
					switch a.field {
					case "Clock":
						return aClock{b.of}
					case "Hash":
						return aHash{b.of}
					}
				}
				return aUnknown{"load of field " + a.field}
			}
			return aUnknown{"load"}
		case token.SUB:
			if s, ok := in.(aSign); ok {
				return aSign{-s.s, s.bySub, false}
			}
			if i, ok := in.(aInt); ok {
				return aInt{ci.wrap(-i.v)}
			}
		case token.NOT:
			if b, ok := in.(aBool); ok {
				return aBool{!b.b}
			}
		}
		return aUnknown{"unop " + x.Op.String()}
	case *ssa.BinOp:
		return ci.binop(x, ci.val(env, x.X), ci.val(env, x.Y))
	case *ssa.Call:
		return ci.call(env, x)
	case *ssa.TypeAssert:
		return aUnknown{"type assertion"}
	case *ssa.Lookup, *ssa.Index, *ssa.MakeSlice, *ssa.MakeMap, *ssa.Field:
		return aUnknown{fmt.Sprintf("%T", v)}
	}
	return aUnknown{fmt.Sprintf("%T", v)}
}

func (ci *cmpInterp) binop(x *ssa.BinOp, a, b aval) aval {
	// nil comparisons
	isNilish := func(v aval) (bool, bool) { // (isNil, known)
		switch v.(type) {
		case aNil:
			return true, true
		case aErr, aEntry, aClock, aFn:
			return false, true
		}
		return false, false
	}
	if x.Op == token.EQL || x.Op == token.NEQ {
		an, ak := isNilish(a)
		bn, bk := isNilish(b)
		if ak && bk && (an || bn) {
			eq := an == bn
			return aBool{eq == (x.Op == token.EQL)}
		}
	}
	// times
	if ta, ok := a.(aTime); ok {
		if tb, ok := b.(aTime); ok {
			s := ci.rel(0, ta.of, tb.of)
			switch x.Op {
			case token.SUB:
				ci.usedSub = true
				if s != 0 {
					// overflow fork: consume one nondeterministic choice
					ov := ci.choose()
					ms := s
					if ov {
						ms = -s
					}
					// a negative machine result may be exactly the most negative integer (a difference of −2^(w−1)
					// is representable, and a wrapped +2^(w−1) lands on it): the one value whose negation is itself
					if ms < 0 && ci.choose() {
						return aInt{ci.minInt()}
					}
					return aSign{ms, true, true}
				}
				return aSign{s, true, true}
			case token.LSS:
				return aBool{s < 0}
			case token.LEQ:
				return aBool{s <= 0}
			case token.GTR:
				return aBool{s > 0}
			case token.GEQ:
				return aBool{s >= 0}
			case token.EQL:
				return aBool{s == 0}
			case token.NEQ:
				return aBool{s != 0}
			}
		}
	}
	sa, oka := signOf(a)
	sb, okb := signOf(b)
	if oka && okb {
		ia, aExact := a.(aInt)
		ib, bExact := b.(aInt)
		switch x.Op {
		case token.MUL:
			if aExact && bExact {
				return aInt{ci.wrap(ia.v * ib.v)}
			}
			bs := false
			if s, ok := a.(aSign); ok {
				bs = bs || s.bySub
			}
			if s, ok := b.(aSign); ok {
				bs = bs || s.bySub
			}
			return aSign{sa * sb, bs, false}
		case token.EQL, token.NEQ, token.LSS, token.LEQ, token.GTR, token.GEQ:
			// only comparisons whose outcome is determined by signs
			var res *bool
			set := func(v bool) { res = &v }
			if aExact && bExact {
				switch x.Op {
				case token.EQL:
					set(ia.v == ib.v)
				case token.NEQ:
					set(ia.v != ib.v)
				case token.LSS:
					set(ia.v < ib.v)
				case token.LEQ:
					set(ia.v <= ib.v)
				case token.GTR:
					set(ia.v > ib.v)
				case token.GEQ:
					set(ia.v >= ib.v)
				}
			} else if bExact && ib.v == 0 {
				switch x.Op {
				case token.EQL:
					set(sa == 0)
				case token.NEQ:
					set(sa != 0)
				case token.LSS:
					set(sa < 0)
				case token.LEQ:
					set(sa <= 0)
				case token.GTR:
					set(sa > 0)
				case token.GEQ:
					set(sa >= 0)
				}
			} else if aExact && ia.v == 0 {
				switch x.Op {
				case token.EQL:
					set(sb == 0)
				case token.NEQ:
					set(sb != 0)
				case token.LSS:
					set(0 < sb)
				case token.LEQ:
					set(0 <= sb)
				case token.GTR:
					set(0 > sb)
				case token.GEQ:
					set(0 >= sb)
				}
			}
			// comparisons with the extreme integers
			if res == nil && bExact && !aExact {
				as, _ := a.(aSign)
				switch {
				case ib.v == ci.minInt():
					switch x.Op {
					case token.LSS:
						set(false)
					case token.GEQ:
						set(true)
					case token.EQL, token.LEQ:
						if sa >= 0 || as.notMin {
							set(false)
						}
					case token.NEQ, token.GTR:
						if sa >= 0 || as.notMin {
							set(true)
						}
					}
				case ib.v == -(ci.minInt() + 1):
					switch x.Op {
					case token.GTR:
						set(false)
					case token.LEQ:
						set(true)
					case token.EQL, token.GEQ:
						if sa <= 0 {
							set(false)
						}
					case token.NEQ, token.LSS:
						if sa <= 0 {
							set(true)
						}
					}
				}
			}
			if res != nil {
				return aBool{*res}
			}
			ci.fail("comparison %s of a sign-only value with a non-zero constant at %s", x.Op, ci.p.Pos(x.Pos()))
		case token.ADD, token.SUB:
			if aExact && bExact {
				if x.Op == token.ADD {
					return aInt{ci.wrap(ia.v + ib.v)}
				}
				return aInt{ci.wrap(ia.v - ib.v)}
			}
			ci.fail("arithmetic %s on sign-only values at %s", x.Op, ci.p.Pos(x.Pos()))
		}
	}
	if ba, ok := a.(aBool); ok {
		if bb, ok := b.(aBool); ok {
			switch x.Op {
			case token.EQL:
				return aBool{ba.b == bb.b}
			case token.NEQ:
				return aBool{ba.b != bb.b}
			}
		}
	}
	return aUnknown{"binop " + x.Op.String()}
}

func (ci *cmpInterp) call(env map[ssa.Value]aval, c *ssa.Call) aval {
	cc := c.Common()
	var args []aval
	for _, a := range cc.Args {
		args = append(args, ci.val(env, a))
	}
	if cc.IsInvoke() {
		recv := ci.val(env, cc.Value)
		name := cc.Method.Name()
		switch r := recv.(type) {
		case aEntry:
			switch name {
			case "GetClock":
				return aClock{r.of}
			case "GetHash":
				return aHash{r.of}
			case "Defined":
				return aBool{true}
			}
			// any other entry method: dispatch to the reference implementation
			return ci.dispatch(ci.entryImp, name, recv, args)
		case aClock:
			switch name {
			case "GetTime":
				return aTime{r.of}
			case "GetID":
				return aID{r.of}
			case "Defined":
				return aBool{true}
			}
			return ci.dispatch(ci.clockImp, name, recv, args)
		}
		ci.fail("interface call %s on a value outside the vocabulary (%T) at %s", name, recv, ci.p.Pos(c.Pos()))
	}
	// closure / function value calls
	if _, isFn := cc.Value.(*ssa.Function); !isFn {
		if _, isB := cc.Value.(*ssa.Builtin); !isB {
			f, ok := ci.val(env, cc.Value).(aFn)
			if !ok {
				ci.fail("call of a function value outside the vocabulary at %s", ci.p.Pos(c.Pos()))
			}
			return ci.eval(f, args)
		}
		return aUnknown{"builtin call"}
	}
	callee := cc.StaticCallee()
	full := callee.String()
	switch {
	case full == "bytes.Compare":
		a, oka := args[0].(aID)
		b, okb := args[1].(aID)
		if oka && okb {
			return aSign{ci.rel(1, a.of, b.of), false, true}
		}
		ci.fail("bytes.Compare on non-id values at %s", ci.p.Pos(c.Pos()))
	case full == "cmp.Compare" || strings.HasPrefix(full, "cmp.Compare["):
		// three-way comparison of two times / two exact ints (no overflow possible)
		if ta, ok := args[0].(aTime); ok {
			if tb, ok := args[1].(aTime); ok {
				return aSign{ci.rel(0, ta.of, tb.of), false, true}
			}
		}
		if ia, ok := args[0].(aInt); ok {
			if ib, ok := args[1].(aInt); ok {
				switch {
				case ia.v < ib.v:
					return aInt{-1}
				case ia.v > ib.v:
					return aInt{1}
				}
				return aInt{0}
			}
		}
		ci.fail("cmp.Compare on values outside the vocabulary at %s", ci.p.Pos(c.Pos()))
	case full == "strings.Compare":
		a, oka := args[0].(aHashStr)
		b, okb := args[1].(aHashStr)
		if oka && okb {
			return aSign{ci.rel(2, a.of, b.of), false, true}
		}
		ci.fail("strings.Compare on non-hash values at %s", ci.p.Pos(c.Pos()))
	case strings.HasSuffix(full, "go-cid.Cid).String"):
		if h, ok := args[0].(aHash); ok {
			return aHashStr{h.of}
		}
	case full == "sort.SliceStable" || full == "sort.Slice":
		if f, ok := args[1].(aFn); ok {
			ci.lessFn = &f
		}
		return aUnknown{"sort result"}
	case strings.HasPrefix(full, "fmt."):
		return aUnknown{"fmt"}
	}
	if callee.Pkg != nil && ci.p.firstParty(callee.Pkg.Pkg) {
		// errmsg.Error.Wrap and friends build non-nil errors
		if sig := callee.Signature; sig.Results().Len() == 1 && isErrorType(sig.Results().At(0).Type()) && callee.Pkg.Pkg.Name() == "errmsg" {
			return aErr{}
		}
		if len(callee.Blocks) > 0 {
			return ci.eval(aFn{fn: callee}, args)
		}
	}
	if sig := callee.Signature; sig.Results().Len() == 1 && isErrorType(sig.Results().At(0).Type()) {
		return aErr{}
	}
	return aUnknown{"call " + full}
}

func (ci *cmpInterp) dispatch(impl *types.Named, name string, recv aval, args []aval) aval {
	if impl == nil {
		ci.fail("no reference implementation for method %s", name)
	}
	obj, _, _ := types.LookupFieldOrMethod(types.NewPointer(impl), true, impl.Obj().Pkg(), name)
	m, ok := obj.(*types.Func)
	if !ok {
		ci.fail("method %s not found on %s", name, impl.Obj().Name())
	}
	sf := ci.p.SSA.FuncValue(m)
	if sf == nil {
		ci.fail("no SSA for %s.%s", impl.Obj().Name(), name)
	}
	return ci.eval(aFn{fn: sf}, append([]aval{recv}, args...))
}

// ---- driver ------------------------------------------------------------------------------

type cmpResult struct {
	Sign      int
	Err       bool
	Undecided string
	OvfDiffer bool // result depends on whether the time subtraction overflowed
	UsedSub   bool
}

// runCmp evaluates fn (a comparator closure) on (A,B) under the sign triple, over all overflow choices.
func runCmp(p *Prog, f aFn, sig [3]int, entryImp, clockImp *types.Named, less bool) (res cmpResult) {
	var first *cmpResult
	const nCh = 6
	maxN := 0
	for mask := 0; mask < 1<<nCh; mask++ {
		choices := make([]bool, nCh)
		for i := range choices {
			choices[i] = mask&(1<<uint(i)) != 0
		}
		ci := &cmpInterp{p: p, sig: sig, choices: choices, entryImp: entryImp, clockImp: clockImp}
		var out cmpResult
		func() {
			defer func() {
				if e := recover(); e != nil {
					if u, ok := e.(cmpUndecided); ok {
						out.Undecided = u.msg
						return
					}
					panic(e)
				}
			}()
			var r aval
			if less {
				r = ci.eval(f, []aval{aIdx{0}, aIdx{1}})
				b, ok := r.(aBool)
				if !ok {
					out.Undecided = fmt.Sprintf("less closure returned %T", r)
					return
				}
				if b.b {
					out.Sign = 1
				}
			} else {
				r = ci.eval(f, []aval{aEntry{0}, aEntry{1}})
				t, ok := r.(aTuple)
				if !ok || len(t) != 2 {
					if s, ok2 := signOf(r); ok2 { // int-only comparator (clock compare)
						out.Sign = s
						return
					}
					out.Undecided = fmt.Sprintf("comparator returned %T", r)
					return
				}
				switch e := t[1].(type) {
				case aNil:
				case aErr:
					out.Err = true
				default:
					out.Undecided = fmt.Sprintf("error result outside the vocabulary: %T", e)
					return
				}
				s, ok := signOf(t[0])
				if !ok {
					if out.Err {
						s = 0
					} else {
						out.Undecided = fmt.Sprintf("integer result outside the vocabulary: %T", t[0])
						return
					}
				}
				out.Sign = s
			}
		}()
		out.UsedSub = ci.usedSub
		if out.Undecided != "" {
			return out
		}
		if first == nil {
			o := out
			first = &o
		} else if out.Sign != first.Sign || out.Err != first.Err {
			first.OvfDiffer = true
		}
		if ci.nChoice <= 0 {
			break // no overflow-sensitive subtraction executed: one run suffices
		}
		if ci.nChoice > maxN {
			maxN = ci.nChoice
		}
		if mask+1 >= 1<<uint(minIntC(maxN, nCh)) {
			break // every combination of the choices any run consumed has been executed
		}
	}
	return *first
}

func minIntC(a, b int) int {
	if a < b {
		return a
	}
	return b
}
