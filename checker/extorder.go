package main

// extorder.go — order taken from a dependency's map iteration. The main load type-checks dependencies from
// export data only; for the few third-party functions that return a slice on a path whose output must not
// depend on map iteration order, the dependency's source is loaded on demand (module cache, offline) and the
// function's body is examined: a range over a map that appends / stores by position, with no sort in the
// function, yields its result in map iteration order.

import (
	"fmt"
	"go/ast"
	"go/types"
	"os"
	"sort"
	"strings"

	"golang.org/x/tools/go/packages"
)

type extFuncKey struct{ pkg, recv, name string }

func extKeyOf(f *types.Func) extFuncKey {
	k := extFuncKey{pkg: f.Pkg().Path(), name: f.Name()}
	if rv := f.Type().(*types.Signature).Recv(); rv != nil {
		if nt := namedOf(rv.Type()); nt != nil {
			k.recv = nt.Obj().Name()
		}
	}
	return k
}

// mapOrderedResults reports, for each requested third-party function, why its result is in map iteration
// order ("" when it is not, "?" when the source could not be examined).
func (p *Prog) mapOrderedResults(keys []extFuncKey) map[extFuncKey]string {
	out := map[extFuncKey]string{}
	if len(keys) == 0 {
		return out
	}
	pset := map[string]bool{}
	for _, k := range keys {
		pset[k.pkg] = true
	}
	var pats []string
	for k := range pset {
		pats = append(pats, k)
	}
	sort.Strings(pats)
	env := append(os.Environ(), "GOWORK=off", "GOFLAGS=-mod=mod", "GOPROXY=off", "GOSUMDB=off", "GOTOOLCHAIN=local")
	cfgp := &packages.Config{Mode: packages.LoadSyntax, Dir: p.Dir, Env: env}
	pkgs, err := packages.Load(cfgp, pats...)
	if err != nil {
		infra("load dependency sources %v: %v", pats, err)
	}
	byPath := map[string]*packages.Package{}
	for _, pk := range pkgs {
		if len(pk.Errors) == 0 {
			byPath[pk.PkgPath] = pk
		}
	}
	for _, k := range keys {
		pk := byPath[k.pkg]
		if pk == nil {
			out[k] = "?"
			continue
		}
		decls := map[string]*ast.FuncDecl{} // recv.name -> decl
		for _, f := range pk.Syntax {
			for _, d := range f.Decls {
				fd, ok := d.(*ast.FuncDecl)
				if !ok || fd.Body == nil {
					continue
				}
				rn := ""
				if fd.Recv != nil && len(fd.Recv.List) == 1 {
					t := fd.Recv.List[0].Type
					if st, ok := t.(*ast.StarExpr); ok {
						t = st.X
					}
					if ix, ok := t.(*ast.IndexExpr); ok {
						t = ix.X
					}
					if id, ok := t.(*ast.Ident); ok {
						rn = id.Name
					}
				}
				decls[rn+"."+fd.Name.Name] = fd
			}
		}
		fd := decls[k.recv+"."+k.name]
		if fd == nil {
			out[k] = "?"
			continue
		}
		var scan func(fd *ast.FuncDecl, depth int) string
		scan = func(fd *ast.FuncDecl, depth int) string {
			why, sorted := "", false
			ast.Inspect(fd.Body, func(n ast.Node) bool {
				switch x := n.(type) {
				case *ast.RangeStmt:
					if tv := pk.TypesInfo.TypeOf(x.X); tv != nil {
						if _, isMap := tv.Underlying().(*types.Map); isMap {
							ast.Inspect(x.Body, func(m ast.Node) bool {
								switch y := m.(type) {
								case *ast.CallExpr:
									if id, ok := y.Fun.(*ast.Ident); ok && id.Name == "append" {
										why = "appends inside a range over a map"
									}
								case *ast.AssignStmt:
									for _, l := range y.Lhs {
										if ie, ok := l.(*ast.IndexExpr); ok {
											if t2 := pk.TypesInfo.TypeOf(ie.X); t2 != nil {
												if _, isSl := t2.Underlying().(*types.Slice); isSl {
													why = "stores by position inside a range over a map"
												}
											}
										}
									}
								}
								return true
							})
						}
					}
				case *ast.CallExpr:
					if se, ok := x.Fun.(*ast.SelectorExpr); ok {
						if id, ok := se.X.(*ast.Ident); ok && (id.Name == "sort" || id.Name == "slices") && strings.HasPrefix(se.Sel.Name, "S") {
							sorted = true
						}
					}
					if why == "" && depth < 1 {
						// a helper of the same package
						var nm string
						switch f := x.Fun.(type) {
						case *ast.Ident:
							nm = "." + f.Name
						case *ast.SelectorExpr:
							if sel := pk.TypesInfo.Selections[f]; sel != nil && sel.Kind() == types.MethodVal {
								if nt := namedOf(sel.Recv()); nt != nil && nt.Obj().Pkg() == pk.Types {
									nm = nt.Obj().Name() + "." + f.Sel.Name
								}
							}
						}
						if d2 := decls[nm]; d2 != nil && d2 != fd {
							if w := scan(d2, depth+1); w != "" {
								why = w + " (in " + d2.Name.Name + ")"
							}
						}
					}
				}
				return true
			})
			if sorted {
				return ""
			}
			return why
		}
		out[k] = scan(fd, 0)
	}
	return out
}

// noOrderFromDependencyMaps: on the paths that build what is signed and encoded, no slice comes from a
// third-party function that produces it in map iteration order.
func noOrderFromDependencyMaps(c *Ctx, r *Report, rule string, roots []*Fn) {
	p := c.P
	scope := c.CG.Reach(roots, false)
	type site struct {
		fn   *Fn
		call *ast.CallExpr
		key  extFuncKey
	}
	var sites []site
	seenKey := map[extFuncKey]bool{}
	var keys []extFuncKey
	var fns []*Fn
	for fn := range scope {
		fns = append(fns, fn)
	}
	sort.Slice(fns, func(i, j int) bool { return fns[i].Name < fns[j].Name })
	for _, fn := range fns {
		if fn.Body == nil || strings.HasSuffix(fn.Pkg.PkgPath, "/test") {
			continue
		}
		walkNoLit(fn.Body, func(n ast.Node) bool {
			call, ok := n.(*ast.CallExpr)
			if !ok {
				return true
			}
			cf := p.Callee(fn, call)
			if cf == nil || cf.Pkg() == nil || p.firstParty(cf.Pkg()) || !strings.Contains(cf.Pkg().Path(), ".") {
				return true // first-party or standard library
			}
			sig := cf.Type().(*types.Signature)
			if sig.Results().Len() == 0 {
				return true
			}
			if _, isSlice := sig.Results().At(0).Type().Underlying().(*types.Slice); !isSlice {
				return true
			}
			if rv := sig.Recv(); rv != nil && types.IsInterface(rv.Type()) {
				return true // dynamic: nothing to read
			}
			k := extKeyOf(cf)
			sites = append(sites, site{fn, call, k})
			if !seenKey[k] {
				seenKey[k] = true
				keys = append(keys, k)
			}
			return true
		})
	}
	// positive control, examined on every run: go-cid's Set.Keys collects the keys of a Go map
	ctl := extFuncKey{"github.com/ipfs/go-cid", "Set", "Keys"}
	res := p.mapOrderedResults(append(append([]extFuncKey{}, keys...), ctl))
	r.Check(res[ctl] != "" && res[ctl] != "?", rule, r.Key(rule, nil, "control", "cid.Set.Keys"), 0,
		"control: the examination recognises go-cid's Set.Keys as producing its result in map iteration order",
		"control failed: go-cid's Set.Keys was not recognised as map-ordered ("+res[ctl]+") — the examination of dependency sources is not working")
	var tab []string
	for _, k := range keys {
		v := res[k]
		if v == "" {
			v = "no map iteration order in the result"
		}
		tab = append(tab, fmt.Sprintf("%s.%s.%s: %s", k.pkg, k.recv, k.name, v))
	}
	sort.Strings(tab)
	r.Tables["third_party_slice_producers_examined"] = tab
	for _, s := range sites {
		why := res[s.key]
		name := s.key.pkg[strings.LastIndex(s.key.pkg, "/")+1:] + "." + s.key.recv + "." + s.key.name
		key := r.Key(rule, s.fn, "slice-from-dependency", name)
		if why == "?" {
			r.Undecided(rule, key, s.call.Pos(), "the source of "+name+" could not be examined")
			continue
		}
		if why != "" && why != "?" {
			// sorted by the caller before use
			if as, ok := p.parent[s.call].(*ast.AssignStmt); ok && len(as.Lhs) >= 1 {
				if id, ok := as.Lhs[0].(*ast.Ident); ok {
					vo := p.ObjOf(s.fn, id)
					walkNoLit(s.fn.Body, func(n ast.Node) bool {
						c2, ok := n.(*ast.CallExpr)
						if !ok || c2.Pos() < s.call.End() || len(c2.Args) == 0 {
							return true
						}
						if cf := p.Callee(s.fn, c2); cf != nil && cf.Pkg() != nil && inPlaceFuncs[cf.Pkg().Path()][cf.Name()] && cf.Name() != "Reverse" {
							if a, ok := ast.Unparen(c2.Args[0]).(*ast.Ident); ok && p.ObjOf(s.fn, a) == vo && vo != nil {
								why = ""
							}
						}
						return true
					})
				}
			}
		}
		r.Check(why == "", rule, key, s.call.Pos(), name+" does not produce its result in map iteration order (or the caller sorts it)",
			fmt.Sprintf("%s %s: the slice it returns is in a different order on every call, and it is used on a path that builds what is signed and encoded — the same logical entry gets a different identifier each time", name, why))
	}
	r.Floor(rule, "functions on the paths that build the signed and encoded form", len(fns), 8)
}
