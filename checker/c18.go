package main

// c18.go — with a link key, stored blocks never reveal structure: must-clear, seal/restore/clear agreement,
// PreSign on the path to sign and write, wrong/no key yields no links.

import (
	"fmt"
	"go/ast"
	"go/constant"
	"go/token"
	"go/types"
	"sort"
	"strings"

	"golang.org/x/tools/go/ssa"
)

func init() {
	register(&PropSpec{ID: "C18", Level: "other", Run: runC18,
		Explanation: "Decides on every path: (R-C18.1) in ToJsonableEntry, whenever the encrypted-links side fields of the returned struct receive a value, the last stores to its Next and Refs on that path are empty lists; (R-C18.2) the link fields sealed by PreSign, restored by DecryptLinks and cleared by ToJsonableEntry are the same set and equal to all []cid.Cid fields of the wire struct, and the two additional-data keys written by PreSign are the two read by the writer; (R-C18.3) the entry handed to ToMultihashWithIO (and to ToHashable) in CreateEntryWithIO derives from the PreSign result, and PreSign returns the unsealed entry only when there is no key or there are no links at all; (R-C18.4) DecryptLinks returns the entry untouched only without a key or without sealed data, and a failed open/decode only reaches error returns. Not covered: secrecy of the sealed bytes, nonce uniqueness, links added by the CBOR library for other fields.",
	})
}

func isEmptySliceExpr(e ast.Expr) bool {
	e = ast.Unparen(e)
	switch x := e.(type) {
	case *ast.Ident:
		return x.Name == "nil"
	case *ast.CompositeLit:
		return len(x.Elts) == 0
	case *ast.CallExpr:
		if id, ok := x.Fun.(*ast.Ident); ok && id.Name == "make" && len(x.Args) >= 2 {
			if bl, ok := x.Args[1].(*ast.BasicLit); ok && bl.Value == "0" {
				return true
			}
		}
	}
	return false
}

func runC18(c *Ctx, r *Report) {
	p := c.P
	r.Doc("R-C18.1", "must-clear: encrypted side field written ⇒ Next and Refs of the written struct are empty on that path")
	r.Doc("R-C18.2", "seal ⇄ restore ⇄ clear agree on the link fields and on the additional-data keys")
	r.Doc("R-C18.3", "the PreSign result is what is hashed and written; PreSign leaves links in clear only without key or without links")
	r.Doc("R-C18.4", "DecryptLinks: untouched only without key/sealed data; failures only reach error returns")

	wire := p.Named("io/jsonable", "Entry")
	st := wire.Underlying().(*types.Struct)
	linkFields := map[string]bool{}
	for i := 0; i < st.NumFields(); i++ {
		if sl, ok := st.Field(i).Type().Underlying().(*types.Slice); ok && isNamed(sl.Elem(), "github.com/ipfs/go-cid", "Cid") {
			linkFields[st.Field(i).Name()] = true
		}
	}
	encFields := map[string]bool{}
	for i := 0; i < st.NumFields(); i++ {
		if strings.HasPrefix(st.Field(i).Name(), "EncryptedLinks") {
			encFields[st.Field(i).Name()] = true
		}
	}
	r.Floor("R-C18.2", "link fields ([]cid.Cid) of the wire entry", len(linkFields), 2)
	r.Floor("R-C18.1", "encrypted side fields of the wire entry", len(encFields), 2)

	// ---- R-C18.1
	tj := p.FuncI("io/jsonable", "", "ToJsonableEntry")
	isWire := func(e ast.Expr) bool { return namedOf(p.TypeOf(tj, e)) == wire }
	// may-flow with path-correlated facts: dirty|k|F (F of struct k currently non-empty), enc|k, and
	// encdirty|k|F (on this path the encrypted side field is set while F is non-empty).
	node := func(n ast.Node, f Facts) {
		setField := func(key, fn string, rhs ast.Expr) {
			if encFields[fn] {
				f["enc|"+key] = true
				for lf := range linkFields {
					if f["dirty|"+key+"|"+lf] {
						f["encdirty|"+key+"|"+lf] = true
					}
				}
			}
			if linkFields[fn] {
				if isEmptySliceExpr(rhs) {
					delete(f, "dirty|"+key+"|"+fn)
					delete(f, "encdirty|"+key+"|"+fn)
				} else {
					f["dirty|"+key+"|"+fn] = true
					if f["enc|"+key] {
						f["encdirty|"+key+"|"+fn] = true
					}
				}
			}
		}
		walkNoLit(n, func(nd ast.Node) bool {
			x, ok := nd.(*ast.AssignStmt)
			if !ok {
				return true
			}
			for i, l := range x.Lhs {
				if i >= len(x.Rhs) {
					continue
				}
				if se, ok := ast.Unparen(l).(*ast.SelectorExpr); ok && isWire(se.X) {
					if _, key, okk := p.PathKey(tj, se.X); okk {
						setField(key, se.Sel.Name, x.Rhs[i])
					}
				}
				if id, ok := ast.Unparen(l).(*ast.Ident); ok {
					rhs := ast.Unparen(x.Rhs[i])
					if u, ok := rhs.(*ast.UnaryExpr); ok && u.Op == token.AND {
						rhs = ast.Unparen(u.X)
					}
					if cl, ok := rhs.(*ast.CompositeLit); ok && namedOf(p.TypeOf(tj, cl)) == wire {
						key := p.ID(p.ObjOf(tj, id))
						f.DelPrefix("dirty|" + key + "|")
						f.DelPrefix("encdirty|" + key + "|")
						delete(f, "enc|"+key)
						// link fields first, then the side fields
						for _, el := range cl.Elts {
							if kv, ok := el.(*ast.KeyValueExpr); ok && linkFields[kv.Key.(*ast.Ident).Name] {
								setField(key, kv.Key.(*ast.Ident).Name, kv.Value)
							}
						}
						for _, el := range cl.Elts {
							if kv, ok := el.(*ast.KeyValueExpr); ok && encFields[kv.Key.(*ast.Ident).Name] {
								setField(key, kv.Key.(*ast.Ident).Name, kv.Value)
							}
						}
					}
				}
			}
			return true
		})
	}
	may := &Flow{P: p, Fn: tj, May: true, Entry: Facts{}, Node: node}
	may.Run()
	nret, nenc := 0, 0
	may.Exits(func(_ *cfgBlk, ret *ast.ReturnStmt, at Facts) {
		if ret == nil || len(ret.Results) != 1 {
			return
		}
		id, ok := ast.Unparen(ret.Results[0]).(*ast.Ident)
		if !ok || !isWire(id) {
			return
		}
		nret++
		key := p.ID(p.ObjOf(tj, id))
		if !at["enc|"+key] {
			r.Hold("R-C18.1", r.Key("R-C18.1", tj, "return", id.Name), ret.Pos(), false, "no encrypted side field is written on any path to this return")
			return
		}
		nenc++
		var missing []string
		for f := range linkFields {
			if at["encdirty|"+key+"|"+f] {
				missing = append(missing, f)
			}
		}
		sort.Strings(missing)
		r.Check(len(missing) == 0, "R-C18.1", r.Key("R-C18.1", tj, "return", id.Name), ret.Pos(),
			"on every path that writes the encrypted side field the clear link lists are emptied before the struct is returned",
			fmt.Sprintf("the serialisable entry can carry encrypted links and still its clear %v: the stored block reveals predecessor/reference identifiers as traversable links", missing))
	})
	r.Floor("R-C18.1", "returns that may carry encrypted links", nenc, 1)
	r.Floor("R-C18.1", "returns of the v2 wire struct in ToJsonableEntry", nret, 1)

	// ---- R-C18.2
	ps := p.FuncI("io/cbor", "IOCbor", "PreSign")
	dl := p.FuncI("io/cbor", "IOCbor", "DecryptLinks")
	assignedFields := func(fn *Fn, pred func(se *ast.SelectorExpr, rhs ast.Expr) bool) map[string]bool {
		out := map[string]bool{}
		walkNoLit(fn.Body, func(n ast.Node) bool {
			if as, ok := n.(*ast.AssignStmt); ok {
				for i, l := range as.Lhs {
					if se, ok := ast.Unparen(l).(*ast.SelectorExpr); ok && namedOf(p.TypeOf(fn, se.X)) == wire && i < len(as.Rhs) && linkFields[se.Sel.Name] {
						if pred(se, as.Rhs[i]) {
							out[se.Sel.Name] = true
						}
					}
				}
			}
			// the same fields given in a literal of the wire struct: links := &EntryV2{Next: …, Refs: …}
			if cl, ok := n.(*ast.CompositeLit); ok && namedOf(p.TypeOf(fn, cl)) == wire {
				for _, el := range cl.Elts {
					if kv, ok := el.(*ast.KeyValueExpr); ok {
						if id, ok := kv.Key.(*ast.Ident); ok && linkFields[id.Name] {
							if pred(&ast.SelectorExpr{X: cl, Sel: id}, kv.Value) {
								out[id.Name] = true
							}
						}
					}
				}
			}
			return true
		})
		return out
	}
	sealed := assignedFields(ps, func(se *ast.SelectorExpr, rhs ast.Expr) bool {
		// links.F = entry.GetF()
		if call, ok := ast.Unparen(rhs).(*ast.CallExpr); ok {
			if s2, ok := ast.Unparen(call.Fun).(*ast.SelectorExpr); ok && s2.Sel.Name == "Get"+se.Sel.Name {
				return true
			}
		}
		return false
	})
	restored := assignedFields(dl, func(se *ast.SelectorExpr, rhs ast.Expr) bool {
		// entry.F = links.F
		if s2, ok := ast.Unparen(rhs).(*ast.SelectorExpr); ok && s2.Sel.Name == se.Sel.Name && namedOf(p.TypeOf(dl, s2.X)) == wire {
			return true
		}
		return false
	})
	cleared := assignedFields(tj, func(se *ast.SelectorExpr, rhs ast.Expr) bool { return isEmptySliceExpr(rhs) })
	setStr := func(m map[string]bool) string {
		var o []string
		for k := range m {
			o = append(o, k)
		}
		sort.Strings(o)
		return strings.Join(o, ",")
	}
	same := setStr(sealed) == setStr(linkFields) && setStr(restored) == setStr(linkFields) && setStr(cleared) == setStr(linkFields)
	r.Check(same, "R-C18.2", r.Key("R-C18.2", ps, "link-field-sets", ""), ps.Body.Pos(),
		fmt.Sprintf("sealed = restored = cleared = all link fields = {%s}", setStr(linkFields)),
		fmt.Sprintf("link field sets disagree: wire struct has {%s}, PreSign seals {%s}, DecryptLinks restores {%s}, ToJsonableEntry clears {%s} — a field that is not sealed is lost or leaked, a field that is not restored disappears for key holders", setStr(linkFields), setStr(sealed), setStr(restored), setStr(cleared)))
	// additional-data keys
	keysWritten := map[types.Object]bool{}
	walkNoLit(ps.Body, func(n ast.Node) bool {
		if call, ok := n.(*ast.CallExpr); ok {
			if se, ok := ast.Unparen(call.Fun).(*ast.SelectorExpr); ok && se.Sel.Name == "SetAdditionalDataValue" && len(call.Args) == 2 {
				if o := constObj(p, ps, call.Args[0]); o != nil {
					keysWritten[o] = true
				}
			}
		}
		return true
	})
	keysRead := map[types.Object]bool{}
	walkNoLit(tj.Body, func(n ast.Node) bool {
		if ix, ok := n.(*ast.IndexExpr); ok {
			if _, isMap := p.TypeOf(tj, ix.X).Underlying().(*types.Map); isMap {
				if o := constObj(p, tj, ix.Index); o != nil {
					keysRead[o] = true
				}
			}
		}
		return true
	})
	eq := len(keysWritten) == len(keysRead) && len(keysWritten) >= 2
	for k := range keysWritten {
		if !keysRead[k] {
			eq = false
		}
	}
	r.Check(eq, "R-C18.2", r.Key("R-C18.2", ps, "additional-data-keys", ""), ps.Body.Pos(),
		fmt.Sprintf("the %d additional-data keys written by PreSign are exactly those read by the writer", len(keysWritten)),
		fmt.Sprintf("PreSign writes %d additional-data keys, the writer reads %d, and they are not the same constants: the sealed links never reach the block (or the clear lists are never emptied)", len(keysWritten), len(keysRead)))

	// ---- R-C18.3
	create := p.FuncI("entry", "", "CreateEntryWithIO")
	sf := p.SSAFunc(create)
	for _, target := range []string{"ToMultihashWithIO", "ToHashable"} {
		found := false
		isTarget := func(f2 *types.Func) bool { return f2.Name() == target && p.firstParty(f2.Pkg()) }
		// derives: the value comes from a PreSign result, or from a parameter that does at the call site we came through
		derives := func(v ssa.Value, fromParam map[*ssa.Parameter]bool) bool {
			for x := range backSlice(v, nil) {
				switch y := x.(type) {
				case *ssa.Call:
					if c.SSACallReaches(y, func(f2 *types.Func) bool { return f2.Name() == "PreSign" }) {
						return true
					}
				case *ssa.Parameter:
					if fromParam[y] {
						return true
					}
				}
			}
			return false
		}
		var scan func(fn *ssa.Function, fromParam map[*ssa.Parameter]bool, depth int)
		scan = func(fn *ssa.Function, fromParam map[*ssa.Parameter]bool, depth int) {
			allInstrs(fn, false, func(ins ssa.Instruction) {
				call, ok := ins.(*ssa.Call)
				if !ok || !c.SSACallReaches(call, isTarget) {
					return
				}
				cal := call.Call.StaticCallee()
				if cal != nil && cal.Object() != nil && !isTarget(cal.Object().(*types.Func)) && cal.Blocks != nil && depth < 3 {
					// a first-party helper on the way to the target: look at the call inside it, with what we know of its parameters
					inner := map[*ssa.Parameter]bool{}
					for k, a := range call.Call.Args {
						if k < len(cal.Params) && derives(a, fromParam) {
							inner[cal.Params[k]] = true
						}
					}
					scan(cal, inner, depth+1)
					return
				}
				found = true
				var arg ssa.Value
				for _, a := range call.Call.Args {
					if isNamed(a.Type(), p.pkgPath("iface"), "IPFSLogEntry") {
						arg = a
					}
				}
				has := arg != nil && derives(arg, fromParam)
				r.Check(has, "R-C18.3", r.Key("R-C18.3", create, "presign-reaches", target), call.Pos(),
					"the entry given to "+target+" derives from the PreSign result", "the entry given to "+target+" does not derive from the PreSign result: links are "+map[string]string{"ToMultihashWithIO": "written in clear", "ToHashable": "signed in a form the reader cannot reproduce"}[target])
			})
		}
		scan(sf, nil, 0)
		if !found {
			r.Undecided("R-C18.3", r.Key("R-C18.3", create, "presign-reaches", target), create.Body.Pos(), "no call to "+target+" in CreateEntryWithIO")
		}
	}
	r.Doc("R-C18.5", "entries written with a link key verify: every field the pre-sign transformation reads is final when PreSign runs at creation")
	preSignInputsFinal(c, r, "R-C18.5")
	// PreSign early-outs
	linkKeyF := p.Field("io/cbor", "IOCbor", "linkKey")
	entryParam := paramObj(ps, 0)
	pf := &Flow{P: p, Fn: ps, Entry: Facts{}}
	atomFacts := func(a ctxAtom, f Facts) {
		if x, isNil, ok := nilTest(a.condAtom); ok && isNil {
			if v, _ := p.FieldSel(a.In, x); v == linkKeyF {
				f["nokey"] = true
			}
		}
		if g := emptyGetterAtom(p, a.In, a.condAtom); g != "" {
			f["empty|"+g] = true
		}
	}
	pf.Edge = func(cond ast.Expr, taken bool, f Facts) {
		// every alternative of the branch condition (predicate helpers looked into) must justify leaving the links in clear
		alts := expandPredicates(p, ps, dnfCond(cond, taken))
		if len(alts) == 1 {
			for _, a := range alts[0] {
				atomFacts(a, f)
			}
			return
		}
		every := len(alts) > 0
		for _, alt := range alts {
			g := f.Clone()
			for _, a := range alt {
				atomFacts(a, g)
			}
			allE := true
			for lf := range linkFields {
				if !g["empty|"+lf] {
					allE = false
				}
			}
			if !g["nokey"] && !allE {
				every = false
			}
		}
		if every {
			f["unsealedOK"] = true
		}
	}
	pf.Node = func(n ast.Node, f Facts) {
		walkNoLit(n, func(nd ast.Node) bool {
			if call, ok := nd.(*ast.CallExpr); ok {
				if se, ok := ast.Unparen(call.Fun).(*ast.SelectorExpr); ok && se.Sel.Name == "SetAdditionalDataValue" {
					f["sealed"] = true
				}
			}
			return true
		})
	}
	pf.Run()
	nps := 0
	pf.Exits(func(_ *cfgBlk, ret *ast.ReturnStmt, at Facts) {
		if ret == nil {
			return
		}
		if isNil, hasErr := errResultIsNil(p, ps, ret); !hasErr || !isNil {
			return
		}
		nps++
		if at["sealed"] {
			r.Hold("R-C18.3", r.Key("R-C18.3", ps, "return", "sealed"), ret.Pos(), true, "returns the sealed copy")
			return
		}
		allEmpty := true
		for f := range linkFields {
			if !at["empty|"+f] {
				allEmpty = false
			}
		}
		r.Check(at["nokey"] || allEmpty || at["unsealedOK"], "R-C18.3", r.Key("R-C18.3", ps, "return", "unsealed"), ret.Pos(),
			"the entry is returned unsealed only when no link key is configured or it has no links at all",
			"PreSign can return the entry with its links in clear although a link key is configured and the entry has predecessors or references")
	})
	r.Floor("R-C18.3", "success returns of PreSign", nps, 2)
	_ = entryParam

	// ---- R-C18.6 / R-C18.7
	r.Doc("R-C18.15", "the constructors that rebuild a log read its blocks with the very codec they give the rebuilt log (both loaded from the same options value): readers holding the key recover the links")
	loaderCodecIsLogCodec(c, r, "R-C18.15")
	r.Doc("R-C18.6", "neither the decode path nor the sealing path keeps state between entries (pooled or memoised scratch objects would hand one entry's links, decrypted or sealed, to the next)")
	r.Doc("R-C18.7", "the codec objects shared by concurrent PreSign/DecryptLinks calls are of concurrency-safe (pooled/stateless) types")
	r.Doc("R-C18.8", "the link-key codec configured for a log is the one its loaders read with and the one a reopened log writes with")
	optionForwarding(c, r, "R-C18.8", append(append(loaderFetchSpecs(), constructorLoaderSpecs()...), constructorLogSpecs()...), "IO")
	r.Doc("R-C18.11", "the loops that seal, clear, restore and derive the nonce from the links process every link")
	loopsComplete(c, r, "R-C18.11", func(fn *Fn) bool {
		return rootNamed(fn, "PreSign", "DecryptLinks", "NonceRefForEntry", "ToJsonableEntry") || inPkgs(c.P, fn, "enc")
	}, "links after the point where the loop stops are not sealed or restored")
	r.Doc("R-C18.10", "sealing and opening the links examine every error result before going on: a failed seal or open is never followed by a block written (or links returned) from the zero values")
	errDiscipline(c, r, "R-C18.10", func(fn *Fn) bool {
		return rootNamed(fn, "PreSign", "DecryptLinks", "NonceRefForEntry") || inPkgs(c.P, fn, "enc")
	}, "the entry is written or returned with whatever the failed sealing/opening step left behind", deliberateDiscards)
	r.Doc("R-C18.9", "the link key is copied when the codec is built: the sealed-box object never aliases the caller's key buffer (an application that wipes or reuses its buffer would otherwise re-key the log)")
	{
		nsb := p.FuncI("enc", "", "NewSecretbox")
		sf := p.SSAFunc(nsb)
		alias := ""
		allInstrs(sf, false, func(ins ssa.Instruction) {
			ret, ok := ins.(*ssa.Return)
			if !ok || len(ret.Results) == 0 {
				return
			}
			for x := range backSlice(ret.Results[0], nil) {
				switch y := x.(type) {
				case *ssa.SliceToArrayPointer:
					if derivesFromAnyParam(y.X, sf) {
						alias = "a slice-to-array-pointer conversion of the key parameter at " + p.Pos(y.Pos())
					}
				case *ssa.Parameter:
					if _, isSlice := y.Type().Underlying().(*types.Slice); isSlice {
						// the parameter itself may be read (copied element-wise); only a pointer into it is an alias
						if ret.Results[0] == ssa.Value(y) {
							alias = "the key parameter itself"
						}
					}
				}
			}
		})
		r.Check(alias == "", "R-C18.9", r.Key("R-C18.9", nsb, "key-copied", ""), nsb.Body.Pos(), "the box holds its own copy of the key", "NewSecretbox returns "+alias+": the box shares memory with the caller's key buffer, so links are sealed with whatever that buffer holds later (zeroes after a wipe, another log's key after reuse) and readers with the configured key can no longer open them")
	}
	nd := 0
	for fn := range decodeScope(c) {
		nd++
		detScan(c, r, "R-C18.6", fn)
	}
	// the sealing path likewise: a memo of sealed links (keyed by the nonce, which does not cover the references)
	// hands one entry's sealed lists to another
	for fn := range c.CG.Reach([]*Fn{p.Func("io/cbor", "IOCbor", "PreSign")}, false) {
		if inPkgs(p, fn, "io/cbor", "enc", "io/jsonable") {
			nd++
			detScan(c, r, "R-C18.6", fn)
		}
	}
	r.Floor("R-C18.6", "functions in the decode closure", nd, 8)
	if !hasRule(r, "R-C18.6") {
		r.Hold("R-C18.6", r.Key("R-C18.6", nil, "stateless-decode", ""), token.NoPos, true, fmt.Sprintf("%d decode functions scanned: no pool, memo table or package-level cache", nd))
	}
	ioT := p.Named("io/cbor", "IOCbor").Underlying().(*types.Struct)
	safe := func(t types.Type) (bool, string) {
		ts := types.TypeString(t, nil)
		switch {
		case strings.Contains(ts, "encoding.PooledMarshaller"), strings.Contains(ts, "encoding.PooledUnmarshaller"):
			return true, "pooled (one encoder per call)"
		case strings.Contains(ts, "encoding.Marshaller"), strings.Contains(ts, "encoding.Unmarshaller"), strings.Contains(ts, "bytes.Buffer"):
			return false, "a single stateful encoder/decoder"
		}
		return true, "stateless or immutable after construction"
	}
	nfld := 0
	for i := 0; i < ioT.NumFields(); i++ {
		f := ioT.Field(i)
		// only fields used by PreSign / DecryptLinks
		used := false
		for _, fn := range []*Fn{ps, dl} {
			walkNoLit(fn.Body, func(n ast.Node) bool {
				if e, ok := n.(ast.Expr); ok {
					if v, _ := p.FieldSel(fn, e); v == f {
						used = true
					}
				}
				return true
			})
		}
		if !used {
			continue
		}
		nfld++
		ok, why := safe(f.Type())
		r.Check(ok, "R-C18.7", r.Key("R-C18.7", nil, "codec-field", f.Name()), f.Pos(),
			"IOCbor."+f.Name()+" ("+types.TypeString(f.Type(), nil)+") is "+why,
			"IOCbor."+f.Name()+" is "+why+" shared by every concurrent PreSign/DecryptLinks (fetch workers, Join validators, parallel appends): concurrent use corrupts the sealed link payload")
	}
	r.Floor("R-C18.7", "IOCbor fields used by PreSign/DecryptLinks", nfld, 2)
	// the first-party objects behind those fields (the sealed box behind the link key): their methods leave the
	// receiver as it is — no store through it, no call on a stateful object it holds
	nimpl := 0
	for i := 0; i < ioT.NumFields(); i++ {
		f := ioT.Field(i)
		it, ok := f.Type().Underlying().(*types.Interface)
		nt := namedOf(f.Type())
		if !ok || nt == nil || !p.firstParty(nt.Obj().Pkg()) {
			continue
		}
		// the methods PreSign / DecryptLinks call on the field
		called := map[string]bool{}
		for _, user := range []*Fn{ps, dl} {
			walkNoLit(user.Body, func(n ast.Node) bool {
				if call, ok := n.(*ast.CallExpr); ok {
					if se, ok := ast.Unparen(call.Fun).(*ast.SelectorExpr); ok {
						if v, _ := p.FieldSel(user, se.X); v == f {
							called[se.Sel.Name] = true
						}
					}
				}
				return true
			})
		}
		for _, fn := range p.Fns {
			if fn.Obj == nil || fn.Orig != nil || fn.Decl == nil || fn.Decl.Recv == nil || fn.Body == nil || !p.firstParty(fn.Pkg.Types) {
				continue
			}
			sig := fn.Obj.Type().(*types.Signature)
			if !types.Implements(sig.Recv().Type(), it) {
				continue
			}
			if !called[fn.Obj.Name()] || len(fn.Decl.Recv.List) != 1 || len(fn.Decl.Recv.List[0].Names) != 1 {
				continue
			}
			nimpl++
			recv := fn.Pkg.TypesInfo.Defs[fn.Decl.Recv.List[0].Names[0]]
			bad := ""
			var badPos token.Pos
			rooted := func(e ast.Expr) bool {
				root, _, ok := p.PathKey(fn, e)
				return ok && root == recv
			}
			ast.Inspect(fn.Body, func(n ast.Node) bool {
				if bad != "" {
					return false
				}
				switch x := n.(type) {
				case *ast.AssignStmt:
					for _, l := range x.Lhs {
						e := ast.Unparen(l)
						for {
							if ix, ok := e.(*ast.IndexExpr); ok {
								e = ast.Unparen(ix.X)
								continue
							}
							break
						}
						if _, isIdent := e.(*ast.Ident); !isIdent && rooted(e) {
							bad, badPos = "stores into `"+types.ExprString(l)+"`", x.Pos()
						}
						if st, ok := e.(*ast.StarExpr); ok && rooted(st.X) {
							bad, badPos = "stores through the receiver", x.Pos()
						}
					}
				case *ast.IncDecStmt:
					if rooted(x.X) {
						if _, isIdent := ast.Unparen(x.X).(*ast.Ident); !isIdent {
							bad, badPos = "changes `"+types.ExprString(x.X)+"`", x.Pos()
						}
					}
				case *ast.CallExpr:
					if se, ok := ast.Unparen(x.Fun).(*ast.SelectorExpr); ok {
						if fv, _ := p.FieldSel(fn, se.X); fv != nil && rooted(se.X) {
							if sel := fn.Pkg.TypesInfo.Selections[se]; sel != nil && sel.Kind() == types.MethodVal {
								bad, badPos = "calls "+se.Sel.Name+" on `"+types.ExprString(se.X)+"` ("+types.TypeString(fv.Type(), nil)+"), an object every caller shares", x.Pos()
							}
						}
					}
				}
				return true
			})
			pos := fn.Body.Pos()
			if bad != "" {
				pos = badPos
			}
			r.Check(bad == "", "R-C18.7", r.Key("R-C18.7", fn, "shared-object-method", f.Name()), pos,
				fn.Name+" leaves its receiver as it is (the object behind IOCbor."+f.Name()+" is used by every concurrent PreSign/DecryptLinks)",
				fn.Name+" "+bad+": the object behind IOCbor."+f.Name()+" is shared by the merge's concurrent verifications, the fetch workers and every log using the codec — concurrent calls corrupt each other's nonce or sealed payload, and entries written by Append stop verifying")
		}
	}
	r.Floor("R-C18.7", "methods of first-party objects behind the codec's shared fields that PreSign/DecryptLinks call", nimpl, 2)

	// ---- R-C18.4
	openErr := map[types.Object]string{}
	walkNoLit(dl.Body, func(n ast.Node) bool {
		as, ok := n.(*ast.AssignStmt)
		if !ok || len(as.Rhs) != 1 {
			return true
		}
		if call, ok := ast.Unparen(as.Rhs[0]).(*ast.CallExpr); ok {
			if se, ok := ast.Unparen(call.Fun).(*ast.SelectorExpr); ok {
				switch se.Sel.Name {
				case "OpenWithNonce", "Open", "Unmarshal", "DecodeString":
					if id, ok := as.Lhs[len(as.Lhs)-1].(*ast.Ident); ok && id.Name != "_" {
						openErr[p.ObjOf(dl, id)] = se.Sel.Name
					}
				}
			}
		}
		return true
	})
	r.Doc("R-C18.13", "links are handed on in the form they were written: the codec never rebuilds a CID in another version")
	noCidReencoding(c, r, "R-C18.13")
	r.Doc("R-C18.14", "DecryptLinks replaces the clear lists of a decoded block only by links it has just opened")
	linksOverwrittenOnlyWhenOpened(c, r, "R-C18.14")
	r.Doc("R-C18.16", "every view Normalize returns — the pre-signed one included — carries the fields a codec's PreSign writes into (the sealed links live in the additional data: left out of the signed view they can be swapped in the block)")
	preSignAdditionsAreInTheView(c, r, "R-C18.16")
	r.Doc("R-C18.17", "the entry constructor stamps a constant format version on every path to the pre-sign and sign steps (only the current format's writer seals the links)")
	writtenInTheCurrentFormat(c, r, "R-C18.17")
	r.Doc("R-C18.18", "links are handled by their whole identifier (adopted from C07: a link transform that looks at the codec of a decoded link refuses sealed links to blocks of the sibling codec — readers with the key lose the entry and the history behind it)")
	importRules(c, r, "C07", []string{"R-C07.11"}, "R-C18.18")
	r.Doc("R-C18.12", "a fixed-size key or nonce buffer (an array, or a slice made with a constant length) is filled completely: the loop that copies into it covers every index (a byte left at zero makes keys that differ only there interchangeable and takes entropy out of the nonce)")
	{
		nfill := 0
		for _, fn := range p.Fns {
			if fn.Orig != nil || !inPkgs(p, fn, "enc") {
				continue
			}
			walkNoLit(fn.Body, func(n ast.Node) bool {
				fs, ok := n.(*ast.ForStmt)
				if !ok {
					return true
				}
				// stores arr[i] = … into a local array, i the loop variable
				var arrLen int64 = -1
				var ivar types.Object
				walkNoLit(fs.Body, func(m ast.Node) bool {
					as, ok := m.(*ast.AssignStmt)
					if !ok {
						return true
					}
					for _, l := range as.Lhs {
						ix, ok := ast.Unparen(l).(*ast.IndexExpr)
						if !ok {
							continue
						}
						if at, ok := p.TypeOf(fn, ix.X).Underlying().(*types.Array); ok {
							if id, ok := ast.Unparen(ix.Index).(*ast.Ident); ok {
								arrLen, ivar = at.Len(), p.ObjOf(fn, id)
							}
						} else if xid, ok := ast.Unparen(ix.X).(*ast.Ident); ok {
							// a buffer made with a constant length: `nonce := make([]byte, N)`
							if def := p.SoleDef(fn, p.ObjOf(fn, xid)); def != nil {
								if mk, ok := ast.Unparen(def).(*ast.CallExpr); ok && p.Builtin(fn, mk) == "make" && len(mk.Args) == 2 {
									if n, isC := p.constInt(fn, mk.Args[1]); isC {
										if id, ok := ast.Unparen(ix.Index).(*ast.Ident); ok {
											arrLen, ivar = n, p.ObjOf(fn, id)
										}
									}
								}
							}
						}
					}
					return true
				})
				if arrLen < 0 || ivar == nil {
					return true
				}
				nfill++
				constOf := func(e ast.Expr) (int64, bool) {
					if tv, ok := fn.Pkg.TypesInfo.Types[e]; ok && tv.Value != nil {
						if v, exact := constant.Int64Val(constant.ToInt(tv.Value)); exact {
							return v, true
						}
					}
					return 0, false
				}
				covered, why := false, "the loop bounds are not constants the rule can evaluate"
				var start, bound int64
				okS, okB := false, false
				if as, ok := fs.Init.(*ast.AssignStmt); ok && len(as.Lhs) == 1 && len(as.Rhs) == 1 {
					if id, ok := as.Lhs[0].(*ast.Ident); ok && p.ObjOf(fn, id) == ivar {
						start, okS = constOf(as.Rhs[0])
					}
				}
				var op token.Token
				if be, ok := fs.Cond.(*ast.BinaryExpr); ok {
					if id, ok := ast.Unparen(be.X).(*ast.Ident); ok && p.ObjOf(fn, id) == ivar {
						bound, okB = constOf(be.Y)
						op = be.Op
					}
				}
				step := int64(0)
				if inc, ok := fs.Post.(*ast.IncDecStmt); ok {
					if id, ok := ast.Unparen(inc.X).(*ast.Ident); ok && p.ObjOf(fn, id) == ivar {
						if inc.Tok == token.INC {
							step = 1
						} else {
							step = -1
						}
					}
				}
				if okS && okB && step != 0 {
					lo, hi := int64(0), int64(-1)
					switch {
					case step == 1 && op == token.LSS:
						lo, hi = start, bound-1
					case step == 1 && op == token.LEQ:
						lo, hi = start, bound
					case step == -1 && op == token.GTR:
						lo, hi = bound+1, start
					case step == -1 && op == token.GEQ:
						lo, hi = bound, start
					}
					covered = lo <= 0 && hi >= arrLen-1
					why = fmt.Sprintf("indices %d..%d are written, the array has %d elements", lo, hi, arrLen)
				}
				r.Check(covered, "R-C18.12", r.Key("R-C18.12", fn, "array-fill", ""), fs.Pos(), "the copying loop covers every index of the array", "the loop that fills the fixed-size array does not cover every index ("+why+"): the bytes left at zero do not take part in sealing, so a reader whose key differs only there opens the links")
				return true
			})
		}
		if nfill == 0 {
			r.Hold("R-C18.12", r.Key("R-C18.12", nil, "no-counted-fill", ""), token.NoPos, true, "key and nonce arrays are filled by range loops over the source or by copy (no counted loop to check)")
		}
	}
	r.Floor("R-C18.4", "error variables of fallible steps in DecryptLinks", len(openErr), 1) // scoped `if err := …` forms share fewer variables
	df := &Flow{P: p, Fn: dl, May: true, Entry: Facts{}}
	df.Edge = func(cond ast.Expr, taken bool, f Facts) {
		for _, a := range splitCond(cond, taken) {
			if x, isNil, ok := nilTest(a); ok && !isNil {
				if id, ok := ast.Unparen(x).(*ast.Ident); ok {
					if k := openErr[p.ObjOf(dl, id)]; k != "" {
						f["failed|"+k] = true
					}
				}
			}
		}
		errCorr{p, dl, "failed|"}.edge(cond, taken, f)
	}
	df.Node = func(n ast.Node, f Facts) {
		for _, id := range assignedIdents(n) {
			if k := openErr[p.ObjOf(dl, id)]; k != "" {
				f.DelPrefix("failed|")
			}
		}
		errCorr{p, dl, "failed|"}.node(n, f)
	}
	df.Run()
	badRet := ""
	df.Exits(func(_ *cfgBlk, ret *ast.ReturnStmt, at Facts) {
		if ret == nil {
			return
		}
		if isNil, hasErr := errResultIsNil(p, dl, ret); hasErr && isNil && at.HasPrefix("failed|") {
			badRet = p.Pos(ret.Pos())
		}
	})
	r.Check(badRet == "", "R-C18.4", r.Key("R-C18.4", dl, "failure-is-error", ""), dl.Body.Pos(),
		"a failed decode/open/unmarshal of the sealed links only reaches error returns", "after a failed open/decode of the sealed links DecryptLinks can still return success at "+badRet+": a reader with the wrong key gets an entry (with whatever links are in the block) instead of an error")
}

// constObj: the constant object an expression denotes (identifier or pkg.Const selector).
func constObj(p *Prog, fn *Fn, e ast.Expr) types.Object {
	e = ast.Unparen(e)
	switch x := e.(type) {
	case *ast.Ident:
		if c, ok := p.ObjOf(fn, x).(*types.Const); ok {
			return c
		}
	case *ast.SelectorExpr:
		if c, ok := p.ObjOf(fn, x.Sel).(*types.Const); ok {
			return c
		}
	}
	return nil
}

func hasRule(r *Report, rule string) bool {
	for _, o := range r.Obs {
		if o.Rule == rule {
			return true
		}
	}
	return false
}

func derivesFromAnyParam(v ssa.Value, sf *ssa.Function) bool {
	for x := range backSlice(v, nil) {
		if p, ok := x.(*ssa.Parameter); ok && p.Parent() == sf {
			return true
		}
	}
	return false
}

// emptyGetterAtom: the atom establishes that len(x.GetNAME()) is zero, however the test is spelled
// (`== 0`, `< 1`, `!(len > 0)`, `0 == len`): returns NAME, else "".
func emptyGetterAtom(p *Prog, fn *Fn, a condAtom) string {
	name := ""
	isLenOfGetter := func(e ast.Expr) bool {
		call, ok := ast.Unparen(e).(*ast.CallExpr)
		if !ok || p.Builtin(fn, call) != "len" || len(call.Args) != 1 {
			return false
		}
		inner, ok := ast.Unparen(call.Args[0]).(*ast.CallExpr)
		if !ok {
			return false
		}
		se, ok := ast.Unparen(inner.Fun).(*ast.SelectorExpr)
		if !ok || !strings.HasPrefix(se.Sel.Name, "Get") {
			return false
		}
		name = strings.TrimPrefix(se.Sel.Name, "Get")
		return true
	}
	if nc, ok := p.normalizeCmp(fn, a, isLenOfGetter); ok && nc.impliesNonPositive() {
		return name
	}
	return ""
}
