package main

// ssahelp.go — small go/ssa helpers: field stores/loads, backward data slices, cell resolution.

import (
	"go/token"
	"go/types"

	"golang.org/x/tools/go/ssa"
)

// fieldOf: if addr is a FieldAddr, the struct field it denotes.
func fieldOf(addr ssa.Value) (*types.Var, *ssa.FieldAddr) {
	fa, ok := addr.(*ssa.FieldAddr)
	if !ok {
		return nil, nil
	}
	t := fa.X.Type()
	if pt, ok := t.Underlying().(*types.Pointer); ok {
		t = pt.Elem()
	}
	st, ok := t.Underlying().(*types.Struct)
	if !ok {
		return nil, nil
	}
	return st.Field(fa.Field), fa
}

// allInstrs iterates instructions of fn and (optionally) its anonymous functions.
func allInstrs(fn *ssa.Function, withAnon bool, f func(ssa.Instruction)) {
	for _, b := range fn.Blocks {
		for _, ins := range b.Instrs {
			f(ins)
		}
	}
	if withAnon {
		for _, an := range fn.AnonFuncs {
			allInstrs(an, true, f)
		}
	}
}

// fieldStores lists stores to the given struct field.
func fieldStores(fn *ssa.Function, field *types.Var, withAnon bool) []*ssa.Store {
	var out []*ssa.Store
	allInstrs(fn, withAnon, func(ins ssa.Instruction) {
		if st, ok := ins.(*ssa.Store); ok {
			if f, _ := fieldOf(st.Addr); f == field {
				out = append(out, st)
			}
		}
	})
	return out
}

// cellStores: stores to an Alloc cell (or free variable bound to it) anywhere in the enclosing function tree.
func cellStores(cell ssa.Value) []*ssa.Store {
	var root *ssa.Function
	switch x := cell.(type) {
	case *ssa.Alloc:
		root = x.Parent()
	case *ssa.FreeVar:
		root = x.Parent()
	default:
		return nil
	}
	for root.Parent() != nil {
		root = root.Parent()
	}
	target := resolveCell(cell)
	var out []*ssa.Store
	allInstrs(root, true, func(ins ssa.Instruction) {
		if st, ok := ins.(*ssa.Store); ok && resolveCell(st.Addr) == target && target != nil {
			out = append(out, st)
		}
	})
	return out
}

// resolveCell maps a free variable to the Alloc it is bound to in the enclosing function.
func resolveCell(v ssa.Value) ssa.Value {
	for i := 0; i < 8; i++ {
		fv, ok := v.(*ssa.FreeVar)
		if !ok {
			return v
		}
		fn := fv.Parent()
		idx := -1
		for k, f := range fn.FreeVars {
			if f == fv {
				idx = k
			}
		}
		par := fn.Parent()
		if par == nil || idx < 0 {
			return v
		}
		var bound ssa.Value
		allInstrs(par, false, func(ins ssa.Instruction) {
			if mc, ok := ins.(*ssa.MakeClosure); ok && mc.Fn == ssa.Value(fn) && idx < len(mc.Bindings) {
				bound = mc.Bindings[idx]
			}
		})
		if bound == nil {
			return v
		}
		v = bound
	}
	return v
}

// backSlice computes the backward data slice of v: operands of defining instructions, phi edges, call
// arguments and receivers, loads of local cells (through all stores to the cell), element stores into
// slices/maps that v may alias (IndexAddr/MapUpdate on the same base). Memory through struct fields is
// followed flow-insensitively within the function (a load of x.f depends on every store to field f).
func backSlice(v ssa.Value, through func(ssa.Value) bool) map[ssa.Value]bool {
	return backSliceOpt(v, through, false)
}

// postDoms computes, per block, the set of blocks that post-dominate it (iterative dataflow; virtual exit).
var pdomCache = map[*ssa.Function]map[*ssa.BasicBlock]map[*ssa.BasicBlock]bool{}

func postDoms(fn *ssa.Function) map[*ssa.BasicBlock]map[*ssa.BasicBlock]bool {
	if r, ok := pdomCache[fn]; ok {
		return r
	}
	all := map[*ssa.BasicBlock]bool{}
	for _, b := range fn.Blocks {
		all[b] = true
	}
	pd := map[*ssa.BasicBlock]map[*ssa.BasicBlock]bool{}
	for _, b := range fn.Blocks {
		if len(b.Succs) == 0 {
			pd[b] = map[*ssa.BasicBlock]bool{b: true}
		} else {
			m := map[*ssa.BasicBlock]bool{}
			for x := range all {
				m[x] = true
			}
			pd[b] = m
		}
	}
	for changed := true; changed; {
		changed = false
		for i := len(fn.Blocks) - 1; i >= 0; i-- {
			b := fn.Blocks[i]
			if len(b.Succs) == 0 {
				continue
			}
			nw := map[*ssa.BasicBlock]bool{}
			first := true
			for _, s := range b.Succs {
				if first {
					for x := range pd[s] {
						nw[x] = true
					}
					first = false
				} else {
					for x := range nw {
						if !pd[s][x] {
							delete(nw, x)
						}
					}
				}
			}
			nw[b] = true
			if len(nw) != len(pd[b]) {
				pd[b] = nw
				changed = true
			}
		}
	}
	pdomCache[fn] = pd
	return pd
}

// controlConds: conditions of the If blocks that b is (transitively) control-dependent on:
// A ends in If, b post-dominates one successor of A but does not strictly post-dominate A.
func controlConds(b *ssa.BasicBlock) []ssa.Value {
	fn := b.Parent()
	pd := postDoms(fn)
	var out []ssa.Value
	seen := map[*ssa.BasicBlock]bool{}
	work := []*ssa.BasicBlock{b}
	for len(work) > 0 {
		cur := work[len(work)-1]
		work = work[:len(work)-1]
		for _, a := range fn.Blocks {
			if len(a.Instrs) == 0 || seen[a] {
				continue
			}
			iff, ok := a.Instrs[len(a.Instrs)-1].(*ssa.If)
			if !ok {
				continue
			}
			dep := false
			for _, s := range a.Succs {
				if pd[s][cur] && !(pd[a][cur] && a != cur) {
					dep = true
				}
			}
			if dep {
				seen[a] = true
				out = append(out, iff.Cond)
				work = append(work, a)
			}
		}
	}
	return out
}

// backSliceOpt: with ctrl, the conditions controlling element stores and phi merges are part of the slice.
func backSliceOpt(v ssa.Value, through func(ssa.Value) bool, ctrl bool) map[ssa.Value]bool {
	seen := map[ssa.Value]bool{}
	visitedFn := map[*ssa.Function]bool{}
	var work []ssa.Value
	push := func(x ssa.Value) {
		if x != nil && !seen[x] {
			seen[x] = true
			work = append(work, x)
		}
	}
	push(v)
	for len(work) > 0 {
		x := work[len(work)-1]
		work = work[:len(work)-1]
		if through != nil && !through(x) {
			continue
		}
		switch y := x.(type) {
		case *ssa.Phi:
			for i, e := range y.Edges {
				push(e)
				if ctrl && i < len(y.Block().Preds) {
					pb := y.Block().Preds[i]
					if len(pb.Instrs) > 0 {
						if iff, ok := pb.Instrs[len(pb.Instrs)-1].(*ssa.If); ok {
							push(iff.Cond)
						}
					}
					for _, cnd := range controlConds(pb) {
						push(cnd)
					}
				}
			}
		case *ssa.UnOp:
			push(y.X)
			if y.Op == token.MUL {
				// load: through cell stores / field stores
				switch a := y.X.(type) {
				case *ssa.Alloc, *ssa.FreeVar:
					for _, st := range cellStores(a) {
						push(st.Val)
					}
				case *ssa.FieldAddr:
					if f, _ := fieldOf(a); f != nil && y.Parent() != nil {
						for _, st := range fieldStores(y.Parent(), f, false) {
							push(st.Val)
						}
					}
				case *ssa.IndexAddr:
					push(a.X)
					push(a.Index)
				}
			}
		case *ssa.Call:
			// results of first-party static callees and of local closures: follow their return values
			var cf *ssa.Function
			if sc := y.Call.StaticCallee(); sc != nil && len(sc.Blocks) > 0 && len(sc.Blocks) <= 40 {
				if pkg := calleePkg(sc); pkg != nil && v.Parent() != nil && calleePkg(v.Parent()) == pkg {
					cf = sc
				} else if sc.Parent() != nil {
					cf = sc // function literal
				}
			}
			if mc, ok := y.Call.Value.(*ssa.MakeClosure); ok {
				cf, _ = mc.Fn.(*ssa.Function)
			}
			if cf != nil && !visitedFn[cf] {
				visitedFn[cf] = true
				for _, b := range cf.Blocks {
					if ret, ok := b.Instrs[len(b.Instrs)-1].(*ssa.Return); ok {
						for _, rv := range ret.Results {
							push(rv)
						}
						if ctrl {
							for _, cnd := range controlConds(b) {
								push(cnd)
							}
						}
					}
				}
			}
			for _, op := range y.Operands(nil) {
				if op != nil && *op != nil {
					push(*op)
				}
			}
		case *ssa.Alloc:
			// a pointer to a local cell stands for the cell's contents; a freshly built struct for its fields
			if refs := y.Referrers(); refs != nil {
				for _, ref := range *refs {
					if fa, ok := ref.(*ssa.FieldAddr); ok && fa.X == ssa.Value(y) {
						// stores into the field, and into the fields of a struct-valued field (nested literals)
						var into func(fa *ssa.FieldAddr, d int)
						into = func(fa *ssa.FieldAddr, d int) {
							rr := fa.Referrers()
							if rr == nil || d > 3 {
								return
							}
							for _, u := range *rr {
								switch w := u.(type) {
								case *ssa.Store:
									if w.Addr == ssa.Value(fa) {
										push(w.Val)
									}
								case *ssa.FieldAddr:
									if w.X == ssa.Value(fa) {
										into(w, d+1)
									}
								}
							}
						}
						into(fa, 0)
					}
				}
			}
			for _, st := range cellStores(y) {
				push(st.Val)
				if ctrl {
					for _, cnd := range controlConds(st.Block()) {
						push(cnd)
					}
				}
			}
		case *ssa.Parameter:
			// a parameter of a callee we stepped into: the arguments at its call sites inside the slice are
			// already pushed as operands of the call
		case ssa.Instruction:
			for _, op := range y.Operands(nil) {
				if op != nil && *op != nil {
					push(*op)
				}
			}
		}
		// values written into x's elements
		if refs := x.Referrers(); refs != nil {
			for _, ref := range *refs {
				switch r := ref.(type) {
				case *ssa.IndexAddr:
					if r.X == x {
						if rr := r.Referrers(); rr != nil {
							for _, u := range *rr {
								if st, ok := u.(*ssa.Store); ok && st.Addr == ssa.Value(r) {
									push(st.Val)
									if ctrl {
										for _, cnd := range controlConds(st.Block()) {
											push(cnd)
										}
									}
								}
							}
						}
					}
				case *ssa.MapUpdate:
					if r.Map == x {
						push(r.Key)
						push(r.Value)
						if ctrl {
							for _, cnd := range controlConds(r.Block()) {
								push(cnd)
							}
						}
					}
				}
			}
		}
	}
	return seen
}

// calleeOf returns the static callee or the interface method of a call instruction.
func calleeOf(c ssa.CallInstruction) *types.Func {
	cc := c.Common()
	if cc.IsInvoke() {
		return cc.Method
	}
	if f := cc.StaticCallee(); f != nil {
		if o, ok := f.Object().(*types.Func); ok {
			return o
		}
	}
	return nil
}

// instrBefore: a executes before b on every path reaching b (a's block dominates b's block, or same block earlier).
func instrDominates(a, b ssa.Instruction) bool {
	if a.Block() == b.Block() {
		for _, ins := range a.Block().Instrs {
			if ins == a {
				return true
			}
			if ins == b {
				return false
			}
		}
	}
	return a.Block().Dominates(b.Block())
}

// ssaGroup: sf together with the same-package helpers it calls statically that have exactly one call site
// in first-party code (what a maintainer obtains by extracting part of sf into a helper), two levels deep.
func (p *Prog) ssaGroup(sf *ssa.Function) []*ssa.Function {
	out := []*ssa.Function{sf}
	seen := map[*ssa.Function]bool{sf: true}
	var add func(f *ssa.Function, depth int)
	add = func(f *ssa.Function, depth int) {
		if depth >= 2 {
			return
		}
		allInstrs(f, true, func(ins ssa.Instruction) {
			call, ok := ins.(ssa.CallInstruction)
			if !ok {
				return
			}
			cal := call.Common().StaticCallee()
			if cal == nil || seen[cal] || len(cal.Blocks) == 0 || calleePkg(cal) != calleePkg(sf) {
				return
			}
			o, ok := cal.Object().(*types.Func)
			if !ok || p.callSiteCounts()[o] != 1 || token.IsExported(o.Name()) {
				return
			}
			seen[cal] = true
			out = append(out, cal)
			add(cal, depth+1)
		})
	}
	add(sf, 0)
	return out
}

// fieldStoresGroup: stores to the field in sf and its exclusive helpers.
func (p *Prog) fieldStoresGroup(sf *ssa.Function, field *types.Var) []*ssa.Store {
	var out []*ssa.Store
	for _, f := range p.ssaGroup(sf) {
		for _, st := range fieldStores(f, field, false) {
			if f != sf && nilInitStore(st, field) {
				continue // `if x.F == nil { x.F = new }` in a helper: initialisation, not a change
			}
			out = append(out, st)
		}
	}
	return out
}

// nilInitStore: the store is control-dependent on `<load of the same field> == nil`.
func nilInitStore(st *ssa.Store, field *types.Var) bool {
	for _, cnd := range controlConds(st.Block()) {
		if bo, ok := cnd.(*ssa.BinOp); ok && bo.Op == token.EQL {
			for _, pr := range [][2]ssa.Value{{bo.X, bo.Y}, {bo.Y, bo.X}} {
				if c, ok := pr[1].(*ssa.Const); ok && c.IsNil() {
					if u, ok := pr[0].(*ssa.UnOp); ok && u.Op == token.MUL {
						if f, _ := fieldOf(u.X); f == field {
							return true
						}
					}
				}
			}
		}
	}
	return false
}

// callSiteOf: the instruction in root's group that calls g.
func (p *Prog) callSiteOf(root *ssa.Function, g *ssa.Function) ssa.Instruction {
	var site ssa.Instruction
	for _, f := range p.ssaGroup(root) {
		allInstrs(f, true, func(ins ssa.Instruction) {
			if call, ok := ins.(ssa.CallInstruction); ok && call.Common().StaticCallee() == g {
				site = ins
			}
		})
	}
	return site
}

// instrDominatesG: dominance across a function and its exclusive helpers — an instruction of a helper is
// represented by the helper's (single) call site in the caller.
func (p *Prog) instrDominatesG(root *ssa.Function, a, b ssa.Instruction) bool {
	for i := 0; i < 3 && a.Parent() != b.Parent(); i++ {
		// lift the one that lives in a helper
		if b.Parent() != root {
			if cs := p.callSiteOf(root, b.Parent()); cs != nil {
				b = cs
				continue
			}
		}
		if a.Parent() != root {
			// a inside a helper dominates what follows the helper's call site only if it is on every path
			// of the helper; approximate by the call site
			if cs := p.callSiteOf(root, a.Parent()); cs != nil {
				a = cs
				continue
			}
		}
		return false
	}
	if a.Parent() != b.Parent() {
		return false
	}
	return instrDominates(a, b)
}

// sliceWithArgs: the backward slice of v, where a parameter of another function that the slice reaches is
// replaced by the arguments of that function's calls inside caller (a struct built by a helper from what it is
// handed depends on what the caller handed it).
func sliceWithArgs(v ssa.Value, caller *ssa.Function, ctrl bool) map[ssa.Value]bool {
	out := map[ssa.Value]bool{}
	work := []ssa.Value{v}
	done := map[ssa.Value]bool{}
	for len(work) > 0 {
		x := work[len(work)-1]
		work = work[:len(work)-1]
		if done[x] {
			continue
		}
		done[x] = true
		for y := range backSliceOpt(x, nil, ctrl) {
			out[y] = true
			par, ok := y.(*ssa.Parameter)
			if !ok || par.Parent() == caller || par.Parent() == nil {
				continue
			}
			idx := -1
			for i, pp := range par.Parent().Params {
				if pp == par {
					idx = i
				}
			}
			allInstrs(caller, true, func(ins ssa.Instruction) {
				if call, ok := ins.(*ssa.Call); ok && call.Call.StaticCallee() == par.Parent() && idx >= 0 && idx < len(call.Call.Args) {
					work = append(work, call.Call.Args[idx])
				}
			})
		}
	}
	return out
}
