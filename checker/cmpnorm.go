package main

// cmpnorm.go — comparisons of one integer subject against a constant, brought to the form `subject OP c` whatever
// way they are written: operands on either side, negated by `!`, constants spelled as literals, negative literals
// or named constants. Rules that need "this test establishes n >= 0" or "this test is true for every n < 0" ask
// the normal form, so that `n > -1`, `n >= 0`, `0 <= n`, `!(n < 0)`, `-1 < n` are one thing.

import (
	"go/ast"
	"go/constant"
	"go/token"
)

type normCmp struct {
	Op token.Token // LSS, LEQ, GTR, GEQ, EQL, NEQ — subject OP C
	C  int64
}

func flipOp(op token.Token) token.Token { // a OP b  ==  b flip(OP) a
	switch op {
	case token.LSS:
		return token.GTR
	case token.LEQ:
		return token.GEQ
	case token.GTR:
		return token.LSS
	case token.GEQ:
		return token.LEQ
	}
	return op
}

func negOp(op token.Token) token.Token { // !(a OP b) == a neg(OP) b
	switch op {
	case token.LSS:
		return token.GEQ
	case token.LEQ:
		return token.GTR
	case token.GTR:
		return token.LEQ
	case token.GEQ:
		return token.LSS
	case token.EQL:
		return token.NEQ
	case token.NEQ:
		return token.EQL
	}
	return token.ILLEGAL
}

// constInt evaluates e as an integer constant with the type checker's constant folding.
func (p *Prog) constInt(fn *Fn, e ast.Expr) (int64, bool) {
	if tv, ok := fn.Pkg.TypesInfo.Types[e]; ok && tv.Value != nil && tv.Value.Kind() == constant.Int {
		return constant.Int64Val(tv.Value)
	}
	return 0, false
}

// normalizeCmp: the atom (expression with the truth value it has on this edge) as `subject OP c`.
func (p *Prog) normalizeCmp(fn *Fn, a condAtom, isSubject func(ast.Expr) bool) (normCmp, bool) {
	e := ast.Unparen(a.E)
	truth := a.Truth
	for {
		u, ok := e.(*ast.UnaryExpr)
		if !ok || u.Op != token.NOT {
			break
		}
		e, truth = ast.Unparen(u.X), !truth
	}
	be, ok := e.(*ast.BinaryExpr)
	if !ok || negOp(be.Op) == token.ILLEGAL {
		return normCmp{}, false
	}
	op := be.Op
	var c int64
	if cv, isC := p.constInt(fn, be.Y); isC && isSubject(be.X) {
		c = cv
	} else if cv, isC := p.constInt(fn, be.X); isC && isSubject(be.Y) {
		c, op = cv, flipOp(op)
	} else {
		return normCmp{}, false
	}
	if !truth {
		op = negOp(op)
	}
	return normCmp{Op: op, C: c}, true
}

// impliesNonNegative: subject OP c holds only for subject >= 0.
func (n normCmp) impliesNonNegative() bool {
	switch n.Op {
	case token.GTR:
		return n.C >= -1
	case token.GEQ, token.EQL:
		return n.C >= 0
	}
	return false
}

// holdsForEveryNegative: subject OP c holds for every subject < 0.
func (n normCmp) holdsForEveryNegative() bool {
	switch n.Op {
	case token.LSS:
		return n.C >= 0
	case token.LEQ:
		return n.C >= -1
	case token.NEQ:
		return n.C >= 0
	}
	return false
}

// impliesNegative: subject OP c holds only for subject < 0.
func (n normCmp) impliesNegative() bool {
	switch n.Op {
	case token.LSS:
		return n.C <= 0
	case token.LEQ, token.EQL:
		return n.C <= -1
	}
	return false
}

// impliesNonPositive: subject OP c holds only for subject <= 0 (for a length or a counter: it is zero).
func (n normCmp) impliesNonPositive() bool {
	switch n.Op {
	case token.LSS:
		return n.C <= 1
	case token.LEQ, token.EQL:
		return n.C <= 0
	}
	return false
}

// impliesPositive: subject OP c holds only for subject >= 1 (for a length: it is not empty).
func (n normCmp) impliesPositive() bool {
	switch n.Op {
	case token.GTR:
		return n.C >= 0
	case token.GEQ, token.EQL:
		return n.C >= 1
	}
	return false
}

// holdsAt: subject OP c is true for subject == v.
func (n normCmp) holdsAt(v int64) bool {
	switch n.Op {
	case token.LSS:
		return v < n.C
	case token.LEQ:
		return v <= n.C
	case token.GTR:
		return v > n.C
	case token.GEQ:
		return v >= n.C
	case token.EQL:
		return v == n.C
	case token.NEQ:
		return v != n.C
	}
	return false
}
