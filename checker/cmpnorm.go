package main

// cmpnorm.go — comparisons of one integer subject against a constant, brought to the form `subject OP c` whatever
// way they are written: operands on either side, negated by `!`, constants spelled as literals, negative literals
// or named constants. Rules that need "this test establishes n >= 0" or "this test is true for every n < 0" ask
// the normal form, so that `n > -1`, `n >= 0`, `0 <= n`, `!(n < 0)`, `-1 < n` are one thing.

import (
	"go/ast"
	"go/constant"
	"go/token"
	"go/types"
)

type normCmp struct {
	Op token.Token // LSS, LEQ, GTR, GEQ, EQL, NEQ — subject OP C
	C  int64
}

func flipOp(op token.Token) token.Token { // a OP b  ==  b flip(OP) a
	switch op {
	case token.LSS:
		return token.GTR
	case token.LEQ:
		return token.GEQ
	case token.GTR:
		return token.LSS
	case token.GEQ:
		return token.LEQ
	}
	return op
}

func negOp(op token.Token) token.Token { // !(a OP b) == a neg(OP) b
	switch op {
	case token.LSS:
		return token.GEQ
	case token.LEQ:
		return token.GTR
	case token.GTR:
		return token.LEQ
	case token.GEQ:
		return token.LSS
	case token.EQL:
		return token.NEQ
	case token.NEQ:
		return token.EQL
	}
	return token.ILLEGAL
}

// constInt evaluates e as an integer constant with the type checker's constant folding.
func (p *Prog) constInt(fn *Fn, e ast.Expr) (int64, bool) {
	if tv, ok := fn.Pkg.TypesInfo.Types[e]; ok && tv.Value != nil && tv.Value.Kind() == constant.Int {
		return constant.Int64Val(tv.Value)
	}
	return 0, false
}

// normalizeCmp: the atom (expression with the truth value it has on this edge) as `subject OP c`.
func (p *Prog) normalizeCmp(fn *Fn, a condAtom, isSubject func(ast.Expr) bool) (normCmp, bool) {
	e := ast.Unparen(a.E)
	truth := a.Truth
	for {
		u, ok := e.(*ast.UnaryExpr)
		if !ok || u.Op != token.NOT {
			break
		}
		e, truth = ast.Unparen(u.X), !truth
	}
	be, ok := e.(*ast.BinaryExpr)
	if !ok || negOp(be.Op) == token.ILLEGAL {
		return normCmp{}, false
	}
	op := be.Op
	var c int64
	if cv, isC := p.constInt(fn, be.Y); isC && isSubject(be.X) {
		c = cv
	} else if cv, isC := p.constInt(fn, be.X); isC && isSubject(be.Y) {
		c, op = cv, flipOp(op)
	} else {
		return normCmp{}, false
	}
	if !truth {
		op = negOp(op)
	}
	return normCmp{Op: op, C: c}, true
}

// impliesNonNegative: subject OP c holds only for subject >= 0.
func (n normCmp) impliesNonNegative() bool {
	switch n.Op {
	case token.GTR:
		return n.C >= -1
	case token.GEQ, token.EQL:
		return n.C >= 0
	}
	return false
}

// holdsForEveryNegative: subject OP c holds for every subject < 0.
func (n normCmp) holdsForEveryNegative() bool {
	switch n.Op {
	case token.LSS:
		return n.C >= 0
	case token.LEQ:
		return n.C >= -1
	case token.NEQ:
		return n.C >= 0
	}
	return false
}

// impliesNegative: subject OP c holds only for subject < 0.
func (n normCmp) impliesNegative() bool {
	switch n.Op {
	case token.LSS:
		return n.C <= 0
	case token.LEQ, token.EQL:
		return n.C <= -1
	}
	return false
}

// impliesNonPositive: subject OP c holds only for subject <= 0 (for a length or a counter: it is zero).
func (n normCmp) impliesNonPositive() bool {
	switch n.Op {
	case token.LSS:
		return n.C <= 1
	case token.LEQ, token.EQL:
		return n.C <= 0
	}
	return false
}

// impliesPositive: subject OP c holds only for subject >= 1 (for a length: it is not empty).
func (n normCmp) impliesPositive() bool {
	switch n.Op {
	case token.GTR:
		return n.C >= 0
	case token.GEQ, token.EQL:
		return n.C >= 1
	}
	return false
}

// holdsAt: subject OP c is true for subject == v.
func (n normCmp) holdsAt(v int64) bool {
	switch n.Op {
	case token.LSS:
		return v < n.C
	case token.LEQ:
		return v <= n.C
	case token.GTR:
		return v > n.C
	case token.GEQ:
		return v >= n.C
	case token.EQL:
		return v == n.C
	case token.NEQ:
		return v != n.C
	}
	return false
}

// localMinusOneOrNonNeg: every assignment to the local v stores the constant −1 or a value that cannot be
// negative by construction (max(…, c) with a constant c ≥ 0, len(…), a constant ≥ 0).
func (p *Prog) localMinusOneOrNonNeg(fn *Fn, v types.Object) bool {
	lv, ok := v.(*types.Var)
	if !ok || lv.IsField() {
		return false
	}
	nonNeg := func(e ast.Expr) bool {
		e = ast.Unparen(e)
		if c, isC := p.constInt(fn, e); isC {
			return c >= 0 || c == -1
		}
		call, ok := e.(*ast.CallExpr)
		if !ok {
			return false
		}
		if p.Builtin(fn, call) == "len" {
			return true
		}
		isMax := p.Builtin(fn, call) == "max"
		if cf := p.Callee(fn, call); cf != nil && p.firstParty(cf.Pkg()) && (cf.Name() == "maxInt" || cf.Name() == "max") {
			isMax = true
		}
		if isMax {
			for _, a := range call.Args {
				if c, isC := p.constInt(fn, a); isC && c >= 0 {
					return true
				}
				if inner, ok := ast.Unparen(a).(*ast.CallExpr); ok && p.Builtin(fn, inner) == "len" {
					return true
				}
			}
		}
		return false
	}
	n, all := 0, true
	ast.Inspect(fn.Root().Body, func(m ast.Node) bool {
		switch x := m.(type) {
		case *ast.AssignStmt:
			for i, l := range x.Lhs {
				if id, ok := ast.Unparen(l).(*ast.Ident); ok && p.ObjOf(fn, id) == v {
					n++
					if len(x.Lhs) != len(x.Rhs) || (x.Tok != token.ASSIGN && x.Tok != token.DEFINE) || !nonNeg(x.Rhs[i]) {
						all = false
					}
				}
			}
		case *ast.IncDecStmt:
			if id, ok := ast.Unparen(x.X).(*ast.Ident); ok && p.ObjOf(fn, id) == v {
				all = false
			}
		case *ast.UnaryExpr:
			if x.Op == token.AND {
				if id, ok := ast.Unparen(x.X).(*ast.Ident); ok && p.ObjOf(fn, id) == v {
					all = false
				}
			}
		}
		return true
	})
	return n > 0 && all
}
