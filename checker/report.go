package main

// report.go — obligations, floors, known findings, evidence and violation files.

import (
	"encoding/json"
	"fmt"
	"go/token"
	"os"
	"path/filepath"
	"sort"
	"strings"
	"time"
)

type Ob struct {
	Rule       string   `json:"rule"`
	Key        string   `json:"construct"`
	Pos        string   `json:"pos"`
	Status     string   `json:"status"` // holds | violated | undecided
	Detail     string   `json:"detail,omitempty"`
	Facts      []string `json:"facts,omitempty"`
	Nontrivial bool     `json:"nontrivial"`
}

type FloorRec struct {
	Rule string `json:"rule"`
	What string `json:"what"`
	Got  int    `json:"got"`
	Want int    `json:"floor"`
}

type Report struct {
	P        *Prog
	Property string
	Obs      []Ob
	Floors   []FloorRec
	Notes    []string
	Listed   []string // things seen and deliberately not armed
	RuleDoc  map[string]string
	ordinals map[string]int
	Analysed map[string]bool // function names analysed
	Tables   map[string]interface{}
}

func NewReport(p *Prog, prop string) *Report {
	return &Report{P: p, Property: prop, RuleDoc: map[string]string{}, ordinals: map[string]int{}, Analysed: map[string]bool{}, Tables: map[string]interface{}{}}
}

func (r *Report) Doc(rule, doc string) { r.RuleDoc[rule] = doc }

// Key builds a position-independent construct key; equal constructs in one function get ordinals.
func (r *Report) Key(rule string, fn *Fn, kind, name string) string {
	fnn := "-"
	if fn != nil {
		fnn = fn.Name
		r.Analysed[fn.Name] = true
	}
	base := fmt.Sprintf("%s/%s:%s", fnn, kind, name)
	k := rule + "|" + base
	n := r.ordinals[k]
	r.ordinals[k] = n + 1
	return fmt.Sprintf("%s#%d", base, n)
}

func (r *Report) add(rule, key string, pos token.Pos, status string, nontrivial bool, detail string, facts []string) {
	ps := "?"
	if r.P != nil {
		ps = r.P.Pos(pos)
	}
	r.Obs = append(r.Obs, Ob{Rule: rule, Key: key, Pos: ps, Status: status, Detail: detail, Facts: facts, Nontrivial: nontrivial})
}

func (r *Report) Hold(rule, key string, pos token.Pos, nontrivial bool, detail string, facts ...string) {
	r.add(rule, key, pos, "holds", nontrivial, detail, facts)
}
func (r *Report) Violate(rule, key string, pos token.Pos, detail string, facts ...string) {
	r.add(rule, key, pos, "violated", true, detail, facts)
}
func (r *Report) Undecided(rule, key string, pos token.Pos, detail string, facts ...string) {
	r.add(rule, key, pos, "undecided", true, detail, facts)
}

// Check records holds/violated from a boolean.
func (r *Report) Check(ok bool, rule, key string, pos token.Pos, okDetail, badDetail string, facts ...string) bool {
	if ok {
		r.Hold(rule, key, pos, true, okDetail, facts...)
	} else {
		r.Violate(rule, key, pos, badDetail, facts...)
	}
	return ok
}

// Floor: a rule that found fewer instances than were confirmed by hand went blind.
func (r *Report) Floor(rule, what string, got, want int) {
	r.Floors = append(r.Floors, FloorRec{rule, what, got, want})
	if got < want {
		r.add(rule, fmt.Sprintf("-/floor:%s#0", what), token.NoPos, "violated", true,
			fmt.Sprintf("rule went blind: %d instances of %q found, floor is %d (confirmed by hand on the pinned tree)", got, what, want), nil)
	}
}

func (r *Report) Note(format string, a ...interface{}) {
	r.Notes = append(r.Notes, fmt.Sprintf(format, a...))
}
func (r *Report) List(format string, a ...interface{}) {
	r.Listed = append(r.Listed, fmt.Sprintf(format, a...))
}

// ---- known findings --------------------------------------------------------------------

type Finding struct {
	Status   string `json:"status"` // open | fixed
	Property string `json:"property"`
	Rule     string `json:"rule"`
	Key      string `json:"construct"`
	What     string `json:"what"`
	Commit   string `json:"commit,omitempty"`
	Line     string `json:"line,omitempty"` // the "fixed: property=.. <commit> <what>" record
}

type KnownFile struct {
	Comment  string    `json:"comment"`
	Findings []Finding `json:"findings"`
}

func loadKnown(path string) []Finding {
	if path == "" {
		return nil
	}
	b, err := os.ReadFile(path)
	if err != nil {
		if os.IsNotExist(err) {
			return nil
		}
		infra("known-findings: %v", err)
	}
	var kf KnownFile
	if err := json.Unmarshal(b, &kf); err != nil {
		infra("known-findings: %v", err)
	}
	return kf.Findings
}

// ---- evidence --------------------------------------------------------------------------

type Outcome struct {
	Violations int
	Known      int
	Lines      []string
}

func (r *Report) Finish(tier string, seed int, level string, known []Finding, evidencePath string, t0 time.Time, extra map[string]interface{}, assumptions, trusted []string, explanation string) Outcome {
	sort.SliceStable(r.Obs, func(i, j int) bool {
		if r.Obs[i].Rule != r.Obs[j].Rule {
			return r.Obs[i].Rule < r.Obs[j].Rule
		}
		return r.Obs[i].Key < r.Obs[j].Key
	})
	var out Outcome
	evDir := filepath.Dir(evidencePath)
	vioDir := filepath.Join(evDir, "violations")
	// remove stale violation files of this property
	if ents, err := os.ReadDir(vioDir); err == nil {
		for _, e := range ents {
			if strings.HasPrefix(e.Name(), r.Property+"-") {
				os.Remove(filepath.Join(vioDir, e.Name()))
			}
		}
	}
	total, discharged, nontriv := 0, 0, 0
	distinct := map[string]bool{}
	perRule := map[string]map[string]int{}
	var knownHit []string
	var vio []Ob
	for _, o := range r.Obs {
		total++
		if perRule[o.Rule] == nil {
			perRule[o.Rule] = map[string]int{}
		}
		perRule[o.Rule][o.Status]++
		if o.Nontrivial && !distinct[o.Rule+"|"+o.Key] {
			distinct[o.Rule+"|"+o.Key] = true
			nontriv++
		}
		if o.Status == "holds" {
			discharged++
			continue
		}
		isKnown := false
		for _, k := range known {
			if k.Status == "open" && k.Property == r.Property && k.Rule == o.Rule && k.Key == o.Key {
				isKnown = true
				line := fmt.Sprintf("KNOWN-FINDING: property=%s %s %s at %s — %s", r.Property, o.Rule, o.Key, o.Pos, k.What)
				out.Lines = append(out.Lines, line)
				knownHit = append(knownHit, line)
				out.Known++
			}
		}
		if !isKnown {
			vio = append(vio, o)
		}
	}
	if len(vio) > 0 {
		os.MkdirAll(vioDir, 0o755)
	}
	for i, o := range vio {
		path := filepath.Join(vioDir, fmt.Sprintf("%s-%d.json", r.Property, i))
		b, _ := json.MarshalIndent(map[string]interface{}{
			"property": r.Property, "rule": o.Rule, "rule_doc": r.RuleDoc[o.Rule], "construct": o.Key, "pos": o.Pos,
			"status": o.Status, "detail": o.Detail, "facts": o.Facts, "repo": r.P.Dir,
		}, "", " ")
		os.WriteFile(path, b, 0o644)
		out.Lines = append(out.Lines, fmt.Sprintf("VIOLATION property=%s replay=%s", r.Property, path))
		out.Lines = append(out.Lines, fmt.Sprintf("  %s [%s] %s at %s: %s", o.Status, o.Rule, o.Key, o.Pos, o.Detail))
		out.Violations++
	}
	// samples: a few obligations per rule, non-trivial first
	var samples []Ob
	seen := map[string]int{}
	for _, o := range r.Obs {
		if o.Nontrivial && seen[o.Rule] < 2 {
			samples = append(samples, o)
			seen[o.Rule]++
		}
	}
	var fns []string
	for f := range r.Analysed {
		fns = append(fns, f)
	}
	sort.Strings(fns)
	var pkgs []string
	nfn := 0
	if r.P != nil {
		for _, pk := range r.P.Pkgs {
			pkgs = append(pkgs, pk.PkgPath)
		}
		nfn = len(r.P.Fns)
	}
	cov := map[string]interface{}{
		"obligations":         total,
		"discharged":          discharged,
		"evaluations":         total,
		"distinct_nontrivial": nontriv,
		"rule": "one obligation per (rule, construct) instance found in /repo's current source; non-trivial = the decision needed a non-empty fact set " +
			"(a dominating guard, a held lock, a proved inequality, a resolved call path); keyed by rule+construct (function, object, ordinal), never by line",
		"samples":                    samples,
		"explanation":                explanation,
		"checker_cmd":                strings.Join(os.Args, " "),
		"trusted_base":               trusted,
		"rules":                      r.RuleDoc,
		"per_rule":                   perRule,
		"floors":                     r.Floors,
		"all_obligations":            r.Obs,
		"listed_not_armed":           r.Listed,
		"notes":                      r.Notes,
		"functions_analysed":         fns,
		"packages_loaded":            pkgs,
		"function_bodies_in_program": nfn,
		"known_findings_reported":    knownHit,
		"exhaustive":                 false,
	}
	for k, v := range r.Tables {
		cov[k] = v
	}
	for k, v := range extra {
		cov[k] = v
	}
	ev := map[string]interface{}{
		"property_id": r.Property,
		"tier":        tier,
		"seed":        seed,
		"level":       level,
		"coverage":    cov,
		"assumptions": assumptions,
		"wall_s":      time.Since(t0).Seconds(),
		"violations":  out.Violations,
	}
	b, err := json.MarshalIndent(ev, "", " ")
	if err != nil {
		infra("evidence: %v", err)
	}
	os.MkdirAll(evDir, 0o755)
	if err := os.WriteFile(evidencePath, b, 0o644); err != nil {
		infra("evidence: %v", err)
	}
	return out
}

// importRules runs another property's rules on a scratch report and adopts the obligations (and floors) of the
// named rules under this property's own rule id. Used where two properties share a necessary condition: the
// construct is analysed once, each property's evidence names it under its own rule.
func importRules(c *Ctx, r *Report, from string, rules []string, as string, minAdopted ...int) {
	var spec *PropSpec
	if len(c.importing) > 0 {
		return // a property that is itself being run for adoption does not adopt in turn
	}
	spec = registry[from]
	if spec == nil {
		infra("importRules: unknown property %s", from)
	}
	key := from
	if c.imported == nil {
		c.imported = map[string]*Report{}
	}
	sub := c.imported[key]
	if sub == nil {
		if c.importing == nil {
			c.importing = map[string]bool{}
		}
		if c.importing[key] || r.Property == from {
			infra("importRules: cyclic adoption of %s rules", from)
		}
		c.importing[key] = true
		defer delete(c.importing, key)
		sub = NewReport(r.P, from)
		func() {
			defer func() {
				if e := recover(); e != nil {
					if ie, ok := e.(infraError); ok {
						panic(ie)
					}
					panic(e)
				}
			}()
			spec.Run(c, sub)
		}()
		c.imported[key] = sub
	}
	want := map[string]bool{}
	for _, x := range rules {
		want[x] = true
	}
	n := 0
	for _, ob := range sub.Obs {
		if want[ob.Rule] {
			ob.Rule = as
			r.Obs = append(r.Obs, ob)
			n++
		}
	}
	for _, f := range sub.Floors {
		if want[f.Rule] {
			f.Rule = as
			r.Floors = append(r.Floors, f)
		}
	}
	min := 1
	if len(minAdopted) > 0 {
		min = minAdopted[0]
	}
	if min > 0 {
		r.Floor(as, "obligations adopted from "+from+" "+fmt.Sprint(rules), n, min)
	}
}
