package main

// forward.go — option forwarding. A loader or constructor that rebuilds an options struct for the next layer must
// carry over the settings the properties depend on (the codec, the access controller, the comparator, the limit,
// the timeout); a field that is dropped or taken from the wrong place silently becomes the next layer's default.
// The table of (function, sink, field, source) was read off the pinned tree and is frozen here; the rule resolves
// the struct being built through SSA backward slices (also when a helper builds it), so it is not tied to where
// the literal is written.

import (
	"fmt"
	"go/ast"
	"go/token"
	"go/types"
	"sort"
	"strings"

	"golang.org/x/tools/go/ssa"
)

type fwdField struct {
	field string // field of the struct handed to the sink
	src   string // "same" (same-named field of another options value), "field:X", "iotype" (any value of the codec interface type that is not freshly defaulted)
}

type fwdSpec struct {
	pkg, recv, fn string
	sink          []string // callee names
	arg           int      // index among call arguments (receiver excluded for functions)
	structPkg     string
	structName    string
	fields        []fwdField
	ifaceArg      int // when >= 0: index of a codec-typed argument of the sink that must come from an IO field/parameter
}

// isCodecType: the named interface type iface.IO.
func isCodecType(t types.Type) bool {
	n := namedOf(t)
	return n != nil && n.Obj().Name() == "IO" && n.Obj().Pkg() != nil && strings.HasSuffix(n.Obj().Pkg().Path(), "/iface")
}

// structBases: the struct objects (by pointer identity) that v can denote: allocations, what first-party helpers
// return, phi merges. The contents of the struct's fields are not followed.
func structBases(v ssa.Value, st *types.Named) map[ssa.Value]bool {
	out := map[ssa.Value]bool{}
	seen := map[ssa.Value]bool{}
	var walk func(x ssa.Value, depth int)
	walk = func(x ssa.Value, depth int) {
		if x == nil || seen[x] || depth > 8 {
			return
		}
		seen[x] = true
		if pt, ok := x.Type().Underlying().(*types.Pointer); ok && namedOf(pt.Elem()) == st {
			out[x] = true
		}
		switch y := x.(type) {
		case *ssa.Phi:
			for _, e := range y.Edges {
				walk(e, depth+1)
			}
		case *ssa.ChangeType:
			walk(y.X, depth+1)
		case *ssa.MakeInterface:
			walk(y.X, depth+1)
		case *ssa.UnOp:
			if y.Op == token.MUL {
				if a, ok := y.X.(*ssa.Alloc); ok {
					for _, s := range cellStores(a) {
						walk(s.Val, depth+1)
					}
				}
			}
		case *ssa.Call:
			if cal := y.Call.StaticCallee(); cal != nil && len(cal.Blocks) > 0 {
				for _, b := range cal.Blocks {
					if ret, ok := b.Instrs[len(b.Instrs)-1].(*ssa.Return); ok {
						for _, rv := range ret.Results {
							walk(rv, depth+1)
						}
					}
				}
			}
		}
	}
	walk(v, 0)
	return out
}

// storesToBases: field stores whose base object is one of the bases, in every function a base lives in (and fn).
func storesToBases(fn *ssa.Function, bases map[ssa.Value]bool) map[string][]*ssa.Store {
	fns := map[*ssa.Function]bool{fn: true}
	for b := range bases {
		if ins, ok := b.(ssa.Instruction); ok && ins.Parent() != nil {
			fns[ins.Parent()] = true
		}
		if p, ok := b.(*ssa.Parameter); ok && p.Parent() != nil {
			fns[p.Parent()] = true
		}
	}
	out := map[string][]*ssa.Store{}
	for f := range fns {
		allInstrs(f, false, func(ins ssa.Instruction) {
			st, ok := ins.(*ssa.Store)
			if !ok {
				return
			}
			fv, fa := fieldOf(st.Addr)
			if fv == nil || !bases[fa.X] {
				return
			}
			out[fv.Name()] = append(out[fv.Name()], st)
		})
	}
	return out
}

// sliceLoadsField: v derives from a load of the named field of another options value whose struct type has the
// given name (options of one layer are carried over from the caller's options of the same kind).
func sliceLoadsField(v ssa.Value, field string, notBases map[ssa.Value]bool, structName string) bool {
	return sliceLoadsFieldDepth(v, field, notBases, structName, 0)
}

func sliceLoadsFieldDepth(v ssa.Value, field string, notBases map[ssa.Value]bool, structName string, depth int) bool {
	for x := range backSlice(v, nil) {
		if u, ok := x.(*ssa.UnOp); ok && u.Op == token.MUL {
			if f, fa := fieldOf(u.X); f != nil && f.Name() == field && !notBases[fa.X] {
				if n := namedOf(fa.X.Type()); n != nil && n.Obj().Name() == structName {
					if carriesCallersField(fa.X, n, field, notBases, structName, depth) {
						return true
					}
				}
			}
		}
	}
	return false
}

// carriesCallersField: the options value a field is read from is the caller's on every path — each object it can
// denote is a parameter, or a struct built here whose same field was itself filled from the caller's (a private
// copy that keeps the setting), or an empty default made where the caller passed nil. A copy that leaves the
// field out makes the read yield the zero value: the setting is dropped although the read is still there.
func carriesCallersField(obj ssa.Value, st *types.Named, field string, notBases map[ssa.Value]bool, structName string, depth int) bool {
	bases := structBases(obj, st)
	if len(bases) == 0 {
		return true // not resolvable to objects (a field of another struct, a call result): as before
	}
	for b := range bases {
		switch y := b.(type) {
		case *ssa.Parameter:
			continue
		case *ssa.Alloc:
			if depth >= 2 {
				return false
			}
			var stores []*ssa.Store
			if fn := y.Parent(); fn != nil {
				allInstrs(fn, false, func(ins ssa.Instruction) {
					if s, ok := ins.(*ssa.Store); ok {
						if fv, fa := fieldOf(s.Addr); fv != nil && fv.Name() == field && fa.X == ssa.Value(y) {
							stores = append(stores, s)
						}
					}
				})
			}
			if len(stores) == 0 {
				// a default for a nil option value is not a copy
				underNil := false
				for _, blk := range y.Parent().Blocks {
					if len(blk.Instrs) == 0 {
						continue
					}
					iff, ok := blk.Instrs[len(blk.Instrs)-1].(*ssa.If)
					if !ok {
						continue
					}
					be, ok := iff.Cond.(*ssa.BinOp)
					if !ok || (be.Op != token.EQL && be.Op != token.NEQ) {
						continue
					}
					// the options value itself is nil (not one of its fields)
					isNilTest := false
					for _, pr := range [][2]ssa.Value{{be.X, be.Y}, {be.Y, be.X}} {
						if k, ok := pr[1].(*ssa.Const); ok && k.IsNil() {
							if pt, ok := pr[0].Type().Underlying().(*types.Pointer); ok && namedOf(pt.Elem()) == st {
								isNilTest = true
							}
						}
					}
					if !isNilTest {
						continue
					}
					side := blk.Succs[0] // the edge on which the value is nil
					if be.Op == token.NEQ {
						side = blk.Succs[1]
					}
					if len(side.Preds) == 1 && side.Dominates(y.Block()) {
						underNil = true
					}
				}
				if !underNil {
					return false
				}
				continue
			}
			for _, s := range stores {
				nb := map[ssa.Value]bool{ssa.Value(y): true}
				for k := range notBases {
					nb[k] = true
				}
				if !sliceLoadsFieldDepth(s.Val, field, nb, structName, depth+1) {
					return false
				}
			}
		default:
			// a call result, a load from elsewhere: not decided here
		}
	}
	return true
}

func sliceHasCodecSource(v ssa.Value, notBases map[ssa.Value]bool) bool {
	for x := range backSlice(v, nil) {
		switch y := x.(type) {
		case *ssa.Parameter:
			if isCodecType(y.Type()) {
				return true
			}
		case *ssa.UnOp:
			if y.Op == token.MUL {
				if f, fa := fieldOf(y.X); f != nil && (f.Name() == "IO" || f.Name() == "io") && !notBases[fa.X] {
					return true
				}
			}
		}
	}
	return false
}

func optionForwarding(c *Ctx, r *Report, rule string, specs []fwdSpec, only ...string) {
	want := map[string]bool{}
	for _, o := range only {
		want[o] = true
	}
	p := c.P
	n := 0
	for _, sp := range specs {
		fn := p.FuncI(sp.pkg, sp.recv, sp.fn)
		sf := p.SSAFunc(fn)
		st := p.Named(sp.structPkg, sp.structName)
		var sinkCall *ssa.Call
		allInstrs(sf, true, func(ins ssa.Instruction) {
			if call, ok := ins.(*ssa.Call); ok {
				if f := calleeOf(call); f != nil {
					for _, s := range sp.sink {
						if f.Name() == s {
							sinkCall = call
						}
					}
				}
			}
		})
		if sinkCall == nil {
			r.Violate(rule, r.Key(rule, fn, "forward", strings.Join(sp.sink, "/")), fn.Body.Pos(), fmt.Sprintf("%s no longer calls %s", sp.fn, strings.Join(sp.sink, "/")))
			continue
		}
		if sp.ifaceArg >= 0 && sp.ifaceArg < len(sinkCall.Call.Args) && (len(want) == 0 || want["IO"]) {
			n++
			a := sinkCall.Call.Args[sp.ifaceArg]
			r.Check(isCodecType(a.Type()) && sliceHasCodecSource(a, nil), rule, r.Key(rule, fn, "forward-codec-arg", calleeOf(sinkCall).Name()), sinkCall.Pos(),
				"the codec handed on is the configured one",
				fmt.Sprintf("%s does not hand the configured codec (an IO option/parameter) to %s: entries are then read or written with the default codec — link-encrypted logs lose their links, encrypted writers start writing links in clear", sp.fn, calleeOf(sinkCall).Name()))
		}
		if sp.arg < 0 || sp.arg >= len(sinkCall.Call.Args) {
			continue
		}
		bases := structBases(sinkCall.Call.Args[sp.arg], st)
		stores := storesToBases(sf, bases)
		for _, ff := range sp.fields {
			if len(want) > 0 && !want[ff.field] {
				continue
			}
			n++
			key := r.Key(rule, fn, "forward", sp.structName+"."+ff.field)
			ss := stores[ff.field]
			if len(ss) == 0 && ff.src == "same" && copiedFromCallersStruct(sf, bases, st) {
				r.Hold(rule, key, sinkCall.Pos(), true, sp.structName+"."+ff.field+" is carried by a copy of the caller's whole options value")
				continue
			}
			if len(ss) == 0 {
				// the caller's own options value is handed on as it is: every field travels with it
				own := len(bases) > 0
				for b := range bases {
					if paramBehind(b) == nil {
						own = false
					}
				}
				if own {
					r.Hold(rule, key, sinkCall.Pos(), true, sp.structName+"."+ff.field+" travels with the caller's own options value, which is handed on as it is")
					continue
				}
				r.Violate(rule, key, sinkCall.Pos(), fmt.Sprintf("%s builds the %s for %s without setting %s: the next layer falls back to its default (%s)", sp.fn, sp.structName, calleeOf(sinkCall).Name(), ff.field, fwdConsequence(ff.field)))
				continue
			}
			ok := true
			for _, s := range ss {
				// completing the caller's own options value with a default where the field is unset is not a
				// replacement of the caller's setting
				if _, fa := fieldOf(s.Addr); fa != nil && paramBehind(fa.X) != nil {
					unset := false
					for _, cnd := range controlConds(s.Block()) {
						for x := range backSlice(cnd, nil) {
							if u, isLoad := x.(*ssa.UnOp); isLoad && u.Op == token.MUL {
								if f2, fa2 := fieldOf(u.X); f2 != nil && f2.Name() == ff.field && paramBehind(fa2.X) == paramBehind(fa.X) {
									unset = true
								}
							}
						}
					}
					if unset {
						continue
					}
				}
				switch {
				case ff.src == "same":
					ok = ok && sliceLoadsField(s.Val, ff.field, bases, sp.structName)
					if ar := arithmeticOnField(s.Val, ff.field); ar != nil {
						r.Violate(rule, r.Key(rule, fn, "forward-computed", sp.structName+"."+ff.field), ar.Pos(),
							fmt.Sprintf("%s hands %s.%s on after arithmetic on the caller's value (%s): a value that means something special to the next layer (0 or a negative number: no limit, no timeout) can come out of the computation — %s", sp.fn, sp.structName, ff.field, ar.String(), fwdConsequence(ff.field)))
					}
				case strings.HasPrefix(ff.src, "field:"):
					ok = ok && sliceLoadsField(s.Val, strings.TrimPrefix(ff.src, "field:"), bases, sp.structName)
				case ff.src == "iotype":
					ok = ok && sliceHasCodecSource(s.Val, bases)
				}
			}
			r.Check(ok, rule, key, ss[0].Pos(), sp.structName+"."+ff.field+" is carried over from the caller's options",
				fmt.Sprintf("%s sets %s.%s from something else than the caller's %s option: %s", sp.fn, sp.structName, ff.field, strings.TrimPrefix(ff.src, "field:"), fwdConsequence(ff.field)))
		}
	}
	r.Floor(rule, "forwarded option fields", n, 1)
}

func fwdConsequence(field string) string {
	switch field {
	case "IO", "io":
		return "entries are decoded/encoded with the default codec instead of the configured one"
	case "AccessController":
		return "the reopened log accepts every writer"
	case "SortFn":
		return "the reopened log orders its entries with another comparator than the one configured, so replicas disagree"
	case "Length", "length":
		return "the length limit is ignored or replaced"
	case "Timeout", "timeout":
		return "the fetch is no longer bounded in time"
	case "Concurrency":
		return "the configured fetch concurrency is ignored"
	case "Exclude", "ShouldExclude", "shouldExclude":
		return "entries the caller already has are fetched again / excluded entries are not skipped"
	}
	return "the setting is lost"
}

// the frozen table (pinned tree, confirmed by reading)
func loaderFetchSpecs() []fwdSpec {
	same := func(names ...string) []fwdField {
		var o []fwdField
		for _, n := range names {
			o = append(o, fwdField{n, "same"})
		}
		return o
	}
	return []fwdSpec{
		{"", "", "fromMultihash", []string{"FetchAll", "FetchParallel"}, 3, "iface", "FetchOptions", append(same("Length", "ShouldExclude", "Exclude", "Concurrency", "Timeout"), fwdField{"IO", "iotype"}), -1},
		{"", "", "fromEntryHash", []string{"FetchAll", "FetchParallel"}, 3, "iface", "FetchOptions", append(same("Length", "ShouldExclude", "Exclude", "Concurrency", "Timeout"), fwdField{"IO", "iotype"}), -1},
		{"", "", "fromJSON", []string{"FetchAll", "FetchParallel"}, 3, "iface", "FetchOptions", append(same("Length", "Concurrency", "Timeout"), fwdField{"IO", "iotype"}), -1},
		{"", "", "fromEntry", []string{"FetchAll", "FetchParallel"}, 3, "iface", "FetchOptions", append(same("Exclude", "Concurrency", "Timeout"), fwdField{"Length", "field:Length"}, fwdField{"IO", "iotype"}), -1},
	}
}

func constructorLoaderSpecs() []fwdSpec {
	same := func(names ...string) []fwdField {
		var o []fwdField
		for _, n := range names {
			o = append(o, fwdField{n, "same"})
		}
		return o
	}
	return []fwdSpec{
		{"", "", "NewFromMultihash", []string{"fromMultihash"}, 3, "", "FetchOptions", same("Length", "Exclude", "ShouldExclude", "Timeout", "Concurrency", "SortFn"), 4},
		{"", "", "NewFromEntryHash", []string{"fromEntryHash"}, 3, "", "FetchOptions", same("Length", "Exclude", "ShouldExclude", "Timeout", "Concurrency"), 4},
		{"", "", "NewFromJSON", []string{"fromJSON"}, 3, "iface", "FetchOptions", append(same("Length", "Timeout"), fwdField{"IO", "iotype"}), -1},
		{"", "", "NewFromEntry", []string{"fromEntry"}, 3, "iface", "FetchOptions", append(same("Length", "Exclude", "Timeout", "Concurrency"), fwdField{"IO", "iotype"}), -1},
	}
}

func constructorLogSpecs() []fwdSpec {
	f := []fwdField{{"AccessController", "same"}, {"SortFn", "same"}, {"IO", "iotype"}}
	var out []fwdSpec
	for _, n := range []string{"NewFromMultihash", "NewFromEntryHash", "NewFromJSON", "NewFromEntry"} {
		out = append(out, fwdSpec{"", "", n, []string{"NewLog"}, 2, "", "LogOptions", f, -1})
	}
	return out
}

func fetcherSpecs() []fwdSpec {
	return nil
}

// arithmeticOnField: a value-changing operation (+ - * / % shifts) between a load of the named options field and
// v, found by walking back from v through phis, conversions and local cells only (what is merely tested or
// passed to a call on the way is not a computation of the forwarded value).
func arithmeticOnField(v ssa.Value, field string) *ssa.BinOp {
	seen := map[ssa.Value]bool{}
	var found *ssa.BinOp
	var walk func(x ssa.Value, d int)
	walk = func(x ssa.Value, d int) {
		if x == nil || seen[x] || d > 12 || found != nil {
			return
		}
		seen[x] = true
		switch y := x.(type) {
		case *ssa.Phi:
			for _, e := range y.Edges {
				walk(e, d+1)
			}
		case *ssa.ChangeType:
			walk(y.X, d+1)
		case *ssa.Convert:
			walk(y.X, d+1)
		case *ssa.MakeInterface:
			walk(y.X, d+1)
		case *ssa.UnOp:
			if y.Op == token.MUL {
				if a, ok := y.X.(*ssa.Alloc); ok {
					for _, st := range cellStores(a) {
						walk(st.Val, d+1)
					}
				}
			}
		case *ssa.BinOp:
			switch y.Op {
			case token.ADD, token.SUB, token.MUL, token.QUO, token.REM, token.SHL, token.SHR:
				for z := range backSlice(y, nil) {
					if u, ok := z.(*ssa.UnOp); ok && u.Op == token.MUL {
						if f, _ := fieldOf(u.X); f != nil && f.Name() == field {
							found = y
							return
						}
					}
				}
			}
		}
	}
	walk(v, 0)
	return found
}

// startArgumentsReachLoaders: the constructors hand what the caller asked to start from — the entries, the entry
// hash, the manifest hash — to their loader as given (a copy is fine; a filtered, sorted or re-derived list is
// not: the caller's entries are what a limited load counts and puts back).
func startArgumentsReachLoaders(c *Ctx, r *Report, rule string) {
	p := c.P
	n := 0
	for _, sp := range []struct {
		ctor  string
		param int
		sink  string
		arg   int
	}{{"NewFromEntry", 3, "fromEntry", 2}, {"NewFromEntryHash", 3, "fromEntryHash", 2}, {"NewFromMultihash", 3, "fromMultihash", 2}} {
		fn := p.Func("", "", sp.ctor)
		po := paramObjAny(fn, sp.param)
		var call *ast.CallExpr
		walkNoLit(fn.Body, func(nd ast.Node) bool {
			if cx, ok := nd.(*ast.CallExpr); ok {
				if cf := p.Callee(fn, cx); cf != nil && cf.Name() == sp.sink && p.firstParty(cf.Pkg()) {
					call = cx
				}
			}
			return true
		})
		key := r.Key(rule, fn, "start-argument", sp.sink)
		if call == nil || po == nil || sp.arg >= len(call.Args) {
			r.Violate(rule, key, fn.Body.Pos(), sp.ctor+" no longer calls "+sp.sink+" with its start argument")
			continue
		}
		n++
		arg := ast.Unparen(peelSliceCopy(p, fn, call.Args[sp.arg]))
		if id, ok := arg.(*ast.Ident); ok {
			if d := p.SoleDef(fn, p.ObjOf(fn, id)); d != nil && p.ObjOf(fn, id) != po {
				arg = ast.Unparen(peelSliceCopy(p, fn, d))
			}
		}
		ok := false
		switch x := arg.(type) {
		case *ast.CallExpr:
			// hashes := make([]cid.Cid, 1); hashes[0] = hash
			if p.Builtin(fn, x) == "make" && len(x.Args) == 2 {
				if tv, isC := fn.Pkg.TypesInfo.Types[x.Args[1]]; isC && tv.Value != nil && tv.Value.String() == "1" {
					if id, isID := ast.Unparen(call.Args[sp.arg]).(*ast.Ident); isID {
						vo := p.ObjOf(fn, id)
						nst, good := 0, true
						walkNoLit(fn.Body, func(m ast.Node) bool {
							as, isAs := m.(*ast.AssignStmt)
							if !isAs || len(as.Lhs) != len(as.Rhs) {
								return true
							}
							for i, l := range as.Lhs {
								ie, isIx := ast.Unparen(l).(*ast.IndexExpr)
								if !isIx {
									continue
								}
								if bid, isB := ast.Unparen(ie.X).(*ast.Ident); isB && p.ObjOf(fn, bid) == vo {
									nst++
									rid, isR := ast.Unparen(as.Rhs[i]).(*ast.Ident)
									if !isR || p.ObjOf(fn, rid) != po {
										good = false
									}
								}
							}
							return true
						})
						ok = nst == 1 && good
					}
				}
			}
		case *ast.Ident:
			ok = p.ObjOf(fn, x) == po
		case *ast.CompositeLit:
			// []cid.Cid{hash}: exactly the caller's one element
			if len(x.Elts) == 1 {
				if id, isID := ast.Unparen(x.Elts[0]).(*ast.Ident); isID {
					ok = p.ObjOf(fn, id) == po
				}
			}
		}
		r.Check(ok, rule, key, call.Args[sp.arg].Pos(),
			sp.ctor+" hands its start argument to "+sp.sink+" as given",
			fmt.Sprintf("%s hands `%s` to %s instead of the caller's %s itself: what the caller supplied is no longer what the loader counts, fetches from and puts back — a limited load returns fewer entries than were supplied, or other ones", sp.ctor, types.ExprString(call.Args[sp.arg]), sp.sink, po.Name()))
	}
	r.Floor(rule, "constructors handing a start argument to a loader", n, 3)
}

// optionsOnlyCompleted: a function that stores into a field of an options struct its caller handed in may fill in
// a default, never a value computed from that field's own previous content: the caller's struct outlives the
// call, and the next call would wrap, add to or re-derive what the previous one left there.
func optionsOnlyCompleted(c *Ctx, r *Report, rule string) {
	optionsStores(c, r, rule, "self")
}

// optionsHoldNoDerivedData: nor is a field of the caller's options filled with a value computed from ANOTHER field
// of the same struct: the caller who changes the source field for the next call and leaves the derived one alone
// (it never set it) gets the previous call's derivation — heads of other entries.
func optionsHoldNoDerivedData(c *Ctx, r *Report, rule string) {
	optionsStores(c, r, rule, "sibling")
}

func optionsStores(c *Ctx, r *Report, rule string, mode string) {
	p := c.P
	n := 0
	for _, fn := range p.Fns {
		if fn.Orig != nil || fn.Body == nil || fn.Obj == nil || !p.firstParty(fn.Pkg.Types) || strings.HasSuffix(fn.Pkg.PkgPath, "/test") {
			continue
		}
		sf := p.SSAFunc(fn)
		if sf == nil {
			continue
		}
		allInstrs(sf, false, func(ins ssa.Instruction) {
			st, ok := ins.(*ssa.Store)
			if !ok {
				return
			}
			fv, fa := fieldOf(st.Addr)
			if fv == nil {
				return
			}
			par := paramBehind(fa.X)
			if par == nil || par.Parent() != sf {
				return
			}
			nt := namedOf(par.Type())
			if nt == nil || !strings.HasSuffix(nt.Obj().Name(), "Options") {
				return
			}
			n++
			self, sibling := false, ""
			for x := range backSlice(st.Val, nil) {
				if u, ok := x.(*ssa.UnOp); ok && u.Op == token.MUL {
					if f2, fa2 := fieldOf(u.X); f2 != nil && paramBehind(fa2.X) == par {
						if f2 == fv {
							self = true
						} else {
							sibling = f2.Name()
						}
					}
				}
			}
			if mode == "sibling" {
				// re-derived on every call it does not go stale; the harm is a value filled in only while the field
				// is unset, which the next call then takes for given
				onlyWhenUnset := false
				for _, cnd := range controlConds(st.Block()) {
					for x := range backSlice(cnd, nil) {
						if u, ok := x.(*ssa.UnOp); ok && u.Op == token.MUL {
							if f2, fa2 := fieldOf(u.X); f2 == fv && paramBehind(fa2.X) == par {
								onlyWhenUnset = true
							}
						}
					}
				}
				if !onlyWhenUnset {
					sibling = ""
				}
				r.Check(sibling == "", rule, r.Key(rule, fn, "option-derived", nt.Obj().Name()+"."+fv.Name()), st.Pos(),
					"the caller's "+nt.Obj().Name()+"."+fv.Name()+" is not filled with something computed from another of its fields",
					fmt.Sprintf("%s fills the caller's %s.%s, while it is unset, with a value computed from its %s: the struct outlives the call, and a caller who gives other %s next time (and never set %s) gets the value derived for the previous call — a log whose heads belong to other entries", fn.Name, nt.Obj().Name(), fv.Name(), sibling, sibling, fv.Name()))
				return
			}
			r.Check(!self, rule, r.Key(rule, fn, "option-store", nt.Obj().Name()+"."+fv.Name()), st.Pos(),
				"the caller's "+nt.Obj().Name()+"."+fv.Name()+" is completed with a value that does not depend on its previous content",
				fmt.Sprintf("%s stores into the caller's %s.%s a value computed from that field's own content: the struct outlives the call, so a second call with the same options value wraps or re-derives what the first one left there (a remembered answer, a stale list) instead of the caller's setting", fn.Name, nt.Obj().Name(), fv.Name()))
		})
	}
	r.Floor(rule, "stores into a caller's options struct", n, 3)
}

// directFieldLoadBases: the objects from which v is a direct load of the named field — through phis, conversions
// and local cells, not through stores into that field elsewhere.
func directFieldLoadBases(v ssa.Value, field string) map[ssa.Value]bool {
	out := map[ssa.Value]bool{}
	seen := map[ssa.Value]bool{}
	var walk func(x ssa.Value, d int)
	walk = func(x ssa.Value, d int) {
		if x == nil || seen[x] || d > 12 {
			return
		}
		seen[x] = true
		switch y := x.(type) {
		case *ssa.Phi:
			for _, e := range y.Edges {
				walk(e, d+1)
			}
		case *ssa.ChangeType:
			walk(y.X, d+1)
		case *ssa.ChangeInterface:
			walk(y.X, d+1)
		case *ssa.MakeInterface:
			walk(y.X, d+1)
		case *ssa.UnOp:
			if y.Op != token.MUL {
				return
			}
			if a, ok := y.X.(*ssa.Alloc); ok {
				for _, st := range cellStores(a) {
					walk(st.Val, d+1)
				}
				return
			}
			if f, fa := fieldOf(y.X); f != nil && f.Name() == field {
				base := fa.X
				if ph, ok := base.(*ssa.Phi); ok {
					for _, e := range ph.Edges {
						out[e] = true
					}
					return
				}
				out[base] = true
			}
		}
	}
	walk(v, 0)
	return out
}

// loaderCodecIsLogCodec: in every constructor that rebuilds a log from stored blocks, the codec the loader reads
// with and the codec the rebuilt log is given are loaded from the same options value.
func loaderCodecIsLogCodec(c *Ctx, r *Report, rule string) {
	p := c.P
	n := 0
	for _, sp := range []struct {
		ctor, loader string
		ifaceArg     int // index of the codec argument of the loader, or -1 when it travels in the FetchOptions
		optArg       int
	}{{"NewFromMultihash", "fromMultihash", 4, 3}, {"NewFromEntryHash", "fromEntryHash", 4, 3}, {"NewFromJSON", "fromJSON", -1, 3}, {"NewFromEntry", "fromEntry", -1, 3}} {
		fn := p.Func("", "", sp.ctor)
		sf := p.SSAFunc(fn)
		var loaderCall, newLogCall *ssa.Call
		allInstrs(sf, true, func(ins ssa.Instruction) {
			if call, ok := ins.(*ssa.Call); ok {
				if f := calleeOf(call); f != nil {
					switch f.Name() {
					case sp.loader:
						loaderCall = call
					case "NewLog":
						newLogCall = call
					}
				}
			}
		})
		key := r.Key(rule, fn, "read-codec-is-log-codec", "")
		if loaderCall == nil || newLogCall == nil {
			r.Violate(rule, key, fn.Body.Pos(), sp.ctor+" no longer calls "+sp.loader+" and NewLog")
			continue
		}
		codecOf := func(call *ssa.Call, ifaceArg, optArg int, structPkg, structName string) ssa.Value {
			if ifaceArg >= 0 && ifaceArg < len(call.Call.Args) {
				return call.Call.Args[ifaceArg]
			}
			if optArg < len(call.Call.Args) {
				bases := structBases(call.Call.Args[optArg], p.Named(structPkg, structName))
				for _, sts := range storesToBases(sf, bases)["IO"] {
					return sts.Val
				}
			}
			return nil
		}
		vl := codecOf(loaderCall, sp.ifaceArg, sp.optArg, "iface", "FetchOptions")
		vn := codecOf(newLogCall, -1, 2, "", "LogOptions")
		// the caller's own LogOptions handed to NewLog as it is: the log's codec is that value's IO
		var ownLog *ssa.Parameter
		if len(newLogCall.Call.Args) > 2 {
			ownLog = paramBehind(newLogCall.Call.Args[2])
		}
		if vl == nil || (vn == nil && ownLog == nil) {
			r.Undecided(rule, key, loaderCall.Pos(), "the codec handed to the loader or to NewLog could not be located in "+sp.ctor)
			continue
		}
		n++
		// a base that is the parameter of a helper building the options stands for the argument this constructor
		// passes for it
		lift := func(m map[ssa.Value]bool) map[ssa.Value]bool {
			out := map[ssa.Value]bool{}
			for b := range m {
				par, ok := b.(*ssa.Parameter)
				if !ok || par.Parent() == sf {
					out[b] = true
					continue
				}
				idx := -1
				for i, q := range par.Parent().Params {
					if q == par {
						idx = i
					}
				}
				found := false
				allInstrs(sf, true, func(ins ssa.Instruction) {
					if call, ok := ins.(*ssa.Call); ok && call.Call.StaticCallee() == par.Parent() && idx >= 0 && idx < len(call.Call.Args) {
						a := call.Call.Args[idx]
						if ph, ok := a.(*ssa.Phi); ok {
							for _, e := range ph.Edges {
								out[e] = true
							}
						} else {
							out[a] = true
						}
						found = true
					}
				})
				if !found {
					out[b] = true
				}
			}
			return out
		}
		bl := lift(directFieldLoadBases(vl, "IO"))
		var bn map[ssa.Value]bool
		if ownLog != nil {
			bn = map[ssa.Value]bool{ssa.Value(ownLog): true}
		} else {
			bn = lift(directFieldLoadBases(vn, "IO"))
		}
		same := len(bl) > 0 && len(bl) == len(bn)
		for b := range bl {
			if !bn[b] {
				same = false
			}
		}
		name := func(m map[ssa.Value]bool) string {
			var o []string
			for b := range m {
				o = append(o, b.Name())
			}
			sort.Strings(o)
			return strings.Join(o, ",")
		}
		r.Check(same, rule, key, loaderCall.Pos(),
			"the loader reads with the codec the rebuilt log is given ("+name(bn)+".IO)",
			fmt.Sprintf("%s reads the stored blocks with %s.IO but gives the rebuilt log %s.IO: when the two differ (an options value reused from an earlier load keeps the codec it was completed with) the blocks are read with another codec than the log's — sealed links are not opened, the log is rebuilt without its history and reports no error", sp.ctor, name(bl), name(bn)))
	}
	r.Floor(rule, "constructors whose read codec and log codec were compared", n, 4)
}

// paramBehind: the parameter v denotes — itself, or through the φ of `if p == nil { p = &T{} }`.
func paramBehind(v ssa.Value) *ssa.Parameter {
	switch x := v.(type) {
	case *ssa.Parameter:
		return x
	case *ssa.Phi:
		for _, e := range x.Edges {
			if p, ok := e.(*ssa.Parameter); ok {
				return p
			}
		}
	}
	return nil
}

// noCallSpecificLeftovers: options values are reused between calls and between constructors. When one function
// leaves data that is specific to its own call (derived from what it was asked to load, not from configuration)
// in a field of the caller's options value, every function that hands a caller's options value of that type on
// as it is must set that field itself first — otherwise it consumes the other call's leftovers (the heads of the
// previously loaded log).
func noCallSpecificLeftovers(c *Ctx, r *Report, rule string) {
	p := c.P
	isOptions := func(t types.Type) *types.Named {
		pt, ok := t.Underlying().(*types.Pointer)
		if !ok {
			return nil
		}
		nt := namedOf(pt.Elem())
		if nt == nil || !strings.HasSuffix(nt.Obj().Name(), "Options") || !p.firstParty(nt.Obj().Pkg()) {
			return nil
		}
		return nt
	}
	type leftover struct {
		fn    *Fn
		field string
		pos   token.Pos
	}
	left := map[*types.Named][]leftover{}                  // struct type -> call-specific stores into a caller's value
	stored := map[*Fn]map[*ssa.Parameter]map[string]bool{} // fields a function stores into its own options parameter
	type handOn struct {
		fn   *Fn
		par  *ssa.Parameter
		call *ssa.Call
	}
	var hands []handOn
	nst := 0
	for _, fn := range p.Fns {
		if fn.Orig != nil || fn.Body == nil || fn.Obj == nil || !p.firstParty(fn.Pkg.Types) || strings.HasSuffix(fn.Pkg.PkgPath, "/test") {
			continue
		}
		sf := p.SSAFunc(fn)
		if sf == nil {
			continue
		}
		hasOpt := false
		for _, q := range sf.Params {
			if isOptions(q.Type()) != nil {
				hasOpt = true
			}
		}
		if !hasOpt {
			continue
		}
		allInstrs(sf, false, func(ins ssa.Instruction) {
			switch x := ins.(type) {
			case *ssa.Store:
				fv, fa := fieldOf(x.Addr)
				if fv == nil {
					return
				}
				par := paramBehind(fa.X)
				if par == nil || par.Parent() != sf {
					return
				}
				nt := isOptions(par.Type())
				if nt == nil {
					return
				}
				nst++
				if stored[fn] == nil {
					stored[fn] = map[*ssa.Parameter]map[string]bool{}
				}
				if stored[fn][par] == nil {
					stored[fn][par] = map[string]bool{}
				}
				stored[fn][par][fv.Name()] = true
				// call-specific: computed from a parameter that is not an options value (what to load)
				for y := range backSlice(x.Val, nil) {
					if q, ok := y.(*ssa.Parameter); ok && q.Parent() == sf && isOptions(q.Type()) == nil {
						switch q.Type().Underlying().(type) {
						case *types.Interface:
							if isNamed(q.Type(), "context", "Context") || strings.Contains(q.Type().String(), "CoreAPI") {
								continue
							}
						}
						left[nt] = append(left[nt], leftover{fn, fv.Name(), x.Pos()})
						break
					}
				}
			case *ssa.Call:
				cal := x.Call.StaticCallee()
				if cal == nil || cal.Pkg == nil || !p.firstParty(cal.Pkg.Pkg) {
					return
				}
				for _, a := range x.Call.Args {
					if par := paramBehind(a); par != nil && par.Parent() == sf && isOptions(par.Type()) != nil {
						if _, isPar := a.(*ssa.Parameter); isPar || paramBehind(a) != nil {
							hands = append(hands, handOn{fn, par, x})
						}
					}
				}
			}
		})
	}
	nh := 0
	for _, h := range hands {
		nt := isOptions(h.par.Type())
		for _, lo := range left[nt] {
			if lo.fn == h.fn {
				continue
			}
			nh++
			ok := stored[h.fn] != nil && stored[h.fn][h.par] != nil && stored[h.fn][h.par][lo.field]
			r.Check(ok, rule, r.Key(rule, h.fn, "hands-on-leftover", nt.Obj().Name()+"."+lo.field), h.call.Pos(),
				h.fn.Name+" sets "+nt.Obj().Name()+"."+lo.field+" itself before it hands the caller's options value on",
				fmt.Sprintf("%s hands the caller's %s on to %s as it is, without setting %s — which %s fills (at %s) with data of its own call: a caller that uses one options value for both gets a log built with the other call's %s", h.fn.Name, nt.Obj().Name(), h.call.Call.StaticCallee().Name(), lo.field, lo.fn.Name, p.Pos(lo.pos), lo.field))
		}
	}
	r.Floor(rule, "stores into options values handed in by the caller", nst, 3)
	r.Tables["options_handed_on_as_given"] = []string{fmt.Sprintf("%d hand-on sites, %d leftover fields", len(hands), nh)}
}

// copiedFromCallersStruct: every base is a local struct initialised by a whole-struct copy of an options value
// the caller handed in (`o := *opts`), so each field not stored afterwards carries the caller's setting.
func copiedFromCallersStruct(fn *ssa.Function, bases map[ssa.Value]bool, st *types.Named) bool {
	if len(bases) == 0 {
		return false
	}
	for b := range bases {
		a, ok := b.(*ssa.Alloc)
		if !ok {
			return false
		}
		copied := false
		allInstrs(fn, false, func(ins ssa.Instruction) {
			s, ok := ins.(*ssa.Store)
			if !ok || s.Addr != ssa.Value(a) {
				return
			}
			if u, ok := s.Val.(*ssa.UnOp); ok && u.Op == token.MUL && paramBehind(u.X) != nil && namedOf(u.X.Type()) == st {
				copied = true
			}
		})
		if !copied {
			return false
		}
	}
	return true
}
