package main

// forward.go — option forwarding. A loader or constructor that rebuilds an options struct for the next layer must
// carry over the settings the properties depend on (the codec, the access controller, the comparator, the limit,
// the timeout); a field that is dropped or taken from the wrong place silently becomes the next layer's default.
// The table of (function, sink, field, source) was read off the pinned tree and is frozen here; the rule resolves
// the struct being built through SSA backward slices (also when a helper builds it), so it is not tied to where
// the literal is written.

import (
	"fmt"
	"go/token"
	"go/types"
	"strings"

	"golang.org/x/tools/go/ssa"
)

type fwdField struct {
	field string // field of the struct handed to the sink
	src   string // "same" (same-named field of another options value), "field:X", "iotype" (any value of the codec interface type that is not freshly defaulted)
}

type fwdSpec struct {
	pkg, recv, fn string
	sink          []string // callee names
	arg           int      // index among call arguments (receiver excluded for functions)
	structPkg     string
	structName    string
	fields        []fwdField
	ifaceArg      int // when >= 0: index of a codec-typed argument of the sink that must come from an IO field/parameter
}

// isCodecType: the named interface type iface.IO.
func isCodecType(t types.Type) bool {
	n := namedOf(t)
	return n != nil && n.Obj().Name() == "IO" && n.Obj().Pkg() != nil && strings.HasSuffix(n.Obj().Pkg().Path(), "/iface")
}

// structBases: the struct objects (by pointer identity) that v can denote: allocations, what first-party helpers
// return, phi merges. The contents of the struct's fields are not followed.
func structBases(v ssa.Value, st *types.Named) map[ssa.Value]bool {
	out := map[ssa.Value]bool{}
	seen := map[ssa.Value]bool{}
	var walk func(x ssa.Value, depth int)
	walk = func(x ssa.Value, depth int) {
		if x == nil || seen[x] || depth > 8 {
			return
		}
		seen[x] = true
		if pt, ok := x.Type().Underlying().(*types.Pointer); ok && namedOf(pt.Elem()) == st {
			out[x] = true
		}
		switch y := x.(type) {
		case *ssa.Phi:
			for _, e := range y.Edges {
				walk(e, depth+1)
			}
		case *ssa.ChangeType:
			walk(y.X, depth+1)
		case *ssa.MakeInterface:
			walk(y.X, depth+1)
		case *ssa.UnOp:
			if y.Op == token.MUL {
				if a, ok := y.X.(*ssa.Alloc); ok {
					for _, s := range cellStores(a) {
						walk(s.Val, depth+1)
					}
				}
			}
		case *ssa.Call:
			if cal := y.Call.StaticCallee(); cal != nil && len(cal.Blocks) > 0 {
				for _, b := range cal.Blocks {
					if ret, ok := b.Instrs[len(b.Instrs)-1].(*ssa.Return); ok {
						for _, rv := range ret.Results {
							walk(rv, depth+1)
						}
					}
				}
			}
		}
	}
	walk(v, 0)
	return out
}

// storesToBases: field stores whose base object is one of the bases, in every function a base lives in (and fn).
func storesToBases(fn *ssa.Function, bases map[ssa.Value]bool) map[string][]*ssa.Store {
	fns := map[*ssa.Function]bool{fn: true}
	for b := range bases {
		if ins, ok := b.(ssa.Instruction); ok && ins.Parent() != nil {
			fns[ins.Parent()] = true
		}
		if p, ok := b.(*ssa.Parameter); ok && p.Parent() != nil {
			fns[p.Parent()] = true
		}
	}
	out := map[string][]*ssa.Store{}
	for f := range fns {
		allInstrs(f, false, func(ins ssa.Instruction) {
			st, ok := ins.(*ssa.Store)
			if !ok {
				return
			}
			fv, fa := fieldOf(st.Addr)
			if fv == nil || !bases[fa.X] {
				return
			}
			out[fv.Name()] = append(out[fv.Name()], st)
		})
	}
	return out
}

// sliceLoadsField: v derives from a load of the named field of another options value whose struct type has the
// given name (options of one layer are carried over from the caller's options of the same kind).
func sliceLoadsField(v ssa.Value, field string, notBases map[ssa.Value]bool, structName string) bool {
	for x := range backSlice(v, nil) {
		if u, ok := x.(*ssa.UnOp); ok && u.Op == token.MUL {
			if f, fa := fieldOf(u.X); f != nil && f.Name() == field && !notBases[fa.X] {
				if n := namedOf(fa.X.Type()); n != nil && n.Obj().Name() == structName {
					return true
				}
			}
		}
	}
	return false
}

func sliceHasCodecSource(v ssa.Value, notBases map[ssa.Value]bool) bool {
	for x := range backSlice(v, nil) {
		switch y := x.(type) {
		case *ssa.Parameter:
			if isCodecType(y.Type()) {
				return true
			}
		case *ssa.UnOp:
			if y.Op == token.MUL {
				if f, fa := fieldOf(y.X); f != nil && (f.Name() == "IO" || f.Name() == "io") && !notBases[fa.X] {
					return true
				}
			}
		}
	}
	return false
}

func optionForwarding(c *Ctx, r *Report, rule string, specs []fwdSpec, only ...string) {
	want := map[string]bool{}
	for _, o := range only {
		want[o] = true
	}
	p := c.P
	n := 0
	for _, sp := range specs {
		fn := p.FuncI(sp.pkg, sp.recv, sp.fn)
		sf := p.SSAFunc(fn)
		st := p.Named(sp.structPkg, sp.structName)
		var sinkCall *ssa.Call
		allInstrs(sf, true, func(ins ssa.Instruction) {
			if call, ok := ins.(*ssa.Call); ok {
				if f := calleeOf(call); f != nil {
					for _, s := range sp.sink {
						if f.Name() == s {
							sinkCall = call
						}
					}
				}
			}
		})
		if sinkCall == nil {
			r.Violate(rule, r.Key(rule, fn, "forward", strings.Join(sp.sink, "/")), fn.Body.Pos(), fmt.Sprintf("%s no longer calls %s", sp.fn, strings.Join(sp.sink, "/")))
			continue
		}
		if sp.ifaceArg >= 0 && sp.ifaceArg < len(sinkCall.Call.Args) && (len(want) == 0 || want["IO"]) {
			n++
			a := sinkCall.Call.Args[sp.ifaceArg]
			r.Check(isCodecType(a.Type()) && sliceHasCodecSource(a, nil), rule, r.Key(rule, fn, "forward-codec-arg", calleeOf(sinkCall).Name()), sinkCall.Pos(),
				"the codec handed on is the configured one",
				fmt.Sprintf("%s does not hand the configured codec (an IO option/parameter) to %s: entries are then read or written with the default codec — link-encrypted logs lose their links, encrypted writers start writing links in clear", sp.fn, calleeOf(sinkCall).Name()))
		}
		if sp.arg < 0 || sp.arg >= len(sinkCall.Call.Args) {
			continue
		}
		bases := structBases(sinkCall.Call.Args[sp.arg], st)
		stores := storesToBases(sf, bases)
		for _, ff := range sp.fields {
			if len(want) > 0 && !want[ff.field] {
				continue
			}
			n++
			key := r.Key(rule, fn, "forward", sp.structName+"."+ff.field)
			ss := stores[ff.field]
			if len(ss) == 0 {
				r.Violate(rule, key, sinkCall.Pos(), fmt.Sprintf("%s builds the %s for %s without setting %s: the next layer falls back to its default (%s)", sp.fn, sp.structName, calleeOf(sinkCall).Name(), ff.field, fwdConsequence(ff.field)))
				continue
			}
			ok := true
			for _, s := range ss {
				switch {
				case ff.src == "same":
					ok = ok && sliceLoadsField(s.Val, ff.field, bases, sp.structName)
				case strings.HasPrefix(ff.src, "field:"):
					ok = ok && sliceLoadsField(s.Val, strings.TrimPrefix(ff.src, "field:"), bases, sp.structName)
				case ff.src == "iotype":
					ok = ok && sliceHasCodecSource(s.Val, bases)
				}
			}
			r.Check(ok, rule, key, ss[0].Pos(), sp.structName+"."+ff.field+" is carried over from the caller's options",
				fmt.Sprintf("%s sets %s.%s from something else than the caller's %s option: %s", sp.fn, sp.structName, ff.field, strings.TrimPrefix(ff.src, "field:"), fwdConsequence(ff.field)))
		}
	}
	r.Floor(rule, "forwarded option fields", n, 1)
}

func fwdConsequence(field string) string {
	switch field {
	case "IO", "io":
		return "entries are decoded/encoded with the default codec instead of the configured one"
	case "AccessController":
		return "the reopened log accepts every writer"
	case "SortFn":
		return "the reopened log orders its entries with another comparator than the one configured, so replicas disagree"
	case "Length", "length":
		return "the length limit is ignored or replaced"
	case "Timeout", "timeout":
		return "the fetch is no longer bounded in time"
	case "Concurrency":
		return "the configured fetch concurrency is ignored"
	case "Exclude", "ShouldExclude", "shouldExclude":
		return "entries the caller already has are fetched again / excluded entries are not skipped"
	}
	return "the setting is lost"
}

// the frozen table (pinned tree, confirmed by reading)
func loaderFetchSpecs() []fwdSpec {
	same := func(names ...string) []fwdField {
		var o []fwdField
		for _, n := range names {
			o = append(o, fwdField{n, "same"})
		}
		return o
	}
	return []fwdSpec{
		{"", "", "fromMultihash", []string{"FetchAll", "FetchParallel"}, 3, "iface", "FetchOptions", append(same("Length", "ShouldExclude", "Exclude", "Concurrency", "Timeout"), fwdField{"IO", "iotype"}), -1},
		{"", "", "fromEntryHash", []string{"FetchAll", "FetchParallel"}, 3, "iface", "FetchOptions", append(same("Length", "ShouldExclude", "Exclude", "Concurrency", "Timeout"), fwdField{"IO", "iotype"}), -1},
		{"", "", "fromJSON", []string{"FetchAll", "FetchParallel"}, 3, "iface", "FetchOptions", append(same("Length", "Concurrency", "Timeout"), fwdField{"IO", "iotype"}), -1},
		{"", "", "fromEntry", []string{"FetchAll", "FetchParallel"}, 3, "iface", "FetchOptions", append(same("Exclude", "Concurrency", "Timeout"), fwdField{"Length", "field:Length"}, fwdField{"IO", "iotype"}), -1},
	}
}

func constructorLoaderSpecs() []fwdSpec {
	same := func(names ...string) []fwdField {
		var o []fwdField
		for _, n := range names {
			o = append(o, fwdField{n, "same"})
		}
		return o
	}
	return []fwdSpec{
		{"", "", "NewFromMultihash", []string{"fromMultihash"}, 3, "", "FetchOptions", same("Length", "Exclude", "ShouldExclude", "Timeout", "Concurrency", "SortFn"), 4},
		{"", "", "NewFromEntryHash", []string{"fromEntryHash"}, 3, "", "FetchOptions", same("Length", "Exclude", "ShouldExclude", "Timeout", "Concurrency"), 4},
		{"", "", "NewFromJSON", []string{"fromJSON"}, 3, "iface", "FetchOptions", append(same("Length", "Timeout"), fwdField{"IO", "iotype"}), -1},
		{"", "", "NewFromEntry", []string{"fromEntry"}, 3, "iface", "FetchOptions", append(same("Length", "Exclude", "Timeout", "Concurrency"), fwdField{"IO", "iotype"}), -1},
	}
}

func constructorLogSpecs() []fwdSpec {
	f := []fwdField{{"AccessController", "same"}, {"SortFn", "same"}, {"IO", "iotype"}}
	var out []fwdSpec
	for _, n := range []string{"NewFromMultihash", "NewFromEntryHash", "NewFromJSON", "NewFromEntry"} {
		out = append(out, fwdSpec{"", "", n, []string{"NewLog"}, 2, "", "LogOptions", f, -1})
	}
	return out
}

func fetcherSpecs() []fwdSpec {
	return nil
}
