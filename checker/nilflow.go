package main

// nilflow.go — E4: nil-flow rules on go/cfg. Facts "nn|<path>" record that an access path was tested
// non-nil on every path to a point; uses that dereference a nilable path need the fact.

import (
	"go/ast"
	"go/token"
	"go/types"
	"strings"
)

type nilUse struct {
	Fn    *Fn
	Pos   token.Pos
	Path  string // printable
	Key   string
	What  string // how it is dereferenced
	OK    bool
	Field *types.Var
}

type NilEngine struct {
	p  *Prog
	cg *CG
	// Nilable reports whether the expression yields a value that may be nil for reasons outside the
	// function (wire-decoded pointer field, discarded-error result, …) and names the reason.
	NilableField map[*types.Var]string
	derefMemo    map[string]int // fn|param -> 0 unknown 1 yes 2 no
}

func NewNilEngine(p *Prog, cg *CG) *NilEngine {
	return &NilEngine{p: p, cg: cg, NilableField: map[*types.Var]string{}, derefMemo: map[string]int{}}
}

// nilFlow builds the must-flow of non-nil facts for fn. extraSources lets a caller mark variables as nilable.
func (ne *NilEngine) nilFlow(fn *Fn) *Flow {
	p := ne.p
	fl := &Flow{P: p, Fn: fn, Entry: Facts{}}
	fl.Edge = func(cond ast.Expr, taken bool, f Facts) {
		for _, a := range splitCond(cond, taken) {
			if x, isNil, ok := nilTest(a); ok && !isNil {
				if _, key, ok := p.PathKey(fn, x); ok {
					f["nn|"+key] = true
				}
			}
			// x.Defined() true on a pointer/interface implies non-nil for first-party Defined methods that test it
			if call, ok := ast.Unparen(a.E).(*ast.CallExpr); ok && a.Truth {
				if se, ok := ast.Unparen(call.Fun).(*ast.SelectorExpr); ok && se.Sel.Name == "Defined" {
					if _, key, ok := p.PathKey(fn, se.X); ok {
						f["nn|"+key] = true
					}
				}
			}
		}
	}
	fl.Node = func(n ast.Node, f Facts) {
		// assignments kill facts about the assigned path and everything below it; assignment from a
		// composite literal / address-of / new establishes non-nil
		walkNoLit(n, func(nd ast.Node) bool {
			as, ok := nd.(*ast.AssignStmt)
			if !ok {
				return true
			}
			for i, l := range as.Lhs {
				_, key, ok := p.PathKey(fn, l)
				if !ok {
					continue
				}
				for k := range f {
					if strings.HasPrefix(k, "nn|") && (k == "nn|"+key || strings.HasPrefix(k, "nn|"+key+".")) {
						delete(f, k)
					}
				}
				if len(as.Rhs) == len(as.Lhs) && definitelyNonNil(ast.Unparen(as.Rhs[i])) {
					f["nn|"+key] = true
				}
			}
			return true
		})
	}
	fl.Run()
	return fl
}

func definitelyNonNil(e ast.Expr) bool {
	switch x := e.(type) {
	case *ast.UnaryExpr:
		return x.Op == token.AND
	case *ast.CompositeLit:
		return true
	case *ast.CallExpr:
		if id, ok := x.Fun.(*ast.Ident); ok && (id.Name == "new" || id.Name == "make") {
			return true
		}
	}
	return false
}

// derefsParam: does fn dereference (field access, *p, or a dereferencing method/callee) the given parameter
// or receiver on some path before testing it non-nil?
func (ne *NilEngine) derefsParam(fn *Fn, param types.Object, depth int) bool {
	if fn == nil || param == nil {
		return false
	}
	mk := fn.Name + "|" + param.Name()
	switch ne.derefMemo[mk] {
	case 1:
		return true
	case 2:
		return false
	}
	if depth > 4 {
		return false
	}
	ne.derefMemo[mk] = 2 // assume no while computing (recursion)
	res := false
	pkey := ne.p.ID(param)
	fl := ne.nilFlow(fn)
	fl.Visit(func(_ *cfgBlk, n ast.Node, before Facts) {
		if res {
			return
		}
		for _, u := range ne.derefsOf(fn, n, func(e ast.Expr) (string, bool) {
			if id, ok := ast.Unparen(e).(*ast.Ident); ok && ne.p.ObjOf(fn, id) == param {
				return pkey, true
			}
			return "", false
		}, depth) {
			if !before["nn|"+u.Key] {
				res = true
			}
		}
	})
	if res {
		ne.derefMemo[mk] = 1
	}
	return res
}

// derefsOf lists the dereferences, inside node n, of expressions selected by isSrc (which returns the path key).
func (ne *NilEngine) derefsOf(fn *Fn, n ast.Node, isSrc func(ast.Expr) (string, bool), depth int) []nilUse {
	p := ne.p
	var out []nilUse
	walkNoLit(n, func(nd ast.Node) bool {
		switch x := nd.(type) {
		case *ast.StarExpr:
			if key, ok := isSrc(x.X); ok {
				out = append(out, nilUse{Fn: fn, Pos: x.Pos(), Path: types.ExprString(x.X), Key: key, What: "explicit dereference *" + types.ExprString(x.X)})
			}
		case *ast.SelectorExpr:
			key, ok := isSrc(x.X)
			if !ok {
				return true
			}
			sel := fn.Pkg.TypesInfo.Selections[x]
			if sel == nil {
				return true
			}
			if sel.Kind() == types.FieldVal {
				// field access through a pointer dereferences it
				if _, isPtr := p.TypeOf(fn, x.X).Underlying().(*types.Pointer); isPtr {
					out = append(out, nilUse{Fn: fn, Pos: x.Pos(), Path: types.ExprString(x.X), Key: key, What: "field access ." + x.Sel.Name})
				}
				return true
			}
			// method value / call
			recvT := p.TypeOf(fn, x.X)
			if types.IsInterface(recvT) {
				out = append(out, nilUse{Fn: fn, Pos: x.Pos(), Path: types.ExprString(x.X), Key: key, What: "method call ." + x.Sel.Name + " on an interface value"})
				return true
			}
			if m, ok := sel.Obj().(*types.Func); ok {
				callee := p.ByObj[m.Origin()]
				if callee != nil && callee.Decl != nil && callee.Decl.Recv != nil && len(callee.Decl.Recv.List) == 1 && len(callee.Decl.Recv.List[0].Names) == 1 {
					ro := callee.Pkg.TypesInfo.Defs[callee.Decl.Recv.List[0].Names[0]]
					_, ptrRecv := m.Type().(*types.Signature).Recv().Type().(*types.Pointer)
					if ptrRecv && ne.derefsParam(callee, ro, depth+1) {
						out = append(out, nilUse{Fn: fn, Pos: x.Pos(), Path: types.ExprString(x.X), Key: key, What: "method " + callee.Name + " dereferences its receiver before any nil test"})
					} else if _, isPtr := recvT.Underlying().(*types.Pointer); !ptrRecv && isPtr {
						out = append(out, nilUse{Fn: fn, Pos: x.Pos(), Path: types.ExprString(x.X), Key: key, What: "value-receiver method " + callee.Name + " called through a pointer"})
					}
				} else if callee == nil {
					// third-party method on a pointer: assume it dereferences
					out = append(out, nilUse{Fn: fn, Pos: x.Pos(), Path: types.ExprString(x.X), Key: key, What: "third-party method ." + x.Sel.Name})
				}
			}
		case *ast.CallExpr:
			for i, a := range x.Args {
				key, ok := isSrc(a)
				if !ok {
					continue
				}
				for _, cs := range ne.cg.Sites(fn) {
					if cs.Call != x {
						continue
					}
					for _, t := range cs.Targets {
						if po := paramObjAny(t, i); po != nil && ne.derefsParam(t, po, depth+1) {
							out = append(out, nilUse{Fn: fn, Pos: a.Pos(), Path: types.ExprString(a), Key: key, What: "passed to " + t.Name + " which dereferences it before any nil test"})
						}
					}
				}
			}
		}
		return true
	})
	return out
}

func paramObjAny(fn *Fn, i int) types.Object {
	if fn.Type == nil || fn.Type.Params == nil {
		return nil
	}
	k := 0
	for _, f := range fn.Type.Params.List {
		if len(f.Names) == 0 {
			k++
			continue
		}
		for _, n := range f.Names {
			if k == i {
				return fn.Pkg.TypesInfo.Defs[n]
			}
			k++
		}
	}
	return nil
}

// FieldUses: dereferencing uses of nilable struct fields in fn, each with its guard status.
func (ne *NilEngine) FieldUses(fn *Fn) []nilUse {
	p := ne.p
	fl := ne.nilFlow(fn)
	var out []nilUse
	fl.Visit(func(_ *cfgBlk, n ast.Node, before Facts) {
		var fieldOfUse *types.Var
		uses := ne.derefsOf(fn, n, func(e ast.Expr) (string, bool) {
			v, _ := p.FieldSel(fn, e)
			if v == nil || ne.NilableField[v] == "" {
				return "", false
			}
			_, key, ok := p.PathKey(fn, e)
			if !ok {
				return "?" + types.ExprString(e), true
			}
			fieldOfUse = v
			return key, true
		}, 0)
		for _, u := range uses {
			u.OK = before["nn|"+u.Key]
			u.Field = fieldOfUse
			out = append(out, u)
		}
	})
	return out
}

// ZeroVarUses: local variables of interface type declared without an initial value (nil) and used as a
// method receiver or passed to a dereferencing callee where they are not assigned on every path.
func (ne *NilEngine) ZeroVarUses(fn *Fn) []nilUse {
	p := ne.p
	zero := map[types.Object]bool{}
	walkNoLit(fn.Body, func(n ast.Node) bool {
		if vs, ok := n.(*ast.ValueSpec); ok && len(vs.Values) == 0 {
			for _, nm := range vs.Names {
				if o := p.ObjOf(fn, nm); o != nil && types.IsInterface(o.Type()) && !isErrorType(o.Type()) {
					zero[o] = true
				}
			}
		}
		return true
	})
	if len(zero) == 0 {
		return nil
	}
	fl := &Flow{P: p, Fn: fn, Entry: Facts{}}
	fl.Node = func(n ast.Node, f Facts) {
		for _, id := range assignedIdents(n) {
			if o := p.ObjOf(fn, id); zero[o] {
				if _, isSpec := n.(*ast.ValueSpec); isSpec {
					continue
				}
				f["nn|"+p.ID(o)] = true
			}
		}
	}
	fl.Edge = func(cond ast.Expr, taken bool, f Facts) {
		for _, a := range splitCond(cond, taken) {
			if x, isNil, ok := nilTest(a); ok && !isNil {
				if id, ok := ast.Unparen(x).(*ast.Ident); ok && zero[p.ObjOf(fn, id)] {
					f["nn|"+p.ID(p.ObjOf(fn, id))] = true
				}
			}
		}
	}
	fl.Run()
	var out []nilUse
	fl.Visit(func(_ *cfgBlk, n ast.Node, before Facts) {
		if _, isSpec := n.(*ast.ValueSpec); isSpec {
			return
		}
		for _, u := range ne.derefsOf(fn, n, func(e ast.Expr) (string, bool) {
			if id, ok := ast.Unparen(e).(*ast.Ident); ok && zero[p.ObjOf(fn, id)] {
				return p.ID(p.ObjOf(fn, id)), true
			}
			return "", false
		}, 0) {
			u.OK = before["nn|"+u.Key]
			out = append(out, u)
		}
	})
	return out
}

// nilControls: E4 must fire on exactly the Bad* control functions.
func nilControls(c *Ctx, r *Report, rule string) {
	if c.Ctl == nil {
		return
	}
	p := c.Ctl
	ne := NewNilEngine(p, c.CtlG)
	we := p.Named("", "WireEntry").Underlying().(*types.Struct)
	for i := 0; i < we.NumFields(); i++ {
		ne.NilableField[we.Field(i)] = "control"
	}
	got := map[string]bool{}
	for _, name := range []string{"GoodGuarded", "BadUnguarded", "BadStar", "BadZeroIface", "GoodZeroIface"} {
		fn := p.Func("", "", name)
		for _, u := range ne.FieldUses(fn) {
			if !u.OK {
				got[name] = true
			}
		}
		for _, u := range ne.ZeroVarUses(fn) {
			if !u.OK {
				got[name] = true
			}
		}
	}
	want := map[string]bool{"BadUnguarded": true, "BadStar": true, "BadZeroIface": true}
	var diff []string
	for k := range want {
		if !got[k] {
			diff = append(diff, "missed "+k)
		}
	}
	for k := range got {
		if !want[k] {
			diff = append(diff, "spurious "+k)
		}
	}
	r.Check(len(diff) == 0, rule, r.Key(rule, nil, "engine-control", "E4-nilflow"), token.NoPos,
		"nil-flow engine fired on exactly the 3 violating control functions", "nil-flow control mismatch (checker defect): "+strings.Join(diff, ", "))
}

// freshNonNil: the expression is a freshly allocated, non-nil value — an address-of, a composite literal,
// new/make, or a call of a first-party function every return of which hands back such a value.
func (p *Prog) freshNonNil(fn *Fn, e ast.Expr, depth int) bool {
	e = ast.Unparen(e)
	if definitelyNonNil(e) {
		return true
	}
	call, ok := e.(*ast.CallExpr)
	if !ok || depth > 3 {
		return false
	}
	cf := p.Callee(fn, call)
	if cf == nil || !p.firstParty(cf.Pkg()) {
		return false
	}
	h := p.ByObj[cf]
	if h == nil || h.Body == nil {
		return false
	}
	nret, all := 0, true
	walkNoLit(h.Body, func(n ast.Node) bool {
		if ret, ok := n.(*ast.ReturnStmt); ok {
			nret++
			if len(ret.Results) != 1 || !p.freshNonNil(h, ret.Results[0], depth+1) {
				all = false
			}
		}
		return true
	})
	return nret > 0 && all
}
